INIT Init
NEXT Next
CONSTANTS
  MaxOwn = 2
  MaxScen = 2
  TwoFeat = TRUE
  EmitMod = 41
INVARIANT ClausesHold
INVARIANT RepairedHolds
INVARIANT KFNarrow
INVARIANT KFBgReal
INVARIANT Emit
