"""C12 -- decided on the shared run stage (Run.tla + Props_Run.tla clauses C12.*); see props/runprops.py and DESIGN.md §7."""
from props import runprops


def run(chk):
    runprops.apply_shared(chk, ["C12."])


def replay(chk, payload):
    runprops.replay_case(chk, payload, ["C12."])
