"""Projection of the model returned by the real parser to the flat element table of specs/GherkinParser.tla.

Only public attributes are read (keyword, name, line, tags, description, steps, step_type, text, table, examples,
background, run_items, language).  Texts are mapped back to the payload ids the renderer used (UNKNOWN if the
text is not one the renderer wrote).  No comparison happens here."""
UNKNOWN = 999999


def elem(k, line, par, name, kw, tags):
    return {"k": k, "line": int(line or 0), "par": par, "name": name, "kw": kw, "tags": tags, "desc": [], "st": "", "lg": 0,
            "hasdoc": False, "docline": 0, "doc": [], "hastab": False, "rows": []}


class Projector(object):
    def __init__(self, ids, lang, langs=()):
        self.ids = ids              # text -> payload id
        self.lang = lang            # render.Lang of the document
        self.langs = list(langs)    # [l1, l2] names: feature.language -> 1 / 2 (the later one wins)
        self.out = []

    def tid(self, text):
        return self.ids.get(text, UNKNOWN)

    def tags(self, tags):
        return [{"t": self.tid(u"%s" % t), "l": int(getattr(t, "line", 0) or 0)} for t in tags]

    def add(self, e):
        self.out.append(e)
        return len(self.out)

    def table(self, e, table):
        if table is None:
            return
        e["hastab"] = True
        e["rows"] = [{"l": int(table.line or 0), "cells": [self.tid(c) for c in table.headings]}]
        for row in table.rows:
            e["rows"].append({"l": int(row.line or 0), "cells": [self.tid(c) for c in row.cells]})

    def steps(self, steps, par):
        for s in steps:
            e = elem("step", s.line, par, self.tid(s.name), self.lang.alias_id(s.keyword), [])
            e["st"] = u"%s" % s.step_type
            if s.text is not None:
                e["hasdoc"] = True
                e["docline"] = int(getattr(s.text, "line", 0) or 0)
                txt = u"%s" % s.text
                if txt != u"":
                    for ln in txt.split(u"\n"):
                        body = ln.lstrip(u" ")
                        e["doc"].append({"p": self.tid(body), "ri": len(ln) - len(body)})
            self.table(e, s.table)
            self.add(e)

    def statement(self, st, par):
        from behave import model
        kind = "outline" if isinstance(st, model.ScenarioOutline) else "scenario"
        e = elem(kind, st.line, par, self.tid(st.name), self.lang.alias_id(st.keyword), self.tags(st.tags))
        e["desc"] = [self.tid(x) for x in st.description]
        me = self.add(e)
        self.steps(st.steps, me)
        if kind == "outline":
            for ex in st.examples:
                x = elem("examples", ex.line, me, self.tid(ex.name), self.lang.alias_id(ex.keyword), self.tags(ex.tags))
                self.table(x, ex.table)
                self.add(x)

    def background(self, bg, par):
        e = elem("background", bg.line, par, self.tid(bg.name), self.lang.alias_id(bg.keyword), [])
        e["desc"] = [self.tid(x) for x in bg.description]
        me = self.add(e)
        self.steps(bg.steps, me)

    def container_items(self, cont, me):
        from behave import model
        for item in cont.run_items:
            if isinstance(item, model.Rule):
                self.rule(item, me)
            else:
                self.statement(item, me)

    def rule(self, rule, par):
        e = elem("rule", rule.line, par, self.tid(rule.name), self.lang.alias_id(rule.keyword), self.tags(rule.tags))
        e["desc"] = [self.tid(x) for x in rule.description]
        me = self.add(e)
        bg = rule.background
        # a rule of a feature with background gets an automatic Background(rule.filename, rule.line): not written in the file
        if bg is not None and not (bg.line == rule.line and not bg.steps):
            self.background(bg, me)
        self.container_items(rule, me)

    def feature(self, f):
        e = elem("feature", f.line, 0, self.tid(f.name), self.lang.alias_id(f.keyword), self.tags(f.tags))
        e["desc"] = [self.tid(x) for x in f.description]
        lg = 0
        for k, name in enumerate(self.langs):
            if f.language == name:
                lg = k + 1
        e["lg"] = lg
        me = self.add(e)
        if f.background is not None:
            self.background(f.background, me)
        self.container_items(f, me)
        return self.out


def project(entry, result, ids, lang, langs=()):
    """-> (ok, elems, tags)"""
    from behave import model
    p = Projector(ids, lang, langs)
    if entry in ("feature", "file"):
        if not isinstance(result, model.Feature):
            return False, [], []
        return True, p.feature(result), []
    if entry == "steps":
        if not isinstance(result, list):
            return False, [], []
        p.add(elem("scenario", 0, 0, 0, 0, []))
        p.steps(result, 1)
        return True, p.out, []
    if entry == "scenario":
        if not isinstance(result, model.Scenario):
            return False, [], []
        p.statement(result, 0)
        return True, p.out, []
    if entry == "rule":
        if not isinstance(result, model.Rule):
            return False, [], []
        p.rule(result, 0)
        return True, p.out, []
    if entry == "tags":
        if not isinstance(result, list):
            return False, [], []
        return True, [], p.tags(result)
    raise ValueError(entry)
