"""C17 -- the rerun file lists exactly the unsuccessful scenarios; fed back it selects them.

(S)+(P) specs/Rerun.tla   (MC) specs/Rerun_MC.tla   judge: specs/Rerun_Trace.tla   plug-in: run/reports_c17.py

1. design level: TLC builds every small model after a run (features / rules / outlines / rows, every assignment of
   final statuses, hook-failed features), drives the formatter automaton transcribed from RerunFormatter, feeds its
   file back through the model of FeatureListParser / parse_features and checks the clauses in every state (the one
   named exception KF_C17_error_class_ignored is the genuine defect of eof()); a deterministic part of the states is
   emitted.
2. "synth" rows: every emitted model is rendered to real feature files, the real model objects get exactly these
   statuses (public set_status / hook_failed; container statuses by the real compute_status) and the REAL
   RerunFormatter is driven with the engine's call-outs onto a planted stale file; the file is fed back through the
   real collect_feature_locations(["@rerun.txt"]) + parse_features() and a second real run.
3. "run" rows: programs of the shared run-cluster plan (multi-file, failing / erroring / undefined / hook errors,
   rows, rules) run by the real ModelRunner with every report writer on (stage.drive_all, plug-in c17).
4. "pair" rows: the same cases run again with a stale rerun file planted at the formatter's output path; the file
   that is left is fed back ("@file" as the only input) and a second real run records which scenarios are entered.
Every second pair row and two of three synth rows are rendered with prog["dupnames"] (all scenarios share one name), so
the feed-back must select by location, never by name; every second multi-feature row with prog["revfiles"] (run order of
the files differs from the alphabetical order of their names; the judge takes the run order from the recorded call-outs).
Every third pair row and every fourth synth row carries @setup / @teardown tags at feature, rule or scenario level (only a
scenario's OWN tags exempt it from skipping), another third / fourth lives in a directory whose name has a colon, blanks,
@, # or a dot-digit suffix (pair: list file and features in it; synth: the relative paths in the rerun file contain it).  All multiprocessing Pools are finished before TLC is started.
A share of the rows with outlines is rendered with prog["hdronly"] (one more Examples table with a heading row only).
The status of a scenario is the one observed on the object that was announced to the formatters during the run
(run/reports_c17.ScenStatusRecorder), the final walk over the model only where nothing was announced.
The second run writes its own rerun file to the same path; the same list-file name is then expanded a third time in the
same process (where the second run left no file: a planted shorter one) and must select what the file says NOW.
Aborted runs (kbd / context.abort() steps, before_all / after_all raising) are an explicit, never thinned part.
TLC (Rerun_Trace) judges all rows: which scenarios are unsuccessful is computed there from the recorded final
statuses.  Python renders, runs, records."""
import io
import json
import logging
import os
import random
import shutil
import sys
import tempfile
from multiprocessing import Pool

from vlib import trace
from run import gen as G, stage, drive
from run.render import Rendered
from run import reports_c17 as RP

WORKERS = int(os.environ.get("VERIF_WORKERS") or 16)
PROCS = int(os.environ.get("VERIF_PROCS") or 14)
PLANTED = "# -- RERUN: 1 failing scenarios during last test run.\nzz_previous.feature:3\n\n"
ERRORISH = ("error", "pending", "undefined", "kbd", "badarg")


# ------------------------------------------------------------------------------------------------ row pieces
def slim_prog(flat):
    return [{"kind": e["kind"], "parent": e["parent"], "children": e["children"], "tags": list(e["tags"])} for e in flat["elems"]]


# legal oddities in the directory part of a feature path: colon, blanks, @, #, dot-digit suffix.  (No leading `#`: such a
# line of a list file is a comment; no glob characters: list files expand them.)
ODD_DIRS = ["rel:2.0", "my features", "team@home", "x#5 smoke", "v2.0", "a:b c@d #e v1.0", "rel:2", os.path.join("rel:2.0", "sub dir")]


def odd_dir(k):
    return ODD_DIRS[(k - 1) % len(ODD_DIRS)] if k else ""


def tagged(prog, v):
    """copy of the program with @setup / @teardown tags: v=1 first feature @setup (inherited: not exempt); v=2 first rule
    (else last feature) @teardown; v=3 every second scenario / outline itself @setup (exempt from skipping);
    v=4 first feature @teardown and the last item of every feature @setup"""
    p = json.loads(json.dumps(prog))
    if not v:
        return p
    if v in (1, 4):
        p["features"][0]["tags"].append("setup" if v == 1 else "teardown")
    if v == 2:
        rules = [it for f in p["features"] for it in f["items"] if it["kind"] == "rule"]
        (rules[0] if rules else p["features"][-1])["tags"].append("teardown")
    if v == 3:
        n = 0
        for f in p["features"]:
            for it in f["items"]:
                for x in (it["items"] if it["kind"] == "rule" else [it]):
                    if n % 2 == 0:
                        x["tags"].append("setup")
                    n += 1
    if v == 4:
        for f in p["features"]:
            last = f["items"][-1]
            (last["items"][-1] if last["kind"] == "rule" else last)["tags"].append("setup")
    return p


def tables(flat, R):
    return ([R.line_of.get(e["id"], 0) for e in flat["elems"]], [e["fidx"] for e in flat["elems"]])


def calls_of(events):
    return [{"name": e["name"], "el": e["el"]} for e in events if e["k"] == "fmt" and e["name"] in ("feature", "eof", "close")]


NO_LOOP = {"done": False, "exc": "", "sel": [], "known": [], "ran2done": False, "ran2": [], "skipped2": [],
           "v2kind": "", "v2": [], "sel3done": False, "exc3": "", "sel3": []}


def make_row(rid, kind, flat, R, dry, ran, status, calls, had_stale, file, loop):
    line, fidx = tables(flat, R)
    return {"id": rid, "kind": kind, "prog": slim_prog(flat), "cfg": {"dry": bool(dry)}, "ran": bool(ran), "status": list(status),
            "line": line, "fidx": fidx, "calls": calls, "had_stale": bool(had_stale),
            "file": {"exists": file["exists"], "stale": file["stale"], "lines": file["lines"]}, "loop": loop}


# ------------------------------------------------------------------------------------------------ feed-back + second run
def feed_back(scratch, R, second_run=True):
    """`behave @rerun.txt` up to the model: the real collect_feature_locations + parse_features on the rerun file in
    `scratch` (next to the feature files of the case), then a second real run on what they return.
    Records: sel = scenarios left to run (should_skip false), known = all scenarios of the returned features,
    ran2 = scenarios whose before_scenario hook was entered, skipped2 = scenarios reported skipped after run 2."""
    from behave.runner_util import collect_feature_locations, parse_features
    from behave.configuration import Configuration
    from behave.runner import ModelRunner
    from behave.step_registry import StepRegistry
    from behave.matchers import ParseMatcher
    from behave.formatter._registry import make_formatters

    loop = dict(NO_LOOP, done=True)
    listfile = os.path.join(scratch, "rerun.txt")
    with open(listfile, encoding="utf-8", errors="replace") as fh:
        text1 = fh.read()
    fidx = {fn: i for i, (fn, _t) in enumerate(R.files)}
    kinds = {e["id"]: e["kind"] for e in R.flat["elems"]}

    def elid(x):
        return R.by_loc.get((fidx.get(os.path.basename(x.filename), -1), x.line), 0)

    saved = (sys.stdout, sys.stderr)
    root = logging.getLogger()
    saved_handlers, saved_level = list(root.handlers), root.level
    sys.stdout, sys.stderr = io.StringIO(), io.StringIO()
    # the second run is started in the directory of the list file (as `behave @rerun.txt` in the project root): the rerun
    # formatter writes paths relative to the working directory, a list file resolves them relative to its own directory
    cwd = os.getcwd()
    os.chdir(scratch)
    try:
        try:
            locations = collect_feature_locations(["@" + listfile])
            feats = parse_features(locations)
        except BaseException as x:                       # noqa -- recorded, judged by C17.loop
            loop["exc"] = type(x).__name__
            return loop
        sel, known = [], []
        for f in feats:
            for s in f.walk_scenarios():
                i = elid(s)
                if not i or kinds.get(i) != "scenario":
                    loop["exc"] = "unmapped scenario %s:%s" % (os.path.basename(s.filename), s.line)
                    return loop
                known.append(i)
                if not s.should_skip:
                    sel.append(i)
        loop["sel"], loop["known"] = sorted(set(sel)), sorted(set(known))
        if not second_run:
            return loop
        entered = []
        try:
            config = Configuration(command_args=["--no-summary", "-f", "null", "-o", os.devnull, "-f", "rerun", "-o", listfile, "--no-capture",
                                                 "--no-capture-stderr", "--no-logcapture"], load_config=False)
            reg = StepRegistry()
            reg.steps["step"].append(ParseMatcher(lambda ctx, org, k: None, "{org:w} {k:d}", "step"))
            runner = ModelRunner(config, feats, step_registry=reg)
            runner.hooks = {"before_scenario": lambda ctx, sc: entered.append(elid(sc))}
            config.base_dir = os.getcwd()
            runner.formatters = make_formatters(config, config.outputs)
            runner.run()
        except BaseException as x:                       # noqa
            loop["exc"] = "run2:" + type(x).__name__
            return loop
        loop["ran2done"] = True
        loop["ran2"] = sorted(set(entered))
        loop["skipped2"] = sorted({elid(s) for f in feats for s in f.walk_scenarios() if s.status.name == "skipped"})
        # third start in the same process, same list-file NAME, changed content: the rerun file the second run wrote
        # (every defined step passed in it, so it is usually shorter); where the second run left none, a planted one --
        # the first file without its last entry.  The selection must follow the content that is there NOW.
        text2 = None
        if os.path.exists(listfile):
            with open(listfile, encoding="utf-8", errors="replace") as fh:
                text2 = fh.read()
            if RP.parse_lines(text2, R):
                loop["v2kind"] = "real"
        if not loop["v2kind"]:
            entries = [l for l in text1.splitlines() if l.strip() and not l.strip().startswith("#")]
            if len(entries) >= 2:
                text2 = "# -- RERUN: planted\n" + "\n".join(entries[:-1]) + "\n"
                with open(listfile, "w", encoding="utf-8") as fh:
                    fh.write(text2)
                loop["v2kind"] = "planted"
        if loop["v2kind"]:
            loop["v2"] = RP.parse_lines(text2, R)
            loop["sel3done"] = True
            try:
                feats3 = parse_features(collect_feature_locations(["@" + listfile]))
                loop["sel3"] = sorted({elid(s) for f in feats3 for s in f.walk_scenarios() if not s.should_skip})
            except BaseException as x:                   # noqa
                loop["exc3"] = type(x).__name__
        return loop
    finally:
        os.chdir(cwd)
        sys.stdout, sys.stderr = saved
        root.handlers = saved_handlers
        root.setLevel(saved_level)


def write_features(scratch, R, names=None):
    for fn, text in R.files:
        path = os.path.join(scratch, (names or {}).get(fn, fn))
        os.makedirs(os.path.dirname(path), exist_ok=True)
        with open(path, "w", encoding="utf-8") as fh:
            fh.write(text)


# ------------------------------------------------------------------------------------------------ "pair" rows
def pair_case(job):
    """run 1 with a stale file planted at the rerun formatter's output -> what is left -> feed-back -> run 2"""
    scratch = tempfile.mkdtemp(prefix="verif-c17-")
    try:
        flat = job["flat"]
        R = Rendered(job["prog"], flat)
        base = os.path.join(scratch, odd_dir(job.get("oddpath", 0)))     # list file and features in an oddly named directory
        write_features(base, R)
        path = os.path.join(base, "rerun.txt")
        with open(path, "w", encoding="utf-8") as fh:
            fh.write(PLANTED)
        case = dict(job, extra_args=["-f", "rerun", "-o", path] + RP.RECORDER_ARGS)
        case.pop("reports", None)
        row = drive.run_case(case)
        end = row["end"]
        status = RP.merged_status(end["status"], RP.seen_status(R))     # of the scenario objects that ran, else of the final walk
        file = RP.read_file(path, R, planted=PLANTED)
        loop = dict(NO_LOOP)
        if file["exists"] and not file["stale"]:
            loop = feed_back(base, R)
        return {"key": job["key"], "row": make_row(0, "pair", flat, R, job["cfg"]["dry"], end["ran"] and not end["escaped"], status,
                                                   calls_of(row["events"]), True, file, loop),
                "raw": file["raw"], "escaped": end["escaped"]}
    except Exception:
        import traceback
        return {"key": job["key"], "driver_error": traceback.format_exc()}
    finally:
        shutil.rmtree(scratch, ignore_errors=True)


# ------------------------------------------------------------------------------------------------ "synth" rows
def synth_prog(sh):
    feats = []
    for its in sh:
        items = []
        for it in its:
            k, n = it["k"], it["n"]
            if k == "s":
                items.append(G.scenario(["pass"]))
            elif k == "r":
                items.append(G.rule([G.scenario(["pass"]) for _ in range(n)]))
            elif k == "o":
                items.append(G.outline([([], [["pass"] for _ in range(n)])]))
            else:
                items.append(G.rule([G.outline([([], [["pass"] for _ in range(n)])])]))
        feats.append(G.feature(items))
    return {"features": feats, "family": "synth"}


def synth_case(job):
    """the real RerunFormatter fed with a model of Rerun_MC: job = {key, case (emitted by TLC), show}"""
    from behave.parser import parse_feature
    from behave.configuration import Configuration
    from behave.formatter.base import StreamOpener
    from behave.formatter.rerun import RerunFormatter
    from behave.model import ScenarioOutline, Scenario
    scratch = tempfile.mkdtemp(prefix="verif-c17-")
    saved = (sys.stdout, sys.stderr)
    sys.stdout, sys.stderr = io.StringIO(), io.StringIO()
    try:
        case, show = job["case"], job["show"]
        prog = synth_prog(case["sh"])
        if job.get("dupnames"):
            prog["dupnames"] = True
        if job.get("revfiles"):
            prog["revfiles"] = True
        prog = tagged(prog, job.get("tagv", 0))
        if job.get("hdronly"):
            prog["hdronly"] = True
        flat = G.flatten(prog)
        if [e["kind"] for e in flat["elems"]] != case["kinds"] or [e["parent"] for e in flat["elems"]] != case["parents"]:
            raise RuntimeError("element table of the emitted shape and of gen.flatten differ")
        R = Rendered(prog, flat)
        # odd relative paths: the first feature file (every file when the index is even) lives in an oddly named directory
        # below the list file, so the rerun file itself names `rel:2.0/f0.feature:3`
        k = job.get("oddpath", 0)
        names = {fn: (os.path.join(odd_dir(k), fn) if k and (n == 0 or k % 2 == 0) else fn) for n, (fn, _t) in enumerate(R.files)}
        write_features(scratch, R, names)
        path = os.path.join(scratch, "rerun.txt")
        with open(path, "w", encoding="utf-8") as fh:
            fh.write(PLANTED)
        feats = [parse_feature(text, filename=names[fn]) for fn, text in R.files]
        fidx = {fn: i for i, (fn, _t) in enumerate(R.files)}
        objs = {}

        def walk(x, parent):
            i = R.by_loc.get((fidx[os.path.basename(x.filename)], x.line), 0)
            if not i or flat["elems"][i - 1]["parent"] != parent:
                raise RuntimeError("the parsed model and the abstract element table differ at %s:%s" % (x.filename, x.line))
            objs[i] = x
            if isinstance(x, ScenarioOutline):
                for s in x.scenarios:
                    walk(s, i)
            elif not isinstance(x, Scenario):
                for r in x.run_items:
                    walk(r, i)
        for f in feats:
            walk(f, 0)
        scen_ids = [e["id"] for e in flat["elems"] if e["kind"] == "scenario"]
        for i, st in zip(scen_ids, case["ss"]):
            objs[i].set_status(st)
        feat_ids = flat["features"]
        if case["hk"]:
            objs[feat_ids[case["hk"] - 1]].hook_failed = True
        pred = case["shown" if show else "hidden"]
        config = Configuration(command_args=[], load_config=False)
        fmt = RerunFormatter(StreamOpener(filename=path), config)
        calls = []
        for fid in feat_ids:
            if pred["ann"][fid - 1]:
                fmt.feature(objs[fid])
                calls.append({"name": "feature", "el": fid})
                fmt.eof()
                calls.append({"name": "eof", "el": 0})
        fmt.close()
        calls.append({"name": "close", "el": 0})
        status = [objs[e["id"]].status.name for e in flat["elems"]]
        file = RP.read_file(path, R, planted=PLANTED)
        loop = dict(NO_LOOP)
        if file["exists"] and not file["stale"]:
            loop = feed_back(scratch, R, second_run=job.get("second_run", True))
        # spec prediction vs observation (informational): statuses by the real roll-up, file, selection
        diffs = []
        if status != case["status"]:
            diffs.append("status spec %s impl %s" % (case["status"], status))
        if file["exists"] != pred["exists"] or [[x["f"], x["l"]] for x in file["lines"]] != \
                [[x["f"], R.line_of[_el_at(case, x)]] for x in pred["lines"]]:
            diffs.append("file spec %s impl %s" % (pred["lines"], file["lines"]))
        if not job.get("tagv") and loop["done"] and not loop["exc"] and loop["sel"] != [i + 1 for i, b in enumerate(pred["sel"]) if b]:
            diffs.append("selection spec %s impl %s" % (pred["sel"], loop["sel"]))
        return {"key": job["key"], "row": make_row(0, "synth", flat, R, False, True, status, calls, True, file, loop),
                "raw": file["raw"], "escaped": "", "diffs": diffs}
    except Exception:
        import traceback
        return {"key": job["key"], "driver_error": traceback.format_exc()}
    finally:
        sys.stdout, sys.stderr = saved
        shutil.rmtree(scratch, ignore_errors=True)


def _el_at(case, x):
    """element id of an abstract location [f, l] of the emitted model"""
    for i, (f, l) in enumerate(zip(case["fidx"], case["line"])):
        if f == x["f"] and l == x["l"]:
            return i + 1
    raise RuntimeError("no element at %s" % x)


# ------------------------------------------------------------------------------------------------ planning
def job_class(job):
    outs = [s["o"] for e in job["flat"]["elems"] for s in e["steps"]]
    return (job["prog"].get("family", ""), "fail" in outs, any(o in ERRORISH for o in outs), len(job["prog"]["features"]) > 1,
            bool(job["fault"][0]), any(o in ("kbd", "abort") for o in outs), 1 in job["fault"])


def thin(jobs, quota, rnd):
    """round robin over the classes (family, has failing step, has erroring/undefined step, several features, hook
    fault, a step that aborts the run (kbd / context.abort()), fault at hook 1 = before_all): rare classes -- several
    features with failures and errors and a hook fault, aborted runs -- are kept first"""
    if len(jobs) <= quota:
        return list(jobs)
    classes = {}
    for j in jobs:
        classes.setdefault(job_class(j), []).append(j)
    order = sorted(classes, key=lambda c: (-(c[1] + c[2] + c[3] + c[4] + c[5] + c[6]), c))
    for c in order:
        rnd.shuffle(classes[c])
    out = []
    k = 0
    while len(out) < quota:
        took = False
        for c in order:
            w = 1 + 2 * (c[1] + c[2] + c[3]) + c[5] + c[6]          # weight: more from the interesting classes per round
            part = classes[c][k * w:(k + 1) * w]
            if part:
                took = True
                out.extend(part)
        if not took:
            break
        k += 1
    return out[:quota]


def plan_jobs(chk, quota):
    rnd = random.Random(chk.seed)
    jobs = []
    for tid, (p, cfgs, faults) in enumerate(stage.plan(chk.tier, chk.seed)):
        flat = G.flatten(p)
        for ci, c in enumerate(cfgs):
            for fi, f in enumerate(faults):
                jobs.append({"key": [tid + 1, ci + 1, fi + 1], "prog": p, "flat": flat, "cfg": c, "fault": f,
                             "fault_kind": "assert" if (tid + ci + fi) % 3 == 0 else "exc"})
    total = len(jobs)
    if total > quota * 6:                    # thorough: class-balanced pre-sample before the round robin
        jobs = rnd.sample(jobs, quota * 6)
    return thin(jobs, quota, rnd), total


def _count_hooks(job):
    """number of hook invocations of the fault-free run of this case (the last one is after_all)"""
    try:
        return drive.run_case(dict(job, fault=[0, 0]))["end"]["nhooks"]
    except Exception:
        import traceback
        return {"driver_error": traceback.format_exc()}


def abort_jobs():
    """runs that end marked as aborted, always kept: (a) something failed before the run is aborted -- by a step
    (KeyboardInterrupt, context.abort()) or by after_all raising --, (b) all passed but after_all raised (with the planted
    stale file of the pair rows: it must go), (c) before_all raised (nothing runs), each with and without --stop.
    Fault positions: 1 = before_all, the last hook invocation of the fault-free run = after_all."""
    S, F, O, RU = G.scenario, G.feature, G.outline, G.rule
    progs = [[F([S(["pass"])])],
             [F([S(["pass"]), O([([], [["pass"], ["pass"]])])]), F([RU([S(["pass", "pass"])])])],
             [F([S(["fail"]), S(["pass"])])],
             [F([S(["error"])]), F([S(["pass"]), S(["fail"])])],
             [F([RU([O([([], [["fail"], ["pass"]])]), S(["undefined"])])]), F([S(["pass"])])],
             [F([S(["fail"]), S(["abort"]), S(["fail"])]), F([S(["fail"])])],
             [F([S(["pass", "error"]), S(["pass", "kbd"]), S(["pass"])]), F([S(["fail"])])],
             [F([S(["pass"]), S(["abort"]), S(["pass"])])],
             [F([S(["pass"])]), F([O([([], [["fail"], ["abort"], ["fail"]])])]), F([S(["error"])])]]
    base = []
    for n, feats in enumerate(progs):
        p = {"features": feats, "family": "abort"}
        flat = G.flatten(p)
        for ci, c in enumerate((G.cfg(), G.cfg(stop=True))):
            base.append({"key": ["abort", n + 1, ci + 1], "prog": p, "flat": flat, "cfg": c, "fault": [0, 0], "fault_kind": "exc"})
    counts = pmap(_count_hooks, base)
    jobs = []
    for j, nh in zip(base, counts):
        if isinstance(nh, dict):
            raise RuntimeError("driver failed on %s:\n%s" % (j["key"], nh["driver_error"]))
        for fi, f in enumerate(([0, 0], [1, 0], [nh, 0])):
            jobs.append(dict(j, key=j["key"] + [fi + 1], fault=f, fault_kind="assert" if fi % 2 else "exc"))
    return jobs


def pmap(fn, jobs):
    if PROCS <= 1 or len(jobs) < 20:
        return [fn(j) for j in jobs]
    with Pool(PROCS) as pool:
        return pool.map(fn, jobs, chunksize=max(1, len(jobs) // (PROCS * 8)))


# ------------------------------------------------------------------------------------------------ verdicts
def signature(v):
    clause, a1, a2 = v[2], v[3], v[4]
    if clause == "C17.exact/error_class_ignored":
        return "%s|status=%s|feature=%s" % (clause, a1, a2)
    return "|".join(x for x in (clause, a1, a2) if x)


def describe(meta, row):
    d = {"kind": row["kind"], "final_status": row["status"], "file_exists": row["file"]["exists"], "file_stale": row["file"]["stale"],
         "file_lines": [[x["f"], x["l"], x["el"]] for x in row["file"]["lines"]], "loop": row["loop"], "line_of": row["line"],
         "file_of": row["fidx"], "raw": meta.get("raw", [])}
    if "job" in meta:
        d["cfg"] = meta["job"]["cfg"]
        d["fault"] = meta["job"]["fault"]
        d["prog"] = meta["job"]["prog"]
    else:
        d["model"] = {k: meta["case"][k] for k in ("sh", "ss", "hk")}
        d["show_skipped"] = meta["show"]
        d["dupnames"] = meta.get("dupnames", False)
        d["revfiles"] = meta.get("revfiles", False)
        d["tagv"], d["oddpath"] = meta.get("tagv", 0), odd_dir(meta.get("oddpath", 0))
    return json.dumps(d, sort_keys=True)


def judge(chk, rows, metas):
    verdicts = trace.judge_rows(chk, "Rerun_Trace", rows, chunks=min(16, WORKERS), min_chunk=400)
    stats = {"VERDICT": 0}
    byid = {r["id"]: r for r in rows}
    for rid, vs in sorted(verdicts.items()):
        for v in vs:
            meta, row = metas[rid], byid[rid]
            payload = {"kind": row["kind"], "show": meta.get("show", True), "dupnames": meta.get("dupnames", False),
                       "revfiles": meta.get("revfiles", False), "tagv": meta.get("tagv", 0), "oddpath": meta.get("oddpath", 0),
                       "hdronly": meta.get("hdronly", False)}
            if "job" in meta:
                payload["job"] = {k: meta["job"][k] for k in ("key", "prog", "cfg", "fault", "fault_kind", "oddpath") if k in meta["job"]}
            else:
                payload["case"] = meta["case"]
            chk.violation(v[2].split("/")[0], signature(v) + "|%s" % row["kind"] if "/" not in v[2] else signature(v),
                          describe(meta, row), payload)
    return verdicts


def collect_diverge(chk):
    """DIVERGE tuples of the judge runs so far (spec model of the formatter / feed-back vs observation)"""
    out = []
    for m, c, r in chk.tlc_runs:
        if m == "Rerun_Trace":
            out.extend(r.by_tag("DIVERGE"))
    return out


# ------------------------------------------------------------------------------------------------ run
def run(chk):
    rnd = random.Random(chk.seed)
    quick = chk.quick()
    # 3. + 4. real runs of the shared plan.  Every multiprocessing Pool of this part is finished BEFORE TLC is started
    # (no thread is alive while a Pool forks: a child must not inherit a lock held by a TLC thread).
    # Every second pair row is rendered with prog["dupnames"]: all scenarios are called `S`, all outlines `O`, so the
    # feed-back is only right if it selects by location, never by name.
    jobs, planned = plan_jobs(chk, 1150 if quick else 16000)
    jobs = abort_jobs() + jobs
    # Every second multi-feature run / pair row is rendered with prog["revfiles"]: the feature files are handed to the
    # runner in the order f2, f1, f0, so run order and alphabetical order of the paths differ.
    def variant(j, dup, rev, hdr=False):
        extra = {}
        if dup:
            extra["dupnames"] = True
        if hdr and any(e["kind"] == "outline" for e in j["flat"]["elems"]):
            extra["hdronly"] = True          # every outline gets one more Examples table with a heading row only
        if rev and len(j["prog"]["features"]) > 1:
            extra["revfiles"] = True
        return dict(j, prog=dict(j["prog"], **extra)) if extra else j
    rjobs = [dict(variant(j, False, n % 2 == 0, n % 3 == 1), reports=True, plugins=["c17"], extra_args=RP.RECORDER_ARGS)
             for n, j in enumerate(jobs)]
    run_out = stage.drive_all(rjobs, procs=PROCS)
    # Every third pair row carries @setup / @teardown tags (feature, rule or scenario level), every third lives in an oddly
    # named directory (colon, blanks, @, #, dot-digit suffix).
    def pvariant(n, j):
        j = variant(j, n % 2 == 0, (n // 2) % 2 == 0, n % 5 in (1, 3))
        if n % 3 == 0:
            p = tagged(j["prog"], 1 + (n // 3) % 4)
            j = dict(j, prog=p, flat=G.flatten(p))
        if n % 3 == 1:
            j = dict(j, oddpath=1 + (n // 3) % len(ODD_DIRS))
        return j
    pjobs = [pvariant(n, j) for n, j in enumerate(jobs)]
    pair_out = pmap(pair_case, pjobs)
    # 1. design level
    r = chk.tlc("Rerun_MC", "Rerun_MC_quick.cfg" if quick else "Rerun_MC_thorough.cfg", timeout=3000,
                workers=WORKERS, coverage=False, heap="8g")
    for name in r.violated:
        chk.violation("C17.design." + name, "design:%s" % name, "TLC: invariant %s violated in Rerun_MC" % name)
    emitted = [json.loads(t[1]) for t in r.by_tag("CASE")]
    emitted.sort(key=lambda c: json.dumps([c["sh"], c["ss"], c["hk"]], sort_keys=True))
    kf_design = sum(1 for c in emitted if c["shown"]["clauses"]["C17.exact/error_class_ignored"])
    # 2. the real formatter on emitted models
    small = [c for c in emitted if len(c["ss"]) <= 2]
    rest = [c for c in emitted if len(c["ss"]) > 2]
    nrest = 600 if quick else 9000
    if len(rest) > nrest:
        rest = rnd.sample(rest, nrest)
    if quick and len(small) > 1000:
        small = rnd.sample(small, 1000)
    sjobs = []
    for c in small + rest:
        dup = len(sjobs) % 3 != 0                  # two of three models: every scenario has the same name
        rev = len(c["sh"]) > 1 and (len(sjobs) // 3) % 2 == 0     # every second two-feature model: files f1, f0
        n = len(sjobs)
        opts = {"dupnames": dup, "revfiles": rev, "tagv": 1 + (n // 4) % 4 if n % 4 == 1 else 0,
                "oddpath": 1 + (n // 4) % len(ODD_DIRS) if n % 4 == 2 else 0,
                "hdronly": n % 2 == 1 and any(it["k"] in ("o", "x") for its in c["sh"] for it in its)}
        sjobs.append(dict({"key": ["synth", len(sjobs)], "case": c, "show": True}, **opts))
        if c["hidden"]["ann"] != c["shown"]["ann"]:
            sjobs.append(dict({"key": ["synth", len(sjobs)], "case": c, "show": False}, **opts))
    synth_out = pmap(synth_case, sjobs)
    for o in run_out + pair_out + synth_out:
        if "driver_error" in o:
            raise RuntimeError("driver failed on %s:\n%s" % (o["key"], o["driver_error"]))
    rows, metas = [], {}
    not_judged = 0
    for job, o in zip(rjobs, run_out):
        rep = o["reports"].get("c17", {})
        if "projection_error" in rep or not rep:
            raise RuntimeError("plug-in c17 failed on %s:\n%s" % (job["key"], rep.get("projection_error")))
        end = o["end"]
        R = Rendered(job["prog"], job["flat"])
        rid = len(rows) + 1
        rows.append(make_row(rid, "run", job["flat"], R, job["cfg"]["dry"], end["ran"] and not end["escaped"],
                             RP.merged_status(end["status"], rep["seen_status"]), calls_of(o["events"]), False, rep, dict(NO_LOOP)))
        metas[rid] = {"job": job, "raw": rep.get("raw", [])}
        not_judged += 0 if rows[-1]["ran"] else 1
    for job, o in zip(pjobs, pair_out):
        rid = len(rows) + 1
        rows.append(dict(o["row"], id=rid))
        metas[rid] = {"job": job, "raw": o["raw"]}
        not_judged += 0 if rows[-1]["ran"] else 1
    sdiv = []
    for job, o in zip(sjobs, synth_out):
        rid = len(rows) + 1
        rows.append(dict(o["row"], id=rid))
        metas[rid] = {"case": job["case"], "show": job["show"], "dupnames": job["dupnames"], "revfiles": job["revfiles"],
                      "tagv": job["tagv"], "oddpath": job["oddpath"], "hdronly": job["hdronly"], "raw": o["raw"]}
        if o["diffs"]:
            sdiv.append({"row": rid, "model": {k: job["case"][k] for k in ("sh", "ss", "hk")}, "diff": o["diffs"][:2]})
    verdicts = judge(chk, rows, metas)
    div = collect_diverge(chk)
    chk.divergences = len({t[1] for t in div} | {d["row"] for d in sdiv})
    if div or sdiv:
        chk.extra["divergence_samples"] = [{"row": t[1], "what": t[2], "kind": rows[t[1] - 1]["kind"]} for t in div[:5]] + sdiv[:5]
        chk.note("DIVERGENCE spec=Rerun: %d rows differ from the code model of Rerun.tla (informational)" % chk.divergences)
    # evidence
    chk.impl_traces = len(rows)
    chk.evaluations = len(rows)
    chk.exhaustive = False
    with_file = [x for x in rows if x["file"]["exists"] and not x["file"]["stale"]]
    chk.extra["distinct_nontrivial"] = len({json.dumps([x["kind"], x["prog"], x["status"], x["cfg"], x["calls"]], sort_keys=True)
                                            for x in with_file})
    chk.extra["rows"] = {"run": len(run_out), "pair": len(pair_out), "synth": len(synth_out)}
    chk.extra["planned_cases_of_shared_plan"] = planned
    chk.extra["rows_with_fresh_rerun_file"] = len(with_file)
    chk.extra["rows_with_feed_back"] = sum(1 for x in rows if x["loop"]["done"])
    chk.extra["rows_with_second_run"] = sum(1 for x in rows if x["loop"]["ran2done"])
    chk.extra["rows_not_judged_run_died"] = not_judged
    chk.extra["rows_third_expansion_of_the_same_list_file"] = {k: sum(1 for x in rows if x["loop"]["v2kind"] == k) for k in ("real", "planted")}
    chk.extra["rows_of_aborted_runs"] = sum(
        1 for x in rows if x["kind"] != "synth" and (metas[x["id"]]["job"]["key"][0] == "abort" or job_class(metas[x["id"]]["job"])[5]
                                                     or job_class(metas[x["id"]]["job"])[6]))
    fbrows = [x for x in rows if x["loop"]["done"]]
    chk.extra["feed_back_rows_in_oddly_named_directories"] = sum(
        1 for x in fbrows if metas[x["id"]].get("oddpath") or metas[x["id"]].get("job", {}).get("oddpath"))
    chk.extra["rows_with_header_only_examples_table_and_file"] = sum(
        1 for x in with_file if metas[x["id"]].get("hdronly") or metas[x["id"]].get("job", {}).get("prog", {}).get("hdronly"))
    chk.extra["feed_back_rows_with_setup_teardown_tags"] = sum(
        1 for x in fbrows if any(t in ("setup", "teardown") for e in x["prog"] for t in e["tags"]))
    chk.extra["multi_file_rows_with_file_and_reversed_file_names"] = sum(
        1 for x in with_file if len({l["f"] for l in x["file"]["lines"]}) > 1 and
        (metas[x["id"]].get("revfiles") or metas[x["id"]].get("job", {}).get("prog", {}).get("revfiles")))
    chk.extra["feed_back_rows_with_identical_scenario_names"] = \
        sum(1 for x in rows if x["loop"]["done"] and (metas[x["id"]].get("dupnames") or metas[x["id"]].get("job", {}).get("prog", {}).get("dupnames")))
    chk.extra["rows_dry_run"] = sum(1 for x in rows if x["cfg"]["dry"])
    chk.extra["multi_file_rows_with_file"] = sum(1 for x in with_file if len({l["f"] for l in x["file"]["lines"]}) > 1)
    chk.extra["design_cases_emitted"] = len(emitted)
    chk.extra["design_cases_using_KF_C17_error_class_ignored"] = kf_design
    chk.extra["rows_with_verdict"] = len(verdicts)
    for x in (with_file[:1] + [y for y in with_file if y["kind"] == "pair"][:1] + [y for y in rows if y["kind"] == "synth"][-1:]):
        chk.sample({"kind": x["kind"], "final_status": x["status"], "line_of": x["line"], "file_of": x["fidx"],
                    "rerun_file": metas[x["id"]]["raw"], "selected_by_feed_back": x["loop"]["sel"], "entered_in_second_run": x["loop"]["ran2"]})
    chk.rule = ("design: every model with <= MaxScen scenarios in <= 2 features (plain / rule / outline rows / outline in rule) x "
                "statuses^scenarios x hooked feature (TLC, exhaustive); rows: synth = emitted models on the real RerunFormatter + "
                "feed-back + second run; run = class-balanced part of the shared run-cluster plan with all report writers; pair = the "
                "same cases with a planted stale file, feed-back through @file and a second real run; distinct = distinct "
                "(kind, program, final statuses, cfg, call-outs) among rows with a freshly written rerun file")
    chk.assumptions = ["run order of scenarios = document order of the feature files in the order given (Run.tla; the run cluster's "
                       "full-conformance check)",
                       "C17.exact and C17.stale_removed are not judged for dry runs and for runs that died with an escaping exception",
                       "C17.loop is judged against the scenarios the file names (C17.exact ties the file to the statuses), only when "
                       "a fresh file exists and each of its lines is the start of a scenario or row",
                       "@setup / @teardown tagged scenarios (exempt from skipping) and list files with bare file names, globs or "
                       "comments are C10's business and do not occur here",
                       "second run: every defined step passes, no tag expression, no hook faults"]


# ------------------------------------------------------------------------------------------------ replay
def replay(chk, payload):
    rp = payload["replay"]
    rows, metas = [], {}
    if rp["kind"] == "synth":
        o = synth_case({"key": ["replay"], "case": rp["case"], "show": rp.get("show", True), "dupnames": rp.get("dupnames", False),
                        "revfiles": rp.get("revfiles", False), "tagv": rp.get("tagv", 0), "oddpath": rp.get("oddpath", 0),
                        "hdronly": rp.get("hdronly", False)})
        if "driver_error" in o:
            raise RuntimeError(o["driver_error"])
        rows.append(dict(o["row"], id=1))
        metas[1] = {"case": rp["case"], "show": rp.get("show", True), "dupnames": rp.get("dupnames", False), "raw": o["raw"]}
    else:
        job = dict(rp["job"])
        job["flat"] = G.flatten(job["prog"])
        o = stage.drive_all([dict(job, reports=True, plugins=["c17"], extra_args=RP.RECORDER_ARGS)], procs=1)[0]
        p = pair_case(job)
        for x in (o, p):
            if "driver_error" in x:
                raise RuntimeError(x["driver_error"])
        R = Rendered(job["prog"], job["flat"])
        end = o["end"]
        rep = o["reports"]["c17"]
        rows.append(make_row(1, "run", job["flat"], R, job["cfg"]["dry"], end["ran"] and not end["escaped"],
                             RP.merged_status(end["status"], rep["seen_status"]), calls_of(o["events"]), False, rep, dict(NO_LOOP)))
        metas[1] = {"job": job, "raw": rep.get("raw", [])}
        rows.append(dict(p["row"], id=2))
        metas[2] = {"job": job, "raw": p["raw"]}
    judge(chk, rows, metas)
    chk.impl_traces = len(rows)
    chk.sample({"replayed": rp.get("job", rp.get("case"))})
