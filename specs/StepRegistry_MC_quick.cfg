INIT Init
NEXT Next
CONSTANTS
  Kinds <- AllKinds
  HistKinds <- ThreeKinds
  Defaults <- ParseOrRe
  RegTypes <- GivenStep
  SingleTypes <- OnlyGiven
  FullRegs = 2
  MaxRegs = 3
  SampleMod <- ModQuick
  SampleModEnv <- ModEnvQuick
  BigLen = 2
INVARIANT NoAmbiguousPair
INVARIANT LookupFirstHit
INVARIANT TypeOrGeneric
INVARIANT AcceptedFindable
INVARIANT MatchIsLeftmostShortest
INVARIANT SpansDelimit
INVARIANT RenderShape
INVARIANT Emit
