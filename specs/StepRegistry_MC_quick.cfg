INIT Init
NEXT Next
CONSTANTS
  Kinds <- AllKinds
  HistKinds <- ThreeKinds
  Defaults <- OnlyParse
  RegTypes <- GivenStep
  SingleTypes <- OnlyGiven
  BfsRegs = 2
  SimRegs = 3
  BigLen = 2
INVARIANT NoAmbiguousPair
INVARIANT LookupFirstHit
INVARIANT TypeOrGeneric
INVARIANT AcceptedFindable
INVARIANT MatchIsLeftmostShortest
INVARIANT SpansDelimit
INVARIANT RenderShape
INVARIANT Emit
