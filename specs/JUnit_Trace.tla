---------------------------- MODULE JUnit_Trace ----------------------------
(***************************************************************************)
(* Judge of C16 (counters / test cases) on rows recorded from real runs    *)
(* with --junit.  One state per row; every violated clause is printed as   *)
(*    <<"VERDICT", row id, clause[/family], attribute, element>>           *)
(* and every disagreement between the observation and the reporter         *)
(* automaton (S) of JUnit.tla -- informational, never a verdict -- as      *)
(*    <<"DIVERGE", row id, feature, what>>.                                *)
(*                                                                         *)
(* row: id, dup (scenarios share their name), names (per element), prog <<[kind, parent, children, steps <<[cl_id, cl_layer]>>]>>,*)
(*  cfg [show_skipped, dry, retry (scenario_autoretry: a failing scenario   *)
(*  runs a second time), fault_kbd (the hook faults raise                  *)
(*  KeyboardInterrupt)], sw [show_skipped_always] (userdata switch of the *)
(*  reporter), end [escaped, status, step_status, hook_failed] (FINAL  *)
(*  statuses as recorded: the status classes are computed here),           *)
(*  hooks_raised <<[name, el, pos]>> / cleanups_raised <<cid>> (the hook / *)
(*  cleanup events of the run that raised), rep_features (features for     *)
(*  which a reporter registered AFTER the JUnit reporter was called),      *)
(*  tail [k, name] (the last event of the run), last_feature (element of   *)
(*  the last feature announced to the formatters),                         *)
(*  files <<[f, el, exists, wellformed, tests, failures, errors, skipped,  *)
(*  cases <<[el, status, entries <<[kind, steps, hook]>>]>>]>> -- the      *)
(*  report documents as parsed by the independent parser, one per feature. *)
(***************************************************************************)
EXTENDS JUnit, Json, IOUtils
Rows == ndJsonDeserialize(IOEnv.TRACE_FILE)
VARIABLE i
Init == i = 1

Show(r) == r.cfg.show_skipped \/ r.sw.show_skipped_always
CfgOf(r) == [show |-> Show(r), dry |-> r.cfg.dry]
RaisedCids(r) == SeqSet(r.cleanups_raised)
\* a cleanup registered by a step of scenario s for the scenario's own layer raised
CleanupRaised(r, el) == \E p \in DOMAIN r.prog[el].steps :
                           LET st == r.prog[el].steps[p] IN st.cl_id # 0 /\ st.cl_layer \in {"", "scenario"} /\ st.cl_id \in RaisedCids(r)
OwnHookRaised(r, el) == \E k \in DOMAIN r.hooks_raised :
                           r.hooks_raised[k].el = el /\ r.hooks_raised[k].name \notin {"before_step", "after_step"}
\* final status of an element: the recorded one (of the scenario object that ran); a scenario one of whose own hooks
\* raised HAS errored whatever a cached status says (not asked under scenario_autoretry -- a later attempt may pass -- and
\* for KeyboardInterrupt faults, which run_hook does not handle)
EffStatus(r, el) == IF /\ r.prog[el].kind = "scenario" /\ OwnHookRaised(r, el) /\ ~r.cfg.retry /\ ~r.cfg.fault_kbd
                       /\ r.end.status[el] \notin FailedOrError
                    THEN "hook_error" ELSE r.end.status[el]
ModelOf(r) ==
   [prog |-> r.prog, status |-> [el \in DOMAIN r.prog |-> EffStatus(r, el)], steps |-> r.end.step_status,
    \* run_hook stored the HOOK-ERROR message on the element: the public attribute hook_failed says so; with
    \* scenario_autoretry the message of an earlier attempt stays (Scenario.run resets hook_failed, not error_message)
    hookmsg |-> [el \in DOMAIN r.prog |-> r.end.hook_failed[el] \/ (r.cfg.retry /\ OwnHookRaised(r, el))],
    hookraised |-> [el \in DOMAIN r.prog |-> \E k \in DOMAIN r.hooks_raised : r.hooks_raised[k].el = el],
    cleanup |-> [el \in DOMAIN r.prog |-> CleanupRaised(r, el)]]

FileOf(r, f) == r.files[CHOOSE k \in DOMAIN r.files : r.files[k].el = f]
DocOf(file) == IF ~file.exists THEN NoDoc ELSE
               [exists |-> file.exists, wellformed |-> file.wellformed, tests |-> file.tests, failures |-> file.failures,
                errors |-> file.errors, skipped |-> file.skipped, cases |-> file.cases]
\* the run died while the reporters were being called for a feature: an exception escaped and the last thing seen is the
\* eof() callback of that feature (nothing but the reporter calls lies between it and the next feature)
DiedAt(r) == IF r.end.escaped # "" /\ r.tail.k = "fmt" /\ r.tail.name = "eof" THEN r.last_feature ELSE 0
Called(r, f) == f \in SeqSet(r.rep_features)
Reported(r) == {f \in SeqSet(FeatSeq(ModelOf(r))) : (Called(r, f) \/ DiedAt(r) = f) /\ \E k \in DOMAIN r.files : r.files[k].el = f}
Obs(r, f) == LET file == FileOf(r, f) IN
             IF DiedAt(r) = f /\ ~file.exists THEN [crashed |-> TRUE, doc |-> NoDoc]
             ELSE [crashed |-> FALSE, doc |-> DocOf(file)]

\* r.dup (prog dupnames: the scenarios of a feature share their name, a test case cannot be tied to ONE scenario):
\* the test cases are matched as a multiset -- for every (name, status class) as many test cases as listed scenarios --,
\* the counters equal the numbers of entries, and each test case is consistent in itself (entry kinds fit its status
\* attribute, a failed / error one carries a failure / error entry)
DupClauses(r, m, cfg, f, obs) ==
   IF obs.crashed \/ ~obs.doc.exists \/ ~obs.doc.wellformed THEN Clauses(m, cfg, f, obs)
   ELSE LET exp   == ExpectedOf(m, cfg, DocScenarios(m, f))
            cases == obs.doc.cases
            KeyS(s)  == <<r.names[s], Class(m.status[s])>>
            KeyC(tc) == <<tc.name, Class(tc.status)>>
            keys  == {KeyS(exp[k]) : k \in DOMAIN exp} \cup {KeyC(cases[k]) : k \in DOMAIN cases}
            bad   == {key \in keys : Cardinality({k \in DOMAIN exp : KeyS(exp[k]) = key}) # Cardinality({k \in DOMAIN cases : KeyC(cases[k]) = key})}
        IN (IF bad = {} THEN {}
            ELSE {<<"C16.testcases", IF Len(cases) < Len(exp) THEN "missing" ELSE IF Len(cases) > Len(exp) THEN "extra" ELSE "multiset", f>>})
           \cup CountersClause(obs.doc)
           \cup UNION {LET tc == cases[k] IN
                         (IF ~(KindsOf(tc) \subseteq Allowed(cfg, tc.status)) THEN {<<"C16.status", "entry_kind", f>>} ELSE {})
                         \cup (IF Class(tc.status) \in {"failed", "error"} /\ ~Has(tc, "failure") /\ ~Has(tc, "error")
                               THEN {<<"C16.problem_entry", "missing", f>>} ELSE {}) : k \in DOMAIN cases}
Verdicts(r) == LET m == ModelOf(r) IN
               UNION {IF r.dup THEN DupClauses(r, m, CfgOf(r), f, Obs(r, f)) ELSE Clauses(m, CfgOf(r), f, Obs(r, f)) : f \in Reported(r)}

\* full conformance with the automaton (informational): problem entries and skipped entries only; whether the text of a
\* step entry also mentions a hook (captured output of a raising step hook) is not predicted
NormEntries(es) == LET sel == SelectSeq(es, LAMBDA e : e.kind \in EntryKinds) IN
                   [k \in DOMAIN sel |-> [kind |-> sel[k].kind, steps |-> sel[k].steps,
                                          hook |-> IF sel[k].steps = <<>> THEN sel[k].hook ELSE FALSE]]
NormDoc(d) == [exists |-> d.exists, tests |-> d.tests, failures |-> d.failures, errors |-> d.errors, skipped |-> d.skipped,
               cases |-> [k \in DOMAIN d.cases |-> [el |-> d.cases[k].el, status |-> d.cases[k].status,
                                                     entries |-> NormEntries(d.cases[k].entries)]]]
Diverges(r) ==
   LET m == ModelOf(r) IN
   {<<f, what>> \in {<<g, w>> : g \in Reported(r), w \in {"crash", "document"}} :
       LET pred == FeatureReport(m, Show(r), f, RepairedCode)
           obs  == Obs(r, f) IN
       IF what = "crash" THEN pred.crashed # obs.crashed
       ELSE ~r.dup /\ ~pred.crashed /\ ~obs.crashed /\ (obs.doc.wellformed \/ ~obs.doc.exists) /\ NormDoc(pred.doc) # NormDoc(obs.doc)}

Next == /\ i <= Len(Rows)
        /\ \A v \in Verdicts(Rows[i]) : PrintT(<<"VERDICT", Rows[i].id, v[1], v[2], v[3]>>)
        /\ \A d \in Diverges(Rows[i]) : PrintT(<<"DIVERGE", Rows[i].id, d[1], d[2]>>)
        /\ i' = i + 1
Spec == Init /\ [][Next]_i
Done == PrintT(<<"DONE", Len(Rows), TLCGet("stats").diameter>>)
=============================================================================
