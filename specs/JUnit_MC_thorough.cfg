INIT Init
NEXT Next
CONSTANTS
  MaxScen = 4
  FullUpTo = 2
  EmitAllUpTo = 2
  EmitMod = 53
INVARIANT ClausesHold
INVARIANT RepairedHolds
INVARIANT KFNarrow
INVARIANT RepairOnlyThere
INVARIANT Conservation
INVARIANT WalkIsDocOrder
INVARIANT Emit
