INIT Init
NEXT Next
CONSTANTS
  ShapeIds <- StrictShapes
  EmitMod = 100000
INVARIANT ClausesHoldStrict
