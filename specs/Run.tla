-------------------------------- MODULE Run --------------------------------
(***************************************************************************)
(* The run engine of behave as a small-step state machine (system spec S   *)
(* of the run cluster: C01 C02 C03 C09 C12 C13r C14-C18).                   *)
(*                                                                         *)
(* Implementation shaped: an explicit call stack of frames (run_model,     *)
(* container = Feature|Rule .run, outline, scenario, step) with the same   *)
(* locals the code keeps (failed_count, hooks_called, should_run_entity,   *)
(* skip_untested, run_steps, dry_run_scenario ...), one action per code    *)
(* segment between two observable events, the context frame stack with     *)
(* cleanups, the per-scenario capture buffer, and statuses derived by      *)
(* operators transcribed branch by branch from compute_status().  It       *)
(* models what the code DOES, including behaviour the property layer       *)
(* rejects (outline without untested case, rule tag hook marking the       *)
(* feature).  Deviations from the code: none intended; durations,          *)
(* message texts and colours are not modelled.                             *)
(*                                                                         *)
(* Inputs (constant after Init): a case = flat program table, a list of    *)
(* configurations and a list of fault sets; TLC explores every             *)
(* (case, configuration, fault set).  The ghost `evlog` is the observable  *)
(* event stream in the driver's alphabet (DESIGN Appendix A).              *)
(***************************************************************************)
EXTENDS Naturals, Integers, Sequences, FiniteSets, TLC, Json, IOUtils
\* sequence of case records.  A zero-argument constant-level definition: TLC evaluates it once.  (Passing it in as
\* `CONSTANT Cases <- FileCases` makes TLC re-read the file on every reference.)
Cases == ndJsonDeserialize(IOEnv.CASE_FILE)

VARIABLES pi, ci, fi,   \* which case / configuration / fault set
          stack,        \* call stack of frames
          ret,          \* return value of the frame just popped (failed, resp. keep_going for steps)
          stepst,       \* [scenario id -> Seq(step status)]
          forced,       \* [el -> "none" | status set with set_status() after the run body]
          hookFailed, shouldSkip,
          rt,           \* runner scalars: hookN hookFailures aborted undefN runFeature failedCount rootClFailed done
          ctx,          \* context frames, root first: [layer, cls, owner]
          cap,          \* capture: [buf (captured markers of the running scenario), errmarks, rout, rerr (markers on the real streams), ulog (log markers seen by the user's own root handler)]
          evlog         \* ghost: observable events
vars == <<pi, ci, fi, stack, ret, stepst, forced, hookFailed, shouldSkip, rt, ctx, cap, evlog>>

P      == Cases[pi]
prog   == P.prog
RawCfg == P.cfgs[ci]
\* --wip (Configuration.setup_wip_mode): only scenarios tagged wip, stop at the first failure, stdout and logging not captured
\* setup_logging(level) called by before_all (RawCfg.setuplog # 0): that level replaces the configured one for capture
Cfg1   == IF RawCfg.setuplog # 0 /\ ~RawCfg.dry THEN [RawCfg EXCEPT !.loglvl = RawCfg.setuplog] ELSE RawCfg
cfg    == IF Cfg1.wip THEN [Cfg1 EXCEPT !.stop = TRUE, !.cap_out = FALSE, !.cap_log = FALSE] ELSE Cfg1
faults == P.faults[fi]          \* <<a, b>>: the a-th and b-th hook invocations raise (0 = none)
N      == Len(prog)
Features == P.features

\* ---------------------------------------------------------------- tags and selection
Tags(el) == {prog[el].tags[k] : k \in DOMAIN prog[el].tags}
RECURSIVE Eff(_)
Eff(el) == IF el = 0 THEN {} ELSE Tags(el) \cup Eff(prog[el].parent)
GlobT == {"t1", "t2"}                       \* the tags of the pool matched by the wildcard operand t*
RECURSIVE Eval(_,_)
Eval(n, tags) == LET x == cfg.nodes[n] IN
   CASE x.op = "true" -> TRUE
     [] x.op = "lit"  -> x.name \in tags
     [] x.op = "glob" -> \E g \in tags : g \in GlobT
     [] x.op = "not"  -> ~Eval(x.a, tags)
     [] x.op = "and"  -> Eval(x.a, tags) /\ Eval(x.b, tags)
     [] x.op = "or"   -> Eval(x.a, tags) \/ Eval(x.b, tags)
TagMatch(el) == Eval(cfg.root, Eff(el)) /\ (cfg.wip => "wip" \in Eff(el))
\* --name: cfg.name_on, cfg.namesel = the scenarios (plain ones and outline rows) whose name matches one of the patterns;
\* an outline is selected by name if one of its rows is
RECURSIVE NameMatch(_)
NameMatch(el) == ~cfg.name_on \/ (IF prog[el].kind = "outline" THEN \E k \in DOMAIN prog[el].children : NameMatch(prog[el].children[k])
                                  ELSE \E k \in DOMAIN cfg.namesel : cfg.namesel[k] = el)
RECURSIVE RunWithTags(_)
RunWithTags(el) ==        \* should_run_with_tags of containers and outlines: own match or any child's
   IF prog[el].kind = "scenario" THEN TagMatch(el)
   ELSE TagMatch(el) \/ \E k \in DOMAIN prog[el].children : RunWithTags(prog[el].children[k])
RECURSIVE FeatureOf(_)
FeatureOf(el) == IF prog[el].parent = 0 THEN el ELSE FeatureOf(prog[el].parent)

\* ---------------------------------------------------------------- status algebra (model_core.Status, compute_status)
IsError(s)    == s \in {"error", "hook_error", "cleanup_error", "undefined", "pending"}
HasFailed(s)  == IsError(s) \/ s = "failed"
IsUntested(s) == s \in {"untested", "untested_undefined", "untested_pending"}

RECURSIVE ScenFrom(_,_)
ScenFrom(ss, k) == IF k > Len(ss) THEN "passed"
   ELSE IF ss[k] = "pending_warn" THEN ScenFrom(ss, k + 1)
   ELSE IF IsError(ss[k]) THEN "error" ELSE IF ss[k] = "failed" THEN "failed"
   ELSE IF IsUntested(ss[k]) THEN "untested"
   ELSE IF ss[k] # "passed" THEN ss[k] ELSE ScenFrom(ss, k + 1)
RECURSIVE StatusOf(_)
RECURSIVE ContFrom(_,_,_,_)
ContFrom(cs, k, skipped, passedCount) ==
   IF k > Len(cs) THEN (IF skipped THEN "skipped" ELSE "passed")
   ELSE LET s == StatusOf(cs[k]) IN
        IF IsError(s) THEN "error" ELSE IF s = "failed" THEN "failed"
        ELSE IF s = "untested" THEN (IF passedCount > 0 THEN "failed" ELSE "untested")
        ELSE ContFrom(cs, k + 1, skipped /\ s = "skipped", IF s = "passed" THEN passedCount + 1 ELSE passedCount)
RECURSIVE OutlFrom(_,_,_,_)
OutlFrom(cs, k, skippedCount, passedCount) ==   \* ScenarioOutline.compute_status over its row scenarios
   IF k > Len(cs) THEN (IF skippedCount > 0 /\ skippedCount = Len(cs) THEN "skipped" ELSE "passed")
   ELSE LET s == StatusOf(cs[k])
            o == IF IsError(s) THEN "error" ELSE IF s = "pending_warn" THEN "passed" ELSE s IN
        IF HasFailed(o) THEN o
        ELSE IF IsUntested(o) THEN (IF passedCount > 0 THEN "failed" ELSE "untested")
        ELSE IF s = "skipped" THEN OutlFrom(cs, k + 1, skippedCount + 1, passedCount)
        ELSE OutlFrom(cs, k + 1, skippedCount, passedCount + 1)
StatusOf(el) ==
   IF forced[el] # "none" THEN forced[el]
   ELSE IF prog[el].kind = "scenario" THEN (IF hookFailed[el] THEN "hook_error" ELSE ScenFrom(stepst[el], 1))
   ELSE IF prog[el].kind = "outline" THEN OutlFrom(prog[el].children, 1, 0, 0)
   ELSE (IF hookFailed[el] THEN "hook_error" ELSE ContFrom(prog[el].children, 1, TRUE, 0))

\* ---------------------------------------------------------------- frames, events
Frame(fn, el) == [fn |-> fn, el |-> el, pc |-> "enter", i |-> 1, fc |-> 0, hc |-> FALSE, sr |-> FALSE, su |-> FALSE,
                  rs |-> FALSE, failed |-> FALSE, drs |-> FALSE, hf |-> FALSE, att |-> 1]
Top == stack[Len(stack)]
SetTop(f) == [stack EXCEPT ![Len(stack)] = f]
PushOn(stk, f) == Append(stk, f)
Pop == SubSeq(stack, 1, Len(stack) - 1)

\* attempt number of the innermost running scenario (scenario_autoretry runs a failing scenario again), 0 outside scenarios
CurAtt == LET ss == SelectSeq(stack, LAMBDA f : f.fn = "scenario") IN IF ss = <<>> THEN 0 ELSE ss[Len(ss)].att
Ev(k, name, el, tag, raised, pos, outcome, status, undef, cid, oreal, ereal) ==
   [k |-> k, name |-> name, el |-> el, tag |-> tag, raised |-> raised, pos |-> pos, outcome |-> outcome,
    status |-> status, undefined |-> undef, cid |-> cid, out_real |-> oreal, err_real |-> ereal, att |-> CurAtt, n |-> 0, via |-> ""]
\* (n: ordinal of the hook invocation in the run)
HookEv(name, el, tag, raised, pos, instep) ==
   [Ev("hook", name, el, tag, raised, pos, "", "", FALSE, 0, ~(instep /\ cfg.cap_out), ~(instep /\ cfg.cap_err)) EXCEPT !.n = rt.hookN + 1]
FmtEv(name, el, pos, status, undef) == Ev("fmt", name, el, "", FALSE, pos, "", status, undef, 0, TRUE, TRUE)
RepEv(name, el, status) == Ev("rep", name, el, "", FALSE, 0, "", status, FALSE, 0, TRUE, TRUE)
ClEv(cid, raised) == Ev("cleanup", "", 0, "", raised, 0, "", "", FALSE, cid, TRUE, TRUE)
\* via: the registration that served the step.  P.typed: one step function per step type (given / when / then) under the
\* same pattern -- find_match looks in the list of the step's own type (And / But inherit it), then in the generic list;
\* otherwise a single generic function serves every type
StepEv(el, pos, o) == [Ev("step", "", el, "", FALSE, pos, o, "", FALSE, 0, ~cfg.cap_out, ~cfg.cap_err)
                       EXCEPT !.via = IF P.typed THEN prog[el].steps[pos].stype ELSE "step"]

Init == /\ pi \in 1..Len(Cases)
        /\ ci \in 1..Len(Cases[pi].cfgs)
        /\ fi \in 1..Len(Cases[pi].faults)
        /\ stack = << [Frame("run_model", 0) EXCEPT !.pc = "before_all"] >>
        /\ ret = FALSE
        /\ stepst = [el \in 1..Len(Cases[pi].prog) |-> [k \in 1..Len(Cases[pi].prog[el].steps) |-> "untested"]]
        /\ forced = [el \in 1..Len(Cases[pi].prog) |-> "none"]
        /\ hookFailed = [el \in 1..Len(Cases[pi].prog) |-> FALSE]
        /\ shouldSkip = [el \in 1..Len(Cases[pi].prog) |-> FALSE]
        /\ rt = [hookN |-> 0, hookFailures |-> 0, aborted |-> FALSE, undefN |-> 0, runFeature |-> TRUE,
                 failedCount |-> 0, rootClFailed |-> FALSE, done |-> FALSE,
                 unwound |-> FALSE,      \* a KeyboardInterrupt raised by a hook has unwound the call stack up to run_model
                 stuck |-> FALSE,        \* ... from a step hook: the capture of that step was never stopped
                 escaped |-> FALSE]      \* ... from before_all / after_all: it left run_model altogether
        /\ ctx = << [layer |-> "testrun", cls |-> <<>>] >>
        /\ cap = [buf |-> <<>>, rout |-> <<>>, rerr |-> <<>>, ulog |-> <<>>, errmarks |-> [el \in 1..Len(Cases[pi].prog) |-> [k \in 1..Len(Cases[pi].prog[el].steps) |-> <<>>]]]
        /\ evlog = <<>>

U(vs) == UNCHANGED vs
inputs == <<pi, ci, fi>>
model == <<stepst, forced, hookFailed, shouldSkip>>

\* ---------------------------------------------------------------- run_hook (callers check dry-run)
Raises == rt.hookN + 1 \in {faults[1], faults[2]} \ {0}
\* P.kbd: the faulty hook invocations raise KeyboardInterrupt (the user interrupts the run while a hook is running).
\* run_hook catches Exception only: the interrupt travels up the call stack -- Step.run, Scenario.run and
\* ScenarioContainer.run have no handler and no finally around their hooks -- to the handler in run_model (KbdUnwind below)
KbdNow == Raises /\ P.kbd
\* rt after one hook invocation; abortOnRaise for before_all/after_all
RtHook(abortOnRaise) == [rt EXCEPT !.hookN = @ + 1,
                                   !.hookFailures = IF Raises /\ ~P.kbd THEN @ + 1 ELSE @,
                                   !.aborted = @ \/ (abortOnRaise /\ Raises)]

RECURSIVE Rev(_)
Rev(q) == IF q = <<>> THEN <<>> ELSE Append(Rev(Tail(q)), Head(q))
ClEvents(cls) == [k \in 1..Len(cls) |-> ClEv(Rev(cls)[k].id, Rev(cls)[k].raises)]
AnyRaises(cls) == \E k \in DOMAIN cls : cls[k].raises
CtxTop == ctx[Len(ctx)]
CtxPop == SubSeq(ctx, 1, Len(ctx) - 1)
HasLayer(l) == \E k \in DOMAIN ctx : ctx[k].layer = l
LayerIdx(l) == CHOOSE k \in DOMAIN ctx : ctx[k].layer = l /\ \A j \in DOMAIN ctx : ctx[j].layer = l => j <= k

\* ---------------------------------------------------------------- hooks that exclude their element at run time
\* (P.skips: before_feature / before_rule / before_scenario hooks of these elements call element.skip())
SkipsAt(name, el) == \E k \in DOMAIN P.skips : P.skips[k].name = name /\ P.skips[k].el = el
\* ... or, from an after_scenario hook, an enclosing feature / rule ("skip the rest"): the element skip() is called on
SkipTarget(name, el) == P.skips[CHOOSE k \in DOMAIN P.skips : P.skips[k].name = name /\ P.skips[k].el = el].target
RECURSIVE IsUnder(_,_)
IsUnder(x, el) == x = el \/ (prog[x].parent # 0 /\ IsUnder(prog[x].parent, el))
\* skip(): should_skip on the element and everything below it, not yet executed steps become skipped
SkipFlags(el) == [x \in DOMAIN shouldSkip |-> shouldSkip[x] \/ IsUnder(x, el)]
SkipSteps(el) == [x \in DOMAIN stepst |-> IF IsUnder(x, el)
                                          THEN [j \in DOMAIN stepst[x] |-> IF stepst[x][j] \in {"untested", "skipped"} THEN "skipped" ELSE stepst[x][j]]
                                          ELSE stepst[x]]
\* skip() drops the cached status of everything below the element (clear_status) and pins a scenario that has no steps at
\* all to skipped
SkipForced(el) == [x \in DOMAIN forced |-> IF ~IsUnder(x, el) THEN forced[x]
                                            ELSE IF prog[x].kind = "scenario" /\ Len(prog[x].steps) = 0 THEN "skipped" ELSE "none"]

\* hooks that register a cleanup (P.hookcl: before_all, after_all, before_feature, before_rule, before_scenario and
\* after_scenario each call context.add_cleanup with a function of their own): it lands in the innermost scope, the
\* one of the element the hook belongs to; id = 500 + ordinal of the hook invocation
HookCl(c) == IF P.hookcl THEN [c EXCEPT ![Len(c)].cls = Append(@, [id |-> 500 + rt.hookN + 1, raises |-> FALSE])] ELSE c

\* with P.kbd a raising cleanup function raises KeyboardInterrupt, too: _do_cleanups catches Exception only, so the
\* remaining cleanups of the layer are skipped; _pop still removes the layer (finally) and the interrupt travels on to
\* run_model like one raised by a hook -- the element is not marked, no eof / rule_finished call-out, no retry
KbdCl(cls) == P.kbd /\ AnyRaises(cls)
ClEventsK(cls) == LET evs == ClEvents(cls)
                      first == CHOOSE k \in DOMAIN evs : evs[k].raised /\ \A j \in 1..(k - 1) : ~evs[j].raised
                  IN SubSeq(evs, 1, first)
ClUnwind ==
   LET base == stack[1]
       fe == Features[base.i] IN
   /\ rt' = [rt EXCEPT !.aborted = TRUE, !.failedCount = @ + 1, !.runFeature = FALSE, !.unwound = TRUE]
   /\ evlog' = evlog \o ClEventsK(CtxTop.cls) \o <<RepEv("feature", fe, StatusOf(fe))>>
   /\ ctx' = CtxPop
   /\ stack' = << [base EXCEPT !.pc = "loop", !.i = base.i + 1] >>
   /\ U(<<inputs, ret, model, cap>>)

\* ======================================================================= run_model
\* events recorded while the capture of an interrupted step is still installed see the capture streams
Adj(e) == IF rt.stuck THEN [e EXCEPT !.out_real = ~cfg.cap_out, !.err_real = ~cfg.cap_err] ELSE e
AdjAll(q) == [k \in DOMAIN q |-> Adj(q[k])]
BeforeAll ==
   /\ Top.fn = "run_model" /\ Top.pc = "before_all"
   /\ IF cfg.dry THEN /\ rt' = [rt EXCEPT !.runFeature = ~rt.aborted] /\ U(<<evlog, ctx>>)
                      /\ stack' = SetTop([Top EXCEPT !.pc = "loop", !.i = 1])
      ELSE IF KbdNow THEN      \* no handler around before_all: the interrupt leaves run_model, nothing else happens
           /\ rt' = [rt EXCEPT !.hookN = @ + 1, !.done = TRUE, !.escaped = TRUE]
           /\ evlog' = Append(evlog, HookEv("before_all", 0, "", TRUE, 0, FALSE))
           /\ stack' = SetTop([Top EXCEPT !.pc = "finished"]) /\ U(ctx)
      ELSE /\ rt' = [RtHook(TRUE) EXCEPT !.runFeature = ~(rt.aborted \/ Raises)]
           /\ evlog' = Append(evlog, HookEv("before_all", 0, "", Raises, 0, FALSE))
           /\ ctx' = HookCl(ctx)
           /\ stack' = SetTop([Top EXCEPT !.pc = "loop", !.i = 1])
   /\ U(<<inputs, ret, model, cap>>)

FeatureLoop ==
   /\ Top.fn = "run_model" /\ Top.pc = "loop"
   /\ IF Top.i > Len(Features) THEN
         /\ stack' = SetTop([Top EXCEPT !.pc = "after_all"]) /\ U(evlog)
      ELSE IF rt.runFeature THEN
         /\ evlog' = Append(evlog, FmtEv("uri", 0, 0, "", FALSE))
         /\ stack' = PushOn(SetTop([Top EXCEPT !.pc = "feature_ret"]), Frame("container", Features[Top.i]))
      ELSE
         /\ evlog' = Append(evlog, Adj(RepEv("feature", Features[Top.i], StatusOf(Features[Top.i]))))
         /\ stack' = SetTop([Top EXCEPT !.i = Top.i + 1])
   /\ U(<<inputs, ret, model, rt, ctx, cap>>)

FeatureRet ==
   /\ Top.fn = "run_model" /\ Top.pc = "feature_ret"
   /\ rt' = [rt EXCEPT !.failedCount = IF ret THEN @ + 1 ELSE @,
                       !.runFeature = IF ret /\ (cfg.stop \/ rt.aborted) THEN FALSE ELSE @]
   /\ evlog' = Append(evlog, RepEv("feature", Features[Top.i], StatusOf(Features[Top.i])))
   /\ stack' = SetTop([Top EXCEPT !.pc = "loop", !.i = Top.i + 1])
   /\ U(<<inputs, ret, model, ctx, cap>>)

AfterAll ==     \* after_all hook, _do_cleanups of the CURRENT context layer (no pop), close, end
   \* (the current layer is the test-run layer -- unless an interrupt unwound the run and left the layers of the
   \*  interrupted feature / rule / scenario open: then only the innermost of THEM is cleaned up)
   /\ Top.fn = "run_model" /\ Top.pc = "after_all"
   /\ LET cls == IF cfg.dry THEN CtxTop.cls ELSE HookCl(ctx)[Len(ctx)].cls      \* (a cleanup registered by after_all itself still runs)
          tailEv == AdjAll(ClEvents(cls) \o <<FmtEv("close", 0, 0, "", FALSE), RepEv("end", 0, "")>>) IN
      IF cfg.dry THEN /\ rt' = [rt EXCEPT !.rootClFailed = AnyRaises(cls), !.done = TRUE]
                      /\ evlog' = evlog \o tailEv
      ELSE IF KbdNow THEN      \* the interrupt leaves run_model: no cleanups, no close, no end
           /\ rt' = [rt EXCEPT !.hookN = @ + 1, !.done = TRUE, !.escaped = TRUE]
           /\ evlog' = Append(evlog, Adj(HookEv("after_all", 0, "", TRUE, 0, FALSE)))
      ELSE IF KbdCl(cls) THEN  \* an interrupting cleanup of the last layer: it leaves run_model, too
           /\ rt' = [RtHook(TRUE) EXCEPT !.done = TRUE, !.escaped = TRUE]
           /\ evlog' = Append(evlog, Adj(HookEv("after_all", 0, "", Raises, 0, FALSE))) \o AdjAll(ClEventsK(cls))
      ELSE /\ rt' = [RtHook(TRUE) EXCEPT !.rootClFailed = AnyRaises(cls), !.done = TRUE]
           /\ evlog' = Append(evlog, Adj(HookEv("after_all", 0, "", Raises, 0, FALSE))) \o tailEv
   /\ stack' = SetTop([Top EXCEPT !.pc = "finished"])
   /\ U(<<inputs, ret, model, ctx, cap>>)

Verdict == rt.failedCount > 0 \/ rt.aborted \/ rt.hookFailures > 0 \/ rt.undefN > 0 \/ rt.rootClFailed

\* ======================================================================= container (Feature | Rule).run
KindName(el) == prog[el].kind
CEnter ==
   /\ Top.fn = "container" /\ Top.pc = "enter"
   /\ LET el == Top.el
          sr == ~shouldSkip[el] /\ RunWithTags(el) IN
      /\ hookFailed' = [hookFailed EXCEPT ![el] = FALSE]
      /\ forced' = [forced EXCEPT ![el] = "none"]
      /\ ctx' = Append(ctx, [layer |-> KindName(el), cls |-> <<>>])
      /\ stack' = SetTop([Top EXCEPT !.sr = sr, !.su = rt.aborted, !.fc = 0, !.hc = (~cfg.dry /\ sr),
                                     !.pc = IF ~cfg.dry /\ sr THEN "btag" ELSE "announce", !.i = 1])
   /\ U(<<inputs, ret, stepst, shouldSkip, rt, cap, evlog>>)

\* a raising tag hook is attributed to the innermost open element: context.scenario, else context.rule, else context.feature
CBeforeTag ==
   /\ Top.fn = "container" /\ Top.pc = "btag"
   /\ LET el == Top.el IN
      IF Top.i > Len(prog[el].tags) THEN
         /\ stack' = SetTop([Top EXCEPT !.pc = "bhook"]) /\ U(<<rt, evlog, hookFailed>>)
      ELSE
         /\ rt' = RtHook(FALSE)
         /\ evlog' = Append(evlog, HookEv("before_tag", el, prog[el].tags[Top.i], Raises, 0, FALSE))
         /\ hookFailed' = IF Raises THEN [hookFailed EXCEPT ![el] = TRUE] ELSE hookFailed
         /\ stack' = SetTop([Top EXCEPT !.i = Top.i + 1])
   /\ U(<<inputs, ret, stepst, forced, shouldSkip, ctx, cap>>)

CBeforeHook ==
   /\ Top.fn = "container" /\ Top.pc = "bhook"
   /\ LET el == Top.el IN
      /\ rt' = RtHook(FALSE)
      /\ evlog' = Append(evlog, HookEv(IF KindName(el) = "feature" THEN "before_feature" ELSE "before_rule", el, "", Raises, 0, FALSE))
      /\ hookFailed' = IF Raises THEN [hookFailed EXCEPT ![el] = TRUE] ELSE hookFailed
      /\ LET skip == SkipsAt(IF KindName(el) = "feature" THEN "before_feature" ELSE "before_rule", el) IN
         /\ shouldSkip' = IF skip THEN SkipFlags(el) ELSE shouldSkip
         /\ stepst' = IF skip THEN SkipSteps(el) ELSE stepst
         /\ forced' = IF skip THEN SkipForced(el) ELSE forced
      /\ LET hf == hookFailed'[el] IN
         stack' = SetTop([Top EXCEPT !.fc = IF hf THEN Top.fc + 1 ELSE Top.fc,
                                      !.su = hf \/ rt.aborted, !.sr = ~shouldSkip'[el], !.pc = "announce"])
   /\ ctx' = HookCl(ctx)
   /\ U(<<inputs, ret, cap>>)

CAnnounce ==
   /\ Top.fn = "container" /\ Top.pc = "announce"
   /\ LET el == Top.el
          show == Top.sr \/ cfg.show_skipped
          e1 == IF show THEN <<FmtEv(KindName(el), el, 0, "", FALSE)>> ELSE <<>>
          e2 == IF show /\ prog[el].has_bg THEN <<FmtEv("background", 0, 0, "", FALSE)>> ELSE <<>> IN
      /\ evlog' = evlog \o e1 \o e2
      /\ stack' = SetTop([Top EXCEPT !.pc = IF Top.su THEN "finish" ELSE "items", !.i = 1])
   /\ U(<<inputs, ret, model, rt, ctx, cap>>)

CItems ==
   /\ Top.fn = "container" /\ Top.pc = "items"
   /\ LET el == Top.el IN
      IF Top.i > Len(prog[el].children) THEN stack' = SetTop([Top EXCEPT !.pc = "finish"])
      ELSE LET c == prog[el].children[Top.i]
               fn == IF prog[c].kind \in {"feature", "rule"} THEN "container" ELSE prog[c].kind IN
           \* a scenario / outline that --name does not select is marked skipped and passed over (rules are always entered)
           IF prog[c].kind \in {"scenario", "outline"} /\ ~NameMatch(c)
           THEN stack' = SetTop([Top EXCEPT !.i = Top.i + 1])
           ELSE stack' = PushOn(SetTop([Top EXCEPT !.pc = "item_ret"]), Frame(fn, c))
   /\ LET el == Top.el IN
      IF Top.i <= Len(prog[el].children) /\ prog[prog[el].children[Top.i]].kind \in {"scenario", "outline"} /\ ~NameMatch(prog[el].children[Top.i])
      THEN LET c == prog[el].children[Top.i] IN
           /\ shouldSkip' = SkipFlags(c) /\ stepst' = SkipSteps(c) /\ forced' = SkipForced(c) /\ U(hookFailed)
      ELSE U(model)
   /\ U(<<inputs, ret, rt, ctx, cap, evlog>>)

CItemRet ==
   /\ Top.fn = "container" /\ Top.pc = "item_ret"
   /\ stack' = SetTop([Top EXCEPT !.fc = IF ret THEN Top.fc + 1 ELSE Top.fc,
                                  !.pc = IF ret /\ (cfg.stop \/ rt.aborted) THEN "finish" ELSE "items", !.i = Top.i + 1])
   /\ U(<<inputs, ret, model, rt, ctx, cap, evlog>>)

CFinish ==
   /\ Top.fn = "container" /\ Top.pc = "finish"
   /\ stack' = SetTop([Top EXCEPT !.pc = IF Top.hc THEN "ahook" ELSE "pop"])
   /\ U(<<inputs, ret, model, rt, ctx, cap, evlog>>)

CAfterHook ==
   /\ Top.fn = "container" /\ Top.pc = "ahook"
   /\ LET el == Top.el IN
      /\ rt' = RtHook(FALSE)
      /\ evlog' = Append(evlog, HookEv(IF KindName(el) = "feature" THEN "after_feature" ELSE "after_rule", el, "", Raises, 0, FALSE))
      /\ hookFailed' = IF Raises THEN [hookFailed EXCEPT ![el] = TRUE] ELSE hookFailed
      /\ stack' = SetTop([Top EXCEPT !.pc = "atag", !.i = 1])
   /\ U(<<inputs, ret, stepst, forced, shouldSkip, ctx, cap>>)

CAfterTag ==
   /\ Top.fn = "container" /\ Top.pc = "atag"
   /\ LET el == Top.el IN
      IF Top.i > Len(prog[el].tags) THEN
         /\ stack' = SetTop([Top EXCEPT !.pc = "pop", !.fc = IF hookFailed[el] THEN Top.fc + 1 ELSE Top.fc])
         /\ forced' = IF hookFailed[el] THEN [forced EXCEPT ![el] = "hook_error"] ELSE forced
         /\ U(<<rt, evlog, hookFailed>>)
      ELSE
         /\ rt' = RtHook(FALSE)
         /\ evlog' = Append(evlog, HookEv("after_tag", el, prog[el].tags[Top.i], Raises, 0, FALSE))
         /\ hookFailed' = IF Raises THEN [hookFailed EXCEPT ![el] = TRUE] ELSE hookFailed
         /\ stack' = SetTop([Top EXCEPT !.i = Top.i + 1]) /\ U(forced)
   /\ U(<<inputs, ret, stepst, shouldSkip, ctx, cap>>)

CPop ==     \* context._pop(): cleanups in reverse order, all attempted, error => Status.error; then eof/rule_finished
   /\ Top.fn = "container" /\ Top.pc = "pop"
   /\ IF KbdCl(CtxTop.cls) THEN ClUnwind ELSE
      /\ LET el == Top.el
             cls == CtxTop.cls
             clf == AnyRaises(cls)
             cb == IF KindName(el) = "feature" THEN "eof" ELSE "rule_finished"
             e == IF Top.sr \/ cfg.show_skipped THEN <<FmtEv(cb, 0, 0, "", FALSE)>> ELSE <<>> IN
         /\ evlog' = evlog \o ClEvents(cls) \o e
         /\ forced' = IF clf THEN [forced EXCEPT ![el] = "error"] ELSE forced
         /\ ret' = (Top.fc > 0 \/ clf)
         /\ ctx' = CtxPop
         /\ stack' = Pop
      /\ U(<<inputs, stepst, hookFailed, shouldSkip, rt, cap>>)

\* ======================================================================= ScenarioOutline.run
OEnter ==
   /\ Top.fn = "outline" /\ Top.pc = "enter"
   /\ forced' = [forced EXCEPT ![Top.el] = "none"]
   /\ stack' = SetTop([Top EXCEPT !.pc = "rows", !.i = 1, !.fc = 0])
   /\ U(<<inputs, ret, stepst, hookFailed, shouldSkip, rt, ctx, cap, evlog>>)
ORows ==
   /\ Top.fn = "outline" /\ Top.pc = "rows"
   /\ IF Top.i > Len(prog[Top.el].children) THEN /\ ret' = (Top.fc > 0) /\ stack' = Pop
      ELSE /\ stack' = PushOn(SetTop([Top EXCEPT !.pc = "row_ret"]), Frame("scenario", prog[Top.el].children[Top.i])) /\ U(ret)
   /\ U(<<inputs, model, rt, ctx, cap, evlog>>)
ORowRet ==
   /\ Top.fn = "outline" /\ Top.pc = "row_ret"
   /\ IF ret /\ (cfg.stop \/ rt.aborted) THEN /\ ret' = TRUE /\ stack' = Pop
      ELSE /\ stack' = SetTop([Top EXCEPT !.fc = IF ret THEN Top.fc + 1 ELSE Top.fc, !.pc = "rows", !.i = Top.i + 1]) /\ U(ret)
   /\ U(<<inputs, model, rt, ctx, cap, evlog>>)

\* ======================================================================= Scenario.run
Steps(el) == prog[el].steps
SEnter ==
   /\ Top.fn = "scenario" /\ Top.pc = "enter"
   /\ LET el == Top.el
          run == ~shouldSkip[el] /\ TagMatch(el) /\ NameMatch(el) IN
      /\ hookFailed' = [hookFailed EXCEPT ![el] = FALSE]
      /\ forced' = [forced EXCEPT ![el] = "none"]
      /\ evlog' = IF cfg.retry THEN Append(evlog, Ev("attempt", "", el, "", FALSE, 0, "", "", FALSE, 0, TRUE, TRUE)) ELSE evlog
      /\ ctx' = Append(ctx, [layer |-> "scenario", cls |-> <<>>])
      /\ stack' = SetTop([Top EXCEPT !.sr = run, !.rs = run /\ ~cfg.dry, !.drs = run /\ cfg.dry, !.su = rt.aborted, !.failed = FALSE,
                                     !.hc = (~cfg.dry /\ run), !.pc = IF ~cfg.dry /\ run THEN "btag" ELSE "announce", !.i = 1])
   /\ U(<<inputs, ret, stepst, shouldSkip, rt, cap>>)
SBeforeTag ==
   /\ Top.fn = "scenario" /\ Top.pc = "btag"
   /\ LET el == Top.el IN
      IF Top.i > Len(prog[el].tags) THEN /\ stack' = SetTop([Top EXCEPT !.pc = "bhook"]) /\ U(<<rt, evlog, hookFailed>>)
      ELSE /\ rt' = RtHook(FALSE)
           /\ evlog' = Append(evlog, HookEv("before_tag", el, prog[el].tags[Top.i], Raises, 0, FALSE))
           /\ hookFailed' = IF Raises THEN [hookFailed EXCEPT ![el] = TRUE] ELSE hookFailed
           /\ stack' = SetTop([Top EXCEPT !.i = Top.i + 1])
   /\ U(<<inputs, ret, stepst, forced, shouldSkip, ctx, cap>>)
SBeforeHook ==
   /\ Top.fn = "scenario" /\ Top.pc = "bhook"
   /\ LET el == Top.el IN
      /\ rt' = RtHook(FALSE)
      /\ evlog' = Append(evlog, HookEv("before_scenario", el, "", Raises, 0, FALSE))
      /\ hookFailed' = IF Raises THEN [hookFailed EXCEPT ![el] = TRUE] ELSE hookFailed
      /\ LET skip == SkipsAt("before_scenario", el) IN
         /\ shouldSkip' = IF skip THEN SkipFlags(el) ELSE shouldSkip
         /\ stepst' = IF skip THEN SkipSteps(el) ELSE stepst
         /\ forced' = IF skip THEN SkipForced(el) ELSE forced
      /\ LET hf == hookFailed'[el] IN
         stack' = SetTop([Top EXCEPT !.failed = hf, !.su = hf \/ rt.aborted, !.sr = ~shouldSkip'[el],
                                      !.rs = ~shouldSkip'[el] /\ ~cfg.dry, !.pc = "announce"])
   /\ ctx' = HookCl(ctx)
   /\ U(<<inputs, ret, cap>>)
SAnnounce ==    \* formatter.scenario, setup_capture (fresh buffers), formatter.step*
   /\ Top.fn = "scenario" /\ Top.pc = "announce"
   /\ LET el == Top.el
          show == Top.sr \/ cfg.show_skipped
          e1 == IF show THEN <<FmtEv("scenario", el, 0, "", FALSE)>> ELSE <<>>
          e2 == IF show THEN [k \in 1..Len(Steps(el)) |-> FmtEv("step", el, k, "", FALSE)] ELSE <<>> IN
      /\ evlog' = evlog \o e1 \o e2
      /\ cap' = [cap EXCEPT !.buf = <<>>]
      \* body not executed (hook error, aborted run): step results of an earlier attempt are forgotten
      /\ stepst' = IF Top.su THEN [stepst EXCEPT ![el] = [j \in DOMAIN @ |-> IF @[j] \in {"untested", "skipped"} THEN @[j] ELSE "untested"]]
                    ELSE stepst
      /\ stack' = SetTop([Top EXCEPT !.pc = IF Top.su THEN "finish" ELSE "steps", !.i = 1])
   /\ U(<<inputs, ret, forced, hookFailed, shouldSkip, rt, ctx>>)
SSteps ==       \* one step position per action
   /\ Top.fn = "scenario" /\ Top.pc = "steps"
   /\ LET el == Top.el  k == Top.i IN
      IF k > Len(Steps(el)) THEN /\ stack' = SetTop([Top EXCEPT !.pc = "finish"]) /\ U(<<stepst, rt, evlog>>)
      ELSE IF Top.rs THEN
           /\ stack' = PushOn(SetTop([Top EXCEPT !.pc = "step_ret"]), [Frame("step", el) EXCEPT !.i = k, !.att = Top.att])
           /\ U(<<stepst, rt, evlog>>)
      ELSE IF Top.failed \/ Top.drs THEN
           LET d == Steps(el)[k].def IN
           /\ stepst' = [stepst EXCEPT ![el][k] = IF ~d THEN "undefined" ELSE IF Top.drs THEN "untested" ELSE "skipped"]
           /\ rt' = [rt EXCEPT !.undefN = IF ~d THEN @ + 1 ELSE @]
           /\ evlog' = IF d /\ Top.drs THEN evlog \o <<FmtEv("match", el, 0, "", FALSE), FmtEv("result", el, k, "untested", FALSE)>> ELSE evlog
           /\ stack' = SetTop([Top EXCEPT !.i = k + 1])
      ELSE /\ stepst' = [stepst EXCEPT ![el][k] = "skipped"]
           /\ stack' = SetTop([Top EXCEPT !.i = k + 1]) /\ U(<<rt, evlog>>)
   /\ U(<<inputs, ret, forced, hookFailed, shouldSkip, ctx, cap>>)
SStepRet ==
   /\ Top.fn = "scenario" /\ Top.pc = "step_ret"
   /\ LET el == Top.el  k == Top.i IN
      IF ret (* keep_going *) THEN
           stack' = SetTop([Top EXCEPT !.rs = IF shouldSkip[el] THEN FALSE ELSE Top.rs, !.pc = "steps", !.i = k + 1])
      ELSE stack' = SetTop([Top EXCEPT !.rs = cfg.cont /\ HasFailed(stepst[el][k]), !.failed = TRUE, !.pc = "steps", !.i = k + 1])
   /\ U(<<inputs, ret, model, rt, ctx, cap, evlog>>)
SFinish ==      \* special case: a scenario that does not run and has no steps at all (own or background) is set to skipped
   /\ Top.fn = "scenario" /\ Top.pc = "finish"
   /\ stack' = SetTop([Top EXCEPT !.pc = IF Top.hc THEN "ahook" ELSE "pop"])
   /\ forced' = IF ~Top.sr /\ Len(Steps(Top.el)) = 0
                THEN [forced EXCEPT ![Top.el] = "skipped"] ELSE forced
   /\ U(<<inputs, ret, stepst, hookFailed, shouldSkip, rt, ctx, cap, evlog>>)
SAfterHook ==
   /\ Top.fn = "scenario" /\ Top.pc = "ahook"
   /\ LET el == Top.el IN
      /\ rt' = RtHook(FALSE)
      /\ evlog' = Append(evlog, HookEv("after_scenario", el, "", Raises, 0, FALSE))
      /\ hookFailed' = IF Raises THEN [hookFailed EXCEPT ![el] = TRUE] ELSE hookFailed
      /\ stack' = SetTop([Top EXCEPT !.pc = "atag", !.i = 1])
      \* the hook may call feature.skip() / rule.skip() on an enclosing element: everything below it is flagged, steps
      \* that were not executed become skipped, cached statuses below it are dropped (clear_status)
      /\ IF SkipsAt("after_scenario", el)
         THEN LET t == SkipTarget("after_scenario", el) IN
              /\ shouldSkip' = SkipFlags(t) /\ stepst' = SkipSteps(t)
              /\ forced' = SkipForced(t)
         ELSE U(<<stepst, forced, shouldSkip>>)
   /\ ctx' = HookCl(ctx)
   /\ U(<<inputs, ret, cap>>)
SAfterTag ==
   /\ Top.fn = "scenario" /\ Top.pc = "atag"
   /\ LET el == Top.el IN
      IF Top.i > Len(prog[el].tags) THEN
         /\ stack' = SetTop([Top EXCEPT !.pc = "pop", !.failed = Top.failed \/ hookFailed[el]])
         /\ forced' = IF hookFailed[el] THEN [forced EXCEPT ![el] = "hook_error"] ELSE forced
         /\ U(<<rt, evlog, hookFailed>>)
      ELSE /\ rt' = RtHook(FALSE)
           /\ evlog' = Append(evlog, HookEv("after_tag", el, prog[el].tags[Top.i], Raises, 0, FALSE))
           /\ hookFailed' = IF Raises THEN [hookFailed EXCEPT ![el] = TRUE] ELSE hookFailed
           /\ stack' = SetTop([Top EXCEPT !.i = Top.i + 1]) /\ U(forced)
   /\ U(<<inputs, ret, stepst, shouldSkip, ctx, cap>>)
SPop ==     \* context._pop() with cleanups; contrib.scenario_autoretry: a failed attempt is followed by another run()
   /\ Top.fn = "scenario" /\ Top.pc = "pop"
   /\ IF KbdCl(CtxTop.cls) THEN ClUnwind ELSE
      /\ LET el == Top.el
             cls == CtxTop.cls
             clf == AnyRaises(cls)
             failed == Top.failed \/ clf IN
         /\ evlog' = evlog \o ClEvents(cls)
         /\ forced' = IF clf THEN [forced EXCEPT ![el] = "error"] ELSE forced
         /\ ctx' = CtxPop
         /\ IF cfg.retry /\ failed /\ Top.att < 2
            THEN /\ stack' = SetTop([Frame("scenario", el) EXCEPT !.att = Top.att + 1]) /\ U(ret)
            ELSE /\ ret' = failed /\ stack' = Pop
      /\ U(<<inputs, stepst, hookFailed, shouldSkip, rt, cap>>)

\* ======================================================================= Step.run (frame.el = scenario, frame.i = position)
Wip(el) == "wip" \in Eff(el)
IsNest(o) == o \in {"nest_pass", "nest_fail", "nest_error", "nest_pending", "nest_undef"}
Mark(t, el, k) == [t |-> t, el |-> el, pos |-> k]
\* a step or step hook writes marker m to stdout / stderr / logging: captured if that switch is on, else on the real stream
\* (a log record with log capture off reaches only the user's own handlers)
Wr(c, stream, m) == CASE stream = "out" -> IF cfg.cap_out THEN [c EXCEPT !.buf = Append(@, m)] ELSE [c EXCEPT !.rout = Append(@, m)]
                      [] stream = "err" -> IF cfg.cap_err THEN [c EXCEPT !.buf = Append(@, m)] ELSE [c EXCEPT !.rerr = Append(@, m)]
                      [] stream = "log" -> IF cfg.cap_log THEN [c EXCEPT !.buf = Append(@, m)] ELSE c
\* a log record of level lv on the logger named nm is kept by the capture handler iff it reaches the configured level
\* (--logging-level, default INFO = 20) and passes --logging-filter (RecordFilter: exact logger names; when any name is
\* excluded only the exclusions count, otherwise a non-empty include list admits only its members)
LogPass(lv, nm) == /\ lv >= cfg.loglvl
                   /\ IF cfg.logexc # <<>> THEN \A i \in DOMAIN cfg.logexc : cfg.logexc[i] # nm
                      ELSE cfg.loginc = <<>> \/ \E i \in DOMAIN cfg.loginc : cfg.loginc[i] = nm
\* the user's own root handler sees a record iff it is attached (with --logging-clear-handlers it is detached while a
\* scenario captures logging) and the record reaches the root level (the capture handler's level while capturing, else WARNING)
RootLvl == IF cfg.cap_log THEN cfg.loglvl ELSE IF cfg.setuplog # 0 THEN cfg.setuplog ELSE IF cfg.rootlvl0 THEN 0 ELSE 30      \* (rootlvl0: before_all sets the root level to NOTSET)
UserAttached == ~(cfg.cap_log /\ cfg.logclear)
WrLog(c, m, lv, nm) == LET c1 == IF cfg.cap_log /\ LogPass(lv, nm) THEN [c EXCEPT !.buf = Append(@, m)] ELSE c
                       IN IF UserAttached /\ lv >= RootLvl THEN [c1 EXCEPT !.ulog = Append(@, m)] ELSE c1
\* every step body prints O (stdout), E (stderr) and logs D (DEBUG, logger "verif"), L (WARNING, "verif"), G (ERROR, "other")
StepWrites(c, el, k) == WrLog(WrLog(WrLog(Wr(Wr(c, "out", Mark("O", el, k)), "err", Mark("E", el, k)),
                                          Mark("D", el, k), 10, "verif"), Mark("L", el, k), 30, "verif"), Mark("G", el, k), 40, "other")
StStart ==      \* find_match; undefined path; formatter.match
   /\ Top.fn = "step" /\ Top.pc = "enter"
   /\ LET el == Top.el  k == Top.i  s == Steps(el)[k] IN
      IF ~s.def THEN
          /\ rt' = [rt EXCEPT !.undefN = @ + 1]
          /\ stepst' = [stepst EXCEPT ![el][k] = "undefined"]
          /\ evlog' = evlog \o <<FmtEv("match", el, 0, "", TRUE), FmtEv("result", el, k, "undefined", FALSE)>>
          /\ ret' = FALSE /\ stack' = Pop
      ELSE
          /\ evlog' = Append(evlog, FmtEv("match", el, 0, "", FALSE))
          /\ stepst' = [stepst EXCEPT ![el][k] = "untested"]
          /\ stack' = SetTop([Top EXCEPT !.pc = "bhook", !.hf = FALSE]) /\ U(<<rt, ret>>)
   /\ cap' = [cap EXCEPT !.errmarks[Top.el][Top.i] = <<>>]          \* Step.reset(): error_message of an earlier run is dropped
   /\ U(<<inputs, forced, hookFailed, shouldSkip, ctx>>)
StBefore ==     \* start_capture; before_step hook
   /\ Top.fn = "step" /\ Top.pc = "bhook"
   /\ rt' = RtHook(FALSE)
   /\ evlog' = Append(evlog, HookEv("before_step", Top.el, "", Raises, Top.i, TRUE))
   /\ cap' = Wr(cap, "out", Mark("Hb", Top.el, Top.i))
   /\ stack' = SetTop([Top EXCEPT !.hf = Raises, !.pc = IF Raises THEN "ahook" ELSE "body"])
   /\ U(<<inputs, ret, model, ctx>>)
StBody ==       \* match.run: converter error, or the body with its outcome
   /\ Top.fn = "step" /\ Top.pc = "body"
   /\ LET el == Top.el  k == Top.i  s == Steps(el)[k]  o == IF Top.att = 1 THEN s.o ELSE s.o2
          lookupFails == s.cl_id # 0 /\ s.cl_layer # "" /\ ~HasLayer(s.cl_layer) IN
      IF o = "badarg" THEN
          /\ stepst' = [stepst EXCEPT ![el][k] = "error"] /\ U(<<evlog, rt, shouldSkip, ctx, cap>>)
      ELSE
          /\ evlog' = Append(evlog, StepEv(el, k, o))
          /\ cap' = StepWrites(cap, el, k)
          /\ ctx' = IF s.cl_id = 0 \/ lookupFails THEN ctx
                    ELSE LET idx == IF s.cl_layer = "" THEN Len(ctx) ELSE LayerIdx(s.cl_layer) IN
                         [ctx EXCEPT ![idx].cls = Append(@, [id |-> s.cl_id, raises |-> s.cl_raises])]
          /\ IF lookupFails THEN
                /\ stepst' = [stepst EXCEPT ![el][k] = "error"] /\ U(<<rt, shouldSkip>>)
             ELSE IF IsNest(o) THEN      \* the body calls context.execute_steps(): continues in the nested phase
                U(<<rt, shouldSkip, stepst>>)
             ELSE
                /\ rt' = [rt EXCEPT !.aborted = @ \/ o \in {"kbd", "abort"}]        \* ("abort": the body calls context.abort() and passes)
                \* "skip": the body calls scenario.skip(); "skip_fail": it does so and then fails an assertion (the step has failed)
                /\ shouldSkip' = IF o \in {"skip", "skip_fail"} THEN [shouldSkip EXCEPT ![el] = TRUE] ELSE shouldSkip
                /\ stepst' = IF o \in {"skip", "skip_fail"}
                             THEN [stepst EXCEPT ![el] = [j \in DOMAIN stepst[el] |-> IF j = k /\ o = "skip_fail" THEN "failed"
                                                                                     ELSE IF stepst[el][j] \in {"untested", "skipped"} THEN "skipped" ELSE stepst[el][j]]]
                             ELSE [stepst EXCEPT ![el][k] = CASE o \in {"pass", "abort"} -> "passed" [] o = "fail" -> "failed" [] o \in {"error", "kbd"} -> "error"
                                                                [] o = "pending" -> (IF Wip(el) THEN "pending_warn" ELSE "pending")]
   /\ LET s == Steps(Top.el)[Top.i]
          o == IF Top.att = 1 THEN s.o ELSE s.o2
          lookupFails == s.cl_id # 0 /\ s.cl_layer # "" /\ ~HasLayer(s.cl_layer) IN
      stack' = SetTop([Top EXCEPT !.pc = IF IsNest(o) /\ ~lookupFails THEN "nfind" ELSE "ahook"])
   /\ U(<<inputs, ret, forced, hookFailed>>)

\* ---- nested steps: context.execute_steps(u"Given sub ...") = Step.run(runner, quiet=True, capture=False) of the sub-step:
\* no formatter call-outs, no start/stop of capture, but before_step / after_step hooks and the undefined-step bookkeeping;
\* a sub-step that does not pass makes execute_steps raise AssertionError in the calling step (status failed)
SubOutcome(o) == CASE o = "nest_pass" -> "pass" [] o = "nest_fail" -> "fail" [] o = "nest_error" -> "error"
                   [] o = "nest_pending" -> "pending" [] OTHER -> "undef"
NOutcome == LET s == Steps(Top.el)[Top.i] IN IF Top.att = 1 THEN s.o ELSE s.o2
SubEv(el, pos, x) == Ev("sub", "", el, "", FALSE, pos, x, "", FALSE, 0, ~cfg.cap_out, ~cfg.cap_err)
AfterNestedEv(el, pos) == Ev("after_nested", "", el, "", FALSE, pos, "", "", FALSE, 0, ~cfg.cap_out, ~cfg.cap_err)
StNFind ==      \* find_match of the sub-step
   /\ Top.fn = "step" /\ Top.pc = "nfind"
   /\ IF SubOutcome(NOutcome) = "undef"
      THEN /\ rt' = [rt EXCEPT !.undefN = @ + 1]
           /\ stepst' = [stepst EXCEPT ![Top.el][Top.i] = "failed"]
           /\ stack' = SetTop([Top EXCEPT !.pc = "ahook"])
      ELSE /\ stack' = SetTop([Top EXCEPT !.pc = "nbhook"]) /\ U(<<rt, stepst>>)
   /\ U(<<inputs, ret, forced, hookFailed, shouldSkip, ctx, cap, evlog>>)
\* an interrupt raised by a hook of the sub-step leaves the sub-step and execute_steps() and arrives in the calling step's
\* body: that step is an error, the run is aborted (like the outcome kbd), its own after_step hook still runs
KbdInNested(name) ==
   /\ rt' = [rt EXCEPT !.hookN = @ + 1, !.aborted = TRUE]
   /\ evlog' = Append(evlog, HookEv(name, Top.el, "", TRUE, 0, TRUE))
   /\ stepst' = [stepst EXCEPT ![Top.el][Top.i] = "error"]
   /\ stack' = SetTop([Top EXCEPT !.pc = "ahook", !.sr = FALSE])
   /\ U(<<inputs, ret, forced, hookFailed, shouldSkip, ctx, cap>>)
StNBefore ==    \* before_step hook of the sub-step (hook events of sub-steps carry position 0)
   /\ Top.fn = "step" /\ Top.pc = "nbhook"
   /\ IF KbdNow THEN KbdInNested("before_step") ELSE
      /\ rt' = RtHook(FALSE)
      /\ evlog' = Append(evlog, HookEv("before_step", Top.el, "", Raises, 0, TRUE))
      /\ stack' = SetTop([Top EXCEPT !.sr = Raises, !.pc = IF Raises THEN "nahook" ELSE "nbody"])     \* sr: sub-step hook failed
      /\ U(<<inputs, ret, model, ctx, cap>>)
StNBody ==
   /\ Top.fn = "step" /\ Top.pc = "nbody"
   /\ evlog' = Append(evlog, SubEv(Top.el, Top.i, SubOutcome(NOutcome)))
   /\ cap' = Wr(cap, "out", Mark("N", Top.el, Top.i))
   /\ stack' = SetTop([Top EXCEPT !.pc = "nahook"])
   /\ U(<<inputs, ret, model, rt, ctx>>)
StNAfter ==     \* after_step hook of the sub-step; then the calling step goes on, or execute_steps raises AssertionError
   /\ Top.fn = "step" /\ Top.pc = "nahook"
   /\ IF KbdNow THEN KbdInNested("after_step") ELSE
      LET el == Top.el  k == Top.i  x == SubOutcome(NOutcome)
          subFailed == Top.sr \/ Raises \/ x \in {"fail", "error"} \/ (x = "pending" /\ ~Wip(el)) IN
      /\ rt' = RtHook(FALSE)
      /\ evlog' = Append(evlog, HookEv("after_step", el, "", Raises, 0, TRUE)) \o (IF subFailed THEN <<>> ELSE <<AfterNestedEv(el, k)>>)
      /\ cap' = IF subFailed THEN cap ELSE Wr(cap, "out", Mark("A", el, k))
      /\ stepst' = [stepst EXCEPT ![el][k] = IF subFailed THEN "failed" ELSE "passed"]
      /\ stack' = SetTop([Top EXCEPT !.pc = "ahook", !.sr = FALSE])
   /\ U(<<inputs, ret, forced, hookFailed, shouldSkip, ctx>>)
StAfter ==      \* after_step hook (unconditional); stop_capture
   /\ Top.fn = "step" /\ Top.pc = "ahook"
   /\ LET el == Top.el  k == Top.i IN
      /\ rt' = RtHook(FALSE)
      /\ evlog' = Append(evlog, HookEv("after_step", el, "", Raises, k, TRUE))
      /\ cap' = Wr(cap, "out", Mark("Ha", el, k))
      /\ LET hf == Top.hf \/ Raises IN
         stepst' = [stepst EXCEPT ![el][k] = IF hf THEN "hook_error" ELSE @]
      /\ stack' = SetTop([Top EXCEPT !.pc = "result"])
   /\ U(<<inputs, ret, forced, hookFailed, shouldSkip, ctx>>)
StResult ==     \* error_message with the captured report; formatter.result
   /\ Top.fn = "step" /\ Top.pc = "result"
   /\ LET el == Top.el  k == Top.i  st1 == stepst[el][k] IN
      /\ evlog' = Append(evlog, FmtEv("result", el, k, st1, FALSE))
      /\ cap' = IF HasFailed(st1) THEN [cap EXCEPT !.errmarks[el][k] = cap.buf] ELSE cap
      /\ ret' = ~HasFailed(st1) /\ stack' = Pop
   /\ U(<<inputs, model, rt, ctx>>)

\* ======================================================================= KeyboardInterrupt raised by a hook
\* the hook invocation the top frame is about to make (k = "" when it is not at a hook)
NoHook == [name |-> "", el |-> 0, tag |-> "", pos |-> 0, instep |-> FALSE]
HookAt(f) ==
   LET el == f.el
       tagsLeft == f.i <= Len(prog[el].tags)
       cname(b) == IF KindName(el) = "feature" THEN b \o "_feature" ELSE b \o "_rule" IN
   CASE f.fn = "container" /\ f.pc = "btag" /\ tagsLeft -> [NoHook EXCEPT !.name = "before_tag", !.el = el, !.tag = prog[el].tags[f.i]]
     [] f.fn = "container" /\ f.pc = "bhook" -> [NoHook EXCEPT !.name = cname("before"), !.el = el]
     [] f.fn = "container" /\ f.pc = "ahook" -> [NoHook EXCEPT !.name = cname("after"), !.el = el]
     [] f.fn = "container" /\ f.pc = "atag" /\ tagsLeft -> [NoHook EXCEPT !.name = "after_tag", !.el = el, !.tag = prog[el].tags[f.i]]
     [] f.fn = "scenario" /\ f.pc = "btag" /\ tagsLeft -> [NoHook EXCEPT !.name = "before_tag", !.el = el, !.tag = prog[el].tags[f.i]]
     [] f.fn = "scenario" /\ f.pc = "bhook" -> [NoHook EXCEPT !.name = "before_scenario", !.el = el]
     [] f.fn = "scenario" /\ f.pc = "ahook" -> [NoHook EXCEPT !.name = "after_scenario", !.el = el]
     [] f.fn = "scenario" /\ f.pc = "atag" /\ tagsLeft -> [NoHook EXCEPT !.name = "after_tag", !.el = el, !.tag = prog[el].tags[f.i]]
     [] f.fn = "step" /\ f.pc = "bhook"  -> [NoHook EXCEPT !.name = "before_step", !.el = el, !.pos = f.i, !.instep = TRUE]
     \* (the hooks of a nested sub-step run inside the calling step's body: an interrupt there is caught by the calling
     \*  step's own `except KeyboardInterrupt`, see StNBefore / StNAfter)
     [] f.fn = "step" /\ f.pc = "ahook"  -> [NoHook EXCEPT !.name = "after_step", !.el = el, !.pos = f.i, !.instep = TRUE]
     [] OTHER -> NoHook
AtKbdHook == Len(stack) > 1 /\ KbdNow /\ HookAt(Top).name # ""
\* run_model: `except KeyboardInterrupt: self.abort(..); failed_count += 1; run_feature = False`, then the reporters get the
\* feature.  Everything between the hook and run_model is abandoned as it is: no after hooks, no formatter call-outs, the
\* context layers of the open feature / rule / scenario stay on the context stack (their cleanups do not run), and from a
\* step hook the capture of that step stays installed (rt.stuck).  The hook is not counted as a hook failure, no element
\* is marked: the run fails because it is aborted
KbdUnwind ==
   /\ AtKbdHook
   /\ LET h == HookAt(Top)
          base == stack[1]
          fe == Features[base.i]
          stuckNow == rt.stuck \/ Top.fn = "step"
          rep == RepEv("feature", fe, StatusOf(fe)) IN
      /\ rt' = [rt EXCEPT !.hookN = @ + 1, !.aborted = TRUE, !.failedCount = @ + 1, !.runFeature = FALSE,
                          !.unwound = TRUE, !.stuck = stuckNow]
      /\ evlog' = evlog \o <<Adj(HookEv(h.name, h.el, h.tag, TRUE, h.pos, h.instep)),
                              IF stuckNow THEN [rep EXCEPT !.out_real = ~cfg.cap_out, !.err_real = ~cfg.cap_err] ELSE rep>>
      /\ stack' = << [base EXCEPT !.pc = "loop", !.i = base.i + 1] >>
      \* (a hook that registers a cleanup of its own has done so before the interrupt hits it)
      /\ ctx' = IF h.name \in {"before_feature", "before_rule", "before_scenario", "after_scenario"} THEN HookCl(ctx) ELSE ctx
   /\ U(<<inputs, ret, model, cap>>)

Next == IF AtKbdHook THEN KbdUnwind ELSE
        \/ BeforeAll \/ FeatureLoop \/ FeatureRet \/ AfterAll
        \/ CEnter \/ CBeforeTag \/ CBeforeHook \/ CAnnounce \/ CItems \/ CItemRet \/ CFinish \/ CAfterHook \/ CAfterTag \/ CPop
        \/ OEnter \/ ORows \/ ORowRet
        \/ SEnter \/ SBeforeTag \/ SBeforeHook \/ SAnnounce \/ SSteps \/ SStepRet \/ SFinish \/ SAfterHook \/ SAfterTag \/ SPop
        \/ StStart \/ StBefore \/ StBody \/ StNFind \/ StNBefore \/ StNBody \/ StNAfter \/ StAfter \/ StResult
Spec == Init /\ [][Next]_vars

\* ---------------------------------------------------------------- structural invariants (every intermediate state)
\* the context stack mirrors the open feature/rule/scenario frames; capture buffer only grows inside a scenario
CtxMirrorsStack ==
   LET open == SelectSeq(stack, LAMBDA f : f.fn \in {"container", "scenario"} /\ f.pc # "enter") IN
   rt.unwound \/ Len(ctx) = 1 + Len(open)
DoneMeansUnwound == rt.done => Len(stack) = 1 /\ (rt.unwound \/ Len(ctx) = 1)
=============================================================================
