INIT Init
NEXT Next
CONSTANTS
  Kinds <- AllKinds
  HistKinds <- AllKinds
  Defaults <- ParseOrRe
  RegTypes <- GivenWhenStep
  SingleTypes <- GivenStep
  FullRegs = 2
  MaxRegs = 5
  SampleMod <- ModThorough
  SampleModEnv <- ModEnvThorough
  BigLen = 3
INVARIANT NoAmbiguousPair
INVARIANT LookupFirstHit
INVARIANT TypeOrGeneric
INVARIANT AcceptedFindable
INVARIANT MatchIsLeftmostShortest
INVARIANT SpansDelimit
INVARIANT RenderShape
INVARIANT Emit
