"""C19 -- active tags exclude exactly by the documented per-category logic.

(S) specs/ActiveTags.tla   (MC) specs/ActiveTags_MC.tla   judge: specs/ActiveTags_Trace.tla
TLC enumerates every (tag multiset, current values) of the bound, proves that the grouped algorithm of the code
decides the definitional formula of the statement (and the parser / value object / composite / cache laws) and emits
every case.  The driver renders each abstract tag list (seeded order) under several matcher configurations (tag
schemas, custom prefixes and separator, dict / ActiveTagValueProvider / CompositeActiveTagValueProvider, value
objects, lazy callables, CompositeTagMatcher), calls the real should_exclude_with / should_run_with for all
combinations of current values and TLC judges the recorded rows with the definitional formula."""
import functools
import json
import logging
import operator
import os
import random

from vlib import trace

WORKERS = int(os.environ.get("VERIF_WORKERS") or 16)      # builders sharing the machine set VERIF_WORKERS=4
DEFAULT_PREFIXES = ["use", "not", "active", "not_active", "only"]      # index 1 and 3 are the negative ones


def chars(s):
    return list(s)


# ------------------------------------------------------------------------------------------------ category kinds
def _v(s="", n=0, b=False, st=()):
    return {"s": chars(s), "n": n, "b": b, "set": [chars(x) if isinstance(x, str) else x for x in st]}


class Kind(object):
    """How one known category is provided: value texts used in tags, the three current values, the provider entry."""

    def __init__(self, name, kind, op, vals, currents, wrap):
        self.name, self.kind, self.op, self.vals, self.currents, self.wrap = name, kind, op, vals, currents, wrap
        self.vo = wrap not in ("raw", "partial")
        # callable / partial / partial_vo / callobj_vo: the provider entry itself is a callable (a function, a
        # functools.partial, an object with __call__) that returns the current value -- or a value object -- when looked up
        self.lazy = "callable" if wrap in ("callable", "partial", "partial_vo", "callobj_vo") else "vo" if wrap.startswith("lazy") else "no"

    def spec(self, cur):
        if self.kind == "str":
            return _v(s=cur)
        if self.kind == "num":
            return _v(n=cur)
        if self.kind == "num2":                   # a current value that is no integer: the specification counts in halves
            return _v(n=int(round(cur * 2)))
        if self.kind == "numset":                 # NumberValueObject over a container of numbers (operator contains)
            return _v(st=list(cur))
        if self.kind == "bool":
            return _v(b=cur)
        return _v(st=cur)

    def entry(self, cell):
        """the object put into the value provider; cell = [current value]: lazy entries read it on every evaluation"""
        from behave.tag_matcher import ValueObject, NumberValueObject, BoolValueObject
        ops = {"eq": operator.eq, "ne": operator.ne, "ge": operator.ge, "le": operator.le, "contains": operator.contains}
        w = self.wrap
        if w == "raw":
            return cell[0]
        if w == "callable":                       # a plain callable as provider value: evaluated lazily
            return lambda: cell[0]
        if w == "partial":                        # ... the same as a functools.partial object
            return functools.partial(lambda c: c[0], cell)
        if w in ("partial_vo", "callobj_vo"):     # a callable that returns a VALUE OBJECT with its declared operator
            cls = NumberValueObject if self.kind in ("num", "num2", "numset") else BoolValueObject if self.kind == "bool" else ValueObject
            op = ops[self.op]
            if w == "partial_vo":
                return functools.partial(lambda c: cls(c[0], op), cell)

            class _Lazy(object):
                def __call__(self):
                    return cls(cell[0], op)
            return _Lazy()
        value = (lambda: cell[0]) if w.startswith("lazy") else cell[0]
        if self.kind in ("num", "num2", "numset"):
            return NumberValueObject(value, ops[self.op])
        if self.kind == "bool":
            return BoolValueObject(value, ops[self.op])
        return ValueObject(value, ops[self.op])


STR = Kind("str", "str", "eq", ["al", "bo"], ["al", "bo", "ch"], "raw")
STR2 = Kind("str2", "str", "eq", ["Safari", "chrome"], ["Safari", "chrome", "safari"], "raw")
STR_VO = Kind("str_vo", "str", "eq", ["al", "bo"], ["al", "bo", "ch"], "vo")
STR_LAZY = Kind("str_lazy", "str", "eq", ["al", "bo"], ["al", "bo", "ch"], "lazy")
STR_CALL = Kind("str_call", "str", "eq", ["al", "bo"], ["al", "bo", "ch"], "callable")
STR_NE = Kind("str_ne", "str", "ne", ["al", "bo"], ["al", "bo", "ch"], "vo")
NUM_EQ = Kind("num_eq", "num", "eq", ["10", "20"], [10, 15, 20], "vo")
NUM_GE = Kind("num_ge", "num", "ge", ["10", "20"], [10, 15, 20], "vo")
NUM_LE = Kind("num_le", "num", "le", ["10", "20"], [10, 15, 20], "lazy")
NUM_GE_BAD = Kind("num_ge_bad", "num", "ge", ["10", "2x"], [10, 15, 5], "vo")
NUM_LE_NEG = Kind("num_le_neg", "num", "le", ["-5", "010"], [-5, 0, 10], "vo")
NUM_EQ_BAD = Kind("num_eq_bad", "num", "eq", ["ten", "10"], [10, 0, 20], "vo")
NUM_GE_PARTIAL = Kind("num_ge_partial", "num", "ge", ["10", "20"], [10, 15, 20], "partial_vo")
BOOL_CALLOBJ = Kind("bool_callobj", "bool", "eq", ["yes", "no"], [True, False, True], "callobj_vo")
STR_PARTIAL = Kind("str_partial", "str", "eq", ["al", "bo"], ["al", "bo", "ch"], "partial")
NUM_GE_HALF = Kind("num_ge_half", "num2", "ge", ["10", "20"], [10.5, 9.5, 20.0], "vo")
NUM_LE_HALF = Kind("num_le_half", "num2", "le", ["10", "20"], [10.5, 19.5, 2.5], "lazy")
NUM_IN = Kind("num_in", "numset", "contains", ["10", "20"], [[10, 15], [10, 20], []], "vo")
BOOL = Kind("bool", "bool", "eq", ["yes", "no"], [True, False, True], "vo")
BOOL2 = Kind("bool2", "bool", "eq", ["True", "OFF"], [False, True, False], "lazy")
BOOL_BAD = Kind("bool_bad", "bool", "eq", ["on", "maybe"], [True, False, False], "vo")
SET = Kind("set", "set", "contains", ["VISA", "AMEX"], [["VISA", "MC"], ["VISA", "AMEX"], []], "vo")


# ------------------------------------------------------------------------------------------------ configurations
class Cfg(object):
    def __init__(self, name, k1=STR, k2=STR, prefixes=None, sep=None, cats=("os", "br.nm", "zz"), pk="dict",
                 mpk=(), mk="single", ign=None, judge=True, mem=(1, 1), nm=0, overlap=False, noprov=False):
        self.name, self.k1, self.k2 = name, k1, k2
        self.prefixes, self.sep, self.cats = prefixes, sep, list(cats)
        self.pk, self.mpk, self.mk, self.ign, self.judge = pk, list(mpk), mk, ign, judge
        self.mem, self.nm, self.overlap, self.noprov = mem, nm, overlap, noprov

    # effective schema
    def P(self):
        return self.prefixes or DEFAULT_PREFIXES

    def S(self):
        return self.sep or "="

    def kinds(self):
        return [] if self.noprov else [self.k1, self.k2]


CUSTOM = ["run", "not_run", "on", "not_on", "if"]
CONFIGS = [
    Cfg("base"),
    Cfg("custom_schema", prefixes=CUSTOM, sep=":", cats=("browser", "os.family.name", "nope")),
    Cfg("custom_sep", sep="==", k1=STR2, cats=("browser", "x_1", "un.known")),
    Cfg("atvp", pk="atvp", k2=STR_CALL),
    Cfg("comp", pk="comp", mpk=("dict", "dict"), mem=(1, 2), k1=STR_CALL, k2=STR_LAZY),
    Cfg("comp_plain", pk="comp", mpk=("dict", "dict", "dict"), mem=(3, 1)),
    Cfg("comp_atvp", pk="comp", mpk=("atvp", "dict", "atvp"), mem=(3, 1)),
    Cfg("comp_lazy", pk="comp", mpk=("dict", "dict"), mem=(2, 2), k1=STR_CALL, k2=BOOL2, cats=("browser", "py3", "zz")),
    Cfg("comp_atvp_lazyvo", pk="comp", mpk=("atvp", "atvp"), mem=(1, 2), k1=STR_LAZY, k2=NUM_LE, cats=("os", "temp.max", "zz")),
    Cfg("comp_atvp_callable", pk="comp", mpk=("dict", "atvp"), mem=(2, 1), k1=STR_CALL, k2=STR_LAZY),
    Cfg("vo_num_ge_le", k1=NUM_GE, k2=NUM_LE, cats=("temp.min_value", "temp.max_value", "temp.value")),
    # (through ActiveTagValueProvider, whose use_value() evaluates callables: the documented lazy path.  With a plain dict as
    #  provider the matcher wraps the callable itself into an eq value object -- see DESIGN 11.5, observed / not judged)
    Cfg("lazy_partial_vo", k1=NUM_GE_PARTIAL, k2=STR_PARTIAL, pk="atvp", cats=("cpus.min", "os", "zz")),
    Cfg("lazy_callobj_vo", k1=BOOL_CALLOBJ, k2=NUM_GE_PARTIAL, pk="atvp", cats=("py3", "cpus.min", "zz")),
    Cfg("vo_num_half", k1=NUM_GE_HALF, k2=NUM_LE_HALF, cats=("temp.min_value", "temp.max_value", "temp.value")),
    Cfg("vo_num_in_half", k1=NUM_IN, k2=NUM_GE_HALF, pk="atvp", cats=("port", "load", "zz")),
    Cfg("vo_num_bad_bool", k1=NUM_GE_BAD, k2=BOOL, cats=("level", "py3", "zz")),
    Cfg("vo_bool_bad_set", k1=BOOL_BAD, k2=SET, cats=("flag", "pay", "zz")),
    Cfg("vo_ne_lazy", k1=STR_NE, k2=STR_LAZY, sep=":"),
    Cfg("vo_numeq_bool2", k1=NUM_EQ_BAD, k2=BOOL2, pk="atvp", cats=("n", "b", "u")),
    Cfg("vo_neg_str", k1=NUM_LE_NEG, k2=STR_VO, pk="comp", mpk=("dict",), mem=(1, 1)),
    Cfg("vo_numeq_callable", k1=NUM_EQ, k2=STR_CALL),
    Cfg("composite2", mk="composite", nm=2, mem=(1, 2)),
    Cfg("composite3", mk="composite", nm=3, mem=(3, 1), k1=NUM_GE, k2=STR, prefixes=CUSTOM, sep=":"),
    Cfg("no_provider", noprov=True),
    # not judged (the statement is silent): recorded, compared with the algorithm model only
    Cfg("not_ignored", ign=False, judge=False),
    Cfg("comp_overlap", pk="comp", mpk=("dict", "dict"), mem=(1, 2), overlap=True, judge=False),
]
CFG = {c.name: c for c in CONFIGS}
WARM_ABS = [(0, 0, 0), (2, 2, 0), (0, 1, 1)]     # (prefix index, category index, value index): touches c1, unknown, c2


def value_text(cfg, cat, val):
    if cat == 2:
        return (cfg.k1.vals if not cfg.noprov else STR.vals)[0] if val == 0 else "other"
    k = (cfg.k1, cfg.k2)[cat]
    return k.vals[val]


def render(cfg, tag):
    """abstract pool tag -> concrete tag text under cfg"""
    P, sep = cfg.P(), cfg.S()
    if tag["k"] == "active":
        pre, cat, val = tag["pre"] - 1, tag["cat"] - 1, tag["val"] - 1
        return "%s.with_%s%s%s" % (P[pre], cfg.cats[cat], sep, value_text(cfg, cat, val))
    if cfg.name == "base":
        return "".join(tag["text"])
    t = "".join(tag["text"])
    c1, v1 = cfg.cats[0], value_text(cfg, 0, 0)
    return {"foo": "foo", "os": c1, "use.with_os": "%s.with_%s" % (P[0], c1),
            "Use.with_os=al": "%s.with_%s%s%s" % (P[0].title(), c1, sep, v1),
            "with_os=al": "with_%s%s%s" % (c1, sep, v1)}.get(t, t)


def extra_texts(cfg):
    """tag texts outside the TLC pool (trace validation only): further near-misses of the schema"""
    P, sep = cfg.P(), cfg.S()
    c1, c2, cu = cfg.cats
    v1, v2 = value_text(cfg, 0, 0), value_text(cfg, 0, 1)
    other = ":" if sep != ":" else "="
    out = ["x%s.with_%s%s%s" % (P[0], c1, sep, v2),              # prefix not at the start
           "%s.with_%s.%s%s" % (P[0], c1, sep, v2),              # category with a trailing dot
           "%s.with_%s%s" % (P[0], sep, v2),                     # empty category
           "%s_with_%s%s%s" % (P[1], c1, sep, v1),               # '_' instead of '.'
           "%s.with_%s%s%s" % (P[1], c1, other, v1),             # the other separator
           "%s.with_%s%s%s%sx" % (P[0], c1, sep, v1, sep),       # value containing the separator: matches nothing
           "%s.with_%s%s" % (P[3], c1, sep),                     # empty value
           "%s.With_%s%s%s" % (P[0], c1, sep, v2),               # '.With_'
           "%s.with_%s-x%s%s" % (P[0], c1, sep, v2),             # '-' in the category
           "@%s.with_%s%s%s" % (P[0], c1, sep, v2),              # leading '@'
           "%s.with_%s%s%s" % (P[4], c2, sep, value_text(cfg, 1, 1)),
           "%s.with_%s%s%s" % (P[2], cu, sep, v2)]
    if cfg.prefixes:                                             # a tag of the default schema is no active tag here
        out.append("use.with_%s=%s" % (c1, v2))
        out.append("not.with_%s%s%s" % (c1, sep, v1))
    return out


# ------------------------------------------------------------------------------------------------ the real code
def build(cfg, combo):
    """fresh provider(s) and matcher for one combination of current values; returns (matcher, members, value cells)"""
    from behave.tag_matcher import (ActiveTagMatcher, CompositeTagMatcher, ActiveTagValueProvider,
                                    CompositeActiveTagValueProvider)
    kw = {}
    if cfg.prefixes is not None:
        kw["tag_prefixes"] = list(cfg.prefixes)
    if cfg.sep is not None:
        kw["value_separator"] = cfg.sep
    if cfg.ign is not None:
        kw["ignore_unknown_categories"] = cfg.ign
    if cfg.noprov:
        return ActiveTagMatcher(None, **kw), [], []
    cells = [[cfg.k1.currents[combo[0] - 1]], [cfg.k2.currents[combo[1] - 1]]]
    ents = [(cfg.cats[0], cfg.k1.entry(cells[0]), cfg.mem[0]),
            (cfg.cats[1], cfg.k2.entry(cells[1]), cfg.mem[1])]
    if cfg.mk == "composite":
        members = [ActiveTagMatcher(dict((n, e) for n, e, m in ents if m == k), **kw) for k in range(1, cfg.nm + 1)]
        return CompositeTagMatcher(members), members, cells
    if cfg.pk == "dict":
        prov = dict((n, e) for n, e, m in ents)
    elif cfg.pk == "atvp":
        prov = ActiveTagValueProvider(dict((n, e) for n, e, m in ents))
    else:
        mems = []
        for k, mpk in enumerate(cfg.mpk, 1):
            d = dict((n, e) for n, e, m in ents if m == k)
            if cfg.overlap and k == 2:
                d[cfg.cats[0]] = cfg.k1.entry([cfg.k1.currents[combo[0] % 3]])    # a later member disagrees on c1
            mems.append(d if mpk == "dict" else ActiveTagValueProvider(d))
        prov = CompositeActiveTagValueProvider(mems)
    return ActiveTagMatcher(prov, **kw), [], cells


POKES = ["get", "get_none", "get_text", "get_unknown", "print"]


def poke(providers, names, how):
    """plain lookups on the value provider objects, as environment files and user code do them (get with several
    defaults, print_active_tags): a lookup must never change what the provider knows"""
    import contextlib
    import io
    from behave._types import Unknown
    from behave.tag_matcher import print_active_tags
    for prov in providers:
        if prov is None:
            continue
        for name in names:
            if how == "get":
                prov.get(name)
            elif how == "get_none":
                prov.get(name, None)
            elif how == "get_text":
                prov.get(name, "c19-default")
            elif how == "get_unknown":
                prov.get(name, Unknown)
        if how == "print":
            with contextlib.redirect_stdout(io.StringIO()):
                print_active_tags(prov, list(names))


def observe(rid, cfg, tags):
    """one row: all combinations of current values for one concrete tag list under one configuration"""
    P = cfg.P()
    kinds = cfg.kinds()
    combos = [[a, b] for a in (1, 2, 3) for b in (1, 2, 3)] if kinds else [[]]
    cats = []
    for idx, k in enumerate(kinds):
        cats.append({"name": chars(cfg.cats[idx]), "kind": k.kind, "op": k.op, "vo": bool(k.vo), "lazy": k.lazy,
                     "mem": cfg.mem[idx], "ch": [k.spec(c) for c in k.currents]})
    if cfg.overlap:   # the disagreeing entry of member 2 (only the algorithm model looks at it)
        k = cfg.k1
        cats.append({"name": chars(cfg.cats[0]), "kind": k.kind, "op": k.op, "vo": bool(k.vo), "lazy": "no", "mem": 2,
                     "ch": [k.spec(k.currents[c % 3]) for c in (1, 2, 3)]})
        combos = [[a, b, a] for a, b in combos]
    # phase 2: every lazy entry returns its next value, everything else keeps its value
    combos2 = [[(c % 3) + 1 if k < len(kinds) and kinds[k].lazy != "no" else c for k, c in enumerate(combo)] for combo in combos]
    warm = ["%s.with_%s%s%s" % (P[p], cfg.cats[c], cfg.S(), value_text(cfg, c, v)) for p, c, v in
            ([(0, 2, 0)] if cfg.noprov else WARM_ABS)]
    row = {"id": rid, "cfg": cfg.name, "P": [chars(p) for p in P], "N": [chars(P[1]), chars(P[3])], "sep": chars(cfg.S()),
           "tags": [chars(t) for t in tags], "warm": [chars(t) for t in warm], "pk": cfg.pk, "mpk": list(cfg.mpk),
           "mk": cfg.mk, "nm": cfg.nm, "ign": cfg.ign is not False, "judge": bool(cfg.judge), "cats": cats, "combos": combos,
           "combos2": combos2, "ex": [], "run": [], "ex2": [], "mex": [], "exc": [], "ex3": [], "run3": [], "mex3": [],
           "ex4": [], "run4": [], "mex4": []}
    # phase 3: plain lookups (known and unknown categories) on the same provider objects, then the decisions again;
    # every second row also starts with these lookups, on the fresh provider, before the first decision
    how = POKES[rid % len(POKES)]
    pnames = [cfg.cats[0], cfg.cats[2], cfg.cats[1]]
    row["poke"] = how
    row["pokes"] = [chars(n) for n in pnames]
    row["pre"] = (rid // len(POKES)) % 2 == 0
    for combo, combo2 in zip(combos, combos2):
        ex = run = ex2 = ex3 = run3 = ex4 = run4 = False
        mex, mex3, mex4 = [], [], []
        exc = ""
        try:
            m, members, cells = build(cfg, combo)
            provs = [getattr(x, "value_provider", None) for x in (members or [m])]
            if row["pre"]:
                poke(provs, pnames, how)
            ex = bool(m.should_exclude_with(list(tags)))
            run = bool(m.should_run_with(list(tags)))
            mex = [bool(x.should_exclude_with(list(tags))) for x in members]
            m.should_exclude_with(list(warm))
            ex2 = bool(m.should_exclude_with(list(tags)))
            for k, cell in enumerate(cells):                     # the lazy values change; same matcher, same providers
                if kinds[k].lazy != "no":
                    cell[0] = kinds[k].currents[combo2[k] - 1]
            ex3 = bool(m.should_exclude_with(list(tags)))
            run3 = bool(m.should_run_with(list(tags)))
            mex3 = [bool(x.should_exclude_with(list(tags))) for x in members]
            poke(provs, pnames, how)
            ex4 = bool(m.should_exclude_with(list(tags)))
            run4 = bool(m.should_run_with(list(tags)))
            mex4 = [bool(x.should_exclude_with(list(tags))) for x in members]
        except Exception as e:                                   # recorded, judged by the clauses (R4)
            exc = type(e).__name__
            mex = [False] * cfg.nm
            mex3 = [False] * cfg.nm
            mex4 = [False] * cfg.nm
        row["ex"].append(ex); row["run"].append(run); row["ex2"].append(ex2); row["mex"].append(mex); row["exc"].append(exc)
        row["ex3"].append(ex3); row["run3"].append(run3); row["mex3"].append(mex3)
        row["ex4"].append(ex4); row["run4"].append(run4); row["mex4"].append(mex4)
    return row


def observe_python_provider(rid, rnd, tags=None, comp=None):
    """behave.active_tag.python / python_feature: the value providers shipped with behave, with their real values"""
    from behave.active_tag.python import ACTIVE_TAG_VALUE_PROVIDER as PY
    from behave.active_tag.python_feature import ACTIVE_TAG_VALUE_PROVIDER as PYF
    from behave.tag_matcher import ActiveTagMatcher, CompositeActiveTagValueProvider
    names = [("python.version", "str", "eq"), ("python.min_version", "ver", "ge"), ("python.max_version", "ver", "le"),
             ("python3", "bool", "eq"), ("python2", "bool", "eq"), ("python.feature.coroutine", "bool", "eq")]
    if comp is None:
        comp = rid % 2 == 0
    cats = []
    for name, kind, op in names:
        obj = PY.get(name, PYF.get(name))
        cur = getattr(obj, "value", obj)
        sp = _v(s=cur) if kind == "str" else _v(b=bool(cur)) if kind == "bool" else _v(st=[int(x) for x in cur])
        cats.append({"name": chars(name), "kind": kind, "op": op, "vo": kind != "str", "lazy": "no",
                     "mem": 2 if (comp and name not in PY) else 1, "ch": [sp]})
    if tags is None:
        vers = ["%d.%d" % PY["python.min_version"].value, "2.7", "3.0", "3.99", "3", "4", "3.x", "", "3.5.1"]
        bools = ["yes", "no", "true", "False", "maybe"]
        tags = []
        for _ in range(rnd.choice([1, 2, 2, 3, 3, 4])):
            name, kind, op = rnd.choice(names + [("python.unknown", "str", "eq")])
            tags.append("%s.with_%s=%s" % (rnd.choice(DEFAULT_PREFIXES), name, rnd.choice(bools if kind == "bool" else vers)))
    row = {"id": rid, "cfg": "python_provider", "P": [chars(p) for p in DEFAULT_PREFIXES], "N": [chars("not"), chars("not_active")],
           "sep": ["="], "tags": [chars(t) for t in tags], "warm": [chars("use.with_python3=yes")],
           "pk": "comp" if comp else "dict", "mpk": ["dict", "dict"] if comp else [], "mk": "single", "nm": 0, "ign": True,
           "judge": True, "cats": cats, "combos": [[1] * len(cats)], "combos2": [[1] * len(cats)], "ex": [], "run": [], "ex2": [],
           "mex": [[]], "exc": [], "ex3": [], "run3": [], "mex3": [[]], "ex4": [], "run4": [], "mex4": [[]],
           "poke": POKES[rid % len(POKES)], "pokes": [chars("python3"), chars("python.unknown")], "pre": False}
    ex = run = ex2 = ex3 = run3 = ex4 = run4 = False
    exc = ""
    try:
        merged = dict(PY)
        merged.update(PYF)
        m = ActiveTagMatcher(CompositeActiveTagValueProvider([PY, PYF]) if comp else merged)
        ex = bool(m.should_exclude_with(list(tags)))
        run = bool(m.should_run_with(list(tags)))
        m.should_exclude_with(["use.with_python3=yes"])
        ex2 = bool(m.should_exclude_with(list(tags)))
        ex3 = bool(m.should_exclude_with(list(tags)))
        run3 = bool(m.should_run_with(list(tags)))
        poke([m.value_provider], ["python3", "python.unknown"], row["poke"])
        ex4 = bool(m.should_exclude_with(list(tags)))
        run4 = bool(m.should_run_with(list(tags)))
    except Exception as e:
        exc = type(e).__name__
    row["ex"], row["run"], row["ex2"], row["exc"], row["ex3"], row["run3"] = [ex], [run], [ex2], [exc], [ex3], [run3]
    row["ex4"], row["run4"] = [ex4], [run4]
    return row, tags


# ------------------------------------------------------------------------------------------------ judging
def model_env():
    """selects the variant of the algorithm model (informational conformance only, never a verdict): does a provider
    class of behave hand out a missing category as a value?  Probed through the public API."""
    from behave.tag_matcher import ActiveTagMatcher, ActiveTagValueProvider
    try:
        called = bool(ActiveTagMatcher(ActiveTagValueProvider({})).should_exclude_with(["use.with_c19probe=1"]))
    except Exception:
        called = True
    from behave.tag_matcher import CompositeActiveTagValueProvider
    cell = ["a"]
    try:      # does a composite provider freeze the plain callable held by an ActiveTagValueProvider member?
        m = ActiveTagMatcher(CompositeActiveTagValueProvider([ActiveTagValueProvider({"c19probe": lambda: cell[0]})]))
        m.should_exclude_with(["use.with_c19probe=a"])
        cell[0] = "b"
        freezes = not m.should_exclude_with(["use.with_c19probe=a"])
    except Exception:
        freezes = True
    return {"C19_UNKNOWN_CALLED": "1" if called else "0", "C19_ATVP_FREEZES": "1" if freezes else "0"}


def judge_and_report(chk, rows, meta, chunks):
    n0 = len(chk.tlc_runs)
    verdicts = trace.judge_rows(chk, "ActiveTags_Trace", rows, chunks=chunks, min_chunk=200, env=model_env())
    for _, _, r in chk.tlc_runs[n0:]:
        chk.divergences += len(r.by_tag("DIVERGE"))
    byid = {row["id"]: row for row in rows}
    for rid, vs in sorted(verdicts.items()):
        row, m = byid[rid], meta[rid]
        for v in vs:
            clause, j, what, phase = v[2], v[3], v[4], v[5]
            if phase == 2:
                what += "@changed"
            elif phase == 3:
                what += "@looked_up"
            elif row.get("pre") and clause != "C19.run_is_negation":
                what += "@after_lookup"
            pk = row["pk"] + (":" + "+".join(row["mpk"]) if row["pk"] == "comp" else "")
            sig = "%s|%s|pk=%s|mk=%s" % (clause, what, pk, row["mk"])
            if clause == "C19.value_objects":
                sig += "|vo=" + "+".join(sorted({"%s:%s" % (c["kind"], c["op"]) for c in row["cats"] if c["vo"]}))
            combo = row["combos2" if phase >= 2 else "combos"][j - 1]
            cur = {"".join(c["name"]) + ("#%d" % c["mem"] if row["cfg"] == "comp_overlap" else ""): _show(c, c["ch"][combo[k] - 1])
                   for k, c in enumerate(row["cats"])}
            detail = ("tags=%s current=%s cfg=%s(provider=%s,matcher=%s) observed exclude=%s run=%s again=%s members=%s exc=%r; "
                      "after the lazy values changed to index %s: exclude=%s run=%s members=%s; plain lookups (%s of %s, also before the "
                      "first call: %s) then: exclude=%s run=%s members=%s") % (
                json.dumps(m["tags"]), json.dumps(cur, sort_keys=True), row["cfg"], row["pk"], row["mk"], row["ex"][j - 1],
                row["run"][j - 1], row["ex2"][j - 1], row["mex"][j - 1], row["exc"][j - 1], row["combos2"][j - 1],
                row["ex3"][j - 1], row["run3"][j - 1], row["mex3"][j - 1], row["poke"], ["".join(x) for x in row["pokes"]],
                row["pre"], row["ex4"][j - 1], row["run4"][j - 1], row["mex4"][j - 1])
            chk.violation(clause, sig, detail, {"cfg": row["cfg"], "tags": m["tags"], "comp": row["pk"] == "comp", "rid": row["id"]})
    return verdicts


def _show(cat, sp):
    k = cat["kind"]
    v = "".join(sp["s"]) if k == "str" else sp["n"] if k == "num" else sp["b"] if k == "bool" else \
        ["".join(x) if isinstance(x, list) else x for x in sp["set"]]
    return "%s:%s %r" % (k, cat["op"], v)


def silence_logging():
    lg = logging.getLogger("behave.active_tags")       # on_type_conversion_error logs every malformed value
    lg.addHandler(logging.NullHandler())
    lg.propagate = False
    lg.disabled = True


def run(chk):
    silence_logging()
    rnd = random.Random(chk.seed)
    quick = chk.quick()
    cfgfile = "ActiveTags_MC_quick.cfg" if quick else "ActiveTags_MC_thorough.cfg"
    workers = WORKERS
    r = chk.tlc("ActiveTags_MC", cfgfile, timeout=800, workers=workers, env=model_env())
    for name in r.violated:
        chk.violation("C19.design." + name, "design:%s" % name, "TLC: invariant %s violated in ActiveTags_MC (%s)" % (name, cfgfile))
    pool_t = r.by_tag("POOL")
    pool = json.loads(pool_t[0][1])["pool"] if pool_t else []
    # soft design law: provider classes answer like a plain dict
    soft = {}
    for t in r.by_tag("DESIGN"):
        soft.setdefault((t[1], t[2]), []).append(t)
    for (law, pk), ts in sorted(soft.items()):
        idx, c1, c2 = ts[0][3], ts[0][4], ts[0][5]
        every_has_upos = all(any(pool[i - 1]["k"] == "active" and pool[i - 1]["cat"] == 3 and pool[i - 1]["pre"] in (1, 3, 5)
                                 for i in t[3]) for t in ts)
        # informational: the verdict on the real code comes from the trace clauses (C19.unknown_category ...)
        chk.note("design law %s: the model of provider '%s' answers unlike a plain dict in %d (tag list, values) states "
                 "(%s), e.g. tags=%s values=%s" % (law, pk, len(ts), "all contain a positive tag of an unknown category"
                 if every_has_upos else "mixed", json.dumps(["".join(pool[i - 1]["text"]) for i in idx]), [c1, c2]))
        chk.extra.setdefault("soft_design_laws", {})["%s|%s" % (law, pk)] = len(ts)
    cases = {}
    for t in r.by_tag("CASE"):
        c = json.loads(t[1])
        cases.setdefault(tuple(c["t"]), {})[tuple(c["v"])] = c
    if not pool or not cases or any(len(v) != 9 for v in cases.values()):
        raise RuntimeError("ActiveTags_MC emitted no pool / incomplete cases")
    chk.exhaustive = True
    rows, meta = [], {}
    rid = 0
    rot = CONFIGS[1:]
    pred_of = {"base": 0, "atvp": 1, "comp": 2, "comp_plain": 2}
    for n, key in enumerate(sorted(cases)):
        abstract = [pool[i - 1] for i in key]
        order = list(range(len(abstract)))
        for cfg in (CONFIGS[0], rot[n % len(rot)]):
            rnd.shuffle(order)
            tags = [render(cfg, abstract[i]) for i in order]
            rid += 1
            row = observe(rid, cfg, tags)
            rows.append(row)
            meta[rid] = {"tags": tags, "abstract": list(key)}
            if cfg.name in pred_of:       # prediction emitted by the model checker vs observation (informational)
                k = pred_of[cfg.name]
                for j, combo in enumerate(row["combos"]):
                    if row["exc"][j] or cases[key][tuple(combo)]["ex"][k] != row["ex"][j]:
                        chk.divergences += 1
    # beyond the TLC bound: longer lists and near-miss texts, seeded
    n_extra = 1500 if quick else 12000
    for _ in range(n_extra):
        cfg = rnd.choice(CONFIGS)
        texts = [render(cfg, t) for t in pool] + extra_texts(cfg)
        tags = [rnd.choice(texts) for _ in range(rnd.choice([1, 2, 3, 4, 5, 6, 8]))]
        rid += 1
        rows.append(observe(rid, cfg, tags))
        meta[rid] = {"tags": tags}
    for _ in range(400 if quick else 3000):
        rid += 1
        row, tags = observe_python_provider(rid, rnd)
        rows.append(row)
        meta[rid] = {"tags": tags}
    judge_and_report(chk, rows, meta, chunks=WORKERS)
    chk.impl_traces = sum(len(row["combos"]) for row in rows)
    chk.evaluations = chk.impl_traces * 8
    for row in (rows[len(rows) // 5], rows[len(rows) // 3 + 1], rows[-1]):
        chk.sample({"cfg": row["cfg"], "tags": meta[row["id"]]["tags"], "exclude_per_value_combination": row["ex"]})
    chk.rule = ("every multiset of <= %d tags of the 30-tag pool (5 prefixes x (2 known categories x 2 values + 1 unknown "
                "category) + 2 ordinary + 3 malformed) x 3 x 3 current values (TLC, exhaustive); each list is replayed in "
                "seeded order under the base configuration and one of %d rotating configurations, all 9 value combinations "
                "each; plus seeded longer lists / near-miss texts and the value providers shipped with behave; distinct = "
                "distinct (configuration, tag list) rows") % (3 if quick else 4, len(rot))
    chk.extra["distinct_nontrivial"] = len({(row["cfg"], json.dumps(row["tags"])) for row in rows})
    chk.extra["tag_lists"] = len(cases)
    chk.extra["rows"] = len(rows)
    chk.extra["configurations"] = [c.name for c in CONFIGS] + ["python_provider"]
    chk.assumptions = [
        "negative custom prefixes start with 'not' (the statement names only not./not_active.; the code decides by startswith('not'))",
        "value separators are '=', ':' or '==' (the separator is inserted into the regex unescaped)",
        "integer tag values are written as optional '-' and decimal digits, or are clearly malformed (no '+5', ' 5', '1_0')",
        "ignore_unknown_categories=False and composite providers whose members disagree on a category are recorded "
        "but not judged (the statement is silent); they are compared with the algorithm model only (divergences)",
    ]


def replay(chk, payload):
    silence_logging()
    p = payload["replay"]
    if p["cfg"] == "python_provider":
        row, _ = observe_python_provider(int(p.get("rid") or 1), random.Random(0), tags=list(p["tags"]), comp=bool(p.get("comp")))
        row["id"] = 1
    else:
        row = observe(int(p.get("rid") or 1), CFG[p["cfg"]], list(p["tags"]))       # rid selects the lookup variant
        row["id"] = 1
    judge_and_report(chk, [row], {1: {"tags": list(p["tags"])}}, chunks=1)
    chk.impl_traces = len(row["combos"])
    chk.sample({"replayed": p, "exclude_per_value_combination": row["ex"]})
