INIT Init
NEXT Next
CONSTANTS
  MaxOwn = 3
  MaxScen = 2
  OtherModes = {"none"}
  EmitMod = 41
INVARIANT ClausesHold
INVARIANT RepairedHolds
INVARIANT KFNarrow
INVARIANT Emit
