#!/bin/sh
# tools/seedeval.sh <result dir> <seed id>...   -- evaluates each seeded change (tools/seedtest.py) with its property's
# quick check, one after the other; JSON outputs in <result dir>/<seed id>.json.  SEED_SKIP_TESTS=1 skips the pinned suite.
out=$1; shift
mkdir -p "$out"
here=$(dirname "$(dirname "$(readlink -f "$0")")")
for s in "$@"; do
  id=${s%-*}
  "$here/tools/seedtest.py" "$here/seeded/$s" "$id" > "$out/$s.json" 2>&1
  echo "evaluated $s" >> "$out/progress.log"
done
