#!/venv/bin/python
"""Regenerates MANIFEST.json from the table below (single source of truth for what is claimed)."""
import json
import os

HERE = os.path.dirname(os.path.dirname(os.path.abspath(__file__)))

CLAIMED = {
    "C07": dict(
        text="TLC enumerates every expression tree of the bound (quick: depth<=2 over 4 operands, 652 trees; thorough: 8 operands incl. "
             "character classes) and proves on the complete truth table (2^6 tag subsets) that the transcribed normalisation + tokenizer + "
             "shunting yard + operand factory parse every rendering back to the rendered formula, that print/parse is meaning preserving and "
             "that {config.tags} substitution acts as sub-formula substitution; every rendering and text-level variant is then run through the "
             "real make_tag_expression()/Configuration and the recorded truth tables, str()/to_string() texts and re-parses are judged by TLC "
             "against the specification's own parse of the very same text.",
        design_ref="DESIGN.md §7 C07",
        note="Bounded: operand pool and tree depth as stated in evidence; third-party cucumber_tag_expressions is observed, not modelled beyond its algorithm; "
             "only blanks as whitespace.",
        technique="TLA+ spec (TagExpr.tla) model-checked with TLC + TLC-judged traces of the real parser on TLC-generated renderings",
    ),
    "C20": dict(
        text="TLC proves on the layering state machine of Config.tla (Default < File_1..n < CmdLine, mode post-processing, path joining, format/outfiles "
             "coupling) that the stored value is the documented precedence for every option kind, and the -D parse laws on ALL strings up to the "
             "bound over {letter,=,blank,quotes}; every case is rendered into real config files (behave.ini, .behaverc, setup.cfg, tox.ini, "
             "pyproject.toml, cwd and HOME) and argv for every option of behave's real OPTIONS schema, Configuration() is constructed for real and "
             "the recorded attributes / getter results are judged by TLC.",
        design_ref="DESIGN.md §7 C20",
        note="Bounded as stated in the evidence; list merging of append options, file-vs-file precedence and options forced by a mode switch are "
             "recorded but not judged (the statement is silent); defaults are the documented ones.",
        technique="TLA+ spec (Config.tla) model-checked with TLC + TLC-judged traces of the real Configuration on TLC-generated cases",
    ),
    'C01': {'design_ref': 'DESIGN.md §7 C01',
 'note': "Bounded: program families, configurations and fault sets as stated in the evidence (quick: ~5k runs, thorough: full product); the driver's generated "
         'hooks/steps/formatter/reporter are the only instrumentation (public extension points); third-party parse/cucumber code is observed, not modelled.',
 'technique': 'TLA+ small-step spec of the run engine (Run.tla) + property clauses (Props_Run.tla) model-checked with TLC on every (program, cfg, fault set); '
              'the same clauses judge TLC-validated traces of the real ModelRunner on exactly those inputs',
 'text': 'TLC explores Run.tla (explicit call stack of run_model/feature/rule/outline/scenario/step frames, failed_count propagation, hook_failures, undefined '
         'steps, cleanups, abort) for every program of the bounded families x configuration x hook fault set and shows `verdict <=> something went wrong` '
         '(wrong derived from source events only) at the end of every behaviour; each explored input is then run on the real ModelRunner, the recorded event '
         'stream is judged by TLC with the same clauses (C01.false_green / false_red / crash), and full conformance of the observed event log with the '
         "specification's prediction is measured."},
    'C02': {'design_ref': 'DESIGN.md §7 C02',
 'note': "Bounded: program families, configurations and fault sets as stated in the evidence (quick: ~5k runs, thorough: full product); the driver's generated "
         'hooks/steps/formatter/reporter are the only instrumentation (public extension points); third-party parse/cucumber code is observed, not modelled.',
 'technique': 'TLA+ small-step spec of the run engine (Run.tla) + property clauses (Props_Run.tla) model-checked with TLC on every (program, cfg, fault set); '
              'the same clauses judge TLC-validated traces of the real ModelRunner on exactly those inputs',
 'text': 'Clauses C02.order / map / stop / rest / skip_stops / dry / own_function (the function that runs is one registered for the step`s own type: all five keywords, one function per step type; scenarios whose steps compare equal) are invariants of Run.tla over the exhaustive `scen` family (every first-non-pass position x outcome x '
         'background levels x plain/row x wip x dry x continue) and judged on the traces of the real runner: step functions identify themselves by their own '
         'text, statuses are compared with the abstract outcome each step function realised.'},
    'C03': {'design_ref': 'DESIGN.md §7 C03',
 'note': "Bounded: program families, configurations and fault sets as stated in the evidence (quick: ~5k runs, thorough: full product); the driver's generated "
         'hooks/steps/formatter/reporter are the only instrumentation (public extension points); third-party parse/cucumber code is observed, not modelled.',
 'technique': 'TLA+ small-step spec of the run engine (Run.tla) + property clauses (Props_Run.tla) model-checked with TLC on every (program, cfg, fault set); '
              'the same clauses judge TLC-validated traces of the real ModelRunner on exactly those inputs',
 'text': '(a) Status.tla: the status predicates and the three compute_status transcriptions are checked by TLC against the documented relation on ALL '
         'child-status tuples up to length 3/4 over all 16 enum members, and real Scenario/Feature/Rule/ScenarioOutline objects are driven through every tuple '
         'and judged; (b) C03.rollup judges every container of every real run (incl. stop/abort remainders, never-started features, de-selection, hook and '
         'cleanup errors) against the documented relation, also as invariant of Run.tla.'},
    'C09': {'design_ref': 'DESIGN.md §7 C09',
 'note': "Bounded: program families, configurations and fault sets as stated in the evidence (quick: ~5k runs, thorough: full product); the driver's generated "
         'hooks/steps/formatter/reporter are the only instrumentation (public extension points); third-party parse/cucumber code is observed, not modelled.',
 'technique': 'TLA+ small-step spec of the run engine (Run.tla) + property clauses (Props_Run.tla) model-checked with TLC on every (program, cfg, fault set); '
              'the same clauses judge TLC-validated traces of the real ModelRunner on exactly those inputs',
 'text': 'Tag selection is decided inside TLA+ (effective tags from parent pointers, expression node table): clauses C09.effective / exec_only_selected / '
         'selected_runs / unselected_skipped / container_skipped / container_not_skipped hold on every behaviour of Run.tla and on the traces of the real '
         'runner for tags at all five levels, 10 expressions in both dialects incl. wildcard, show_skipped and dry-run.'},
    'C12': {'design_ref': 'DESIGN.md §7 C12',
 'note': "Bounded: program families, configurations and fault sets as stated in the evidence (quick: ~5k runs, thorough: full product); the driver's generated "
         'hooks/steps/formatter/reporter are the only instrumentation (public extension points); third-party parse/cucumber code is observed, not modelled.',
 'technique': 'TLA+ small-step spec of the run engine (Run.tla) + property clauses (Props_Run.tla) model-checked with TLC on every (program, cfg, fault set); '
              'the same clauses judge TLC-validated traces of the real ModelRunner on exactly those inputs',
 'text': "EVERY hook invocation of the fault-free run is an injection point (plus pairs): Run.tla models run_hook's containment and attribution; clauses "
         'C12.nesting (bracket discipline incl. tag hooks), after_paired, contained, marks_element, run_fails, body_suppressed, before_all_aborts, '
         'not_for_skipped, not_in_dry_run are TLC invariants over all fault positions and judge the traces of the real runner with the fault injected at the '
         'same position.'},
    'C18': {'design_ref': 'DESIGN.md §7 C18',
 'note': "Bounded: program families, configurations and fault sets as stated in the evidence (quick: ~5k runs, thorough: full product); the driver's generated "
         'hooks/steps/formatter/reporter are the only instrumentation (public extension points); third-party parse/cucumber code is observed, not modelled.',
 'technique': 'TLA+ small-step spec of the run engine (Run.tla) + property clauses (Props_Run.tla) model-checked with TLC on every (program, cfg, fault set); '
              'the same clauses judge TLC-validated traces of the real ModelRunner on exactly those inputs',
 'text': 'Run.tla models the per-scenario capture buffer and the real streams per switch; clauses C18.restored / no_leak / passthrough / report_exact / '
         'pass_silent / logging_restored hold on every behaviour and are judged on real runs whose steps and step hooks print unique markers to stdout, stderr '
         'and logging under all 8 switch combinations, with outcomes incl. KeyboardInterrupt and hook errors; --logging-level / --logging-filter '
         '(LogPass), --logging-clear-handlers and the user own root handler (ulog), a root level changed by before_all, >1000 records, --wip, '
         'steps that leave replaced streams behind and nested execute_steps are modelled and driven as well.'},
    'C06': {'design_ref': 'DESIGN.md §7 C06',
 'note': 'Bounded as in the evidence; cells with angle brackets, unknown placeholders in tags and tag-unsafe cell values are outside the judged domain '
         '(statement silent).',
 'technique': 'TLA+ spec (Outline.tla) model-checked with TLC + TLC-judged traces of the real parser/ScenarioOutline on TLC-generated outlines',
 'text': "Outline.tla puts the code's sequential per-column replace, make_row_tags, annotation schema and the _scenarios/modified cache machine next to the "
         'definitional simultaneous substitution; TLC proves them equal on every outline of the bound (2 blocks x 2 rows x 2 columns in both orders, 4 cell '
         "values incl. the other column's name, placeholders at every position class) and over Access/AddRow/AddColumn histories; every case is rendered to "
         'feature text, parsed and expanded by the real code, snapshotted before/after, and judged by TLC against the definition.'},
    'C08': {'design_ref': 'DESIGN.md §7 C08',
 'note': 'v1 tag names exclude v2 keywords, wildcard and separator characters; two known findings (`a:3`, escaped blank) are listed in known_findings.json.',
 'technique': 'TLA+ spec (TagExprV1.tla) model-checked with TLC + TLC-judged traces of the real parser on TLC-generated renderings',
 'text': 'TagExprV1.tla transcribes v1.py and _select_tag_expression_parser4auto; TLC proves on the complete truth table that the v1 algorithm equals the CNF '
         "definition and that auto-detection gives every pure-v1 / pure-v2 rendering its own dialect's meaning and rejects mixed texts, for all CNF formulas "
         'of the bound in 5 styles x 2 input shapes; every rendering is run through the real make_tag_expression under V1, V2 and AUTO_DETECT and judged by '
         'TLC.'},
    'C10': {'design_ref': 'DESIGN.md §7 C10',
 'note': 'Bounded layouts (<=5/7 entities); lines above the feature, glob entries and directories are not judged (statement silent).',
 'technique': 'TLA+ spec (Select.tla) model-checked with TLC + TLC-judged traces of the real location/name selection on TLC-generated layouts',
 'text': "Select.tla defines Nearest(line) and puts the code's sorted-lines + bisect, collector, parse_features grouping, list-file parser and name selection "
         'next to it; TLC proves bisect == Nearest for EVERY line 0..last+3 of every layout of the bound, the union law, line 0 => all and the setup/teardown '
         'exemption; each layout is rendered to real files and parse_features / collect_feature_locations / Configuration(--name) are run for every line, '
         'location multisets, list files and name patterns, judged by TLC against the definition; --name inside complete runs is modelled in Run.tla '
         '(NameMatch: un-named scenarios / outlines are marked skipped and passed over, rows decide individually) and judged on the shared run stage as '
         'C10.name_in_run.'},
    'C19': {'design_ref': 'DESIGN.md §7 C19',
 'note': "Custom negative prefixes start with 'not'; separators =, :, ==; disagreeing composite members and ignore_unknown_categories=False are recorded, not "
         'judged.',
 'technique': 'TLA+ spec (ActiveTags.tla) model-checked with TLC + TLC-judged traces of the real matcher on TLC-generated tag lists',
 'text': "ActiveTags.tla states the property's per-category formula and the code's algorithm (schema regex, grouping, value objects, providers with cache, "
         'composite matcher); TLC proves algorithm == definition on every tag list of <=3/4 tags from a 30-tag pool x 9 current-value combinations; every list '
         'is replayed on real ActiveTagMatcher objects under 19 provider/matcher configurations and judged by TLC with the definitional formula only.'},
    'C11': {'design_ref': 'DESIGN.md §7 C11',
 'note': 'Patterns of <=2/3 elements, histories of <=2 registrations exhaustive and a seeded sample up to 5; arbitrary user regexes, failing converters and '
         'the split chosen between two untyped fields are not judged.',
 'technique': 'TLA+ spec (StepRegistry.tla) model-checked with TLC + TLC-judged traces of the real registry/matchers on TLC-generated histories',
 'text': 'StepRegistry.tla models step texts/patterns as word sequences (typed fields, named/unnamed/optional groups), the anchored leftmost-shortest match, '
         'the four matcher renderings, and the registry state machine (Register with the same-definition short-cut and the ambiguity rule, UseMatcher, '
         'ModuleEnd, Lookup); TLC proves no-ambiguous-pair, first-hit-of-type-then-generic, span and leftmost-shortest laws over all registration histories of '
         'the bound; every history is replayed on a fresh real StepRegistry/StepMatcherFactory through real step modules (load_step_modules), all lookups are '
         'made with real Step objects and the matches run against recording functions; TLC judges spans, values, names, dispatch, ambiguity and '
         'same-definition rows.'},
    'C14': {'design_ref': 'DESIGN.md §7 C14',
 'note': 'Numbers only, never wording; the unused class SummaryReporterV2 is recorded but not judged (not the end-of-run summary).',
 'technique': 'TLA+ spec (Summary.tla) model-checked with TLC + TLC-judged report projections of real runs',
 'text': 'Summary.tla transcribes the SummaryReporter tree walk with the exact key sets of its four tables (a missing key is an explicit CRASH), the '
         'failing/errored lists, the five line formats and the SummaryCollector; TLC proves count = census, sum = population, format agreement and no-crash on '
         'every small model with arbitrary final statuses (steps over all 11 statuses); real runs of the shared plan (stop/abort remainders, hook errors, '
         'de-selection, dry-run, outlines, rules) are run with the summary on, each of the five formats is produced by a fresh reporter on the real post-run '
         'model, parsed with one regex per format, and TLC computes the census from the recorded final statuses and judges.'},
    'C17': {'design_ref': 'DESIGN.md §7 C17',
 'note': 'C17.exact not judged under dry-run nor for runs that died with an escaping exception; run order = document order.',
 'technique': 'TLA+ spec (Rerun.tla) model-checked with TLC + TLC-judged rerun files / second-run selections of real runs',
 'text': 'Rerun.tla transcribes the rerun formatter automaton (feature/eof/close, stale-file deletion) and the feed-back selection; TLC proves exact / '
         'stale_removed / loop on every run-shaped small model; three kinds of real rows are judged: real runs of the shared plan with the rerun formatter, '
         "the same runs with a planted stale file followed by the real collect_feature_locations(['@rerun.txt']) + parse_features + a second real run, and "
         'TLC-emitted models rendered to real feature files with statuses set on the real objects.'},
    'C04': {'design_ref': 'DESIGN.md §7 C04',
 'note': 'Keyword attributes compared case-insensitively (the parser matches keywords case-insensitively by design); parse_rule is a known finding (unusable '
         'helper).',
 'technique': 'TLA+ spec (GherkinParser.tla + GherkinDoc.tla) model-checked with TLC + TLC-judged projections of really parsed TLC-generated documents',
 'text': 'GherkinParser.tla is a transcription of the 10-state line machine (one operator per action_<state>, every dereference guarded) that builds an '
         'abstract model; GherkinDoc.tla is an independent document grammar writing lines AND the expected model; TLC proves Parse(Lines(d)) = d (structure, '
         'tags, step types with And/But/* inheritance incl. backgrounds, tables, doc-strings, descriptions, 1-based lines) and that injected blank/comment '
         'lines only renumber, for every document shape of the bound, rich 3-element details and simulated long documents; every document is rendered to text '
         '(indentation, every alias of every keyword, 14/80 languages, quote styles, escaped pipes, tag layouts) and parsed by parse_feature / parse_file / '
         'parse_steps / parse_scenario / parse_rule / parse_tags; the projected real model is judged by TLC against d.'},
    'C05': {'design_ref': 'DESIGN.md §7 C05',
 'note': 'Three families of the secondary entry points (Rule/Outline/Background lines, parse_rule, parse_scenario on a leading step) are known findings.',
 'technique': 'TLA+ spec (GherkinParser.tla) model-checked with TLC on all bounded line-class sequences + TLC-judged outcomes of the real parser on the same '
              'sequences',
 'text': 'TLC explores the line machine of GherkinParser.tla on EVERY line-class sequence up to length 4/5 (25-30 classes, pruned below error prefixes) from '
         'all five entry points with invariants NoCrash / ErrorLineInRange / ErrorAtLastLine; every enumerated sequence, all single-line mutations of '
         'well-formed documents and seeded soups up to 40 lines are rendered and parsed by the real entry points; the outcome class (accept | ParserError@k | '
         'internal:<type>) is judged by TLC (C05.internal, line_range, fault_line for six catalogued fault kinds decided by TLC itself, terminates).'},
    'C16': {'design_ref': 'DESIGN.md §7 C16',
 'note': 'expat / ElementTree parsers are the arbiters of well-formedness; timestamps and hostnames not asserted; which of several problem steps an entry '
         'names is free.',
 'technique': 'TLA+ specs (XmlEscape.tla, JUnit.tla) model-checked with TLC + TLC-judged projections of real JUnit reports',
 'text': '(a) XmlEscape.tla: 18 character classes, the attribute pipeline (ElementTree escaping after the invalid-character filter) and the CDATA pipeline '
         '(strip_escapes, escape_CDATA, patched writer) with XML 1.0 lexical acceptors; TLC proves every class string up to length 4/5-7 well-formed after the '
         'pipeline; every class string is concretised into feature/scenario/step names, assertion messages and captured stdout/stderr of real --junit runs and '
         'the documents are parsed by expat. (b) JUnit.tla transcribes the reporter walk and _process_scenario branch by branch (partial operations = CRASH); '
         'TLC proves testcases / status / counters / problem_entry / no_crash on every small feature-after-a-run; real runs of the shared plan (plus injected '
         'raising cleanups and the behave.reporter.junit.* switches) and rendered design cases are parsed and judged by TLC with status classes computed from '
         'the recorded final statuses.'},
    'C13': {'design_ref': 'DESIGN.md §7 C13',
 'note': 'Alphabets split because attribute and cleanup operations touch disjoint state; which error is re-raised at scope end, warnings, and on_cleanup_error '
         'handlers are not judged.',
 'technique': 'TLA+ spec (Context.tla) model-checked with TLC + TLC-judged replays of TLC-generated histories on the real Context; run part on Run.tla',
 'text': 'Context.tla models the scope stack as the code implements it (frames with attrs, @cleanups, @layer, the _record/_origin bookkeeping, '
         '_do_cleanups/_pop, add_cleanup incl. layer=, the four fixture kinds, execute_steps save/restore) next to a reference scope-stack monitor that reads '
         'observations only; TLC explores all operation histories of the bound over split alphabets (attributes / cleanups+fixtures / reduced) behind every '
         'prelude of pushed scopes, with one invariant per clause, and emits every history with the predicted observations; each history is replayed on a real '
         'Context (push/pop as model.py does) probing `in`/getattr for the whole name pool and the cleanup log after every operation, plus seeded random '
         'histories up to 60 operations; TLC judges visible / shadow / delete_local / scope_end / root_attr / cleanup_once / lifo / despite_errors / layer / '
         'fixture_cleanup / exec_steps_restore / api_errors. The run part (scopes around every feature/rule/scenario probed at every hook and step, cleanups '
         'registered by steps at every layer with raising subsets, a raising cleanup fails the owner and the run) is decided on the shared run stage.'},
    'C15': {'design_ref': 'DESIGN.md §7 C15',
 'note': 'Tables/doc-strings/unicode step texts are not generated by the run renderer; auto-retry configurations are excluded (statement silent); the dry-run '
         'undefined-step family is a known finding.',
 'technique': 'TLA+ spec (Consumers.tla) model-checked with TLC + TLC-judged report projections and formatter event streams of real runs',
 'text': 'Consumers.tla transcribes the consumer automata (JSONFormatter with _step_index / elements[-1] / finish_current_scenario, plain and progress step '
         'queues, JsonParser read-back; partial operations = CRASH) fed by the formatter event alphabet of Run.tla; TLC proves grammar / json_mirror / '
         'json_readback / plain_once / progress_once / agree / no_crash on every generated run shape (backgrounds at both levels, rules, selection, '
         'show_skipped, dry-run, undefined steps, converter errors); real runs of the shared plan with all report writers on (and subsets/orders of the '
         'built-in formatters, runs whose elements are excluded by hooks calling skip(), scenarios whose steps compare equal, the scenario variant of the progress formatter judged by C15.agree/scenario_marks) are projected (JSON tree, read-back model, plain lines, progress '
         "characters, the recording formatter's stream) and judged by TLC."},
}

PENDING_REASON = "check not built yet in this round (planned with the same TLA+/TLC technique, see DESIGN.md §7); not claimed until its check exists"


def main():
    props = [json.loads(l) for l in open(os.path.join(HERE, "properties.jsonl"))]
    checks = []
    na = []
    for p in props:
        pid = p["id"]
        c = CLAIMED.get(pid)
        if not c:
            na.append({"property_id": pid, "reason": PENDING_REASON})
            continue
        checks.append({
            "property_id": pid,
            "quick_cmd": "./check %s --tier quick" % pid,
            "thorough_cmd": "./check %s --tier thorough" % pid,
            "evidence_file": "/verif/evidence/%s.json" % pid,
            "replay_cmd_template": "./check %s --replay {path}" % pid,
            "engine": "tlc",
            "level_claimed": {"category": "model_checking", "text": c["text"], "design_ref": c["design_ref"]},
            "level_note": c["note"],
            "technique": c["technique"],
        })
    man = {
        "version": 1,
        "setup_cmd": "./tools/setup.sh",
        "hooks": {
            "guard": "BEHAVE_VERIF",
            "enable": "export BEHAVE_VERIF=1 (set by ./check); behave is imported from /repo's working tree (editable install), nothing is built",
            "baseline_off_cmd": "cd /repo && env -u BEHAVE_VERIF /venv/bin/python -m pytest -ra -q -p no:cacheprovider --timeout=900 --continue-on-collection-errors",
            "source_commits": [],
            "add_only": True,
        },
        "engines": [{"name": "tlc", "path": "/verif/specs", "serves_properties": [c["property_id"] for c in checks],
                     "kind_free_text": "explicit TLA+ specifications checked by TLC 1.8; traces of the real code judged by TLC trace modules"}],
        "checks": checks,
        "not_applicable": na,
        "notes": "One CLI: ./check <ID> --tier quick|thorough [--seed N] [--replay PATH]. Exit 0 held, 1 VIOLATION, 2 machinery failure.",
    }
    with open(os.path.join(HERE, "MANIFEST.json"), "w") as fh:
        json.dump(man, fh, indent=1)
        fh.write("\n")


if __name__ == "__main__":
    main()
