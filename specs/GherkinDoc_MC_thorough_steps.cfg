INIT Init
NEXT Next
CONSTANTS
  MaxRules = 1
  MaxScen = 1
  MaxEx = 0
  MaxSteps = 3
  MaxStmts = 1
  MaxStepsTot = 14
  MaxLines = 95
  MaxElems = 8
  LayoutsF = {"none"}
  Layouts = {"none"}
  Hows = {"none"}
  Descs = {0}
  StepKws = {"given", "then", "and", "but", "star"}
  Args <- ArgsNone
  ExVariants = {"2x2"}
  Gaps = {"none"}
INVARIANT Faithful
INVARIANT Neutral
INVARIANT Emit
