--------------------------- MODULE Context_Trace ---------------------------
(* Judge of C13 (API-history part) on rows recorded from the real Context.  *)
(* A row = one history: ops[k] = <<code,x,y,z>>, obs[k] = what the driver   *)
(* observed after operation k (exception type, warnings, return value,     *)
(* `name in context` and getattr for the whole name pool, executed         *)
(* cleanups).  One TLC state per operation.  The property monitor          *)
(* (Context!MonStep) consumes the OBSERVED rows; a fired clause is printed *)
(* as <<"VERDICT", row id, clause, step, op code, detail>>                 *)
(* (short, PrintT wraps tuples longer than 80 characters).  The            *)
(* implementation model runs alongside only to report where prediction     *)
(* and observation differ (<<"DIVERGE", id, step>>, informational).         *)
EXTENDS Context, TLC, Json, IOUtils
Rows == ndJsonDeserialize(IOEnv.TRACE_FILE)

VARIABLES i, k, s, m, nv            \* nv = number of verdicts printed so far (checked by the driver)
vars == <<i, k, s, m, nv>>
Init == i = 1 /\ k = 1 /\ s = SInit /\ m = MInit /\ nv = 0

\* total: a malformed observation (wrong length, codes out of range) is a verdict, never a crash
WellFormed(op, ob) == /\ Len(op) = 4 /\ op[1] \in 1..16
                      /\ Len(ob) >= 3 + 2 * NP
                      /\ \A j \in 1..NP : ob[3 + j] \in {0, 1}
                      /\ (op[1] \in {3, 4, 5, 6, 7, 8, 9} => op[2] \in 1..NP)
                      /\ (op[1] = 2 => Len(m) > 1 /\ Len(s.frames) > 1)
                      /\ (op[1] = 15 => op[2] \in {2, 3} /\ op[3] < 81 /\ op[4] \in {0, 1})
                      /\ (op[1] = 16 => Len(m) = 1 /\ Len(s.frames) = 1)
Step(row) ==
   LET op == row.ops[k]
       ob == row.obs[k]
       wf == WellFormed(op, ob)
       pr == Apply(s, op, k)
       mv == MonStep(m, op, ob, k)
   IN /\ IF ~wf THEN PrintT(<<"VERDICT", row.id, "malformed_row", k, 0, "malformed">>)
         ELSE /\ \A x \in mv.v : PrintT(<<"VERDICT", row.id, x[1], k, op[1], x[2]>>)
              /\ (pr.ob # ob => PrintT(<<"DIVERGE", row.id, k>>))
      /\ nv' = nv + (IF wf THEN Cardinality(mv.v) ELSE 1)
      /\ IF k < Len(row.ops)
         THEN /\ k' = k + 1 /\ i' = i
              /\ s' = IF wf THEN pr.s ELSE s
              /\ m' = IF wf THEN mv.m ELSE m
         ELSE /\ i' = i + 1 /\ k' = 1 /\ s' = SInit /\ m' = MInit
Next == /\ i <= Len(Rows)
        /\ LET row == Rows[i]
           IN IF Len(row.ops) = 0 \/ Len(row.ops) # Len(row.obs)
              THEN /\ PrintT(<<"VERDICT", row.id, "malformed_row", 0, 0, "malformed">>)
                   /\ i' = i + 1 /\ k' = 1 /\ s' = SInit /\ m' = MInit /\ nv' = nv + 1
              ELSE Step(row)
Spec == Init /\ [][Next]_vars
Done == PrintT(<<"DONE", Len(Rows), TLCGet("stats").diameter>>)
NVerdicts == (i > Len(Rows)) => PrintT(<<"NVERDICTS", nv>>)
=============================================================================
