------------------------------- MODULE Run_MC -------------------------------
(* Model checking of the run engine on the cases of CASE_FILE: every       *)
(* (case, configuration, fault set); emits each complete behaviour.        *)
EXTENDS Run

EndRecord == [tid |-> P.tid, ci |-> ci, fi |-> fi, events |-> evlog, verdict |-> Verdict,
              status |-> [el \in 1..N |-> StatusOf(el)], hook_failed |-> hookFailed,
              step_status |-> stepst, errmarks |-> cap.errmarks, nhooks |-> rt.hookN]
Emit == rt.done => PrintT(<<"CASE", ToJson(EndRecord)>>)
=============================================================================
