--------------------------- MODULE GherkinParser ---------------------------
(***************************************************************************)
(* The Gherkin line machine of behave/parser.py (C04, C05).                *)
(*                                                                         *)
(* Input: a sequence of abstract LINES (records, see Ln) over the classes  *)
(*   F R B S O E   keyword lines Feature/Rule/Background/Scenario/         *)
(*                 ScenarioOutline/Examples  ("<alias>: <name>")           *)
(*   Step          a = given|when|then|and|but|star                        *)
(*   Row           a = ok|open (no closing pipe), ps = cell payloads       *)
(*   Doc           a = dq|sq   doc-string delimiter                        *)
(*   Tags          a = ok|bad|cmt (bad word after the tags / trailing      *)
(*                 comment), ps = tag payloads                             *)
(*   #  Lang  _  t comment, "# language: xx" (a = known|unknown, lg = the  *)
(*                 language switched to), blank, free text                 *)
(* Every line carries: ps (payload ids: name / cells / tags / text; 0 is   *)
(* the empty text, 1 and 2 are the quote lines), ind (number of leading    *)
(* blanks), lg (language the keyword is written in: 1 = the language the   *)
(* parser starts with, 2 = the other one), kw (id of the keyword alias).   *)
(*                                                                         *)
(* State: exactly Parser's variables (state, line, last_step_type, tags,   *)
(* table, examples, multiline_*, feature/rule/scenario_container/statement *)
(* as indices into `elems`, the model under construction).  One operator   *)
(* per action_<state>; subaction_detect_taggable_statement is shared as in *)
(* the code.  Every dereference the code performs on something that may be *)
(* None/empty is guarded and goes to res.k = "crash" (kind = the Python    *)
(* exception type; site = the dereference).  res.k = "err" is ParserError at line res.n.           *)
(* Pure definitions only: GherkinParser_MC / GherkinDoc_MC build state     *)
(* spaces from them, the *_Trace modules judge recorded rows with them.    *)
(***************************************************************************)
EXTENDS Naturals, Sequences, FiniteSets

\* ---------------------------------------------------------------- lines
Ln(c, a, ps) == [c |-> c, a |-> a, ps |-> ps, ind |-> 0, lg |-> 1, kw |-> 0]
KwClasses == {"F", "R", "B", "S", "O", "E"}
P1(ln) == IF ln.ps = <<>> THEN 0 ELSE ln.ps[1]          \* first payload (name / text of the line)
QuoteId(a) == IF a = "dq" THEN 1 ELSE 2

\* ---------------------------------------------------------------- model elements (one flat table, file order)
Elem(k, line, par, name, kw, tags) ==
   [k |-> k, line |-> line, par |-> par, name |-> name, kw |-> kw, tags |-> tags, desc |-> <<>>,
    st |-> "", lg |-> 0, hasdoc |-> FALSE, docline |-> 0, doc |-> <<>>, hastab |-> FALSE, rows |-> <<>>]
TagSeq(ids, line) == [j \in DOMAIN ids |-> [t |-> ids[j], l |-> line]]

\* ---------------------------------------------------------------- parser state
Live == [k |-> "live", n |-> 0, why |-> "", site |-> ""]
Init0(variant) ==
   [state |-> "initial", line |-> 0, last |-> "", tags |-> <<>>, hasTable |-> FALSE, trows |-> <<>>, ex |-> 0,
    mlLines |-> <<>>, mlStart |-> 0, mlTerm |-> "", mlLead |-> 0,
    feature |-> 0, rule |-> 0, cont |-> 0, stmt |-> 0, lastStep |-> 0,
    contBg |-> "none", contBgLast |-> "", contInh |-> "", featBg |-> FALSE, featBgLast |-> "",
    lang |-> 1, variant |-> variant, elems |-> <<>>, res |-> Live]
\* entry points: Parser.parse / parse_rule / parse_scenario / parse_steps (a scenario without container is made up)
InitOf(entry) ==
   CASE entry = "feature"  -> Init0("feature")
     [] entry = "rule"     -> [Init0("rule") EXCEPT !.state = "rule"]
     [] entry = "scenario" -> [Init0("scenario") EXCEPT !.state = "scenario"]
     [] entry = "steps"    -> [Init0("steps") EXCEPT !.state = "steps", !.stmt = 1,
                                                     !.elems = <<Elem("scenario", 0, 0, 0, 0, <<>>)>>]
     [] OTHER              -> Init0(entry)

PErr(ps, why)   == [ps EXCEPT !.res = [k |-> "err", n |-> ps.line, why |-> why, site |-> ""]]
Fail(ps)        == PErr(ps, "parser failure in state " \o ps.state)      \* action returned False
Crash(ps, kind, site) == [ps EXCEPT !.res = [k |-> "crash", n |-> ps.line, why |-> kind, site |-> site]]
H(s)  == [h |-> TRUE, s |-> s]
NH(s) == [h |-> FALSE, s |-> s]

\* the class a line has for the parser: keywords of the other language are plain text ("* " is in both)
Eff(ps, ln) == IF ln.c \in KwClasses /\ ln.lg # ps.lang THEN "t"
               ELSE IF ln.c = "Step" /\ ln.a # "star" /\ ln.lg # ps.lang THEN "t"
               ELSE ln.c

\* ---------------------------------------------------------------- Parser.parse_tags on one line
TagsLine(ps, ln, newstate) ==
   IF ln.a = "bad" THEN PErr(ps, "bad tag")
   ELSE [ps EXCEPT !.tags = @ \o TagSeq(ln.ps, ps.line), !.state = newstate]

\* ---------------------------------------------------------------- _select_last_background_step_type
BgType(ps) == IF ps.cont = 0 \/ ps.contBg = "none" THEN ""
              ELSE IF ps.contBgLast # "" THEN ps.contBgLast ELSE ps.contInh

\* Parser.parse_step for a Step line: [ok, type, last]
ParseStep(ps, ln) ==
   CASE ln.a \in {"given", "when", "then"} -> [ok |-> TRUE, type |-> ln.a, last |-> ln.a]
     [] ln.a = "star" -> IF ps.last # "" THEN [ok |-> TRUE, type |-> ps.last, last |-> ps.last]
                         ELSE [ok |-> TRUE, type |-> "given", last |-> "given"]       \* "* " is found under "given" first
     [] OTHER -> IF ps.last # "" THEN [ok |-> TRUE, type |-> ps.last, last |-> ps.last]
                 ELSE LET bt == BgType(ps) IN
                      IF bt = "" THEN [ok |-> FALSE, type |-> "", last |-> ""]        \* AND-STEP REQUIRES ...
                      ELSE [ok |-> TRUE, type |-> bt, last |-> bt]

AppendStep(ps, ln, r, newstate) ==
   IF ps.stmt = 0 THEN Crash(ps, "AttributeError", "statement.steps")   \* self.statement.steps
   ELSE LET i    == Len(ps.elems) + 1
            isbg == ps.elems[ps.stmt].k = "background"
        IN [ps EXCEPT !.elems = Append(@, [Elem("step", ps.line, ps.stmt, P1(ln), ln.kw, <<>>) EXCEPT !.st = r.type]),
                      !.lastStep = i, !.last = r.last, !.state = newstate,
                      !.contBgLast = IF isbg THEN r.type ELSE @,
                      !.featBgLast = IF isbg /\ ps.cont = ps.feature THEN r.type ELSE @]

\* ---------------------------------------------------------------- _build_*_statement
BuildFeature(ps, ln) ==
   LET i == Len(ps.elems) + 1 IN
   [ps EXCEPT !.elems = Append(@, [Elem("feature", ps.line, 0, P1(ln), ln.kw, ps.tags) EXCEPT !.lg = ps.lang]),
              !.feature = i, !.cont = i, !.rule = 0, !.tags = <<>>, !.state = "feature"]

BuildRule(ps, ln) ==
   IF ps.feature = 0 THEN Crash(ps, "AttributeError", "feature.add_rule")   \* self.feature.add_rule
   ELSE LET i == Len(ps.elems) + 1 IN
        [ps EXCEPT !.elems = Append(@, Elem("rule", ps.line, ps.feature, P1(ln), ln.kw, ps.tags)),
                   !.rule = i, !.cont = i, !.stmt = i, !.lastStep = 0, !.tags = <<>>, !.state = "rule",
                   \* Feature.add_rule: a rule of a feature with background gets a default background that inherits
                   !.contBg = IF ps.featBg THEN "auto" ELSE "none", !.contBgLast = "",
                   !.contInh = IF ps.featBg THEN ps.featBgLast ELSE ""]

BuildScenario(ps, ln, kind) ==
   IF kind = "outline" /\ ps.cont = 0 THEN Crash(ps, "AttributeError", "container.add_scenario")   \* self.scenario_container.add_scenario
   ELSE LET i == Len(ps.elems) + 1 IN
        [ps EXCEPT !.elems = Append(@, Elem(kind, ps.line, ps.cont, P1(ln), ln.kw, ps.tags)),
                   !.stmt = i, !.lastStep = 0, !.tags = <<>>, !.state = "scenario"]

BuildExamples(ps, ln) ==
   IF ps.stmt = 0 \/ ps.elems[ps.stmt].k # "outline" THEN PErr(ps, "Examples must only appear inside scenario outline")
   ELSE LET i == Len(ps.elems) + 1 IN
        [ps EXCEPT !.elems = Append(@, Elem("examples", ps.line, ps.stmt, P1(ln), ln.kw, ps.tags)),
                   !.ex = i, !.tags = <<>>, !.state = "table"]

BuildBackground(ps, ln) ==
   IF ps.tags # <<>> THEN PErr(ps, "Background supports no tags")
   ELSE IF ps.cont # 0 /\ ps.contBg # "none" /\ ps.contBgLast # "" THEN PErr(ps, "Second Background")
   ELSE IF ps.cont = 0 THEN Crash(ps, "AttributeError", "container.add_background")   \* self.scenario_container.add_background
   ELSE LET i == Len(ps.elems) + 1
            infeat == ps.cont = ps.feature
        IN [ps EXCEPT !.elems = Append(@, Elem("background", ps.line, ps.cont, P1(ln), ln.kw, <<>>)),
                      !.stmt = i, !.lastStep = 0, !.state = "background",
                      !.contBg = "real", !.contBgLast = "",
                      !.featBg = IF infeat THEN TRUE ELSE @, !.featBgLast = IF infeat THEN "" ELSE @]

\* ---------------------------------------------------------------- subaction_detect_taggable_statement
Sub(ps, ln, c) ==
   CASE c = "Tags" -> H(TagsLine(ps, ln, "taggable"))
     [] c = "R"    -> H(BuildRule(ps, ln))
     [] c = "S"    -> H(BuildScenario(ps, ln, "scenario"))
     [] c = "O"    -> H(BuildScenario(ps, ln, "outline"))
     [] c = "E"    -> H(BuildExamples(ps, ln))
     [] OTHER      -> NH(ps)

\* ---------------------------------------------------------------- action_<state>
ActInitial(ps, ln, c) ==
   IF c = "Tags" THEN TagsLine(ps, ln, "initial")
   ELSE IF c = "F" THEN BuildFeature(ps, ln)
   ELSE Fail(ps)

\* action_feature / action_rule: `own` = index of self.feature / self.rule
ActContainer(ps, ln, c, own) ==
   LET sub == Sub(ps, ln, c) IN
   IF sub.h THEN sub.s
   ELSE IF c = "B" THEN BuildBackground(ps, ln)
   ELSE IF own = 0 THEN Crash(ps, "AttributeError", "container.description")   \* self.rule.description
   ELSE [ps EXCEPT !.elems[own].desc = Append(@, P1(ln))]

ActTaggable(ps, ln, c) == LET sub == Sub(ps, ln, c) IN IF sub.h THEN sub.s ELSE Fail(ps)

ActScenario(ps0, ln, c) ==          \* also action_background
   LET ps == [ps0 EXCEPT !.last = ""] IN
   IF c = "Step" THEN
        LET r == ParseStep(ps, ln) IN
        IF ~r.ok THEN PErr(ps, "AND-STEP REQUIRES a previous step") ELSE AppendStep(ps, ln, r, "steps")
   ELSE LET sub == Sub(ps, ln, c) IN
        IF sub.h THEN sub.s
        ELSE IF ps.stmt = 0 THEN Crash(ps, "AttributeError", "statement.description")   \* self.statement.description
        ELSE [ps EXCEPT !.elems[ps.stmt].desc = Append(@, P1(ln))]

\* end of table: attach to the examples block or to the last step
CloseTable(ps) ==
   IF ps.ex # 0 THEN
        [ps EXCEPT !.elems[ps.ex].hastab = ps.hasTable, !.elems[ps.ex].rows = ps.trows,
                   !.ex = 0, !.hasTable = FALSE, !.trows = <<>>, !.state = "steps"]
   ELSE IF ps.stmt = 0 THEN Crash(ps, "AttributeError", "statement.steps")
   ELSE IF ps.lastStep = 0 THEN Crash(ps, "IndexError", "statement.steps[-1]")   \* self.statement.steps[-1]
   ELSE [ps EXCEPT !.elems[ps.lastStep].hastab = ps.hasTable, !.elems[ps.lastStep].rows = ps.trows,
                   !.hasTable = FALSE, !.trows = <<>>, !.state = "steps"]

TableRow(ps, ln) ==
   \* (a row without closing pipe, ln.a = "open", only logs a warning with self.filename)
   IF ~ps.hasTable THEN [ps EXCEPT !.hasTable = TRUE, !.trows = <<[l |-> ps.line, cells |-> ln.ps]>>, !.state = "table"]
   ELSE IF Len(ln.ps) # Len(ps.trows[1].cells) THEN PErr(ps, "Malformed table")
   ELSE [ps EXCEPT !.trows = Append(@, [l |-> ps.line, cells |-> ln.ps]), !.state = "table"]

ActSteps(ps, ln, c) ==
   IF c = "Doc" THEN
        IF ps.stmt = 0 THEN Crash(ps, "AttributeError", "statement.steps")
        ELSE IF ps.lastStep = 0 THEN PErr(ps, "Multi-line text before any step")
        ELSE [ps EXCEPT !.state = "mltext", !.mlStart = ps.line, !.mlTerm = ln.a, !.mlLead = ln.ind]
   ELSE IF c = "Step" THEN
        LET r == ParseStep(ps, ln) IN
        IF ~r.ok THEN PErr(ps, "AND-STEP REQUIRES a previous step") ELSE AppendStep(ps, ln, r, "steps")
   ELSE LET sub == Sub(ps, ln, c) IN
        IF sub.h THEN sub.s
        ELSE IF c = "Row" THEN
             IF ps.stmt = 0 THEN Crash(ps, "AttributeError", "statement.steps")
             ELSE IF ps.lastStep = 0 THEN PErr(ps, "TABLE-START without step detected")
             ELSE TableRow(ps, ln)
        ELSE Fail(ps)

ActTable(ps, ln, c) ==
   \* NOTE action_table hands the STRIPPED line on to action_steps: a doc-string opened right after a table has
   \* multiline_leading = 0 whatever its indentation
   IF c # "Row" THEN LET cl == CloseTable(ps) IN IF cl.res.k # "live" THEN cl ELSE ActSteps(cl, [ln EXCEPT !.ind = 0], c)
   ELSE TableRow(ps, ln)

ActMl(ps, ln) ==         \* action_multiline_text: the raw class counts, everything but the terminator is text
   IF ln.c = "Doc" /\ ln.a = ps.mlTerm THEN
        IF ps.stmt = 0 THEN Crash(ps, "AttributeError", "statement.steps")
        ELSE IF ps.lastStep = 0 THEN Crash(ps, "IndexError", "statement.steps[-1]")
        ELSE [ps EXCEPT !.elems[ps.lastStep].hasdoc = TRUE, !.elems[ps.lastStep].docline = ps.mlStart,
                        !.elems[ps.lastStep].doc = ps.mlLines,
                        !.mlLines = <<>>, !.mlTerm = "", !.state = "steps"]
   ELSE LET blank == ln.c = "_"
            p     == IF ln.c = "Doc" THEN QuoteId(ln.a) ELSE P1(ln)
            ri    == IF blank \/ ln.ind < ps.mlLead THEN 0 ELSE ln.ind - ps.mlLead
            nx    == [ps EXCEPT !.mlLines = Append(@, [p |-> IF blank THEN 0 ELSE p, ri |-> ri])]
        IN IF ~blank /\ ln.ind < ps.mlLead THEN PErr(nx, "BAD-INDENT in multiline text") ELSE nx

Act(ps, ln, c) ==
   CASE ps.state = "initial"  -> ActInitial(ps, ln, c)
     [] ps.state = "feature"  -> ActContainer(ps, ln, c, ps.feature)
     [] ps.state = "rule"     -> ActContainer(ps, ln, c, ps.rule)
     [] ps.state = "taggable" -> ActTaggable(ps, ln, c)
     [] ps.state \in {"scenario", "background"} -> ActScenario(ps, ln, c)
     [] ps.state = "steps"    -> ActSteps(ps, ln, c)
     [] ps.state = "table"    -> ActTable(ps, ln, c)
     [] OTHER                 -> Fail(ps)

\* ---------------------------------------------------------------- one line of _parse_loop + Parser.action
Feed(ps0, ln) ==
   IF ps0.res.k # "live" THEN ps0
   ELSE LET ps == [ps0 EXCEPT !.line = @ + 1] IN
        IF ps.state = "mltext" THEN ActMl(ps, ln)
        ELSE IF ln.c = "_" THEN ps
        ELSE IF ln.c \in {"#", "Lang"} THEN
             IF ps.state # "initial" \/ ps.tags # <<>> \/ ps.variant # "feature" THEN ps
             ELSE IF ln.c = "#" THEN ps
             ELSE IF ln.a = "unknown" THEN PErr(ps, "Unknown language")                  \* language not in i18n.languages
             ELSE [ps EXCEPT !.lang = ln.lg]
        ELSE Act(ps, ln, Eff(ps, ln))

\* end of text: an open table is closed; an open doc-string and pending tags are dropped
AtEof(ps) == IF ps.res.k = "live" /\ ps.hasTable THEN CloseTable(ps) ELSE ps

RECURSIVE FeedAll(_,_,_)
FeedAll(ps, lines, i) == IF i > Len(lines) THEN ps ELSE FeedAll(Feed(ps, lines[i]), lines, i + 1)

\* ---------------------------------------------------------------- parse_tags(text): line by line; blank lines and
\* comment lines are skipped, parser.line = 1-based line number, a '#' word ends its own line only, a word without
\* '@' is a bad tag (ParserError at that line)
FeedTag(ps0, ln) ==
   IF ps0.res.k # "live" THEN ps0
   ELSE LET ps == [ps0 EXCEPT !.line = @ + 1] IN
        CASE ln.c \in {"_", "#", "Lang"} -> ps
          [] ln.c = "Tags" -> LET nx == [ps EXCEPT !.tags = @ \o TagSeq(ln.ps, ps.line)] IN
                              IF ln.a = "bad" THEN PErr(nx, "bad tag") ELSE nx
          [] OTHER -> PErr(ps, "bad tag")
RECURSIVE FeedTags(_,_,_)
FeedTags(ps, lines, i) == IF i > Len(lines) THEN ps ELSE FeedTags(FeedTag(ps, lines[i]), lines, i + 1)
RunTags(lines) == FeedTags(Init0("tags"), lines, 1)

\* ---------------------------------------------------------------- whole runs
Run(entry, lines) == IF entry = "tags" THEN RunTags(lines) ELSE AtEof(FeedAll(InitOf(entry), lines, 1))
\* the state after a prefix (no end-of-text handling)
Prefix(entry, lines) == IF entry = "tags" THEN RunTags(lines) ELSE FeedAll(InitOf(entry), lines, 1)
Outcome(ps) == IF ps.res.k = "live" THEN [k |-> "accept", n |-> 0, why |-> "", site |-> ""]
               ELSE [k |-> IF ps.res.k = "err" THEN "error" ELSE "crash", n |-> ps.res.n, why |-> ps.res.why, site |-> ps.res.site]
\* what the entry point returns (indices into elems): feature -> the feature; rule/scenario -> self.statement;
\* steps -> the steps of self.statement; tags -> ps.tags
Entries == <<"feature", "rule", "scenario", "steps", "tags">>
=============================================================================
