"""C16 -- JUnit reports are well-formed XML with counters that match their test cases.

part "xml" (well-formedness): props/c16_xml.py (specs/XmlEscape*.tla), called first.
part "run" (counters / test cases, this file):
   (S)+(P) specs/JUnit.tla   (MC) specs/JUnit_MC.tla   judge: specs/JUnit_Trace.tla   plug-in: run/reports_c16.py

1. design level: TLC builds every small abstract feature after a run (plain scenarios / rules / outline rows, one
   descriptor per scenario: final status, step statuses and the cause -- failing step with status failed / error /
   undefined / pending / hook_error, raising hook of the scenario, raising cleanup with or without a failing step,
   skipped, untested, dry-run combinations), runs the reporter automaton transcribed from JUnitReporter with
   show_skipped on and off and checks the clauses on its output (named exception KF_C16_cleanup_error_no_step =
   the genuine defect: the reporter raises AttributeError); a deterministic part of the states is emitted.
2. "design" rows: emitted features whose descriptors can be produced by a real run (step outcomes, tags, --stop /
   --dry-run, <= 2 hook faults placed by probing runs, raising cleanups) are run by the real ModelRunner with
   --junit; the realised final statuses must be the descriptors' (otherwise the row is counted as unrealised).
3. "run" rows: class-balanced part of the shared run-cluster plan (failing / erroring / undefined / pending steps,
   hook faults, raising cleanups, skipped scenarios with show_skipped on and off, outlines, rules, several
   features, --stop, --dry-run) with --junit, most of them without the other report writers, some with all of them.
4. "switch" rows: cases of 3. again with the behave.reporter.junit.* userdata switches.
TLC (JUnit_Trace) judges all rows: the status classes, the expected test cases and every verdict are computed there
from the recorded final statuses; the reporter automaton's prediction is compared with the parsed documents
(informational DIVERGE lines).  Python renders, runs, parses XML, records."""
import json
import os
import random
import re
import time
from concurrent.futures import ThreadPoolExecutor

from vlib import trace, tlc as _tlc
from run import gen as G, stage, drive
from run.render import Rendered
from props import c16_xml
from run import reports_c16 as RP

WORKERS = int(os.environ.get("VERIF_WORKERS") or 16)
PROCS = int(os.environ.get("VERIF_PROCS") or 14)
ERRORISH = ("error", "pending", "undefined", "kbd", "badarg")
SWITCHES = ["show_hostname", "show_multiline", "show_scenarios", "show_tags", "show_timings", "show_timestamp",
            "show_skipped_always"]
SWITCH_SETS = [
    {"show_timestamp": False, "show_hostname": False},
    {"show_skipped_always": True},
    {"show_scenarios": False, "show_tags": False, "show_multiline": False, "show_timings": False},
    {"show_timestamp": False, "show_hostname": False, "show_skipped_always": True, "show_scenarios": False,
     "show_tags": False, "show_multiline": False, "show_timings": False},
    {"show_timestamp": True, "show_hostname": True, "show_skipped_always": False, "show_scenarios": True, "show_tags": True,
     "show_multiline": True, "show_timings": True},
]


# ------------------------------------------------------------------------------------------------ jobs and rows
def switch_args(sw):
    out = []
    for k in sorted(sw):
        out += ["-D", "behave.reporter.junit.%s=%s" % (k, "true" if sw[k] else "false")]
    return out


def mk_job(key, prog, flat, cfg, fault, fault_kind="exc", sw=None, all_writers=False, kind="run", fault_text=None, hook=None):
    """a case of run/drive.py with --junit; without the other report writers unless all_writers;
    fault_text = the exception text of the raising hooks (drive.py), hook = [hook name, payload classes] for the signature"""
    job = {"key": key, "prog": prog, "flat": flat, "cfg": cfg, "fault": list(fault), "fault_kind": fault_kind,
           "reports": True, "plugins": ["c16"], "sw": dict(sw or {}), "kind": kind, "all_writers": bool(all_writers)}
    if fault_text is not None:
        job["fault_text"] = fault_text
        job["hook"] = list(hook or ["", []])
    job["extra_args"] = switch_args(job["sw"]) + list(RP.RECORDER_ARGS)     # (keeps the scenario objects that ran)
    if not all_writers:
        job["formats"] = []
        job["extra_args"] = ["--no-summary"] + job["extra_args"]
    return job


def slim_prog(flat):
    return [{"kind": e["kind"], "parent": e["parent"], "children": e["children"],
             "steps": [{"cl_id": s["cl_id"], "cl_layer": s["cl_layer"]} for s in e["steps"]]} for e in flat["elems"]]


def make_row(rid, job, out):
    """driver row + projection of the report files -> row of JUnit_Trace (see its header)"""
    end, ev = out["end"], out["events"]
    rep = out["reports"]["c16"]
    feats = [e["el"] for e in ev if e["k"] == "fmt" and e["name"] == "feature"]
    files = []
    for f in rep["files"]:
        files.append({"f": f["f"], "el": f["el"], "exists": bool(f["exists"]), "wellformed": bool(f["wellformed"]),
                      "tests": f["tests"], "failures": f["failures"], "errors": f["errors"], "skipped": f["skipped"],
                      "cases": [{"el": c["el"], "name": c["name"], "status": c["status"],
                                 "entries": [{"kind": e["kind"], "steps": e["steps"], "hook": bool(e["hook"])} for e in c["entries"]]}
                                for c in f["cases"]]})
    # final statuses: of the scenario objects that ran (announced to the formatters) where there is one, else of the walk
    # over the model after the run
    ran = rep.get("ran") or {"recorded": False}
    status, steps, hookf = list(end["status"]), list(end["step_status"]), list(end["hook_failed"])
    if ran.get("recorded"):
        for k, st in enumerate(ran["status"]):
            if st:
                status[k], steps[k], hookf[k] = st, ran["steps"][k], ran["hook_failed"][k]
    end = dict(end, status=status, step_status=steps, hook_failed=hookf)
    return {"id": rid, "prog": slim_prog(job["flat"]),
            # prog["dupnames"]: scenarios of one feature share their name -- test cases are matched as a multiset
            "dup": bool(job["prog"].get("dupnames")), "names": [n[:60] for n in rep["names"]],
            "cfg": {"show_skipped": bool(job["cfg"]["show_skipped"]), "dry": bool(job["cfg"]["dry"]),
                    "retry": bool(job["cfg"].get("retry", False)), "fault_kbd": job.get("fault_kind") == "kbd"},
            "sw": {"show_skipped_always": bool(job["sw"].get("show_skipped_always", False))},
            "end": {"escaped": end["escaped"] or "", "status": end["status"], "step_status": end["step_status"],
                    "hook_failed": end["hook_failed"]},
            "hooks_raised": [{"name": e["name"], "el": e["el"], "pos": e["pos"]} for e in ev if e["k"] == "hook" and e["raised"]],
            "cleanups_raised": [e["cid"] for e in ev if e["k"] == "cleanup" and e["raised"]],
            "rep_features": [e["el"] for e in ev if e["k"] == "rep" and e["name"] == "feature"],
            "tail": {"k": ev[-1]["k"], "name": ev[-1]["name"]} if ev else {"k": "", "name": ""},
            "last_feature": feats[-1] if feats else 0,
            "files": files}


# ------------------------------------------------------------------------------------------------ planning of "run" rows
def job_class(job):
    elems = job["flat"]["elems"]
    outs = [s["o"] for e in elems for s in e["steps"]]
    cl_raise = any(s["cl_id"] and s["cl_raises"] and s["cl_layer"] in ("", "scenario") for e in elems for s in e["steps"])
    kinds = {e["kind"] for e in elems}
    c = job["cfg"]
    fails = "fail" in outs or any(o.startswith("nest_") and o != "nest_pass" for o in outs)     # a failing sub-step fails its step
    return (cl_raise, bool(job["fault"][0]), fails, any(o in ERRORISH for o in outs), "outline" in kinds, "rule" in kinds,
            c["expr"] != "true", bool(c["show_skipped"]), bool(c["dry"]), len(job["prog"]["features"]) > 1)


def _nscen(job):
    return sum(1 for e in job["flat"]["elems"] if e["kind"] == "scenario")


def _cuts(job):
    """the run is (very likely) cut before its last scenario: something fails and --stop is on, a step raises
    KeyboardInterrupt, or a hook fault is injected (a failing before hook leaves everything below it untested)"""
    c = job_class(job)
    outs = [s["o"] for e in job["flat"]["elems"] for s in e["steps"]]
    return _nscen(job) >= 2 and ((job["cfg"]["stop"] and (c[2] or c[3] or c[1])) or "kbd" in outs or c[1])


# attribute classes that must be present whatever the plan and the seed look like: name -> predicate on the case
GUARANTEED = [
    ("hidden_skipped_cut_run", lambda j: not j["cfg"]["show_skipped"] and not j["cfg"]["dry"] and _cuts(j)),
    ("hidden_skipped_dry_run", lambda j: not j["cfg"]["show_skipped"] and j["cfg"]["dry"] and _nscen(j) >= 2),
    ("hidden_skipped_tag_selection", lambda j: not j["cfg"]["show_skipped"] and not j["cfg"]["dry"] and j["cfg"]["expr"] != "true"),
    ("shown_skipped_tag_selection", lambda j: j["cfg"]["show_skipped"] and not j["cfg"]["dry"] and j["cfg"]["expr"] != "true"),
    ("shown_skipped_cut_run", lambda j: j["cfg"]["show_skipped"] and not j["cfg"]["dry"] and _cuts(j)),
    ("shown_skipped_dry_run", lambda j: j["cfg"]["show_skipped"] and j["cfg"]["dry"] and _nscen(j) >= 2),
    ("hook_fault", lambda j: job_class(j)[1] and not j["cfg"]["dry"]),
    ("failing_step", lambda j: job_class(j)[2] and not j["cfg"]["dry"]),
    ("erroring_step", lambda j: job_class(j)[3] and not j["cfg"]["dry"]),
    ("outline_with_problem", lambda j: job_class(j)[4] and (job_class(j)[2] or job_class(j)[3]) and not j["cfg"]["dry"]),
    ("rule_with_problem", lambda j: job_class(j)[5] and (job_class(j)[2] or job_class(j)[3]) and not j["cfg"]["dry"]),
    ("several_features", lambda j: job_class(j)[9]),
    ("continue_after_failed_step", lambda j: j["cfg"]["cont"] and job_class(j)[2] and not j["cfg"]["dry"]),
    ("hooks_read_status_and_hook_fault", lambda j: j["cfg"].get("observe") and job_class(j)[1] and not j["cfg"]["dry"]),
]


def thin(jobs, quota, rnd):
    """every case with a raising cleanup of a scenario layer first (rare), then a guaranteed minimum per attribute
    class of GUARANTEED (so that no class depends on what the round robin happens to pick), then round robin over the
    classes (hook fault, failing / erroring steps, outline, rule, tag selection, show_skipped, dry-run, several features)"""
    if len(jobs) <= quota:
        return list(jobs)
    first = [j for j in jobs if job_class(j)[0]]
    rnd.shuffle(first)
    first = first[:quota // 4]
    taken = {id(j) for j in first}
    minimum = max(30, quota // 40)
    pool = list(jobs)
    rnd.shuffle(pool)
    for _name, pred in GUARANTEED:
        n = 0
        for j in pool:
            if n >= minimum:
                break
            if pred(j):
                n += 1
                if id(j) not in taken:
                    taken.add(id(j))
                    first.append(j)
    classes = {}
    for j in jobs:
        if id(j) not in taken:
            classes.setdefault(job_class(j), []).append(j)
    order = sorted(classes, key=lambda c: (-sum(c[1:7]), c))
    for c in order:
        rnd.shuffle(classes[c])
    out = list(first)
    k = 0
    while len(out) < quota:
        took = False
        for c in order:
            if c[8] and k % 3:                         # dry-run classes: every third round only
                continue
            w = 1 + c[1] + c[2] + c[3]
            kk = k // 3 if c[8] else k
            part = classes[c][kk * w:(kk + 1) * w]
            if part:
                took = True
                out.extend(part)
        if not took and k % 3 == 0:
            break
        k += 1
    return out[:quota]


def own_step_lists(prog):
    """the step lists of the scenarios and outline rows of a program (backgrounds excluded)"""
    out = []

    def items(lst):
        for it in lst:
            if it["kind"] == "rule":
                items(it["items"])
            elif it["kind"] == "scenario":
                out.append(it["steps"])
            else:
                for b in it["blocks"]:
                    out.extend(b["rows"])
    for f in prog["features"]:
        items(f["items"])
    return out


def with_cleanups(prog, rnd):
    """copy of a program in which one or two steps (of scenarios / outline rows) register a raising cleanup for the
    scenario's own layer -- the shared plan has hardly any"""
    p = json.loads(json.dumps(prog))
    lists = [l for l in own_step_lists(p) if l]
    if not lists:
        return None
    for n, l in enumerate(rnd.sample(lists, min(len(lists), rnd.choice((1, 1, 2))))):
        k = rnd.randrange(len(l))
        if l[k].get("cl"):
            continue
        l[k]["cl"] = [900 + n, rnd.choice(("", "scenario")), True]
    p["family"] = prog.get("family", "") + "+cl"
    return p


def plan_jobs(chk, quota, rnd):
    jobs = []
    for tid, (p, cfgs, faults) in enumerate(stage.plan(chk.tier, chk.seed)):
        flat = G.flatten(p)
        for ci, c in enumerate(cfgs):
            for fi, f in enumerate(faults):
                jobs.append({"key": [tid + 1, ci + 1, fi + 1], "prog": p, "flat": flat, "cfg": c, "fault": f,
                             "fault_kind": "assert" if (tid + ci + fi) % 3 == 0 else "exc"})
    total = len(jobs)
    if total > quota * 8:
        keep = [j for j in jobs if job_class(j)[0]]
        jobs = keep + rnd.sample(jobs, quota * 8)
    picked = thin(jobs, quota, rnd)
    out = []
    nmulti = [0]
    for n, j in enumerate(picked):
        prog, flat = j["prog"], j["flat"]
        if n % 8 == 3 and not j["cfg"]["dry"]:                     # every eighth case with raising cleanups added
            p2 = with_cleanups(prog, rnd)
            if p2 is not None:
                prog, flat = p2, G.flatten(p2)
        if len(prog["features"]) > 1:
            nmulti[0] += 1
            if nmulti[0] % 2 == 0:                                 # every second program with several features: f.<i>.feature
                prog = dict(prog, dotfiles=True)
        if n % 5 == 1 and _nscen(j) >= 2 and j["cfg"].get("names") is None:
            # every fifth case: all scenarios of the program are called "S" (prog dupnames of the shared renderer; not with
            # --name selection, which goes by name): test cases with equal (classname, name) in one document
            prog = dict(prog, dupnames=True)
        out.append(mk_job(["run"] + j["key"], prog, flat, j["cfg"], j["fault"], j["fault_kind"], all_writers=(n % 8 == 7)))
    return out, total


# ------------------------------------------------------------------------------------------------ "design" rows
# descriptor of JUnit_MC -> (step outcomes, step that registers the raising cleanup, raising hook (name, pos), tags)
DESC = {
    "pass": (["pass", "pass"], 0, None, []),
    "failed1": (["fail", "pass"], 0, None, []), "failed2": (["pass", "fail"], 0, None, []),
    "error1": (["error", "pass"], 0, None, []), "error2": (["pass", "error"], 0, None, []),
    "undefined1": (["undefined", "pass"], 0, None, []), "undefined2": (["pass", "undefined"], 0, None, []),
    "pending1": (["pending", "pass"], 0, None, []), "pending2": (["pass", "pending"], 0, None, []),
    "hook_error1": (["pass", "pass"], 0, ("before_step", 1), []), "hook_error2": (["pass", "pass"], 0, ("after_step", 2), []),
    "cl": (["pass", "pass"], 1, None, []),
    "cl_failed1": (["fail", "pass"], 1, None, []), "cl_failed2": (["pass", "fail"], 1, None, []),
    "cl_error1": (["error", "pass"], 1, None, []),
    "hk_before": (["pass", "pass"], 0, ("before_scenario", 0), []),
    "hk_after": (["pass", "pass"], 0, ("after_scenario", 0), []),
    "hk_after_failed1": (["fail", "pass"], 0, ("after_scenario", 0), []),
    "hk_after_failed2": (["pass", "fail"], 0, ("after_scenario", 0), []),
    "hk_after_error2": (["pass", "error"], 0, ("after_scenario", 0), []),
    "hk_cl": (["pass", "pass"], 1, ("after_scenario", 0), []),
    "skip": (["pass", "pass"], 0, None, ["t1"]),
    "skip_by_step": (["pass", "skip"], 0, None, []),
    "pending_warn": (["pending", "pass"], 0, None, ["wip"]),
    "untested": (["pass", "pass"], 0, None, []),
    "dry_undefined1": (["undefined", "pass"], 0, None, []), "dry_undefined2": (["pass", "undefined"], 0, None, []),
}
NONFAILING = ("pass", "skip", "skip_by_step", "pending_warn")
DRY_OK = ("dry_undefined1", "dry_undefined2", "untested", "skip")


def design_plan(case):
    """how an emitted abstract feature can be produced by a real run: (cfg changes, extra fault target) or None"""
    ds = case["ds"]
    if case["dry"]:
        return ({"dry": True}, None) if all(d in DRY_OK for d in ds) else None
    if "untested" in ds:
        if all(d == "untested" for d in ds):
            return ({}, ("before_feature", 1, 0))                 # the feature's hook raises: nothing of it runs
        u = ds.index("untested")
        ok = u >= 1 and all(d == "untested" for d in ds[u:]) and ds[u - 1] not in NONFAILING and all(d in NONFAILING for d in ds[:u - 1])
        return ({"stop": True}, None) if ok else None             # --stop: everything after the first failing scenario
    return ({}, None)


def design_prog(case):
    cid = [0]

    def steps(name):
        outs, cl_at, _hook, _tags = DESC[name]
        out = []
        for k, o in enumerate(outs):
            if cl_at == k + 1:
                cid[0] += 1
                out.append(G.step(o, [cid[0], "", True]))
            else:
                out.append(G.step(o))
        return out

    names = list(case["ds"])
    items = []
    for it in case["sh"]:
        k, n = it["k"], it["n"]
        mine, names = names[:n], names[n:]
        if k == "s":
            items.append(G.scenario(steps(mine[0]), DESC[mine[0]][3]))
        elif k == "r":
            items.append(G.rule([G.scenario(steps(d), DESC[d][3]) for d in mine]))
        else:
            o = G.outline([(DESC[d][3], [steps(d)]) for d in mine])
            items.append(o if k == "o" else G.rule([o]))
    return {"features": [G.feature(items)], "family": "design"}


# ------------------------------------------------------------------------------------------------ "hook" rows
# hostile text in the exception message of a raising hook (the payload alphabet of the XML part): scenario-level and
# tag hooks end in error/@message (HOOK-ERROR in ...: <text>), step hooks in the captured output and the CDATA text
HOOK_PROGS = [
    ("passing", ["pass", "pass"], [("before_tag", 0), ("before_scenario", 0), ("after_scenario", 0), ("after_tag", 0),
                                   ("before_step", 1), ("after_step", 2)]),
    ("failed_step", ["fail", "pass"], [("after_scenario", 0), ("after_tag", 0), ("after_step", 1)]),
]


def hook_payloads(rnd, quick):
    classes = [[c] for c in c16_xml.CLS_ORDER] + [list(t) for t in c16_xml.TARGETED]
    classes += [["plain", c, "plain"] for c in ("c0", "c0ws", "delc1", "esc", "fffe", "ws", "astral")]
    out, seen = [], set()
    for cl in classes:
        for text in c16_xml.payloads_for(cl, rnd, nreps=2 if quick else 4, combos_upto=1 if quick else 2, picks=1 if quick else 2):
            if text and (tuple(cl), text) not in seen:
                seen.add((tuple(cl), text))
                out.append((cl, text))
    return out


def hook_jobs(rnd, quick):
    jobs = []
    cfg = G.cfg()
    for pname, outs, targets in HOOK_PROGS:
        prog = {"features": [G.feature([G.scenario(outs, ["t1"]), G.scenario(["pass"])])], "family": "hook"}
        flat = G.flatten(prog)
        probe = drive.run_case({"prog": prog, "flat": flat, "cfg": cfg, "fault": [0, 0], "fault_kind": "exc"})
        for name, pos in targets:
            n = _hook_n(probe["events"], name, 2, pos)
            if not n:
                raise RuntimeError("hook %s of the probe program %s is not reached" % (name, pname))
            for k, (cl, text) in enumerate(hook_payloads(rnd, quick)):
                jobs.append(mk_job(["hook", pname, name, len(jobs)], prog, flat, cfg, [n, 0], "assert" if k % 3 == 0 else "exc",
                                   kind="hook", fault_text=text, hook=[name, cl]))
            # cfg observe: the hooks READ scenario / feature / rule status before they raise (a cached status must not survive)
            for show in (True, False):
                for fk in ("exc", "assert"):
                    jobs.append(mk_job(["hook", pname, name, "observe", len(jobs)], prog, flat, G.cfg(observe=True, show_skipped=show),
                                       [n, 0], fk, kind="hook"))
    return jobs


def _hook_n(events, name, el, pos):
    for e in events:
        if e["k"] == "hook" and e["name"] == name and e["el"] == el and e["pos"] == pos:
            return e["n"]
    return 0


def design_case(arg):
    """worker: emitted case + show -> {"job", "out", "realised"} (or {"skip": reason})"""
    case, show, key = arg["case"], arg["show"], arg["key"]
    try:
        plan = design_plan(case)
        if plan is None:
            return {"key": key, "skip": "not producible by a run"}
        changes, extra = plan
        prog = design_prog(case)
        flat = G.flatten(prog)
        if [e["kind"] for e in flat["elems"]] != case["kinds"] or [e["parent"] for e in flat["elems"]] != case["parents"]:
            raise RuntimeError("element table of the emitted shape and of gen.flatten differ")
        scs = [e["id"] for e in flat["elems"] if e["kind"] == "scenario"]
        cfg = G.cfg(expr="not_t1" if "skip" in case["ds"] else "true", show_skipped=show, **changes)
        targets = [extra] if extra else []
        for s, d in zip(scs, case["ds"]):
            hook = DESC[d][2]
            if hook and not (case["dry"] or d == "untested"):
                targets.append((hook[0], s, hook[1]))
        if len(targets) > 2:
            return {"key": key, "skip": "more than two hook faults"}
        fault = [0, 0]
        for k, (name, el, pos) in enumerate(targets):           # probing runs place the faults (the run is deterministic)
            probe = drive.run_case({"prog": prog, "flat": flat, "cfg": cfg, "fault": list(fault), "fault_kind": "exc"})
            n = _hook_n(probe["events"], name, el, pos)
            if not n:
                return {"key": key, "skip": "hook %s of element %d is not reached" % (name, el)}
            fault[k] = n
        job = mk_job(key, prog, flat, cfg, fault, "exc", kind="design")
        out = drive.run_case(job, reports=True)
        end = out["end"]
        realised = [end["status"][s - 1] for s in scs] == case["st"] and [end["step_status"][s - 1] for s in scs] == case["steps"]
        return {"key": key, "job": job, "out": out, "realised": realised, "case": case, "show": show}
    except Exception:
        import traceback
        return {"key": key, "driver_error": traceback.format_exc()}


def prediction_differs(case, show, row):
    """emitted prediction of JUnit_MC (reporter automaton on the abstract feature) vs the parsed document of the real run
    (informational full conformance; entries: kind and named steps, hook only for entries that name no step)"""
    pred = case["shown" if show else "hidden"]
    f = row["files"][0]
    crashed = bool(row["end"]["escaped"]) and not f["exists"]
    if pred["crashed"] or crashed:
        return pred["crashed"] != crashed
    if pred["exists"] != f["exists"]:
        return True
    if not f["exists"]:
        return False

    def norm(cases):
        return [[c["el"], c["status"], [[e["kind"], list(e["steps"]), bool(e["hook"]) and not e["steps"]]
                                        for e in c["entries"] if e["kind"] in ("failure", "error", "skipped")]] for c in cases]
    return ([pred[k] for k in ("tests", "failures", "errors", "skipped")] != [f[k] for k in ("tests", "failures", "errors", "skipped")]
            or norm(pred["cases"]) != norm(f["cases"]))


def pmap(fn, jobs):
    from multiprocessing import Pool
    if PROCS <= 1 or len(jobs) < 20:
        return [fn(j) for j in jobs]
    with Pool(PROCS) as pool:
        return pool.map(fn, jobs, chunksize=max(1, len(jobs) // (PROCS * 8)))


# ------------------------------------------------------------------------------------------------ verdicts
def describe(job, row, out):
    R = Rendered(job["prog"], job["flat"])
    files = []
    for f in out["reports"]["c16"]["files"]:
        files.append({"feature": f["f"], "exists": f["exists"], "wellformed": f["wellformed"],
                      "counters": [f["tests"], f["failures"], f["errors"], f["skipped"]],
                      "cases": [[c["el"], c["name"], c["status"],
                                 [[e["kind"], e["type"], e["message"][:60], e["steps"], e["hooks"]] for e in c["entries"]
                                  if e["kind"] not in ("system-out", "system-err")]] for c in f["cases"]]})
    return json.dumps({"kind": job["kind"], "cfg": job["cfg"], "fault": job["fault"], "switches": job["sw"],
                       "hook_exception_text": job.get("fault_text", ""), "hook": job.get("hook", []),
                       "parse_errors": [f["parse_error"] for f in out["reports"]["c16"]["files"] if f["parse_error"]],
                       "all_writers": job["all_writers"], "features": [t for _n, t in R.files],
                       "final_status": row["end"]["status"], "step_status": row["end"]["step_status"],
                       "hook_failed": row["end"]["hook_failed"], "escaped": row["end"]["escaped"],
                       "hooks_raised": row["hooks_raised"], "cleanups_raised": row["cleanups_raised"],
                       "reports [tests, failures, errors, skipped]": files}, sort_keys=True)


def signature(v, row, job=None):
    clause, attr, el = v[2], v[3], v[4]
    parts = [clause, attr]
    if clause.startswith("C16.no_crash"):
        # abstract attributes of the feature that made the reporter raise: is there a failed step next to the cleanup
        steps = row["end"]["step_status"]
        scen = [k for k, e in enumerate(row["prog"]) if e["kind"] == "scenario"]
        bad = [k for k in scen if row["end"]["status"][k] in ("error", "hook_error") and not row["end"]["hook_failed"][k]
               and not any(s in ("error", "hook_error", "pending", "undefined") for s in steps[k])]
        parts.append("failed_step=%d" % int(any("failed" in steps[k] for k in bad)))
    elif clause == "C16.wellformed":
        hook = (job or {}).get("hook") or ["", []]
        bad = [c for c in hook[1] if c in ("c0", "c0ws", "delc1", "esc", "fffe")] or hook[1]
        parts.append("src=%s_message" % (hook[0] or "none"))
        parts.append("class=%s" % "+".join(sorted(set(bad))))
    elif row.get("dup"):
        parts.append("dupnames")
    elif clause.split("/")[0] in ("C16.status", "C16.problem_entry") and 0 < el <= len(row["end"]["status"]):
        parts.append("status=%s" % row["end"]["status"][el - 1])
    parts.append("dry=%d" % int(row["cfg"]["dry"]))
    return "|".join(parts)


def judge(chk, rows, metas):
    first = len(chk.tlc_runs)
    verdicts = trace.judge_rows(chk, "JUnit_Trace", rows, chunks=min(16, WORKERS), min_chunk=300)
    diverge = []
    for m, c, r in chk.tlc_runs[first:]:
        diverge.extend(r.by_tag("DIVERGE"))
    byid = {r["id"]: r for r in rows}
    # smallest programs first: the replay file of a signature is its smallest failing input
    for rid, vs in sorted(verdicts.items(), key=lambda kv: (len(byid[kv[0]]["prog"]), kv[0])):
        for v in sorted(vs):
            job, out = metas[rid]
            row = byid[rid]
            payload = {"part": "run", "job": {k: job[k] for k in ("key", "prog", "cfg", "fault", "fault_kind", "sw", "all_writers", "kind")}}
            if "fault_text" in job:
                payload["job"]["fault_text_codepoints"] = [ord(ch) for ch in job["fault_text"]]
                payload["job"]["hook"] = job["hook"]
            chk.violation(v[2].split("/")[0], signature(v, row, job), describe(job, row, out), payload)
    return verdicts, diverge


class _DotFiles(object):
    """prog["dotfiles"]: the feature files are called f.<i>.feature instead of f<i>.feature (file names that are equal up
    to their FIRST dot); the driver and the plug-ins map files by the names of Rendered.files, so renaming them there
    (for the duration of one case, in this process only) keeps every mapping intact"""
    def __enter__(self):
        self.saved = drive.Rendered
        base = self.saved

        class Dotted(base):
            def __init__(self, prog, flat):
                base.__init__(self, prog, flat)
                if prog.get("dotfiles"):
                    self.files = [(re.sub(r"^f(\d+)\.feature$", r"f.\1.feature", fn), t) for fn, t in self.files]
        drive.Rendered = Dotted

    def __exit__(self, *a):
        drive.Rendered = self.saved


def run_one(job):
    try:
        with _DotFiles():
            row = drive.run_case(job, reports=True)
        row["key"] = job["key"]
        return row
    except Exception:
        import traceback
        return {"key": job["key"], "driver_error": traceback.format_exc()}


def run_jobs(jobs):
    outs = pmap(run_one, jobs)
    for o in outs:
        if "driver_error" in o:
            raise RuntimeError("driver failed on %s:\n%s" % (o["key"], o["driver_error"]))
        rep = o.get("reports", {}).get("c16") or {}
        if "projection_error" in rep or not rep:
            raise RuntimeError("plug-in c16 failed on %s:\n%s" % (o["key"], rep.get("projection_error")))
    return outs


# ------------------------------------------------------------------------------------------------ run
def run(chk):
    rnd = random.Random(chk.seed)
    quick = chk.quick()
    t0 = time.time()
    walls = {}
    # 1. design level: TLC runs in the background while the XML part and the real runs are driven
    ex = ThreadPoolExecutor(max_workers=1)
    mc_cfg = "JUnit_MC_quick.cfg" if quick else "JUnit_MC_thorough.cfg"
    # (run_tlc, not chk.tlc: the XML part reads the tail of chk.tlc_runs while this thread is running)
    fut = ex.submit(_tlc.run_tlc, "JUnit_MC", mc_cfg, timeout=3000, workers=max(2, WORKERS // 4) if quick else max(3, WORKERS // 2),
                    coverage=False, heap="8g")
    try:
        # part "xml" (finished elsewhere): well-formedness
        c16_xml.run_xml(chk, workers=WORKERS, procs=min(8, PROCS))
        xml_rule, chk.rule = chk.rule, ""
        walls["xml"] = round(time.time() - t0, 1)
        # 3. real runs of the shared plan
        jobs, planned = plan_jobs(chk, 1000 if quick else 20000, rnd)
        # 4. userdata switches on cases with skipped scenarios, problems and outlines
        base = [j for j in jobs if not j["all_writers"]]
        pool = [j for j in base if job_class(j)[6]] + base
        sjobs = []
        for n, j in enumerate(pool[:60 if quick else 1200]):
            sw = SWITCH_SETS[n % len(SWITCH_SETS)]
            cfg = dict(j["cfg"], show_skipped=False) if n % 2 == 0 else j["cfg"]
            sjobs.append(mk_job(["switch", n] + j["key"][1:], j["prog"], j["flat"], cfg, j["fault"], j["fault_kind"], sw=sw, kind="switch"))
        # 5. hostile text in the exception messages of raising hooks
        sjobs += hook_jobs(rnd, quick)
        run_out = run_jobs(jobs + sjobs)
        walls["runs"] = round(time.time() - t0, 1)
    finally:
        r = fut.result()
        ex.shutdown()
    chk.tlc_runs.append(("JUnit_MC", mc_cfg, r))
    walls["design_mc"] = round(r.wall, 1)
    for name in r.violated:
        chk.violation("C16.design." + name, "design:%s" % name, "TLC: invariant %s violated in JUnit_MC (%s)" % (name, mc_cfg))
    emitted = [json.loads(t[1]) for t in r.by_tag("CASE")]
    emitted.sort(key=lambda c: json.dumps([c["sh"], c["ds"]], sort_keys=True))
    kf_design = sum(1 for c in emitted if "C16.no_crash/cleanup_error_no_step" in c["shown"]["clauses"])
    # 2. emitted abstract features on the real runner
    producible = [c for c in emitted if design_plan(c) is not None]
    small = [c for c in producible if len(c["ds"]) <= 1]
    # always run with skipped scenarios hidden: two scenarios (plain / rule / outline rows / outline in a rule) the second of
    # which ends untested after a cut, and the dry-run combinations -- TLC emits every one of them (Forced in JUnit_MC)
    def two(sh):                # [s, s], rule(2), outline(2 rows), rule holding outline(2 rows)
        return (len(sh) == 2 and all(it["k"] == "s" for it in sh)) or (len(sh) == 1 and sh[0]["n"] == 2)
    forced = [c for c in producible if len(c["ds"]) == 2 and two(c["sh"]) and (c["dry"] or c["ds"][1] == "untested")]
    fkeys = {json.dumps([c["sh"], c["ds"]], sort_keys=True) for c in forced}
    rest = [c for c in producible if len(c["ds"]) > 1 and json.dumps([c["sh"], c["ds"]], sort_keys=True) not in fkeys]
    nrest = 160 if quick else 5000
    if len(rest) > nrest:
        rest = rnd.sample(rest, nrest)
    dargs = []
    for c in small + rest:
        for show in (True, False):
            if show or c["hidden"] != c["shown"]:
                dargs.append({"case": c, "show": show, "key": ["design", len(dargs)]})
    for n, c in enumerate(forced):
        dargs.append({"case": c, "show": False, "key": ["design", len(dargs)]})
        if n % 4 == 0:
            dargs.append({"case": c, "show": True, "key": ["design", len(dargs)]})
    design_out = pmap(design_case, dargs)
    rows, metas = [], {}
    for job, o in zip(jobs + sjobs, run_out):
        rid = len(rows) + 1
        rows.append(make_row(rid, job, o))
        metas[rid] = (job, o)
    skipped, unrealised, mispredicted = {}, [], []
    for o in design_out:
        if "driver_error" in o:
            raise RuntimeError("design driver failed on %s:\n%s" % (o["key"], o["driver_error"]))
        if "skip" in o:
            skipped[o["skip"]] = skipped.get(o["skip"], 0) + 1
            continue
        if not o["realised"]:
            unrealised.append({"ds": o["case"]["ds"], "sh": o["case"]["sh"], "status": o["out"]["end"]["status"],
                               "steps": o["out"]["end"]["step_status"]})
        rid = len(rows) + 1
        rows.append(make_row(rid, o["job"], o["out"]))
        metas[rid] = (o["job"], o["out"])
        if o["realised"] and prediction_differs(o["case"], o["show"], rows[-1]):
            mispredicted.append({"ds": o["case"]["ds"], "sh": o["case"]["sh"], "show": o["show"]})
    not_reached = []
    for rid, (job, o) in metas.items():
        text = job.get("fault_text")
        if text and job["hook"][0] not in ("before_step", "after_step") and c16_xml._is_xml_text(text) and "ws" not in job["hook"][1]:
            msgs = [e["message"] for f in o["reports"]["c16"]["files"] for c in f["cases"] for e in c["entries"] if e["kind"] in ("error", "failure")]
            if not any(text.strip() in m for m in msgs):
                not_reached.append({"hook": job["hook"], "codepoints": [ord(ch) for ch in text]})
    chk.extra["hook_rows_payload_not_in_message"] = len(not_reached)
    if not_reached:
        chk.extra["hook_rows_payload_not_in_message_samples"] = not_reached[:5]
        chk.note("C16 hook rows: %d well-formed reports in which the hook's exception text was not found in error/@message (informational)" % len(not_reached))
    walls["design_rows"] = round(time.time() - t0, 1)
    verdicts, diverge = judge(chk, rows, metas)
    walls["judged"] = round(time.time() - t0, 1)
    chk.extra["run_wall_s_cumulative"] = walls
    # evidence
    chk.divergences += len({t[1] for t in diverge}) + len(unrealised) + len(mispredicted)
    if mispredicted:
        chk.extra["design_mispredicted_samples"] = mispredicted[:5]
        chk.note("DIVERGENCE spec=JUnit_MC: %d design rows differ from the emitted prediction (informational)" % len(mispredicted))
    if diverge:
        chk.extra["run_divergence_samples"] = [{"row": t[1], "feature": t[2], "what": t[3], "kind": metas[t[1]][0]["kind"],
                                                "key": metas[t[1]][0]["key"]} for t in diverge[:5]]
        chk.note("DIVERGENCE spec=JUnit: %d rows differ from the reporter automaton of JUnit.tla (informational)" % len({t[1] for t in diverge}))
    if unrealised:
        chk.extra["design_unrealised_samples"] = unrealised[:5]
        chk.note("C16 design rows: %d emitted features were not realised with the intended final statuses (informational)" % len(unrealised))
    nrows = {k: sum(1 for j, _o in metas.values() if j["kind"] == k) for k in ("run", "switch", "hook", "design")}
    chk.impl_traces += len(rows)
    chk.evaluations += sum(len(x["files"]) for x in rows)
    chk.exhaustive = False
    docs = [f for x in rows for f in x["files"] if f["exists"]]
    died = [x for x in rows if x["end"]["escaped"]]
    chk.extra["run_rows"] = nrows
    chk.extra["run_planned_cases_of_shared_plan"] = planned
    chk.extra["run_documents_parsed"] = len(docs)
    chk.extra["run_testcases_parsed"] = sum(len(f["cases"]) for f in docs)
    chk.extra["run_documents_not_wellformed"] = sum(1 for f in docs if not f["wellformed"])
    chk.extra["run_rows_run_died"] = len(died)
    chk.extra["run_rows_with_raising_cleanup"] = sum(1 for x in rows if x["cleanups_raised"])
    chk.extra["run_rows_with_raising_hook"] = sum(1 for x in rows if x["hooks_raised"])
    chk.extra["run_rows_dry"] = sum(1 for x in rows if x["cfg"]["dry"])
    chk.extra["run_rows_show_skipped_off"] = sum(1 for x in rows if not x["cfg"]["show_skipped"])
    chk.extra["run_rows_same_scenario_names"] = sum(1 for x in rows if x["dup"])
    chk.extra["run_rows_all_report_writers"] = sum(1 for j, _o in metas.values() if j["all_writers"])
    chk.extra["run_rows_with_verdict"] = {k: sum(1 for rid in verdicts if metas[rid][0]["kind"] == k) for k in ("run", "switch", "hook", "design")}
    counts = {}
    for f in docs:
        for c in f["cases"]:
            key = "%s:%s" % (c["status"], "+".join(e["kind"] for e in c["entries"] if e["kind"] in ("failure", "error", "skipped")))
            counts[key] = counts.get(key, 0) + 1
    chk.extra["run_testcases_by_status_and_entries"] = counts
    observed = {"hidden_skipped_with_untested_testcase": 0, "hidden_skipped_dry_run_with_testcases": 0, "hidden_skipped_scenario_left_out": 0,
                "shown_skipped_testcase": 0, "shown_untested_testcase": 0, "failed_testcase": 0, "error_testcase": 0,
                "hook_error_testcase": 0, "outline_row_testcase": 0, "several_documents": 0, "reporter_raised": 0,
                "same_name_testcases_in_one_document": 0}
    for x in rows:
        show = x["cfg"]["show_skipped"] or x["sw"]["show_skipped_always"]
        fs = [f for f in x["files"] if f["exists"] and f["wellformed"]]
        sts = {c["status"] for f in fs for c in f["cases"]}
        listed = {c["el"] for f in fs for c in f["cases"]}
        observed["hidden_skipped_with_untested_testcase"] += int(not show and not x["cfg"]["dry"] and "untested" in sts)
        observed["hidden_skipped_dry_run_with_testcases"] += int(not show and x["cfg"]["dry"] and bool(sts))
        observed["hidden_skipped_scenario_left_out"] += int(not show and bool(fs) and any(
            e["kind"] == "scenario" and x["end"]["status"][k] == "skipped" and k + 1 not in listed for k, e in enumerate(x["prog"])))
        observed["shown_skipped_testcase"] += int(show and "skipped" in sts)
        observed["shown_untested_testcase"] += int(show and "untested" in sts)
        observed["failed_testcase"] += int("failed" in sts)
        observed["error_testcase"] += int("error" in sts)
        observed["hook_error_testcase"] += int("hook_error" in sts)
        observed["outline_row_testcase"] += int(any(x["prog"][x["prog"][el - 1]["parent"] - 1]["kind"] == "outline" for el in listed if el))
        observed["several_documents"] += int(len(fs) > 1)
        nms = [n for n in x["names"] if n]                      # (measured on the input, not on the documents)
        observed["same_name_testcases_in_one_document"] += int(x["dup"] and bool(fs) and len(set(nms)) < len(nms))
        observed["reporter_raised"] += int(bool(x["end"]["escaped"]) and x["tail"]["name"] == "eof")
    chk.extra["run_rows_by_observed_class"] = observed
    empty = [k for k, n in observed.items() if not n and k != "reporter_raised"]
    if empty:
        raise RuntimeError("C16: no row of the mandatory classes %s was produced (thinning / design rows)" % empty)
    chk.extra["design_cases_emitted"] = len(emitted)
    chk.extra["design_cases_using_KF_C16_cleanup_error_no_step"] = kf_design
    chk.extra["design_cases_producible"] = len(producible)
    chk.extra["design_rows_skipped"] = skipped
    chk.extra["design_rows_unrealised"] = len(unrealised)
    chk.extra["design_rows_differing_from_emitted_prediction"] = len(mispredicted)
    chk.extra["distinct_nontrivial"] = chk.extra.get("distinct_nontrivial", 0) + len(
        {json.dumps([x["prog"], x["cfg"], x["sw"], x["end"]["status"], x["end"]["step_status"], x["hooks_raised"]], sort_keys=True)
         for x in rows if any(f["exists"] and f["cases"] for f in x["files"])})
    for x in ([y for y in rows if any(f["exists"] and len(f["cases"]) > 2 for f in y["files"])][:1]
              + [y for y in rows if metas[y["id"]][0]["kind"] == "design"][-1:] + died[:1]):
        job, o = metas[x["id"]]
        chk.sample({"kind": job["kind"], "cfg": job["cfg"], "fault": job["fault"], "switches": job["sw"],
                    "feature_text": Rendered(job["prog"], job["flat"]).files[0][1], "final_status": x["end"]["status"],
                    "escaped": x["end"]["escaped"],
                    "documents": [{k: f[k] for k in ("f", "exists", "wellformed", "tests", "failures", "errors", "skipped")} for f in x["files"]],
                    "testcases_of_first_document": [[c["el"], c["status"], [e["kind"] for e in c["entries"]]] for c in x["files"][0]["cases"]]},
                   limit=9)
    chk.rule = (xml_rule + " || " if xml_rule else "") + (
        "counters: design = every abstract feature with <= MaxScen scenarios (plain / rule / outline rows / outline in rule) x "
        "descriptors^scenarios (27 descriptors up to FullUpTo scenarios, 8 beyond) x show_skipped (TLC, exhaustive); rows: design = "
        "emitted features produced by real runs (probing runs place the hook faults), run = class-balanced part of the shared "
        "run-cluster plan with --junit, switch = cases again with the behave.reporter.junit.* userdata switches; every TESTS-*.xml "
        "parsed by xml.dom.minidom; distinct = distinct (program, cfg, switches, final statuses, raised hooks) among rows with test cases")
    chk.assumptions += [
        "C16 run: a <testcase> stands for the scenario of the parsed model (outline rows included) that carries its name, identified "
        "by file and line; in programs whose scenarios share their name (prog dupnames) the test cases of a feature are matched as "
        "a multiset of (name, status class) against the listed scenarios, entry kinds are judged against the test case's own status",
        "C16 run: an entry names a step when its message or text contains that step's text (fbg k / rbg k / own k), a hook when it "
        "contains HOOK-ERROR",
        "C16 run: a wholly skipped feature with show_skipped off may have no document; features for which the reporter was never "
        "called (run died before) are not judged; a run that died elsewhere than in the reporter calls is C01's business",
        "C16 run: a scenario that is error-class because a cleanup of its own layer raised must carry an error / failure entry, "
        "what the entry names is not judged (a cleanup is neither step nor hook)",
        "C16 run: dry-run: the `undefined` failure entry of an untested scenario is not judged (DESIGN appendix D)",
        "C16 run: the counters are compared with the entries actually present: failures / errors / skipped = number of test cases "
        "with a <failure> / <error> / <skipped> child, tests = number of <testcase> elements"]


# ------------------------------------------------------------------------------------------------ replay
def replay(chk, payload):
    rp = payload["replay"]
    if rp.get("part") == "xml":
        return c16_xml.replay_xml(chk, payload)
    j = rp["job"]
    flat = G.flatten(j["prog"])
    text = u"".join(chr(c) for c in j["fault_text_codepoints"]) if "fault_text_codepoints" in j else None
    job = mk_job(j["key"], j["prog"], flat, j["cfg"], j["fault"], j.get("fault_kind", "exc"), sw=j.get("sw"),
                 all_writers=j.get("all_writers", False), kind=j.get("kind", "run"), fault_text=text, hook=j.get("hook"))
    out = run_jobs([job])[0]
    rows = [make_row(1, job, out)]
    judge(chk, rows, {1: (job, out)})
    chk.impl_traces = 1
    chk.sample({"replayed": {k: j[k] for k in ("key", "cfg", "fault", "sw")}, "final_status": out["end"]["status"],
                "escaped": out["end"]["escaped"]})
