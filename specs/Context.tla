------------------------------ MODULE Context ------------------------------
(* C13 -- the behave Context as an API state machine.                       *)
(*                                                                          *)
(* (S) implementation model: what behave/runner.py Context and              *)
(*     behave/fixture.py DO (frame stack, '@cleanups', '@layer',            *)
(*     _origin, _mode), as pure functions  Apply(s, op, seq) -> [s, ob].    *)
(* (P) property monitor: what the statement of C13 DEMANDS, as a reference  *)
(*     scope stack that consumes *observations* (exception type, probe of   *)
(*     `name in context` / getattr for the whole name pool, log of executed *)
(*     cleanup functions)  MonStep(m, op, ob, seq) -> [m, v].               *)
(* Both are used by Context_MC (model checking, on predicted observations)  *)
(* and by Context_Trace (judge, on observations of the real code).          *)
(*                                                                          *)
(* Everything is encoded in naturals so that rows are compact and uniformly *)
(* typed:  op = <<code, x, y, z>>,                                          *)
(*         ob = <<exc, warn, ret, has_1..has_NP, val_1..val_NP>> \o ran     *)
EXTENDS Naturals, Sequences, FiniteSets

\* ------------------------------------------------------------ vocabulary
Pool == <<"a", "b", "failed", "text", "table">>      \* probed names, by index
NP == 5
NmA == 1
NmB == 2
NmFailed == 3       \* root attribute created by Context.__init__ WITHOUT an _origin entry
NmText == 4
NmTable == 5
Absent == 0         \* value codes: 1, 2 user values; user values may also be 3 False, 6 None, 7 the int 0, 8 '', 9 []
                    \* (the Context is value agnostic: presence is dict membership, never truthiness)
VFalse == 3         \* initial value of context.failed
VCaller == 4        \* text of the step that calls execute_steps
VSub == 5           \* table of the sub-step
VNone == 6          \* None (initial text/table; table of the caller; text of the sub-step)
VTextOf(l) == 10 + l    \* nested execute_steps: multi-line text / table of the step at nesting level l (0 = the caller)
VTableOf(l) == 20 + l
\* layers: 0 = unnamed (scoped_context_layer(context)), 1..4 = LayerName, 5 = a name that is never on the stack
LayerName == <<"testrun", "feature", "rule", "scenario">>
\* exception codes
ENone == 0
EAttr == 1          \* AttributeError
ELookup == 2        \* LookupError
EKey == 3           \* KeyError (internal; never predicted since the _record bookkeeping uses .get/.pop)
ECleanup == 4       \* the exception raised by a cleanup function of the driver
ESetup == 5         \* the exception raised by the setup part of a failing fixture
EAssert == 6        \* AssertionError (execute_steps with a failing sub-step)
ExcName == <<"AttributeError", "LookupError", "KeyError", "CleanupBoom", "SetupBoom", "AssertionError",
             "ValueError", "TypeError", "other">>
\* op codes
OpPush(l) == <<1, l, 0, 0>>
OpPop == <<2, 0, 0, 0>>
OpSet(n, v) == <<3, n, v, 0>>
OpSetRoot(n, v) == <<4, n, v, 0>>
OpGet(n) == <<5, n, 0, 0>>
OpHas(n) == <<6, n, 0, 0>>
OpDel(n) == <<7, n, 0, 0>>
OpUseOrAssign(n, v) == <<8, n, v, 0>>
OpUseOrCreate(n, v) == <<9, n, v, 0>>
OpAddCleanup(id, rz, args, layer) == <<10, id, rz + 2 * args, layer>>   \* rz, args in {0,1}; layer 0 = current
OpUseFixture(kind, id, rz) == <<11, id, rz, kind>>    \* kind 1 generator, 2 plain, 3 failing setup, 4 composite,
                                                      \* 5 generator whose SETUP part registers a cleanup (callable 97,
                                                      \*   with args) and uses another generator fixture (id 98)
OpSwitchMode == <<12, 0, 0, 0>>
OpExecSteps(ok) == <<13, ok, 0, 0>>                   \* ok = 1: sub-step passes, 0: sub-step fails
OpEndRun == <<14, 0, 0, 0>>                           \* ModelRunner.run_model: _do_cleanups() of the testrun layer
\* nested execute_steps: the caller (level 0) runs a sub-step (level 1) whose step function calls execute_steps
\* again, ... down to level `depth` (2 or 3); shapes = SUM shape_l * 3^l, shape_l: 0 the step of level l has neither
\* text nor table, 1 a text, 2 a table; ok = 0: the innermost sub-step fails
OpExecNested(depth, shapes, ok) == <<15, depth, shapes, ok>>
OpNewContext == <<16, 0, 0, 0>>                       \* the run is over; a second Context is built in the same process
OpName == <<"push", "pop", "set", "setroot", "get", "has", "del", "use_or_assign", "use_or_create",
            "add_cleanup", "use_fixture", "switch_mode", "execute_steps", "end_run", "execute_nested", "new_context">>
\* keys of log entries / cleanup registrations: 1000 * seq + 100 * kind + id
\*   kind 0: bare callable (seq = 0: the identity is the callable itself), 1: callable registered with args,
\*   2: teardown part of a generator fixture, 3: setup part of a fixture (id 99: the failing fixture),
\*   3 + l (l = 1, 2): what the step function of nesting level l saw after ITS execute_steps call came back:
\*   id = 10 * digit(text) + digit(table), digit: 0 None, 1 + k the text/table of level k, 9 anything else
Key(seq, kind, id) == 1000 * seq + 100 * kind + id
KeyKind(k) == (k % 1000) \div 100

\* ------------------------------------------------------------ observations
ObsE(ob) == ob[1]
ObsW(ob) == ob[2]
ObsR(ob) == ob[3]
ObsHas(ob, i) == ob[3 + i]
ObsVal(ob, i) == ob[3 + NP + i]
ObsRan(ob) == SubSeq(ob, 4 + 2 * NP, Len(ob))

RECURSIVE Rev(_)
Rev(q) == IF q = <<>> THEN <<>> ELSE Append(Rev(Tail(q)), Head(q))
Count(q, x) == Cardinality({j \in DOMAIN q : q[j] = x})
FirstPos(q, x) == CHOOSE j \in DOMAIN q : q[j] = x /\ \A j2 \in DOMAIN q : q[j2] = x => j <= j2

\* ============================================================ (S) implementation model
\* frames: root FIRST (frames[1] = Context._root = _stack[-1]), top = frames[Len] = _stack[0]
\* cls entry: key, fn = id if the stored object is the bare callable (what `cleanup_func in list` compares) else 0,
\*            rz = 1 raises, live = 0 for the exhausted generator of a failing fixture (runs, does nothing)
SFrame(l) == [layer |-> l, attrs |-> [i \in 1..NP |-> Absent], cls |-> <<>>]
SInit == [frames |-> << [layer |-> 1, attrs |-> <<Absent, Absent, VFalse, VNone, VNone>>, cls |-> <<>>] >>,
          origin |-> <<0, 0, 0, 1, 1>>,         \* _origin: 0 no entry, 1 BEHAVE, 2 USER
          mode |-> 1]                           \* _mode: 1 BEHAVE, 2 USER

RECURSIVE FindFrom(_, _, _)
FindFrom(fr, n, k) == IF k = 0 THEN 0 ELSE IF fr[k].attrs[n] # Absent THEN k ELSE FindFrom(fr, n, k - 1)
Lk(fr, n) == LET k == FindFrom(fr, n, Len(fr)) IN IF k = 0 THEN Absent ELSE fr[k].attrs[n]
RECURSIVE LayerFrom(_, _, _)
LayerFrom(fr, l, k) == IF k = 0 THEN 0 ELSE IF fr[k].layer = l THEN k ELSE LayerFrom(fr, l, k - 1)
\* _select_stack_frame_by_layer: innermost frame with that '@layer' (0: LookupError); layer 0 = current frame
Target(fr, l) == IF l = 0 THEN Len(fr) ELSE IF l > 4 THEN 0 ELSE LayerFrom(fr, l, Len(fr))

MkOb(e, w, r, fr, ran) ==
   <<e, w, r>> \o [i \in 1..NP |-> IF Lk(fr, i) = Absent THEN 0 ELSE 1] \o [i \in 1..NP |-> Lk(fr, i)] \o ran
Res(s, e, w, r, ran) == [s |-> s, ob |-> MkOb(e, w, r, s.frames, ran)]

\* _emit_warning, called once per masked frame: 1 "behave runner is masking", 2 "user code is masking .. set by behave";
\* a name without _origin entry counts as set by behave (_origin.get(attr, BEHAVE)).  The _record entries only feed
\* the text of the warning (_record.get(attr, _UNKNOWN_RECORD), _record.pop(attr, None)): not observable, not modelled.
Origin(s, n) == IF s.origin[n] = 0 THEN 1 ELSE s.origin[n]
WarnCode(s, n, cnt) == IF cnt = 0 THEN 0
                       ELSE IF s.mode = 1 /\ Origin(s, n) # 1 THEN 10 * cnt + 1
                       ELSE IF s.mode = 2 /\ Origin(s, n) # 2 THEN 10 * cnt + 2
                       ELSE 0
\* Context.__setattr__: one warning check per OUTER frame holding the name, then the top frame is assigned
SetCore(s, n, v) ==
   LET d == Len(s.frames)
       outer == {k \in 1..(d - 1) : s.frames[k].attrs[n] # Absent}
   IN [s |-> [s EXCEPT !.frames[d].attrs[n] = v, !.origin[n] = IF @ = 0 THEN s.mode ELSE @],
       e |-> ENone, w |-> WarnCode(s, n, Cardinality(outer))]
\* Context._set_root_attribute: one warning check per NON-ROOT frame (the top one included) holding the name
SetRootCore(s, n, v) ==
   LET d == Len(s.frames)
       holders == {k \in 2..d : s.frames[k].attrs[n] # Absent}
   IN [s |-> [s EXCEPT !.frames[1].attrs[n] = v, !.origin[n] = IF @ = 0 THEN s.mode ELSE @],
       e |-> ENone, w |-> WarnCode(s, n, Cardinality(holders))]
RECURSIVE SetMany(_, _)
SetMany(s, nv) == IF nv = <<>> THEN [s |-> s, e |-> ENone]
                  ELSE LET r == SetCore(s, Head(nv)[1], Head(nv)[2])
                       IN IF r.e # ENone THEN [s |-> r.s, e |-> r.e] ELSE SetMany(r.s, Tail(nv))

DoPush(s, l) == Res([s EXCEPT !.frames = Append(@, SFrame(l))], ENone, 0, 0, <<>>)
\* _do_cleanups: reversed(), every cleanup runs, the FIRST error is re-raised afterwards
RunCleanups(cls) ==
   LET order == Rev(cls)
       livek == SelectSeq(order, LAMBDA c : c.live = 1)
       ran == [j \in DOMAIN livek |-> livek[j].key]
       bad == SelectSeq(livek, LAMBDA c : c.rz = 1)
   IN [ran |-> ran, e |-> IF bad = <<>> THEN ENone ELSE ECleanup, r |-> IF bad = <<>> THEN 0 ELSE bad[1].key]
\* _pop: cleanups in try, stack.pop(0) in finally
DoPop(s) == LET d == Len(s.frames)
                c == RunCleanups(s.frames[d].cls)
            IN Res([s EXCEPT !.frames = SubSeq(@, 1, d - 1)], c.e, 0, c.r, c.ran)
DoEndRun(s) == LET c == RunCleanups(s.frames[Len(s.frames)].cls) IN Res(s, c.e, 0, c.r, c.ran)
DoSet(s, n, v) == LET r == SetCore(s, n, v) IN Res(r.s, r.e, r.w, 0, <<>>)
DoSetRoot(s, n, v) == LET r == SetRootCore(s, n, v) IN Res(r.s, r.e, r.w, 0, <<>>)
DoGet(s, n) == LET x == Lk(s.frames, n) IN Res(s, IF x = Absent THEN EAttr ELSE ENone, 0, x, <<>>)
DoHas(s, n) == Res(s, ENone, 0, IF Lk(s.frames, n) = Absent THEN 0 ELSE 1, <<>>)
\* __delattr__: only the current frame
DoDel(s, n) ==
   LET d == Len(s.frames)
   IN IF s.frames[d].attrs[n] = Absent THEN Res(s, EAttr, 0, 0, <<>>)
      ELSE Res([s EXCEPT !.frames[d].attrs[n] = Absent], ENone, 0, 0, <<>>)
\* use_or_assign_param / use_or_create_param
DoUseOr(s, n, v) == LET x == Lk(s.frames, n)
                    IN IF x # Absent THEN Res(s, ENone, 0, x, <<>>)
                       ELSE LET r == SetCore(s, n, v) IN Res(r.s, r.e, r.w, IF r.e = ENone THEN v ELSE 0, <<>>)
\* add_cleanup: with args a fresh wrapper is stored (never a duplicate); a bare callable is stored itself and
\* `if internal_cleanup_func not in frame["@cleanups"]` drops its second registration for the same frame
DoAddCleanup(s, id, flags, l, seq) ==
   LET rz == flags % 2
       args == flags \div 2
       t == Target(s.frames, l)
   IN IF t = 0 THEN Res(s, ELookup, 0, 0, <<>>)
      ELSE IF args = 0 /\ \E j \in DOMAIN s.frames[t].cls : s.frames[t].cls[j].fn = id THEN Res(s, ENone, 0, 0, <<>>)
      ELSE Res([s EXCEPT !.frames[t].cls = Append(@, [key |-> IF args = 1 THEN Key(seq, 1, id) ELSE Key(0, 0, id),
                                                      fn |-> IF args = 1 THEN 0 ELSE id, rz |-> rz, live |-> 1])],
               ENone, 0, 0, <<>>)
\* fixture._setup_fixture: generator -> add_cleanup(cleanup_fixture) BEFORE next(); plain function -> just called
GenEntry(seq, id, rz, live) == [key |-> Key(seq, 2, id), fn |-> 0, rz |-> rz, live |-> live]
DoUseFixture(s, id, rz, kind, seq) ==
   LET d == Len(s.frames)
   IN CASE kind = 1 -> Res([s EXCEPT !.frames[d].cls = Append(@, GenEntry(seq, id, rz, 1))], ENone, 0, 0, <<Key(seq, 3, id)>>)
        [] kind = 2 -> LET r == SetCore(s, NmA, 2) IN Res(r.s, r.e, r.w, 0, <<Key(seq, 3, id)>>)
        [] kind = 3 -> Res([s EXCEPT !.frames[d].cls = Append(@, GenEntry(seq, 99, 0, 0))], ESetup, 0, 0, <<Key(seq, 3, 99)>>)
        [] kind = 5 -> \* own teardown is registered FIRST (before next()), then whatever the setup part registers
                       Res([s EXCEPT !.frames[d].cls = @ \o << GenEntry(seq, id, rz, 1),
                                                                [key |-> Key(seq, 1, 97), fn |-> 0, rz |-> 0, live |-> 1],
                                                                GenEntry(seq, 98, 0, 1) >>],
                           ENone, 0, 0, <<Key(seq, 3, id), Key(seq, 3, 98)>>)
        [] OTHER    -> Res([s EXCEPT !.frames[d].cls = Append(Append(@, GenEntry(seq, id, rz, 1)), GenEntry(seq, 99, 0, 0))],
                           ESetup, 0, 0, <<Key(seq, 3, id), Key(seq, 3, 99)>>)
DoSwitchMode(s) == Res([s EXCEPT !.mode = 3 - @], ENone, 0, 0, <<>>)
\* Step.run of the calling step sets text/table (BEHAVE mode); execute_steps saves them, every sub-step sets its
\* own, and the saved values are assigned back in a `finally` (after a failing sub-step too)
DoExecSteps(s, ok) ==
   LET sb == [s EXCEPT !.mode = 1]
       r == SetMany(sb, << <<NmText, VCaller>>, <<NmTable, VNone>>, <<NmText, VNone>>, <<NmTable, VSub>>,
                           <<NmTable, VNone>>, <<NmText, VCaller>> >>)
   IN Res([r.s EXCEPT !.mode = s.mode], IF r.e # ENone THEN r.e ELSE IF ok = 1 THEN ENone ELSE EAssert, 0, 0, <<>>)

Pow3(l) == CASE l = 0 -> 1 [] l = 1 -> 3 [] l = 2 -> 9 [] l = 3 -> 27 [] OTHER -> 81
ShapeAt(shapes, l) == (shapes \div Pow3(l)) % 3
TextAt(shapes, l) == IF ShapeAt(shapes, l) = 1 THEN VTextOf(l) ELSE VNone
TableAt(shapes, l) == IF ShapeAt(shapes, l) = 2 THEN VTableOf(l) ELSE VNone
Digit(v) == IF v = VNone THEN 0 ELSE IF v \in 10..13 THEN v - 9 ELSE IF v \in 20..23 THEN v - 19 ELSE 9
\* what the levels depth-1 .. 1 report (innermost first) when every level sees ITS OWN text/table again
OwnProbes(depth, shapes, seq) ==
   [j \in 1..(depth - 1) |-> LET l == depth - j IN Key(seq, 3 + l, 10 * Digit(TextAt(shapes, l)) + Digit(TableAt(shapes, l)))]
\* every execute_steps call keeps the caller's text/table in LOCAL variables and assigns them back in its `finally`,
\* so the calls nest: Step.run of level l assigns text_l/table_l, the call made by level l restores them afterwards
RECURSIVE NestSets(_, _, _)
NestSets(shapes, l, depth) ==       \* the assignments from Step.run of level l to the `finally` of the call that ran it
   IF l > depth THEN <<>>
   ELSE << <<NmText, TextAt(shapes, l)>>, <<NmTable, TableAt(shapes, l)>> >> \o NestSets(shapes, l + 1, depth)
        \o << <<NmTable, TableAt(shapes, l - 1)>>, <<NmText, TextAt(shapes, l - 1)>> >>
DoExecNested(s, depth, shapes, ok, seq) ==
   LET sb == [s EXCEPT !.mode = 1]
       r == SetMany(sb, << <<NmText, TextAt(shapes, 0)>>, <<NmTable, TableAt(shapes, 0)>> >> \o NestSets(shapes, 1, depth))
   IN Res([r.s EXCEPT !.mode = s.mode], IF r.e # ENone THEN r.e ELSE IF ok = 1 THEN ENone ELSE EAssert, 0, 0,
          OwnProbes(depth, shapes, seq))
\* a new Context(runner): nothing of the previous one is left
DoNewContext(s) == Res(SInit, ENone, 0, 0, <<>>)

Apply(s, op, seq) ==
   CASE op[1] = 1 -> DoPush(s, op[2])
     [] op[1] = 2 -> DoPop(s)
     [] op[1] = 3 -> DoSet(s, op[2], op[3])
     [] op[1] = 4 -> DoSetRoot(s, op[2], op[3])
     [] op[1] = 5 -> DoGet(s, op[2])
     [] op[1] = 6 -> DoHas(s, op[2])
     [] op[1] = 7 -> DoDel(s, op[2])
     [] op[1] = 8 -> DoUseOr(s, op[2], op[3])
     [] op[1] = 9 -> DoUseOr(s, op[2], op[3])
     [] op[1] = 10 -> DoAddCleanup(s, op[2], op[3], op[4], seq)
     [] op[1] = 11 -> DoUseFixture(s, op[2], op[3], op[4], seq)
     [] op[1] = 12 -> DoSwitchMode(s)
     [] op[1] = 13 -> DoExecSteps(s, op[2])
     [] op[1] = 15 -> DoExecNested(s, op[2], op[3], op[4], seq)
     [] op[1] = 16 -> DoNewContext(s)
     [] OTHER -> DoEndRun(s)

\* ============================================================ (P) property monitor
\* reference scope stack; regs = cleanups that must run when the scope ends, in registration order:
\*   key, rz, n = number of registrations of a BARE callable for this scope.  "Every cleanup registered with
\*   add_cleanup (for the current scope, for a named layer, ...) runs exactly once": a cleanup function that is
\*   registered again for the same scope -- whether as the current scope or by layer= -- is the same cleanup and runs
\*   once (this is what add_cleanup's "AVOID DUPLICATES" promises); only its position in the LIFO order is not
\*   determined by the statement (pairs with n > 1 are not judged by cleanup_lifo).  A registration with args is a
\*   cleanup of its own (key per registration).
\*   done (used in the root frame only) = keys of cleanups whose scope has ended: they must never run again, not at
\*   the end of another scope and not when a LATER Context of the same process ends
MFrame(l) == [layer |-> l, attrs |-> [i \in 1..NP |-> Absent], regs |-> <<>>, done |-> {}]
MInit == << [layer |-> 1, attrs |-> <<Absent, Absent, VFalse, VNone, VNone>>, regs |-> <<>>, done |-> {}] >>
RegKeys(regs) == {regs[j].key : j \in DOMAIN regs}

\* R3/R4: after a deviation the monitor does not guess what the implementation's frames look like: the names
\* concerned become Unknown (in the frame concerned, or everywhere) and views through an Unknown entry are not
\* judged until the name is assigned again or the scope ends.  One deviation, one verdict.
Unknown == 97
RECURSIVE MFind(_, _, _)
MFind(fr, n, k) == IF k = 0 THEN Absent ELSE IF fr[k].attrs[n] # Absent THEN fr[k].attrs[n] ELSE MFind(fr, n, k - 1)
MLk(fr, n) == MFind(fr, n, Len(fr))         \* a value, Absent, or Unknown
Bad(fr, ob) == {i \in 1..NP : /\ MLk(fr, i) # Unknown
                              /\ \/ ObsVal(ob, i) # MLk(fr, i)
                                 \/ ObsHas(ob, i) # (IF MLk(fr, i) = Absent THEN 0 ELSE 1)}
ViewV(fr, ob, clause) == IF Bad(fr, ob) = {} THEN {} ELSE {<<clause, "view">>}
Forget(fr, S) == [k \in DOMAIN fr |-> [fr[k] EXCEPT !.attrs = [i \in 1..NP |-> IF i \in S THEN Unknown ELSE @[i]]]]

\* the scope with registrations `regs` ends and `ran` was executed
ScopeEndV(regs, ran, e, done) ==
   LET keys == {regs[j].key : j \in DOMAIN regs}
       raisedRan == \E j \in DOMAIN regs : regs[j].rz = 1 /\ Count(ran, regs[j].key) > 0
       missed == {j \in DOMAIN regs : Count(ran, regs[j].key) = 0}
       over == {j \in DOMAIN regs : Count(ran, regs[j].key) > 1}
   IN UNION {
       {<<"cleanup_despite_errors", "missed">> : j \in {x \in missed : raisedRan}},
       {<<"fixture_cleanup", "missed">> : j \in {x \in missed : ~raisedRan /\ KeyKind(regs[x].key) = 2}},
       {<<"cleanup_once", "missed">> : j \in {x \in missed : ~raisedRan /\ KeyKind(regs[x].key) # 2}},
       {<<"fixture_cleanup", "repeated">> : j \in {x \in over : KeyKind(regs[x].key) = 2}},
       {<<"cleanup_once", "repeated">> : j \in {x \in over : KeyKind(regs[x].key) # 2}},
       {<<"cleanup_once", "again">> : j \in {x \in DOMAIN ran : ran[x] \notin keys /\ ran[x] \in done}},
       {<<"cleanup_layer", "foreign">> : j \in {x \in DOMAIN ran : ran[x] \notin keys /\ ran[x] \notin done}},
       IF \E i, j \in DOMAIN regs : /\ i < j /\ regs[i].n = 1 /\ regs[j].n = 1
                                    /\ Count(ran, regs[i].key) = 1 /\ Count(ran, regs[j].key) = 1
                                    /\ FirstPos(ran, regs[i].key) < FirstPos(ran, regs[j].key)
       THEN {<<"cleanup_lifo", "order">>} ELSE {},
       \* the scope end may raise (any exception type: the statement only says that the owner fails) iff a
       \* cleanup that ran raises
       IF e # ENone /\ ~raisedRan THEN {<<"api_errors", IF e \in 1..8 THEN ExcName[e] ELSE "other">>} ELSE {} }
\* nothing may run outside a scope end (fixture setups are judged by the fixture op itself)
EarlyV(ran) == IF ran = <<>> THEN {} ELSE {<<"cleanup_layer", "early">>}

\* ideal step: fr = reference stack afterwards, v = verdicts, ok = exception types the op may raise
MR(fr, v, ok) == [fr |-> fr, v |-> v, ok |-> ok]
MonCase(m, op, ob, seq) ==
   LET c == op[1]
       d == Len(m)
       e == ObsE(ob)
       ran == ObsRan(ob)
       ret == ObsR(ob)
       n == op[2]
   IN CASE c = 1 -> LET f == Append(m, MFrame(op[2])) IN MR(f, ViewV(f, ob, "visible") \cup EarlyV(ran), {ENone})
        [] c = 2 -> LET f0 == IF d = 1 THEN m ELSE SubSeq(m, 1, d - 1)
                        f == [f0 EXCEPT ![1].done = @ \cup RegKeys(m[d].regs)]
                        bad == Bad(f, ob)
                    IN MR(f, {<<"shadow", "view">> : i \in {x \in bad : m[d].attrs[x] # Absent /\ MLk(f, x) # Absent}}
                             \cup {<<"scope_end", "view">> : i \in {x \in bad : ~(m[d].attrs[x] # Absent /\ MLk(f, x) # Absent)}}
                             \cup ScopeEndV(m[d].regs, ran, e, m[1].done), 0..9)
        [] c = 14 -> LET f == [m EXCEPT ![d].regs = <<>>, ![1].done = @ \cup RegKeys(m[d].regs)]
                     IN MR(f, ViewV(f, ob, "visible") \cup ScopeEndV(m[d].regs, ran, e, m[1].done), 0..9)
        [] c = 3 -> LET f == [m EXCEPT ![d].attrs[n] = op[3]] IN MR(f, ViewV(f, ob, "visible") \cup EarlyV(ran), {ENone})
        [] c = 4 -> LET f == [m EXCEPT ![1].attrs[n] = op[3]] IN MR(f, ViewV(f, ob, "root_attr") \cup EarlyV(ran), {ENone})
        [] c = 5 -> LET x == MLk(m, n)
                    IN MR(m, (IF x = Unknown \/ (x = Absent /\ e = EAttr) \/ (x # Absent /\ e = ENone /\ ret = x) THEN {} ELSE {<<"visible", "get">>})
                             \cup ViewV(m, ob, "visible") \cup EarlyV(ran), {ENone, EAttr})
        [] c = 6 -> MR(m, (IF MLk(m, n) = Unknown \/ ret = (IF MLk(m, n) = Absent THEN 0 ELSE 1) THEN {} ELSE {<<"visible", "has">>})
                          \cup ViewV(m, ob, "visible") \cup EarlyV(ran), {ENone})
        [] c = 7 -> IF m[d].attrs[n] = Unknown      \* not known whether the name is set in this scope: afterwards it is not
                    THEN LET f == [m EXCEPT ![d].attrs[n] = Absent] IN MR(f, ViewV(f, ob, "delete_local") \cup EarlyV(ran), {ENone, EAttr})
                    ELSE IF m[d].attrs[n] # Absent
                    THEN IF e = EAttr THEN MR(m, {<<"delete_local", "refused">>} \cup EarlyV(ran), {ENone, EAttr})
                         ELSE LET f == [m EXCEPT ![d].attrs[n] = Absent] IN MR(f, ViewV(f, ob, "delete_local") \cup EarlyV(ran), {ENone, EAttr})
                    ELSE MR(m, ViewV(m, ob, "delete_local") \cup EarlyV(ran), {ENone, EAttr})
        [] c \in {8, 9} -> LET x == MLk(m, n)
                               f == IF x = Absent THEN [m EXCEPT ![d].attrs[n] = op[3]]
                                    ELSE IF x = Unknown THEN [m EXCEPT ![d].attrs[n] = Unknown] ELSE m
                           IN MR(f, (IF x = Unknown \/ ret = (IF x = Absent THEN op[3] ELSE x) THEN {} ELSE {<<"visible", "ret">>})
                                    \cup ViewV(f, ob, "visible") \cup EarlyV(ran), {ENone})
        [] c = 10 -> LET rz == op[3] % 2
                         args == op[3] \div 2
                         t == Target(m, op[4])
                     IN IF t = 0 THEN MR(m, (IF e = ENone THEN {<<"cleanup_layer", "unknown_layer">>} ELSE {}) \cup EarlyV(ran), {ENone, ELookup})
                        ELSE IF e = ELookup THEN MR(m, {<<"cleanup_layer", "layer_refused">>} \cup EarlyV(ran), {ENone, ELookup})
                        ELSE LET bare == {j \in DOMAIN m[t].regs : m[t].regs[j].key = Key(0, 0, op[2])}
                                 f == IF args = 0 /\ bare # {}
                                      THEN [m EXCEPT ![t].regs = [j \in DOMAIN @ |-> IF j \in bare THEN [@[j] EXCEPT !.n = @ + 1] ELSE @[j]]]
                                      ELSE [m EXCEPT ![t].regs = Append(@, [key |-> IF args = 1 THEN Key(seq, 1, op[2]) ELSE Key(0, 0, op[2]),
                                                                            rz |-> rz, n |-> 1])]
                             IN MR(f, ViewV(f, ob, "visible") \cup EarlyV(ran), {ENone, ELookup})
        [] c = 11 -> LET kind == op[4]
                         want == CASE kind = 3 -> <<Key(seq, 3, 99)>>
                                   [] kind = 4 -> <<Key(seq, 3, n), Key(seq, 3, 99)>>
                                   [] kind = 5 -> <<Key(seq, 3, n), Key(seq, 3, 98)>>
                                   [] OTHER -> <<Key(seq, 3, n)>>
                         sv == IF ran = want THEN {} ELSE {<<"fixture_cleanup", "setup">>}
                         reg == [key |-> Key(seq, 2, n), rz |-> op[3], n |-> 1]
                     IN CASE kind = 1 -> LET f == [m EXCEPT ![d].regs = Append(@, reg)] IN MR(f, sv \cup ViewV(f, ob, "visible"), {ENone})
                          [] kind = 2 -> LET f == [m EXCEPT ![d].attrs[NmA] = 2] IN MR(f, sv \cup ViewV(f, ob, "visible"), {ENone})
                          [] kind = 3 -> MR(m, sv \cup ViewV(m, ob, "visible"), {ENone, ESetup})
                          [] kind = 5 -> \* the fixture is used (its teardown counts as registered) BEFORE anything its setup
                                         \* part registers: at the scope end the inner ones run first, its own teardown last
                                         LET f == [m EXCEPT ![d].regs = @ \o << reg, [key |-> Key(seq, 1, 97), rz |-> 0, n |-> 1],
                                                                                [key |-> Key(seq, 2, 98), rz |-> 0, n |-> 1] >>]
                                         IN MR(f, sv \cup ViewV(f, ob, "visible"), {ENone})
                          [] OTHER -> LET f == [m EXCEPT ![d].regs = Append(@, reg)] IN MR(f, sv \cup ViewV(f, ob, "visible"), {ENone, ESetup})
        [] c = 12 -> MR(m, ViewV(m, ob, "visible") \cup EarlyV(ran), {ENone})
        [] c = 15 -> \* after EVERY return (also by AssertionError) the step that called execute_steps has its own text/table
                     LET f == [m EXCEPT ![d].attrs[NmText] = TextAt(op[3], 0), ![d].attrs[NmTable] = TableAt(op[3], 0)]
                         bad == Bad(f, ob)
                         how == IF op[4] = 1 THEN "nested_ok" ELSE "nested_failure"
                     IN MR(f, (IF bad \cap {NmText, NmTable} # {} \/ ran # OwnProbes(op[2], op[3], seq) THEN {<<"exec_steps_restore", how>>} ELSE {})
                              \cup (IF bad \ {NmText, NmTable} # {} THEN {<<"visible", "view">>} ELSE {}),
                           IF op[4] = 1 THEN {ENone} ELSE {ENone, EAssert})
        [] c = 16 -> \* the new Context starts empty; every cleanup registered so far is finished
                     LET all == UNION {RegKeys(m[k].regs) : k \in DOMAIN m} \cup m[1].done
                         f == [MInit EXCEPT ![1].done = all]
                     IN MR(f, ViewV(f, ob, "scope_end") \cup EarlyV(ran), {ENone})
        [] OTHER -> LET f == [m EXCEPT ![d].attrs[NmText] = VCaller, ![d].attrs[NmTable] = VNone]
                        bad == Bad(f, ob)
                    IN MR(f, (IF bad \cap {NmText, NmTable} # {} THEN {<<"exec_steps_restore", IF op[2] = 1 THEN "after_ok" ELSE "after_failure">>} ELSE {})
                             \cup (IF bad \ {NmText, NmTable} # {} THEN {<<"visible", "view">>} ELSE {}) \cup EarlyV(ran),
                          IF op[2] = 1 THEN {ENone} ELSE {ENone, EAssert})

ExcTag(e) == IF e \in 1..8 THEN ExcName[e] ELSE "other"
MonStep(m, op, ob, seq) ==
   LET r == MonCase(m, op, ob, seq)
       c == op[1]
       d == Len(m)
   IN IF ObsE(ob) \notin r.ok
      THEN \* an exception the operation must not raise: one verdict; whether the operation took effect is not known
           LET base == CASE c \in {1, 2, 14, 16} -> r.fr
                         [] c \in {3, 7, 8, 9} -> [m EXCEPT ![d].attrs[op[2]] = Unknown]
                         [] c = 4 -> [m EXCEPT ![1].attrs[op[2]] = Unknown]
                         [] c = 11 /\ op[4] = 2 -> [m EXCEPT ![d].attrs[NmA] = Unknown]
                         [] c \in {13, 15} -> Forget(m, {NmText, NmTable})
                         [] OTHER -> m
           IN [m |-> Forget(base, Bad(base, ob)), v |-> {<<"api_errors", ExcTag(ObsE(ob))>>}]
      ELSE [m |-> IF r.v = {} THEN r.fr ELSE Forget(r.fr, Bad(r.fr, ob)), v |-> r.v]

=============================================================================
