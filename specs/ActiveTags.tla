----------------------------- MODULE ActiveTags -----------------------------
(***************************************************************************)
(* Active tags of behave (C19), behave/tag_matcher.py.                     *)
(*                                                                         *)
(* (a) the DEFINITION of the property statement: a tag list is excluded    *)
(*     iff for some category KNOWN to the value provider the list has      *)
(*     positive active tags of that category and none matches the current  *)
(*     value, or one of its negative active tags of that category matches. *)
(*     Tags of unknown categories and tags that are not active tags never  *)
(*     exclude.  Value objects compare with their declared operator,       *)
(*     malformed tag values never match.                                   *)
(* (b) the ALGORITHM of the code: regex schema match (ordered prefix       *)
(*     alternation, greedy category), grouping by category in order of     *)
(*     first occurrence, per group                                         *)
(*       (no positives or some positive matches) and no negative matches,  *)
(*     is_tag_negated = prefix.startswith("not"), value objects with       *)
(*     int()/to_bool() conversion in try/except, value providers: dict,    *)
(*     ActiveTagValueProvider, CompositeActiveTagValueProvider with its    *)
(*     cache, CompositeTagMatcher = any member excludes.                   *)
(*                                                                         *)
(* Texts are sequences of one-character strings.  A value spec is the      *)
(* record [kind, op, s, n, b, set]: kind in str|num|bool|set|ver|junk,     *)
(* op in eq|ne|ge|le|contains.  Pure definitions only.                     *)
(***************************************************************************)
EXTENDS Naturals, Integers, Sequences, FiniteSets, TLC, IOUtils

\* ---------------------------------------------------------------- characters
Lowers == {"a","b","c","d","e","f","g","h","i","j","k","l","m","n","o","p","q","r","s","t","u","v","w","x","y","z"}
Uppers == {"A","B","C","D","E","F","G","H","I","J","K","L","M","N","O","P","Q","R","S","T","U","V","W","X","Y","Z"}
Digits == {"0","1","2","3","4","5","6","7","8","9"}
WordCh == Lowers \cup Uppers \cup Digits \cup {"_"}          \* \w (ASCII part)
LowerOf == [c \in Uppers |->
   CASE c = "A" -> "a" [] c = "B" -> "b" [] c = "C" -> "c" [] c = "D" -> "d" [] c = "E" -> "e" [] c = "F" -> "f"
     [] c = "G" -> "g" [] c = "H" -> "h" [] c = "I" -> "i" [] c = "J" -> "j" [] c = "K" -> "k" [] c = "L" -> "l"
     [] c = "M" -> "m" [] c = "N" -> "n" [] c = "O" -> "o" [] c = "P" -> "p" [] c = "Q" -> "q" [] c = "R" -> "r"
     [] c = "S" -> "s" [] c = "T" -> "t" [] c = "U" -> "u" [] c = "V" -> "v" [] c = "W" -> "w" [] c = "X" -> "x"
     [] c = "Y" -> "y" [] c = "Z" -> "z"]
Lower(s) == [i \in DOMAIN s |-> IF s[i] \in Uppers THEN LowerOf[s[i]] ELSE s[i]]
DigitVal(c) == CASE c = "0" -> 0 [] c = "1" -> 1 [] c = "2" -> 2 [] c = "3" -> 3 [] c = "4" -> 4
                 [] c = "5" -> 5 [] c = "6" -> 6 [] c = "7" -> 7 [] c = "8" -> 8 [] c = "9" -> 9

StartsWith(s, p) == Len(s) >= Len(p) /\ SubSeq(s, 1, Len(p)) = p
Drop(s, n) == SubSeq(s, n + 1, Len(s))
WithLit == <<".", "w", "i", "t", "h", "_">>
NotLit  == <<"n", "o", "t">>
SeqToSet(q) == {q[i] : i \in DOMAIN q}

\* ---------------------------------------------------------------- value specs
VSpec(kind, op, v) == [kind |-> kind, op |-> op, s |-> v.s, n |-> v.n, b |-> v.b, set |-> v.set]
V0 == [s |-> <<>>, n |-> 0, b |-> FALSE, set |-> <<>>]
Junk == VSpec("junk", "eq", V0)      \* an object that equals no tag value (an instance of behave._types.Unknown)
Cmp(op, a, b) == CASE op = "eq" -> a = b [] op = "ne" -> a # b [] op = "ge" -> a >= b [] op = "le" -> a <= b
                   [] OTHER -> FALSE

\* ---- numbers: optional "-" and decimal digits (the driver uses only such texts or clearly malformed ones)
IsDigits(t) == t # <<>> /\ \A i \in DOMAIN t : t[i] \in Digits
IsIntText(t) == IF t # <<>> /\ t[1] = "-" THEN IsDigits(Tail(t)) ELSE IsDigits(t)
RECURSIVE NatOf(_)
NatOf(t) == IF t = <<>> THEN 0 ELSE 10 * NatOf(SubSeq(t, 1, Len(t) - 1)) + DigitVal(t[Len(t)])
IntOf(t) == IF t[1] = "-" THEN 0 - NatOf(Tail(t)) ELSE NatOf(t)
TrueTexts  == {<<"t","r","u","e">>, <<"y","e","s">>, <<"o","n">>}
FalseTexts == {<<"f","a","l","s","e">>, <<"n","o">>, <<"o","f","f">>}
\* ---- versions "3.12": tuple of naturals, compared like Python tuples
RECURSIVE SplitDots(_)
SplitDots(t) == LET ds == {i \in DOMAIN t : t[i] = "."} IN
                IF ds = {} THEN <<t>>
                ELSE LET k == CHOOSE i \in ds : \A j \in ds : i <= j IN <<SubSeq(t, 1, k - 1)>> \o SplitDots(Drop(t, k))
IsVerText(t) == \A i \in DOMAIN SplitDots(t) : IsDigits(SplitDots(t)[i])
VerOf(t) == [i \in DOMAIN SplitDots(t) |-> NatOf(SplitDots(t)[i])]
RECURSIVE TupLe(_,_)     \* a <= b for tuples
TupLe(a, b) == IF a = <<>> THEN TRUE ELSE IF b = <<>> THEN FALSE
               ELSE IF a[1] < b[1] THEN TRUE ELSE IF a[1] > b[1] THEN FALSE ELSE TupLe(Tail(a), Tail(b))
TupCmp(op, a, b) == CASE op = "eq" -> a = b [] op = "ne" -> a # b [] op = "le" -> TupLe(a, b) [] op = "ge" -> TupLe(b, a)
                      [] OTHER -> FALSE

\* (a) definition: the tag value, read in the type of the value object, stands in the declared relation
DefMatches(sp, tv) ==
   CASE sp.kind = "str"  -> Cmp(sp.op, sp.s, tv)
     [] sp.kind = "num"  -> IsIntText(tv) /\ Cmp(sp.op, sp.n, IntOf(tv))
     \* num2: a NumberValueObject whose current value is no integer (sp.n = twice the value: 21 stands for 10.5)
     [] sp.kind = "num2" -> IsIntText(tv) /\ Cmp(sp.op, sp.n, 2 * IntOf(tv))
     \* numset: a NumberValueObject over a container of numbers with the operator `contains` (sp.set = the numbers)
     [] sp.kind = "numset" -> IsIntText(tv) /\ IntOf(tv) \in SeqToSet(sp.set)
     [] sp.kind = "bool" -> \/ Lower(tv) \in TrueTexts  /\ Cmp(sp.op, sp.b, TRUE)
                            \/ Lower(tv) \in FalseTexts /\ Cmp(sp.op, sp.b, FALSE)
     [] sp.kind = "set"  -> tv \in SeqToSet(sp.set)
     [] sp.kind = "ver"  -> IsVerText(tv) /\ TupCmp(sp.op, sp.set, VerOf(tv))     \* the tuple is kept in field set
     [] OTHER -> FALSE
\* (b) algorithm: convert in try/except (conversion error -> on_type_conversion_error -> False), then compare
Conv(kind, tv) ==
   CASE kind \in {"num", "num2", "numset"} -> IF IsIntText(tv) THEN [ok |-> TRUE, n |-> IntOf(tv), b |-> FALSE] ELSE [ok |-> FALSE, n |-> 0, b |-> FALSE]
     [] kind = "bool" -> LET t == Lower(tv) IN
                         IF t \in TrueTexts THEN [ok |-> TRUE, n |-> 0, b |-> TRUE]
                         ELSE IF t \in FalseTexts THEN [ok |-> TRUE, n |-> 0, b |-> FALSE]
                         ELSE [ok |-> FALSE, n |-> 0, b |-> FALSE]
     [] OTHER -> [ok |-> TRUE, n |-> 0, b |-> FALSE]
AlgMatches(sp, tv) ==
   LET c == Conv(sp.kind, tv) IN
   IF ~c.ok THEN FALSE
   ELSE CASE sp.kind = "str"  -> Cmp(sp.op, sp.s, tv)
          [] sp.kind = "num"  -> Cmp(sp.op, sp.n, c.n)
          [] sp.kind = "num2" -> Cmp(sp.op, sp.n, 2 * c.n)           \* the current value itself is compared, not int(current)
          [] sp.kind = "numset" -> \E i \in DOMAIN sp.set : sp.set[i] = c.n
          [] sp.kind = "bool" -> Cmp(sp.op, sp.b, c.b)
          [] sp.kind = "set"  -> \E i \in DOMAIN sp.set : sp.set[i] = tv
          [] sp.kind = "ver"  -> IF IsVerText(tv) THEN TupCmp(sp.op, sp.set, VerOf(tv)) ELSE FALSE
          [] OTHER -> FALSE                                   \* junk == "text" is False

\* ---------------------------------------------------------------- (a) what an active tag is
\* PREFIX ".with_" CATEGORY SEP VALUE, CATEGORY = words joined by single dots
IsCat(c) == /\ c # <<>> /\ \A i \in DOMAIN c : c[i] \in WordCh \cup {"."}
            /\ c[1] # "." /\ c[Len(c)] # "." /\ \A i \in 1..(Len(c) - 1) : ~(c[i] = "." /\ c[i + 1] = ".")
NoTag == [pre |-> <<>>, cat |-> <<>>, val |-> <<>>]
DefParses(tag, P, sep) ==       \* P: set of prefixes; the set of readings of tag as an active tag (at most one here)
   UNION { LET h == p \o WithLit IN
           IF ~StartsWith(tag, h) THEN {}
           ELSE LET r == Drop(tag, Len(h)) IN
                { [pre |-> p, cat |-> SubSeq(r, 1, k), val |-> Drop(r, k + Len(sep))] :
                    k \in {k \in 1..Len(r) : IsCat(SubSeq(r, 1, k)) /\ StartsWith(Drop(r, k), sep)} }
         : p \in P }
DefActive(tags, P, sep) == UNION {DefParses(tags[i], P, sep) : i \in DOMAIN tags}
\* cur: function  known category -> value spec;  N: the negative prefixes
DefGroupExcludes(A, N, c, sp) ==
   LET pos == {a \in A : a.cat = c /\ a.pre \notin N}
       neg == {a \in A : a.cat = c /\ a.pre \in N}
   IN (pos # {} /\ \A a \in pos : ~DefMatches(sp, a.val)) \/ (\E a \in neg : DefMatches(sp, a.val))
DefExcludedA(A, N, cur) == \E c \in DOMAIN cur : DefGroupExcludes(A, N, c, cur[c])
DefExcluded(tags, P, N, sep, cur) == DefExcludedA(DefActive(tags, P, sep), N, cur)

\* ---------------------------------------------------------------- (b) the regex of make_tag_pattern
\* ^(?P<prefix>p1|p2|..)\.with_(?P<category>\w+(\.\w+)*)SEP(?P<value>.*)$   (SEP starts with a non-word, non-dot char)
RECURSIVE WordEnd(_,_)          \* last index of the run of word characters starting at i (i-1 if none)
WordEnd(r, i) == IF i <= Len(r) /\ r[i] \in WordCh THEN WordEnd(r, i + 1) ELSE i - 1
RECURSIVE CatExt(_,_)
CatExt(r, e) == IF e + 2 <= Len(r) /\ r[e + 1] = "." /\ r[e + 2] \in WordCh THEN CatExt(r, WordEnd(r, e + 2)) ELSE e
CatLen(r) == LET w == WordEnd(r, 1) IN IF w = 0 THEN 0 ELSE CatExt(r, w)
RECURSIVE AlgParse(_,_,_)       \* PS: sequence of prefixes, tried in order
AlgParse(tag, PS, sep) ==
   IF PS = <<>> THEN [ok |-> FALSE, t |-> NoTag]
   ELSE LET h == Head(PS) \o WithLit IN
        IF StartsWith(tag, h)
        THEN LET r == Drop(tag, Len(h))  k == CatLen(r) IN
             IF k > 0 /\ StartsWith(Drop(r, k), sep)
             THEN [ok |-> TRUE, t |-> [pre |-> Head(PS), cat |-> SubSeq(r, 1, k), val |-> Drop(r, k + Len(sep))]]
             ELSE AlgParse(tag, Tail(PS), sep)
        ELSE AlgParse(tag, Tail(PS), sep)
RECURSIVE AlgSelect(_,_,_)      \* select_active_tags: the parsed active tags in list order
AlgSelect(tags, PS, sep) ==
   IF tags = <<>> THEN <<>>
   ELSE LET p == AlgParse(Head(tags), PS, sep) IN (IF p.ok THEN <<p.t>> ELSE <<>>) \o AlgSelect(Tail(tags), PS, sep)
RECURSIVE CatOrder(_,_)         \* dict insertion order of the categories
CatOrder(sel, seen) == IF sel = <<>> THEN <<>>
                       ELSE IF Head(sel).cat \in seen THEN CatOrder(Tail(sel), seen)
                       ELSE <<Head(sel).cat>> \o CatOrder(Tail(sel), seen \cup {Head(sel).cat})

\* ---------------------------------------------------------------- (b) value providers
\* provider = [pk |-> "dict" | "atvp" | "comp", mem |-> sequence of members [pk |-> "dict"|"atvp", data |-> function, call |-> set]]
\* dict / atvp have exactly one member.  Lookup returns [known, sp, cache].
\* behave._types.Unknown is a class, hence callable: ActiveTagValueProvider.use_value(Unknown) CALLS it and returns
\* an instance, so a missing category comes back as a value that is not `Unknown` (a known category whose value
\* matches nothing).  CallsUnknownDefault = TRUE models the code as it is; FALSE is the repaired behaviour.  The driver
\* selects the variant by a probe of the real provider (environment variable C19_UNKNOWN_CALLED = "0" -> FALSE), so
\* that the informational comparison model vs code stays exact on both trees; verdicts never depend on it.
CallsUnknownDefault == ~("C19_UNKNOWN_CALLED" \in DOMAIN IOEnv /\ IOEnv.C19_UNKNOWN_CALLED = "0")
Missing(cache) == IF CallsUnknownDefault THEN [known |-> TRUE, sp |-> Junk, cache |-> cache]
                                         ELSE [known |-> FALSE, sp |-> Junk, cache |-> cache]
\* Lazy values.  `data` of a member always holds the value that is current at the time of the call; m.call is the set
\* of categories whose entry is a plain callable.  A dict member hands the callable out as it is (the composite caches
\* the callable, use_value() evaluates it on every lookup: the answer follows the current value).  An
\* ActiveTagValueProvider member evaluates the callable itself (use_value in its get), so the composite caches the
\* RESULT: the value is frozen at the first lookup.  Value objects (also lazy ones) are handed out as objects.
\* A cache entry is [m |-> index of the member that knew the category, frozen, sp |-> the value seen when caching].
\* AtvpMemberFreezes = TRUE models the code as it is; the driver probes it (C19_ATVP_FREEZES = "0" -> FALSE), like
\* CallsUnknownDefault this only keeps the informational comparison exact and never touches a verdict.
AtvpMemberFreezes == ~("C19_ATVP_FREEZES" \in DOMAIN IOEnv /\ IOEnv.C19_ATVP_FREEZES = "0")
MemberGet(m, c) ==      \* member.get(category, Unknown)
   IF c \in DOMAIN m.data THEN [known |-> TRUE, sp |-> m.data[c], frozen |-> (AtvpMemberFreezes /\ m.pk = "atvp" /\ c \in m.call)]
   ELSE IF m.pk = "atvp" /\ CallsUnknownDefault THEN [known |-> TRUE, sp |-> Junk, frozen |-> TRUE]
   ELSE [known |-> FALSE, sp |-> Junk, frozen |-> FALSE]
RECURSIVE CompScan(_,_,_,_)
CompScan(mem, k, c, cache) ==
   IF k > Len(mem) THEN Missing(cache)                                 \* value = default; use_value(default)
   ELSE LET g == MemberGet(mem[k], c) IN
        IF g.known THEN [known |-> TRUE, sp |-> g.sp,                  \* self.data[category] = value
                         cache |-> (c :> [m |-> k, frozen |-> g.frozen, sp |-> g.sp]) @@ cache]
        ELSE CompScan(mem, k + 1, c, cache)
Lookup(prov, cache, c) ==
   CASE prov.pk = "dict" -> [known |-> c \in DOMAIN prov.mem[1].data,
                             sp |-> IF c \in DOMAIN prov.mem[1].data THEN prov.mem[1].data[c] ELSE Junk, cache |-> cache]
     [] prov.pk = "atvp" -> IF c \in DOMAIN prov.mem[1].data THEN [known |-> TRUE, sp |-> prov.mem[1].data[c], cache |-> cache]
                            ELSE Missing(cache)
     [] OTHER            -> IF c \in DOMAIN cache
                            THEN [known |-> TRUE, cache |-> cache,
                                  sp |-> IF cache[c].frozen THEN cache[c].sp ELSE prov.mem[cache[c].m].data[c]]
                            ELSE CompScan(prov.mem, 1, c, cache)
EmptyCache == [c \in {} |-> [m |-> 0, frozen |-> FALSE, sp |-> Junk]]
\* plain lookups provider.get(category, default) for a sequence of categories (user code, print_active_tags): whatever
\* the default is, the cache changes exactly as in a lookup of the matcher -- a found category is cached, a miss leaves
\* no trace (the default is handed back, never remembered)
RECURSIVE PokeCache(_,_,_)
PokeCache(prov, names, cache) ==
   IF names = <<>> THEN cache ELSE PokeCache(prov, Tail(names), Lookup(prov, cache, Head(names)).cache)

\* ---------------------------------------------------------------- (b) is_tag_group_enabled / should_exclude_with
GroupEnabled(sel, c, sp) ==
   LET idx == {i \in DOMAIN sel : sel[i].cat = c}
       neg == {i \in idx : StartsWith(sel[i].pre, NotLit)}           \* is_tag_negated
       pos == idx \ neg
       e1  == IF pos = {} THEN TRUE ELSE \E i \in pos : AlgMatches(sp, sel[i].val)
       e2  == \E i \in neg : AlgMatches(sp, sel[i].val)
   IN e1 /\ ~e2
RECURSIVE AlgLoop(_,_,_,_,_)
AlgLoop(order, sel, prov, ign, cache) ==
   IF order = <<>> THEN [ex |-> FALSE, cache |-> cache]
   ELSE LET c == Head(order)
            g == Lookup(prov, cache, c)
            enabled == IF ~g.known /\ ign THEN TRUE
                       ELSE GroupEnabled(sel, c, IF g.known THEN g.sp ELSE Junk)   \* ValueObject(Unknown) matches nothing
        IN IF ~enabled THEN [ex |-> TRUE, cache |-> g.cache]
           ELSE AlgLoop(Tail(order), sel, prov, ign, g.cache)
\* one call of should_exclude_with: result and the provider cache afterwards
\* (the ...Sel forms take the already selected active tags: sel = AlgSelect(tags, PS, sep))
AlgCallSel(sel, prov, ign, cache) == AlgLoop(CatOrder(sel, {}), sel, prov, ign, cache)
AlgCall(tags, PS, sep, prov, ign, cache) == AlgCallSel(AlgSelect(tags, PS, sep), prov, ign, cache)
AlgExcludedSel(sel, prov, ign) == AlgCallSel(sel, prov, ign, EmptyCache).ex
AlgExcluded(tags, PS, sep, prov, ign) == AlgExcludedSel(AlgSelect(tags, PS, sep), prov, ign)
AlgRunSel(sel, prov, ign) == ~AlgExcludedSel(sel, prov, ign)                        \* TagMatcher.should_run_with
\* CompositeTagMatcher: members in order, first excluding member wins
RECURSIVE AlgCompositeSel(_,_,_)
AlgCompositeSel(sel, provs, ign) ==
   IF provs = <<>> THEN FALSE
   ELSE IF AlgExcludedSel(sel, Head(provs), ign) THEN TRUE ELSE AlgCompositeSel(sel, Tail(provs), ign)
DictProv(data) == [pk |-> "dict", mem |-> <<[pk |-> "dict", data |-> data, call |-> {}]>>]
=============================================================================
