"""CLI: ./check <ID> [--tier quick|thorough] [--seed N] [--replay PATH]"""
import argparse
import importlib
import json
import os
import sys
import traceback

HERE = os.path.dirname(os.path.abspath(__file__))
sys.path.insert(0, HERE)
REPO = os.environ.get("VERIF_REPO", "/repo")
if REPO != "/repo":
    sys.path.insert(0, REPO)

from vlib.core import Check          # noqa: E402
from vlib.tlc import TlcError        # noqa: E402


def main(argv=None):
    ap = argparse.ArgumentParser()
    ap.add_argument("pid")
    ap.add_argument("--tier", default=os.environ.get("VERIF_TIER") or "quick", choices=["quick", "thorough"])
    ap.add_argument("--seed", type=int, default=int(os.environ.get("VERIF_SEED") or 1))
    ap.add_argument("--replay", default=None)
    a = ap.parse_args(argv)
    if os.environ.get("VERIF_TIER") in ("quick", "thorough"):
        a.tier = os.environ["VERIF_TIER"]
    pid = a.pid.upper()
    try:
        mod = importlib.import_module("props.%s" % pid.lower())
    except ImportError:
        traceback.print_exc()
        print("MACHINERY-FAILURE no check module for %s" % pid)
        return 2
    chk = Check(pid, a.tier, a.seed)
    try:
        if a.replay:
            with open(a.replay) as fh:
                payload = json.load(fh)
            mod.replay(chk, payload)
        else:
            mod.run(chk)
    except TlcError as e:
        print("MACHINERY-FAILURE %s" % e)
        return 2
    except Exception:
        traceback.print_exc()
        print("MACHINERY-FAILURE exception in harness")
        return 2
    return chk.finish()


if __name__ == "__main__":
    sys.exit(main())
