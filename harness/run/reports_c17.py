"""C17 projection of a finished run: the rerun report file as it is on disk.

project(env) reads <outdir>/out_rerun.txt (written -- or not -- by the real RerunFormatter) and returns
   exists   the file is there after the run
   stale    always False here (no file is planted before these runs; props/c17.py plants one in its own driver)
   lines    the non-comment, non-empty lines in file order, each as {"f": feature file index, "l": line, "el": id}
            (f = 99: not a feature file of this program, l = 0: no line number; el = abstract element id at that
            location via Rendered.by_loc, 0 = nothing starts there -- unknown locations are kept, never dropped)
   raw      the first lines of the file as text (diagnostics only)
   order    the scenario ids of the program in model (= run) order
   seen_status  per element: status of the scenario object that was announced to the formatters during the run
            ("" = never announced), when the case runs with RECORDER_ARGS
Python only reads and maps; which scenarios had to be listed is decided by specs/Rerun_Trace.tla from the recorded
final statuses."""
import os
import re

from behave.formatter.base import Formatter

_LOC = re.compile(r"^(?P<file>.*):(?P<line>\d+)$")
UNKNOWN_FILE = 99


def parse_lines(text, rendered):
    """text of a rerun / feature-list file -> list of {"f", "l", "el"} for its non-comment lines"""
    fidx = {fn: i for i, (fn, _t) in enumerate(rendered.files)}
    out = []
    for raw in text.splitlines():
        s = raw.strip()
        if not s or s.startswith("#"):
            continue
        m = _LOC.match(s)
        name, line = (m.group("file").strip(), int(m.group("line"))) if m else (s, 0)
        f = fidx.get(os.path.basename(name), UNKNOWN_FILE)
        out.append({"f": f, "l": line, "el": rendered.by_loc.get((f, line), 0)})
    return out


def read_file(path, rendered, planted=None):
    """state of the rerun file at `path` after a run; planted = text put there before the run (or None)"""
    if not os.path.exists(path):
        return {"exists": False, "stale": False, "lines": [], "raw": []}
    with open(path, encoding="utf-8", errors="replace") as fh:
        text = fh.read()
    if planted is not None and text == planted:
        return {"exists": True, "stale": True, "lines": [], "raw": text.splitlines()[:6]}
    return {"exists": True, "stale": False, "lines": parse_lines(text, rendered), "raw": text.splitlines()[:6]}


# ---------------------------------------------------------------------------------------------- scenarios that RAN
# The final statuses are read from the model after the run by walking it (ScenarioOutline.scenarios ...).  That walk may
# hand out other objects than the ones the runner executed (an outline that rebuilds its rows), so the status of a
# scenario is also observed on the very object that was announced to the formatters: a registered formatter
# (`-f run.reports_c17:ScenStatusRecorder -o /dev/null`) keeps the scenario objects it is given; their status is read
# after the run.  Python records; the judge decides from the recorded statuses.
SEEN = []


class ScenStatusRecorder(Formatter):
    name = "c17rec"
    description = "keeps the scenario objects announced to the formatters"

    def __init__(self, stream_opener, config):
        Formatter.__init__(self, stream_opener, config)
        del SEEN[:]

    def scenario(self, scenario):
        SEEN.append(scenario)


RECORDER_ARGS = ["-f", "run.reports_c17:ScenStatusRecorder", "-o", os.devnull]


def seen_status(rendered):
    """-> list per element id: status (name) of the LAST object announced for that scenario location, "" if none"""
    fidx = {fn: i for i, (fn, _t) in enumerate(rendered.files)}
    out = [""] * len(rendered.flat["elems"])
    for sc in SEEN:
        i = rendered.by_loc.get((fidx.get(os.path.basename(sc.filename), -1), sc.line), 0)
        if i:
            out[i - 1] = sc.status.name
    return out


def merged_status(final, seen):
    """status per element: the one observed on the object that ran where there is one, the final walk otherwise"""
    return [s or f for f, s in zip(final, seen)]


def project(env):
    out = read_file(os.path.join(env.outdir, "out_rerun.txt"), env.rendered)
    out["order"] = [e["id"] for e in env.flat["elems"] if e["kind"] == "scenario"]
    uses = "run.reports_c17:ScenStatusRecorder" in ((env.case or {}).get("extra_args") or [])
    out["seen_status"] = seen_status(env.rendered) if uses else [""] * len(env.flat["elems"])
    return out
