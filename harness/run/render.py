"""Abstract program -> feature texts; (feature index, line) -> element id."""


def step_text(s):
    base = "%s %d" % (s["org"], s["k"])
    if not s["def"]:
        return "nodef " + base
    if s["o"] == "badarg":
        return "bad " + base
    return base


def _own_text(o, k):
    if o == "undefined":
        return "nodef own %d" % k
    if o == "badarg":
        return "bad own %d" % k
    return "own %d" % k


def _bg_text(org, o, k, param=False):
    """param: the background step carries an outline placeholder (<b1> / <r1>) instead of its number; only used in
    features whose scenarios are all outline rows, whose examples tables then have the columns b1.. / r1.."""
    num = ("<%s%d>" % ("b" if org == "fbg" else "r", k)) if param else "%d" % k
    if o == "undefined":
        return "nodef %s %s" % (org, num)
    if o == "badarg":
        return "bad %s %s" % (org, num)
    return "%s %s" % (org, num)


from .gen import keywords as _keywords


def twin_of(prog, steps, k):
    """prog["dupsteps"] (never together with "typed"): own step k (0-based, every second one) of a plain scenario is written
    with the very text of step k-1, when both texts are the plain `own <n>` form"""
    plain = lambda o: o not in ("undefined", "badarg")
    return bool(prog.get("dupsteps")) and not prog.get("typed") and k % 2 == 1 and plain(steps[k]["o"]) and plain(steps[k - 1]["o"])


class Rendered(object):
    def __init__(self, prog, flat):
        self.prog = prog
        self.flat = flat
        self.files = []            # (filename, text)
        self.by_loc = {}           # (fidx, line) -> element id
        self.line_of = {}          # element id -> line
        self._next = iter(flat["elems"])
        self._item = 0             # ordinal of the scenario / outline (document order, as in gen.flatten)
        for fi, f in enumerate(prog["features"]):
            self._feature(fi, f)

    def _take(self, kind):
        e = next(self._next)
        assert e["kind"] == kind, (e, kind)
        return e

    def _feature(self, fi, f):
        lines = []

        def emit(s):
            lines.append(s)
            return len(lines)

        def tagline(tags, ind):
            if tags:
                emit(ind + " ".join("@" + t for t in tags))

        def reg(e, line):
            self.by_loc[(fi, line)] = e["id"]
            self.line_of[e["id"]] = line

        pbg = bool(f.get("pbg"))
        typed = int(self.prog.get("typed") or 0)        # prog["typed"]: steps written with all five keywords

        def kw(section, n, k):
            return _keywords(typed, section, n, self._item if section == 2 else 0)[k][0] + " "
        tagline(f["tags"], "")
        reg(self._take("feature"), emit("Feature: F%d" % fi))
        if f.get("bg") is not None:
            emit("  Background:")
            for k, s in enumerate(f["bg"]):
                emit("    " + kw(0, len(f["bg"]), k) + _bg_text("fbg", s["o"], k + 1, pbg))

        def items(lst, ind, rbg=None):
            for it in lst:
                if it["kind"] == "rule":
                    emit("")
                    tagline(it["tags"], ind)
                    reg(self._take("rule"), emit(ind + "Rule: R"))
                    if it.get("bg") is not None:
                        emit(ind + "  Background:")
                        for k, s in enumerate(it["bg"]):
                            emit(ind + "    " + kw(1, len(it["bg"]), k) + _bg_text("rbg", s["o"], k + 1, pbg))
                    items(it["items"], ind + "  ", it.get("bg"))
                elif it["kind"] == "scenario":
                    self._item += 1
                    emit("")
                    tagline(it["tags"], ind)
                    e = self._take("scenario")
                    # prog["dupnames"]: all scenarios share one name (selection must go by location, never by name)
                    reg(e, emit(ind + ("Scenario: S" if self.prog.get("dupnames") else "Scenario: S%d" % e["id"])))
                    for k, s in enumerate(it["steps"]):
                        if twin_of(self.prog, it["steps"], k):
                            # prog["dupsteps"]: the step repeats the text (and keyword) of the step before it -- two steps
                            # that compare equal; its number travels in a one-cell table
                            emit(ind + "  " + kw(2, len(it["steps"]), k - 1) + _own_text(it["steps"][k - 1]["o"], k))
                            emit(ind + "    | k |")
                            emit(ind + "    | %d |" % (k + 1))
                        else:
                            emit(ind + "  " + kw(2, len(it["steps"]), k) + _own_text(s["o"], k + 1))
                else:
                    self._item += 1
                    emit("")
                    tagline(list(it["tags"]) + (["x<c1>"] if it.get("ptag") else []) + (["t<row.index>"] if it.get("rtag") else []), ind)
                    e = self._take("outline")
                    reg(e, emit(ind + ("Scenario Outline: O" if self.prog.get("dupnames") else "Scenario Outline: O%d" % e["id"])))
                    nst = len(it["blocks"][0]["rows"][0])
                    for k in range(nst):
                        # prog["literal_steps"]: a step whose text is the same in every row is written literally in the
                        # template (no placeholder: the builder may treat such a step differently), the column stays
                        texts = {_own_text(row[k]["o"], k + 1) for b in it["blocks"] for row in b["rows"]}
                        if self.prog.get("literal_steps") and len(texts) == 1:
                            emit(ind + "  " + kw(2, nst, k) + texts.pop())
                        else:
                            emit(ind + "  " + kw(2, nst, k) + "<c%d>" % (k + 1))
                    extra = []      # columns for parametrized background steps
                    if pbg:
                        extra = [("b%d" % (k + 1), "%d" % (k + 1)) for k in range(len(f.get("bg") or []))] + \
                                [("r%d" % (k + 1), "%d" % (k + 1)) for k in range(len(rbg or []))]
                    if self.prog.get("hdronly"):
                        # prog["hdronly"]: every outline carries one more Examples table that has a heading row only
                        emit("")
                        emit(ind + "  Examples: none yet")
                        emit(ind + "    | " + " | ".join(["c%d" % (k + 1) for k in range(nst)] + [x[0] for x in extra]) + " |")
                    for b in it["blocks"]:
                        emit("")
                        tagline(b["tags"], ind + "  ")
                        emit(ind + "  Examples:")
                        emit(ind + "    | " + " | ".join(["c%d" % (k + 1) for k in range(nst)] + [x[0] for x in extra]) + " |")
                        for row in b["rows"]:
                            cells = [_own_text(s["o"], k + 1) for k, s in enumerate(row)] + [x[1] for x in extra]
                            reg(self._take("scenario"), emit(ind + "    | " + " | ".join(cells) + " |"))
        items(f["items"], "  ")
        # prog["revfiles"]: file names in reverse alphabetical order of the run order (f2, f1, f0)
        nfeat = len(self.prog["features"])
        self.files.append(("f%d.feature" % ((nfeat - 1 - fi) if self.prog.get("revfiles") else fi), "\n".join(lines) + "\n"))
