---------------------------- MODULE Status_Trace ----------------------------
(* Judge of the C03 status algebra on rows recorded from REAL behave model   *)
(* objects.  One state per row; a violated clause is printed as              *)
(*    <<"VERDICT", row id, clause, family>>                                  *)
(* (also for the families of known deviations: the framework's known-finding *)
(* list decides what to do with them, not this module), information about    *)
(* unjudged rows as <<"INFO", row id, what, code-transcription result>>.     *)
(*                                                                           *)
(* row kind "member":  name, p_passed, p_failure, p_error, p_untested,       *)
(*                     p_skipped, p_has_failed  (the predicates as observed)  *)
(* row kind scenario / feature / rule / outline:  children (status names as  *)
(*                     set on the real children), hook_failed, result        *)
(*                     (observed .status name or "exc_<Type>")               *)
(* All rows carry all fields (neutral defaults).                             *)
EXTENDS Status, TLC, Json, IOUtils
Rows == ndJsonDeserialize(IOEnv.TRACE_FILE)

VARIABLE i
Init == i = 1 /\ TLCSet(1, 0)            \* register 1 counts the printed verdicts (the judge runs with ONE worker)
R == Rows[i]

ObservedClasses(r) == (IF r.p_passed THEN {"passed"} ELSE {}) \cup (IF r.p_failure THEN {"failure"} ELSE {})
                      \cup (IF r.p_error THEN {"error"} ELSE {}) \cup (IF r.p_skipped THEN {"skipped"} ELSE {})
                      \cup (IF r.p_untested THEN {"untested"} ELSE {})
\* <<clause, family>> pairs
MemberVerdicts(r) ==
   IF PartitionOK(r.name, ObservedClasses(r), r.p_has_failed) THEN {}
   ELSE {<<"C03.partition", PartitionFamily(r.name, ObservedClasses(r), r.p_has_failed)>>}
RollupVerdicts(r) ==
   IF r.kind \notin Kinds \/ r.children = <<>> THEN {<<"C03.rollup_algebra", "bad_row">>}
   ELSE IF ~Judged(r.kind, r.children) THEN {}
   ELSE LET f == Family(r.kind, r.children, r.hook_failed, r.result) IN
        IF f = "" THEN {} ELSE {<<"C03.rollup_algebra", f>>}
Verdicts(r) == IF r.kind = "member" THEN MemberVerdicts(r) ELSE RollupVerdicts(r)
\* information: the spec's prediction differs from the observation (full conformance, never a verdict);
\* unjudged rows outside the relation when classified by the code's own predicates
Infos(r) ==
   IF r.kind = "member" THEN
        (IF r.name \in AllStatus /\ (ObservedClasses(r) # Classes(r.name) \/ r.p_has_failed # HasFailed(r.name))
         THEN {<<"diverges", "member">>} ELSE {})
   ELSE IF r.kind \notin Kinds \/ r.children = <<>> \/ \E x \in Range(r.children) : x \notin AllStatus THEN {}
   ELSE (IF Code(r.kind, r.children, r.hook_failed) # r.result
         THEN {<<"diverges", Code(r.kind, r.children, r.hook_failed)>>} ELSE {})
        \cup (IF ~Judged(r.kind, r.children) THEN {<<ForeignInfo(r.kind, r.children, r.hook_failed, r.result), r.result>>}
              ELSE {})

Next == /\ i <= Len(Rows)
        /\ \A v \in Verdicts(R) : PrintT(<<"VERDICT", R.id, v[1], v[2]>>)
        /\ \A v \in Infos(R) : PrintT(<<"INFO", R.id, v[1], v[2]>>)
        /\ TLCSet(1, TLCGet(1) + Cardinality(Verdicts(R)))
        /\ i' = i + 1
Spec == Init /\ [][Next]_i
\* the 4th element lets the driver check that no VERDICT line got lost (TLC wraps long lines)
Done == PrintT(<<"DONE", Len(Rows), TLCGet("stats").diameter, TLCGet(1)>>)
=============================================================================
