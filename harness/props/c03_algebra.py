"""C03 (algebra part) -- the status roll-up of scenario / feature / rule / outline on REAL model objects.

(S)+(P) specs/Status.tla   (MC) specs/Status_MC.tla   judge: specs/Status_Trace.tla
TLC enumerates every (kind, child-status tuple, hook_failed) of the bound over ALL members of the Status
enumeration, checks the partition and Code within DocAllows (named exceptions for the known deviation families)
and emits every case with the result of the code transcription.  This driver realises every case on real
`Feature` / `Rule` / `ScenarioOutline` (with its real row scenarios) / `Scenario` objects obtained from the real
parser, sets the children's statuses through the public API (`step.status = ..`, `set_status(..)`,
`hook_failed = ..`, `reset()`), reads `.status`, records the predicates of every Status member, and TLC judges
the rows (clauses C03.partition, C03.rollup_algebra).  Python never decides.

Called by harness/props/c03.py:  run_algebra(chk)  /  replay_algebra(chk, payload)."""
import json

from vlib import trace

CLAUSE = "C03.rollup_algebra"


# ------------------------------------------------------------------ real objects
def _feature_text(kind, via, n):
    lines = ["Feature: F"]
    if kind == "scenario":
        lines.append("  Scenario: S")
        lines += ["    Given step %d" % k for k in range(n)]
    elif kind == "outline":
        lines += ["  Scenario Outline: O", "    Given step <x>", "    Examples:", "      | x |"]
        lines += ["      | %d |" % k for k in range(n)]
    elif kind == "rule":
        lines.append("  Rule: R")
        for k in range(n):
            lines += ["    Scenario: S%d" % k, "      Given step"]
    elif via == "rules":
        for k in range(n):
            lines += ["  Rule: R%d" % k, "    Scenario: S%d" % k, "      Given step"]
    else:
        for k in range(n):
            lines += ["  Scenario: S%d" % k, "    Given step"]
    return "\n".join(lines) + "\n"


class Rig(object):
    """real model objects for one (kind, via, n), reused for every tuple of that shape (reset() between uses)"""

    def __init__(self, kind, via, n):
        from behave.parser import parse_feature
        from behave.model import Feature, Rule, Scenario, ScenarioOutline
        self.kind, self.via, self.n = kind, via, n
        feature = parse_feature(_feature_text(kind, via, n), filename="c03_%s_%s_%d.feature" % (kind, via, n))
        assert isinstance(feature, Feature)
        self.feature = feature
        if kind == "scenario":
            self.element = feature.run_items[0]
            assert type(self.element) is Scenario
            self.children = list(self.element.all_steps)
        elif kind == "outline":
            self.element = feature.run_items[0]
            assert isinstance(self.element, ScenarioOutline)
            self.children = list(self.element.scenarios)          # builds the real row scenarios
            assert all(type(c) is Scenario for c in self.children)
        elif kind == "rule":
            self.element = feature.run_items[0]
            assert isinstance(self.element, Rule)
            self.children = list(self.element.run_items)
        else:
            self.element = feature
            self.children = list(feature.run_items)
            assert all(isinstance(c, Rule if via == "rules" else Scenario) for c in self.children)
        assert len(self.children) == n, (kind, via, n, len(self.children))

    def observe(self, cs, hf):
        """-> observed result name ("exc_<Type>" if .status raised), or None if the tuple cannot be realised"""
        from behave.model_core import Status
        members = [Status.from_name(x) for x in cs]
        self.feature.reset()
        if self.kind == "scenario":
            for step, st in zip(self.children, members):
                step.status = st
        else:
            for child, st in zip(self.children, members):
                if st is Status.untested:
                    pass            # real way to be untested: its own contents are untested (after reset())
                elif st.is_final():
                    child.set_status(st)
                else:
                    return None     # a non-final status is recomputed by `.status`: not realisable on a real child
        if hf:
            self.element.hook_failed = True
        try:
            if self.kind != "scenario":
                seen = [c.status.name for c in self.children]
                if seen != list(cs):
                    return None     # the children do not report what was asked for
            return self.element.status.name
        except Exception as e:      # recorded in the row and judged (R4)
            return "exc_%s" % type(e).__name__


_RIGS = {}


def rig(kind, via, n):
    key = (kind, via, n)
    if key not in _RIGS:
        _RIGS[key] = Rig(kind, via, n)
    return _RIGS[key]


def vias(kind, tier):
    return ("scenarios", "rules") if kind == "feature" else ("",)


def member_rows(rid0):
    from behave.model_core import Status
    rows = []
    for k, (name, m) in enumerate(sorted(Status.__members__.items())):
        rows.append(blank_row(rid0 + k, "member", name=name, p_passed=bool(m.is_passed()), p_failure=bool(m.is_failure()),
                              p_error=bool(m.is_error()), p_untested=bool(m.is_untested()),
                              p_skipped=bool(m == Status.skipped), p_has_failed=bool(m.has_failed())))
    return rows


def blank_row(rid, kind, **kw):
    row = {"id": rid, "kind": kind, "name": "", "p_passed": False, "p_failure": False, "p_error": False,
           "p_untested": False, "p_skipped": False, "p_has_failed": False,
           "children": [], "hook_failed": False, "result": "", "via": ""}
    row.update(kw)
    return row


def sig_of(row, verdict):
    fam = verdict[3] if len(verdict) > 3 else ""
    if row["kind"] == "member":
        return "%s|member=%s|family=%s" % (verdict[2], row["name"], fam)
    return "%s|kind=%s|family=%s" % (verdict[2], row["kind"], fam)


def report(chk, rows, verdicts):
    byid = {r["id"]: r for r in rows}
    for i, vs in sorted(verdicts.items()):
        for v in vs:
            if v[0] != "VERDICT":
                continue
            row = byid[i]
            if row["kind"] == "member":
                detail = "Status.%s observed predicates %s" % (row["name"], json.dumps({k: row[k] for k in sorted(row) if k.startswith("p_")}))
            else:
                detail = "%s%s with children %s hook_failed=%s -> observed .status %s (family %s)" % (
                    row["kind"], (" of " + row["via"]) if row["via"] else "", json.dumps(row["children"]),
                    row["hook_failed"], row["result"], v[3] if len(v) > 3 else "")
            chk.violation(v[2], sig_of(row, v), detail, {"part": "algebra", "row": row})


def judge(chk, rows, chunks=8):
    """TLC judges; returns ({id: [VERDICT..]}, {id: [INFO..]}); a lost VERDICT line is a machinery failure"""
    from vlib.tlc import TlcError
    first = len(chk.tlc_runs)
    got = trace.judge_rows(chk, "Status_Trace", rows, chunks=chunks, min_chunk=2000)
    infos = {}
    for module, cfg, r in chk.tlc_runs[first:]:
        done = r.by_tag("DONE")
        if not done or len(done[-1]) < 4 or done[-1][3] != len(r.by_tag("VERDICT")):
            raise TlcError("Status_Trace: %s verdicts counted by TLC, %d lines parsed" % (done[-1:], len(r.by_tag("VERDICT"))))
        for t in r.by_tag("INFO"):
            infos.setdefault(t[1], []).append(t)
    return got, infos


def run_algebra(chk, workers=16):
    from behave.model_core import Status
    cfg = "Status_MC_quick.cfg" if chk.quick() else "Status_MC_thorough.cfg"
    r = chk.tlc("Status_MC", cfg, timeout=900, workers=workers)
    for name in r.violated:
        chk.violation("C03.design." + name, "design:%s" % name, "TLC: invariant %s violated in Status_MC (%s)" % (name, cfg))
    cases = [json.loads(t[1]) for t in r.by_tag("CASE")]
    cases.sort(key=lambda c: (c["kind"], len(c["cs"]), c["cs"], c["hf"]))
    meta = [json.loads(t[1]) for t in r.by_tag("META")]
    real_members = set(Status.__members__)
    if meta:
        if set(meta[0]["members"]) != real_members:
            chk.divergences += 1
            chk.note("Status members differ from Status.tla: only in code %s, only in spec %s" % (
                sorted(real_members - set(meta[0]["members"])), sorted(set(meta[0]["members"]) - real_members)))
        real_final = {n for n, m in Status.__members__.items() if m.is_final()}
        if set(meta[0]["final"]) != real_final:
            chk.divergences += 1
            chk.note("Status.is_final differs from Status.tla IsFinal: %s" % sorted(set(meta[0]["final"]) ^ real_final))
    rows = member_rows(1)
    rid = len(rows)
    unrealisable = 0
    design_families = {}
    for c in cases:
        if c["judged"] and c["family"]:
            design_families[c["family"]] = design_families.get(c["family"], 0) + 1
        if any(x not in real_members for x in c["cs"]):
            unrealisable += 1
            continue
        for via in vias(c["kind"], chk.tier):
            res = rig(c["kind"], via, len(c["cs"])).observe(c["cs"], c["hf"])
            if res is None:
                unrealisable += 1
                continue
            rid += 1
            rows.append(blank_row(rid, c["kind"], children=c["cs"], hook_failed=bool(c["hf"]), result=res, via=via))
    verdicts, infos = judge(chk, rows)
    report(chk, rows, verdicts)
    chk.impl_traces += len(rows)
    chk.evaluations += len(rows)
    chk.exhaustive = True
    diverges = sum(1 for ts in infos.values() for t in ts if t[2] == "diverges")
    chk.divergences += diverges
    foreign = {}
    for ts in infos.values():
        for t in ts:
            if t[2].startswith("foreign"):
                foreign[t[2]] = foreign.get(t[2], 0) + 1
    judged_rows = sum(1 for row in rows if row["kind"] != "member") - sum(foreign.values())
    chk.extra["algebra_rows"] = len(rows)
    chk.extra["algebra_rows_judged"] = judged_rows
    chk.extra["algebra_rows_foreign_not_judged"] = foreign
    chk.extra["algebra_cases_not_realisable_on_real_children"] = unrealisable
    chk.extra["algebra_design_level_known_families"] = design_families
    chk.extra["algebra_spec_vs_code_divergences"] = diverges
    chk.extra["distinct_nontrivial"] = chk.extra.get("distinct_nontrivial", 0) + len(
        {(row["kind"], tuple(row["children"]), row["hook_failed"]) for row in rows if row["kind"] != "member" and len(row["children"]) > 1})
    for row in rows[len(real_members):len(real_members) + 1] + rows[-2:]:
        chk.sample({"kind": row["kind"], "via": row["via"], "children": row["children"], "hook_failed": row["hook_failed"],
                    "observed_status": row["result"]}, limit=6)
    rule = ("algebra: every child-status tuple up to length %d over all %d members of Status per kind (TLC, exhaustive), "
            "hook_failed for tuples up to length 2; each realised on real parsed Feature/Rule/ScenarioOutline/Scenario objects "
            "(feature: children scenarios and children rules); judged = children documented for the kind "
            "(scenario: 11 documented values, feature/rule/outline: the 6 common values)" % (3 if chk.quick() else 4, len(real_members)))
    chk.rule = (chk.rule + " || " if chk.rule else "") + rule
    chk.assumptions += [
        "C03 algebra: rows whose children include a status the documentation does not list for that kind of element "
        "(reserved members xfailed/xpassed/cleanup_error/unknown/executing; step-only statuses held by a scenario/rule/row) "
        "are not judged (statement silent), only compared with the transcription",
        "C03 algebra: a non-final status other than `untested` (unknown, executing, cleanup_error, untested_pending) cannot be "
        "held by a real Scenario/Rule child (`.status` recomputes it): such tuples are covered by TLC on the transcription only",
        "C03 algebra: Python runs without -O (the assert in Scenario.compute_status is active)"]
    return rows


def replay_algebra(chk, payload):
    old = payload["replay"]["row"]
    if old["kind"] == "member":
        rows = [r for r in member_rows(1) if r["name"] == old["name"]] or [dict(old)]
        for k, r in enumerate(rows):
            r["id"] = k + 1
    else:
        res = rig(old["kind"], old.get("via", ""), len(old["children"])).observe(old["children"], old["hook_failed"])
        rows = [blank_row(1, old["kind"], children=old["children"], hook_failed=old["hook_failed"],
                          result="exc_NotRealisable" if res is None else res, via=old.get("via", ""))]
    verdicts, infos = judge(chk, rows, chunks=1)
    report(chk, rows, verdicts)
    chk.impl_traces += len(rows)
    chk.sample({"replayed": rows[0]})
