\* reduced alphabet (1 name, 2 values): push pop set setroot del, longer histories
INIT Init
NEXT Next
CONSTANTS
  OpsAt <- Ops6000
  UNames = {1}
  Vals = {1, 2}
  WithFailed = FALSE
  WithRoot = TRUE
  WithUseOr = FALSE
  WithReads = FALSE
  WithMode = FALSE
  WithExec = FALSE
  MaxIds = 0
  ArgModes = {0}
  WithFixtures = FALSE
  WithAttrs = TRUE
  NestSet <- NestNone
  TwoRuns = FALSE
  OpsB = 0
  EqualLayers = FALSE
  UseOrRoot = FALSE
INVARIANT Visible
INVARIANT Shadow
INVARIANT DeleteLocal
INVARIANT ScopeEnd
INVARIANT RootAttr
INVARIANT CleanupOnce
INVARIANT CleanupLifo
INVARIANT CleanupDespiteErrors
INVARIANT CleanupLayer
INVARIANT FixtureCleanup
INVARIANT ExecStepsRestore
INVARIANT ApiErrors
INVARIANT Shape
INVARIANT ViewsAgree
INVARIANT Emit
