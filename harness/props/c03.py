"""TEMPORARY stub (builder test) -- the lead owns this file."""
from props import c03_algebra


def run(chk):
    c03_algebra.run_algebra(chk, workers=4)


def replay(chk, payload):
    c03_algebra.replay_algebra(chk, payload)
