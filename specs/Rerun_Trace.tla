---------------------------- MODULE Rerun_Trace ----------------------------
(***************************************************************************)
(* Judge of C17 on rows recorded from the real code.  One state per row;   *)
(* every violated clause is printed as                                     *)
(*    <<"VERDICT", row id, clause[/family], attribute 1, attribute 2>>     *)
(* and every disagreement between the observation and the code model (S)   *)
(* of Rerun.tla -- informational, never a verdict -- as                    *)
(*    <<"DIVERGE", row id, what>>.                                         *)
(*                                                                         *)
(* row: id, kind ("run": a run of the shared plan with all report writers, *)
(*      "pair": run with a stale rerun file + feed-back + second run,      *)
(*      "synth": real RerunFormatter fed with a model of Rerun_MC),        *)
(*  prog <<[kind, parent, children, tags]>>, cfg [dry], ran (the run came to its *)
(*  end without an escaping exception), status / line / fidx per element   *)
(*  (FINAL statuses as recorded; which scenarios are unsuccessful is       *)
(*  decided here, never by the driver), calls <<[name, el]>> (feature /    *)
(*  eof / close call-outs seen by a registered formatter), had_stale,      *)
(*  file [exists, stale, lines <<[f, l, el]>>]  (non-comment lines; stale  *)
(*  = the content is still the one planted before the run),                *)
(*  loop [done, exc, sel, known, ran2done, ran2, skipped2, v2kind, v2, sel3done, exc3, sel3] -- scenarios    *)
(*  left to run by parse_features(collect_feature_locations(["@file"])),   *)
(*  all scenarios of the returned features, scenarios entered / reported   *)
(*  skipped by a second real run on them.                                  *)
(***************************************************************************)
EXTENDS Rerun, Json, IOUtils
Rows == ndJsonDeserialize(IOEnv.TRACE_FILE)
VARIABLE i
Init == i = 1

ModelOf(r) == [prog |-> r.prog, status |-> r.status, line |-> r.line, fidx |-> r.fidx]
FileOf(r)  == [exists |-> r.file.exists, stale |-> r.file.stale, lines |-> Norm(r.file.lines)]

\* run order: the features in the order in which they were handed to the runner, as recorded -- the `feature` call-outs
\* seen by the registered formatter, then (never announced, hence without unsuccessful scenarios) the rest in program
\* order; inside a feature the document order.  File NAMES play no role in the order.
FeatOrder(r, m) ==
   LET fc == SelectSeq(r.calls, LAMBDA c : c.name = "feature" /\ c.el \in Els(m))
       cf == [k \in DOMAIN fc |-> fc[k].el] IN
   cf \o SelectSeq(FeatSeq(m), LAMBDA f : f \notin SeqSet(cf))
RECURSIVE UnsuccFrom(_,_,_)
UnsuccFrom(m, fo, k) == IF k > Len(fo) THEN <<>>
                        ELSE SelectSeq(UnsuccSeq(m), LAMBDA s : FeatOf(m, s) = fo[k]) \o UnsuccFrom(m, fo, k + 1)
ExpectedInRunOrder(r, m) == LocsOf(m, UnsuccFrom(m, FeatOrder(r, m), 1))
ExactOKr(r, m, file) == UnsuccSeq(m) # <<>> => file.exists /\ ~file.stale /\ file.lines = ExpectedInRunOrder(r, m)

\* what kind of deviation C17.exact saw (attribute of the verdict, for the signature only)
Deviation(m, file) ==
   LET got == SeqSet(file.lines)
       exp == SeqSet(Expected(m)) IN
   CASE ~file.exists -> "no_file"
     [] file.stale   -> "stale_kept"
     [] got \ exp # {} -> "extra"
     [] exp \ got # {} -> "missing"
     [] OTHER -> "order_or_duplicate"
ExactVerdict(m, file) ==
   IF KF_C17_error_class_ignored(m, file)
   THEN LET s == Ignored(m)[1] IN <<"C17.exact/error_class_ignored", m.status[s], m.status[FeatOf(m, s)]>>
   ELSE <<"C17.exact", Deviation(m, file), "">>

\* the observed feed-back; the second real run must enter exactly the listed scenarios and report every other scenario
\* of the features it was given as skipped
LoopVerdicts(r, m, file) ==
   IF ~r.loop.done \/ ~LoopJudged(m, file) THEN {}
   ELSE LET want == Listed(m, file)
            may  == want \cup ExemptNamed(m, file)          \* @setup / @teardown scenarios may stay (documented exemption)
            sel  == SeqSet(r.loop.sel)
            ran2 == SeqSet(r.loop.ran2) IN
        IF r.loop.exc # "" THEN {<<"C17.loop", "crash", r.loop.exc>>}
        ELSE (IF want \ sel # {} THEN {<<"C17.loop", "select", "missing">>}
              ELSE IF sel \ may # {} THEN {<<"C17.loop", "select", "extra">>} ELSE {})
             \cup (IF ~r.loop.ran2done THEN {}
                   ELSE IF want \ ran2 # {} THEN {<<"C17.loop", "second_run", "missing">>}
                   ELSE IF ran2 \ may # {} \/ (SeqSet(r.loop.known) \ may) \ SeqSet(r.loop.skipped2) # {}
                   THEN {<<"C17.loop", "second_run", "extra">>} ELSE {})

\* the same list-file name expanded once more in the same process after its content changed (v2 = the non-comment lines
\* that are in the file now): the selection must follow v2
ThirdVerdicts(r, m) ==
   IF ~r.loop.sel3done THEN {}
   ELSE LET f2 == [exists |-> TRUE, stale |-> FALSE, lines |-> Norm(r.loop.v2)] IN
        IF ~LoopJudged(m, f2) THEN {}
        ELSE LET want == Listed(m, f2)
                 may  == want \cup ExemptNamed(m, f2)
                 sel  == SeqSet(r.loop.sel3) IN
             IF r.loop.exc3 # "" THEN {<<"C17.loop", "third_start_crash", r.loop.exc3>>}
             ELSE IF want \ sel # {} THEN {<<"C17.loop", "third_start", "missing">>}
             ELSE IF sel \ may # {} THEN {<<"C17.loop", "third_start", "extra">>} ELSE {}

Verdicts(r) ==
   IF ~r.ran THEN {}                       \* the run died: close() may never have come (C01.crash's business)
   ELSE LET m == ModelOf(r)
            file == FileOf(r) IN
        (IF r.cfg.dry THEN {}
         ELSE (IF ~ExactOKr(r, m, file) THEN {ExactVerdict(m, file)} ELSE {})
              \cup (IF ~StaleOK(m, file) THEN {<<"C17.stale_removed", IF r.had_stale THEN "stale" ELSE "fresh", "">>} ELSE {}))
        \cup LoopVerdicts(r, m, file) \cup ThirdVerdicts(r, m)

\* full conformance with the code model (informational)
Diverges(r) ==
   IF ~r.ran THEN {}
   ELSE LET m == ModelOf(r)
            file == FileOf(r)
            pred == FileAfter(m, r.calls, IF r.had_stale THEN StaleFile ELSE NoFile)
            fb   == FeedBack(m, file.lines) IN
        (IF pred # file THEN {"file"} ELSE {})
        \cup (IF r.loop.done /\ file.exists /\ ~file.stale /\ ((r.loop.exc = "") # fb.ok \/ (fb.ok /\ SeqSet(r.loop.sel) # fb.sel))
              THEN {"feedback"} ELSE {})
        \cup (IF r.loop.sel3done /\ LET fb3 == FeedBack(m, Norm(r.loop.v2)) IN
                                       (r.loop.exc3 = "") # fb3.ok \/ (fb3.ok /\ SeqSet(r.loop.sel3) # fb3.sel)
              THEN {"feedback3"} ELSE {})

Next == /\ i <= Len(Rows)
        /\ \A v \in Verdicts(Rows[i]) : PrintT(<<"VERDICT", Rows[i].id, v[1], v[2], v[3]>>)
        /\ \A d \in Diverges(Rows[i]) : PrintT(<<"DIVERGE", Rows[i].id, d>>)
        /\ i' = i + 1
Spec == Init /\ [][Next]_i
Done == PrintT(<<"DONE", Len(Rows), TLCGet("stats").diameter>>)
=============================================================================
