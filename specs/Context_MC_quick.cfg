\* attribute alphabet: push pop set setroot del use_or_* switch_mode execute_steps; 2 names + failed, 2 values
INIT Init
NEXT Next
CONSTANTS
  OpsAt <- Ops2223
  UNames = {1, 2}
  Vals = {1, 2}
  WithFailed = TRUE
  WithRoot = TRUE
  WithUseOr = TRUE
  WithReads = FALSE
  WithMode = TRUE
  WithExec = TRUE
  MaxIds = 0
  ArgModes = {0}
  WithFixtures = FALSE
  WithAttrs = TRUE
  NestSet <- NestNone
  TwoRuns = FALSE
  OpsB = 0
  EqualLayers = FALSE
  UseOrRoot = FALSE
INVARIANT Visible
INVARIANT Shadow
INVARIANT DeleteLocal
INVARIANT ScopeEnd
INVARIANT RootAttr
INVARIANT CleanupOnce
INVARIANT CleanupLifo
INVARIANT CleanupDespiteErrors
INVARIANT CleanupLayer
INVARIANT FixtureCleanup
INVARIANT ExecStepsRestore
INVARIANT ApiErrors
INVARIANT Shape
INVARIANT ViewsAgree
INVARIANT Emit
