\* equal layer names: a scenario layer inside a scenario layer, unnamed layers inside unnamed layers (prelude depth 5 = ..scenario+unnamed): push pop set del
INIT Init
NEXT Next
CONSTANTS
  OpsAt <- Ops00404
  UNames = {1}
  Vals = {1, 2}
  WithFailed = FALSE
  WithRoot = FALSE
  WithUseOr = FALSE
  WithReads = FALSE
  WithMode = FALSE
  WithExec = FALSE
  MaxIds = 0
  ArgModes = {0}
  WithFixtures = FALSE
  WithAttrs = TRUE
  NestSet <- NestNone
  TwoRuns = FALSE
  OpsB = 0
  EqualLayers = TRUE
  UseOrRoot = FALSE
INVARIANT Visible
INVARIANT Shadow
INVARIANT DeleteLocal
INVARIANT ScopeEnd
INVARIANT RootAttr
INVARIANT CleanupOnce
INVARIANT CleanupLifo
INVARIANT CleanupDespiteErrors
INVARIANT CleanupLayer
INVARIANT FixtureCleanup
INVARIANT ExecStepsRestore
INVARIANT ApiErrors
INVARIANT Shape
INVARIANT ViewsAgree
INVARIANT Emit
