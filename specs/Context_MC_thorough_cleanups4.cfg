\* cleanup alphabet without args/fixtures, length 4 below feature+scenario
INIT Init
NEXT Next
CONSTANTS
  OpsAt <- Ops0040
  UNames = {1}
  Vals = {1}
  WithFailed = FALSE
  WithRoot = FALSE
  WithUseOr = FALSE
  WithReads = FALSE
  WithMode = FALSE
  WithExec = FALSE
  MaxIds = 3
  ArgModes = {0}
  WithFixtures = FALSE
  WithAttrs = FALSE
  NestSet <- NestNone
  TwoRuns = FALSE
  OpsB = 0
  EqualLayers = FALSE
  UseOrRoot = FALSE
INVARIANT Visible
INVARIANT Shadow
INVARIANT DeleteLocal
INVARIANT ScopeEnd
INVARIANT RootAttr
INVARIANT CleanupOnce
INVARIANT CleanupLifo
INVARIANT CleanupDespiteErrors
INVARIANT CleanupLayer
INVARIANT FixtureCleanup
INVARIANT ExecStepsRestore
INVARIANT ApiErrors
INVARIANT Shape
INVARIANT ViewsAgree
INVARIANT Emit
