"""C14 plug-in of run/reports.py: what the summary implementations say about the model after a run.

project(env) -> {"reps": [observation, ...], "col": collector observation}   (formats: specs/Summary.tla)
  reps[0]      impl "live": the summary behave itself printed at the end of the run (env.real_out; the format is
               detected from the lines), the "Failing scenarios:" / "Errored scenarios:" lists mapped back to scenario
               ids through `file:line`;
  reps[1..5]   impl "V1":   a fresh behave.reporter.summary.SummaryReporter per format v1 v1A v1B v2 v3, the format
               chosen through the documented userdata switch behave.reporter.summary.output_format, fed
               reporter.feature(f) for every feature of the real model and end(); its stream is parsed;
  reps[6..10]  impl "V2":   the same with SummaryReporterV2 (unused class: recorded for comparison, never judged);
  col          behave.summary.SummaryCollector().visit_many(features): summary_counts per kind, failed / errored lists.
Only numbers, status names and file:line locations are read -- one regular expression per documented line format.
A crash of a reporter is recorded (`crashed` = exception type, `crash_at` = init / feature / end), never raised.
  ran          the final status (read now, after the run) of every scenario object that was handed to the formatters
               during the run, and of its steps -- recorded through RunProbe, a formatter of this module that the check
               adds to its runs (`"formats": ["run.reports_c14:RunProbe"]`); "" / [] = never announced.  An outline may
               hand out new row objects when it is asked again after the run; what counts is the row that ran.
Python records; the census and every verdict are computed by specs/Summary_Trace.tla."""
import io
import os
import re
import sys

KINDS = ["feature", "rule", "scenario", "step"]
FORMATS = ["v1", "v1A", "v1B", "v2", "v3"]
USERDATA_KEY = "behave.reporter.summary.output_format"

_K = r"(feature|rule|scenario|step)s?"
_P1 = r"((?:\d+ \w+)(?:, \d+ \w+)*)?"          # item schema "{value} {name}"
_P2 = r"((?:\w+: \d+)(?:, \w+: \d+)*)?"        # item schema "{name}: {value}"
# one regular expression per documented format: (leading number, kind, parts text)
LINE_RX = {
    "v1": re.compile(r"^(\d+) %s passed(?:, )?%s$" % (_K, _P1)),      # "3 scenarios passed, 1 failed, 0 skipped"
    "v1A": re.compile(r"^(\d+) %s, ?%s$" % (_K, _P1)),                # "6 scenarios, 3 passed, 1 failed"
    "v1B": re.compile(r"^(\d+) %s passed(?:, )?%s$" % (_K, _P1)),     # "3 scenarios passed, 1 failed"
    "v2": re.compile(r"^(\d+) %s \(%s\)$" % (_K, _P2)),               # "6 scenarios (passed: 3, failed: 1)"
    "v3": re.compile(r"^ *(\d+) %s *\(%s\)$" % (_K, _P2)),            # "   6 scenarios (passed: 3, failed: 1)"
}
PART_RX = {"v1": re.compile(r"(\d+) (\w+)"), "v1A": re.compile(r"(\d+) (\w+)"), "v1B": re.compile(r"(\d+) (\w+)"),
           "v2": re.compile(r"(\w+): (\d+)"), "v3": re.compile(r"(\w+): (\d+)")}
LIST_HEAD = re.compile(r"^(Failing|Errored) scenarios:$")
LIST_ITEM = re.compile(r"^  (\S+):(\d+)  ")


PROBE = "run.reports_c14:RunProbe"
_probe = [None]


def _probe_class():
    from behave.formatter.base import Formatter

    class RunProbe(Formatter):
        """keeps the scenario objects the runner announces (public formatter extension point); writes nothing"""
        name = "c14probe"
        description = "C14: remembers which scenario objects ran"

        def __init__(self, stream_opener, config):
            Formatter.__init__(self, stream_opener, config)
            self.ran = []
            _probe[0] = self

        def scenario(self, scenario):
            self.ran.append(scenario)
    return RunProbe


def __getattr__(name):          # behave loads "run.reports_c14:RunProbe" with getattr(module, "RunProbe")
    if name == "RunProbe":
        cls = _probe_class()
        globals()["RunProbe"] = cls
        return cls
    raise AttributeError(name)


def ran_objects(env):
    """-> {"status": [per element], "steps": [per element]} of the scenario objects that ran (final statuses, read now)"""
    n = len(env.flat["elems"])
    out = {"status": [""] * n, "steps": [[] for _ in range(n)]}
    probe, _probe[0] = _probe[0], None
    if probe is None or probe.config is not env.config:
        return out
    for sc in probe.ran:            # a retried scenario is announced twice: the same object, the later reading wins
        el = env.elid(sc)
        if el and env.flat["elems"][el - 1]["kind"] == "scenario":
            out["status"][el - 1] = sc.status.name
            out["steps"][el - 1] = [st.status.name for st in sc.all_steps]
    return out


def no_line():
    return {"printed": False, "parts": [], "has_total": False, "total": 0}


def parse_lines(text, fmt):
    """-> ([Line per kind in the order of KINDS], number of summary lines found)"""
    lines = {}
    rx, prx = LINE_RX[fmt], PART_RX[fmt]
    found = 0
    for raw in text.splitlines():
        m = rx.match(raw)
        if not m:
            continue
        found += 1
        head, kind, rest = int(m.group(1)), m.group(2), m.group(3) or ""
        if fmt in ("v2", "v3"):
            parts = [{"name": a, "n": int(b)} for a, b in prx.findall(rest)]
        else:
            parts = [{"name": b, "n": int(a)} for a, b in prx.findall(rest)]
        if fmt in ("v1", "v1B"):        # the leading number is the passed count
            line = {"printed": True, "parts": [{"name": "passed", "n": head}] + parts, "has_total": False, "total": 0}
        else:                           # the leading number is the total
            line = {"printed": True, "parts": parts, "has_total": True, "total": head}
        lines.setdefault(kind, line)
    return [lines.get(k) or no_line() for k in KINDS], found


def parse_lists(text, env):
    """the two lists of the summary -> ([failing ids], [errored ids]); 0 = a location that is no scenario of the program"""
    fidx = {fn: i for i, (fn, _t) in enumerate(env.rendered.files)}
    out = {"Failing": [], "Errored": []}
    cur = None
    for raw in text.splitlines():
        h = LIST_HEAD.match(raw)
        if h:
            cur = h.group(1)
            continue
        if cur:
            m = LIST_ITEM.match(raw)
            if m:
                el = env.rendered.by_loc.get((fidx.get(os.path.basename(m.group(1)), -1), int(m.group(2))), 0)
                if el and env.flat["elems"][el - 1]["kind"] != "scenario":
                    el = 0
                out[cur].append(el)
            else:
                cur = None
    return out["Failing"], out["Errored"]


def observation(impl, fmt, text, env, crashed="", crash_at=""):
    lines, _n = parse_lines(text, fmt) if fmt in LINE_RX else ([no_line() for _ in KINDS], 0)
    failing, errored = parse_lists(text, env)
    return {"impl": impl, "fmt": fmt, "crashed": crashed, "crash_at": crash_at, "lines": lines,
            "failing": failing, "errored": errored}


def detect_format(text):
    best, bestn = "", 0
    for fmt in ("v1", "v1A", "v2", "v3"):       # v1 and v1B share their syntax; v3 contains v2
        n = parse_lines(text, fmt)[1]
        if n > bestn:
            best, bestn = fmt, n
    return best


def run_reporter(cls, impl, fmt, env):
    config = env.config
    missing = object()
    old = config.userdata.get(USERDATA_KEY, missing)
    stream = io.StringIO()
    saved = sys.stdout
    sys.stdout = stream                     # the reporter binds sys.stdout when it is constructed
    crashed, at = "", "init"
    try:
        config.userdata[USERDATA_KEY] = fmt
        try:
            rep = cls(config)
            at = "feature"
            for f in env.feats:
                rep.feature(f)
            at = "end"
            rep.end()
            at = ""
        except BaseException as x:          # noqa -- recorded, judged by C14.no_crash
            crashed = type(x).__name__
    finally:
        sys.stdout = saved
        if old is missing:
            config.userdata.pop(USERDATA_KEY, None)
        else:
            config.userdata[USERDATA_KEY] = old
    return observation(impl, fmt, stream.getvalue(), env, crashed, at if crashed else "")


def run_collector(env):
    from behave.summary import SummaryCollector
    out = {"crashed": "", "counts": [[] for _ in KINDS], "totals": [0 for _ in KINDS], "failing": [], "errored": []}
    try:
        col = SummaryCollector()
        col.visit_many(env.feats)
        sc = col.summary_counts
        for i, attr in enumerate(("features", "rules", "scenarios", "steps")):
            counts = getattr(sc, attr)
            out["counts"][i] = [{"name": name, "n": int(n)} for name, n in counts.as_dict().items() if n]
            out["totals"][i] = int(counts.all)
        out["failing"] = [env.elid(s) for s in col.failed_scenarios]
        out["errored"] = [env.elid(s) for s in col.errored_scenarios]
    except BaseException as x:              # noqa -- recorded
        out["crashed"] = type(x).__name__
    return out


def project(env):
    from behave.reporter.summary import SummaryReporter, SummaryReporterV2
    live_text = env.real_out or ""
    reps = [observation("live", detect_format(live_text), live_text, env)]
    for fmt in FORMATS:
        reps.append(run_reporter(SummaryReporter, "V1", fmt, env))
    for fmt in FORMATS:
        reps.append(run_reporter(SummaryReporterV2, "V2", fmt, env))
    return {"reps": reps, "col": run_collector(env), "ran": ran_objects(env)}
