INIT Init
NEXT Next
CONSTANTS
  MaxScen = 3
  MaxFeat = 2
  EmitMod = 97
INVARIANT ClausesHold
INVARIANT ExemptHolds
INVARIANT FeedBackDefinitional
INVARIANT FeedBackBetween
INVARIANT Emit
