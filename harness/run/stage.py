"""Shared stage of the run cluster: cases -> (TLC prediction, real traces) -> comparison."""
import json
import os
import random
from multiprocessing import Pool

from . import gen as G, cases as C, drive

EVKEYS = ("k", "name", "el", "tag", "raised", "pos", "outcome", "status", "undefined", "cid", "via")


def _proj(e):
    return tuple(e.get(k) for k in EVKEYS)


def _marks_to_recs(marks, sid):
    """['O2_1','Hb2_1',..] -> sorted list of [t, pos] of this scenario; foreign ones keep their sid"""
    out = []
    for m in marks:
        t = m.rstrip("0123456789_")
        a, b = m[len(t):].split("_")
        out.append({"t": t, "el": int(a), "pos": int(b)})
    return out


def _run_one(job):
    case = job
    try:
        row = drive.run_case(case, reports=case.get("reports", False))
        row["key"] = case["key"]
        return row
    except Exception as x:      # machinery failure of the driver itself
        import traceback
        return {"key": case["key"], "driver_error": traceback.format_exc()}


def drive_all(jobs, procs=14):
    if procs <= 1 or len(jobs) < 20:
        return [_run_one(j) for j in jobs]
    with Pool(procs) as pool:
        return pool.map(_run_one, jobs, chunksize=max(1, len(jobs) // (procs * 8)))


def compare(pred, row, flat):
    """spec prediction vs observation -> list of difference descriptions (empty = full conformance)"""
    diffs = []
    pe = [_proj(e) for e in pred["events"]]
    oe = [_proj(e) for e in row["events"]]
    if pe != oe:
        for i, (a, b) in enumerate(zip(pe, oe)):
            if a != b:
                diffs.append("event %d: spec %s impl %s" % (i, a, b))
                break
        else:
            diffs.append("event count: spec %d impl %d" % (len(pe), len(oe)))
    end = row["end"]
    if bool(end["escaped"]) != bool(pred.get("escaped", False)):
        diffs.append("escaped: spec %s impl %r" % (pred.get("escaped", False), end["escaped"]))
    if not end["escaped"] and bool(pred["verdict"]) != end["verdict"]:
        diffs.append("verdict spec %s impl %s" % (pred["verdict"], end["verdict"]))
    if list(pred["status"]) != end["status"]:
        diffs.append("status spec %s impl %s" % (pred["status"], end["status"]))
    if [list(x) for x in pred["step_status"]] != end["step_status"]:
        diffs.append("step_status spec %s impl %s" % (pred["step_status"], end["step_status"]))
    if list(pred["hook_failed"]) != end["hook_failed"]:
        diffs.append("hook_failed spec %s impl %s" % (pred["hook_failed"], end["hook_failed"]))
    return diffs


def base_of(row):
    """the part of a fault-free run that the two-run clause compares with"""
    end = row["end"]
    return {"ran": bool(end["ran"] and not end["escaped"]), "aborted": any(e["k"] == "step" and e["outcome"] in ("kbd", "abort") for e in row["events"]),
            "status": end["status"], "step_status": end["step_status"]}


def judge_row(rid, prog_tla, cfg_tla, row, base=None, skips=None, hookcl=False, kbd=False):
    """driver row -> row of Run_Trace (uniform records, markers as records)"""
    end = row["end"]

    def recs(marks):
        return [{"t": m["t"], "el": m["el"], "pos": m["pos"]} for m in _marks_to_recs(marks, 0)]
    e2 = {"verdict": end["verdict"], "ran": end["ran"] and not end["escaped"], "escaped": end["escaped"],
          "status": end["status"], "hook_failed": end["hook_failed"], "step_status": end["step_status"],
          "eff": end["eff"],
          "errmarks": [[recs(x) for x in per] for per in end["errmarks"]],
          "captured": [recs(x) for x in end["captured"]],
          "real_out": recs(end["real_out"]), "real_err": recs(end["real_err"]), "user_log": recs(end["user_log"])}
    return {"id": rid, "prog": prog_tla, "cfg": cfg_tla, "skips": skips or [], "hookcl": bool(hookcl), "kbd": bool(kbd), "events": row["events"], "end": e2, "base": base or base_of(row)}


# ----------------------------------------------------------------------------- shared stage with cache
import fcntl
import gzip
import hashlib
import time

from vlib import tlc as _tlc, trace as _trace
from vlib.core import REPO, VERIF

CACHE = os.path.join(VERIF, ".cache")


def tree_key(extra):
    h = hashlib.sha256()
    roots = [os.path.join(REPO, "behave"), os.path.join(VERIF, "specs"), os.path.join(VERIF, "harness", "run"),
             os.path.join(VERIF, "harness", "vlib")]
    for root in roots:
        for d, dirs, files in sorted(os.walk(root)):
            dirs[:] = sorted(x for x in dirs if x != "__pycache__")
            for f in sorted(files):
                if f.endswith((".py", ".tla", ".cfg")):
                    p = os.path.join(d, f)
                    h.update(p.encode())
                    with open(p, "rb") as fh:
                        h.update(fh.read())
    h.update(json.dumps(extra, sort_keys=True).encode())
    return h.hexdigest()[:24]


LOGLEVELS = ["DEBUG", "INFO", "WARNING", "ERROR", "CRITICAL"]
LOGFILTERS = ["verif", "other", "-verif", "-other", "verif,other", "verif,-other", "-verif,-other", "nobody"]


def plan(tier, seed, with_dup=False):
    """-> list of (prog, cfgs, faults); with_dup: plus the family whose scenarios contain steps that compare equal (only the
    core stage drives it: the report consumers map steps by their text)"""
    rnd = random.Random(seed)
    out = []
    quick = tier == "quick"
    exprs = list(G.EXPRS)

    def rcfg():
        return G.cfg(expr=rnd.choice(exprs), stop=rnd.random() < 0.3, dry=rnd.random() < 0.15,
                     show_skipped=rnd.random() < 0.6, cont=rnd.random() < 0.15,
                     capture=(rnd.random() < 0.75, rnd.random() < 0.75, rnd.random() < 0.75), retry=rnd.random() < 0.2,
                     observe=rnd.random() < 0.3, async_steps=rnd.random() < 0.25, chatty=rnd.random() < 0.06,
                     loglevel=rnd.choice(LOGLEVELS) if rnd.random() < 0.3 else "",
                     logfilter=rnd.choice(LOGFILTERS) if rnd.random() < 0.3 else "",
                     logclear=rnd.random() < 0.2, tamper=rnd.random() < 0.2, wip=rnd.random() < 0.12, rootlvl0=rnd.random() < 0.15, async_timeout=rnd.random() < 0.5, cont_by_hook=rnd.random() < 0.3,
                     setuplog=rnd.choice(LOGLEVELS) if rnd.random() < 0.2 else "", capdeco=rnd.random() < 0.25)

    def cleanup_only_programs():
        """programs in which NOTHING fails except a cleanup registered at a given layer (every layer, raising or not)"""
        res = []
        n = 0
        for layer in ("", "scenario", "rule", "feature", "testrun"):
            for raises in (True, False):
                for in_rule in (False, True):
                    n += 1
                    sc1 = G.scenario([G.step("pass", cl=[n, layer, raises]), "pass"])
                    sc2 = G.scenario(["pass"])
                    items = [G.rule([sc1, sc2])] if in_rule else [sc1, sc2]
                    # (features before and behind it that a tag expression de-selects as a whole -- with and without a rule;
                    #  announced or, with --no-skipped, passed over silently: their scopes open and close all the same)
                    prog = {"features": [G.feature([G.rule([G.scenario(["pass"])])]), G.feature(items, ["t1"]), G.feature([G.scenario(["pass"])])],
                            "family": "cleanup", "hookcl": n % 2 == 0}
                    res.append((with_o2(prog), [G.cfg(), G.cfg(stop=True), G.cfg(expr="t1", show_skipped=False), G.cfg(expr="t1")], [[0, 0]]))
        return res

    def logging_programs():
        """every --logging-level x --logging-filter combination on two small programs with failing steps"""
        progs = [{"features": [G.feature([G.scenario(["pass", "fail", "pass"]), G.scenario(["error"])])], "family": "logging"},
                 {"features": [G.feature([G.scenario(["pass", "nest_fail"]), G.scenario(["pass", "pass"])], bg=["pass"])], "family": "logging"}]
        cfgs = [G.cfg(loglevel=lv, logfilter=fl, logclear=(i + j) % 3 == 0, tamper=(i + j) % 2 == 0)
                for i, lv in enumerate([""] + LOGLEVELS) for j, fl in enumerate([""] + LOGFILTERS)]
        cfgs += [G.cfg(setuplog=lv, logfilter=fl, capdeco=i % 2 == 0) for i, lv in enumerate(LOGLEVELS) for fl in ("", "verif")]
        cfgs += [G.cfg(rootlvl0=True, capdeco=True, logclear=lc, capture=(True, True, cl)) for lc in (False, True) for cl in (False, True)]
        cfgs += [G.cfg(capture=cap, logclear=lc, tamper=True, stop=st) for cap in [(True, True, False), (False, True, True), (True, False, False), (False, False, False)]
                 for lc in (False, True) for st in (False, True)]
        return [(with_o2(p), cfgs, [[0, 0]]) for p in progs]

    def with_hookcl(p, prob):
        """some programs: the hooks of every level register cleanups of their own"""
        if rnd.random() < prob:
            p["hookcl"] = True
        return p

    def with_names(p, cfgs, prob):
        """some configurations: --name selects a random subset of the scenarios (plain ones and outline rows) by name"""
        sids = [e["id"] for e in G.flatten(p)["elems"] if e["kind"] == "scenario"]
        return [dict(c, names=[i for i in sids if rnd.random() < 0.5]) if rnd.random() < prob else c for c in cfgs]

    def truth_table_programs():
        """every tag expression of the pool on scenarios (and outline rows) that carry every subset of the tag pool, at
        scenario level and inherited from feature / rule: the complete truth table of each expression in real runs"""
        import itertools
        subsets = [list(c) for n in range(len(G.TAGPOOL) + 1) for c in itertools.combinations(G.TAGPOOL, n)]
        own = {"features": [G.feature([G.scenario(["pass"], ts) for ts in subsets])], "family": "truth"}
        # (in Gherkin everything after a Rule belongs to it: the outline comes first)
        inherited = {"features": [G.feature([G.outline([(ts, [["pass"]]) for ts in subsets[8:]], ["wip"]),
                                             G.rule([G.scenario(["pass"], ts) for ts in subsets[:8]], ["t2"])], ["t1"], bg=["pass"])],
                     "family": "truth"}
        cfgs = [G.cfg(expr=e) for e in G.EXPRS] + [G.cfg(expr=e, show_skipped=False, dry=(i % 2 == 0)) for i, e in enumerate(G.EXPRS)]
        cfgs += [G.cfg(expr=e, wip=True) for e in G.EXPRS]          # --wip: the whole expression AND @wip
        # several failing steps in one scenario under continue_after_failed_step (class-wide and set by a hook)
        multi = {"features": [G.feature([G.scenario(["fail", "pass", "error", "pass", "fail"]), G.scenario(["pass", "fail"]),
                                         G.scenario(["fail", "skip", "pass", "pass"]), G.scenario(["error", "pass", "skip", "undefined", "pass"])])],
                 "family": "truth"}
        return [(with_o2(own), cfgs, [[0, 0]]), (with_o2(inherited), cfgs, [[0, 0]]),
                (with_o2(multi), [G.cfg(cont=True), G.cfg(cont=True, cont_by_hook=True), G.cfg(cont=True, capture=(True, False, True))], [[0, 0]])]

    def exception_class_programs():
        """every exception class the driver rotates through for `error` and `pending`, in @wip and ordinary scenarios
        (consecutive scenario ids x one position: all residues of the rotation)"""
        res = []
        for tags in ([], ["wip"]):
            for o in ("error", "pending"):
                prog = {"features": [G.feature([G.scenario([o, "pass"]) for _ in range(7)], tags)], "family": "excclass"}
                res.append((with_o2(prog), [G.cfg(), G.cfg(cont=True), G.cfg(async_steps=True, async_timeout=True), G.cfg(async_steps=True)], [[0, 0]]))
                # ... and alone in the run (k passing steps first: one program per residue of the rotation), so that the
                # run's verdict depends on this one step
                for k in range(7):
                    prog = {"features": [G.feature([G.scenario(["pass"] * k + [o])], tags)], "family": "excclass"}
                    res.append((with_o2(prog), [G.cfg()], [[0, 0]]))
        return res

    def decorated_hook_programs():
        """the after_scenario hook wrapped with @behave.log_capture.capture, every single hook invocation as fault"""
        prog = {"features": [G.feature([G.scenario(["pass"]), G.scenario(["pass", "pass"], ["t1"])])], "family": "capdeco"}
        nh = G.count_hooks_upper(G.flatten(prog))
        return [(with_o2(prog), [G.cfg(capdeco=True), G.cfg(capdeco=True, capture=(True, True, False))], [[0, 0]] + [[k, 0] for k in range(1, nh + 1)])]

    def stop_fault_programs():
        """--stop with every single hook invocation as fault: after the first failure (of whatever hook) nothing else starts"""
        prog = {"features": [G.feature([G.scenario(["pass"])], ["t1"]), G.feature([G.rule([G.scenario(["pass"])], ["t2"]), ]),
                             G.feature([G.scenario(["pass"])])], "family": "stopfault"}
        nh = G.count_hooks_upper(G.flatten(prog))
        return [(with_o2(prog), [G.cfg(stop=True)], [[0, 0]] + [[k, 0] for k in range(1, nh + 1)])]

    def with_kbd(p, prob):
        """some programs: the faulty hook invocations raise KeyboardInterrupt (the run is interrupted while a hook runs)"""
        # (not with steps that call scenario.skip(): the status skip() caches survives when the interrupt skips the end of
        #  Scenario.run -- observed with seed 3, not modelled, like the observer hooks; see DESIGN 11.2)
        skipping = any(st["o"] in ("skip", "skip_fail") or st["o2"] in ("skip", "skip_fail") for e in G.flatten(p)["elems"] for st in e["steps"])
        if rnd.random() < prob and not p.get("skips") and not skipping:
            p["kbdhooks"] = True
        return p

    def kbd_hook_programs():
        """EVERY single hook invocation of small programs as the point where the user interrupts the run"""
        progs = [{"features": [G.feature([G.scenario(["pass", "pass"], ["t1"]), G.scenario(["pass"])], ["t2"], bg=["pass"]),
                               G.feature([G.scenario(["pass"])])], "family": "kbdhooks", "kbdhooks": True},
                 {"features": [G.feature([G.rule([G.scenario([G.step("pass", cl=[1, "testrun", False]), G.step("nest_pass", cl=[2, "", False])], ["t1"]),
                                                  G.outline([([], [["pass"], ["fail"]])])], ["t2"], bg=["pass"])]),
                               G.feature([G.scenario(["pass"])])], "family": "kbdhooks", "kbdhooks": True, "hookcl": True}]
        res = []
        for p in progs:
            nh = G.count_hooks_upper(G.flatten(p))
            res.append((with_o2(p), [G.cfg(), G.cfg(capture=(True, False, True), stop=True)], [[0, 0]] + [[k, 0] for k in range(1, nh + 1)]))
        # ... and interrupting CLEANUP functions: registered by steps on every layer, one raising (= interrupting) each,
        # with earlier and later cleanups in the same layer around it
        n = 0
        for layer in ("", "scenario", "rule", "feature", "testrun"):
            for in_rule in (False, True):
                n += 3
                sc1 = G.scenario([G.step("pass", cl=[n, layer, False]), G.step("pass", cl=[n + 1, layer, True]), G.step("pass", cl=[n + 2, layer, False])], ["t1"])
                items = [G.rule([sc1, G.scenario(["pass"])])] if in_rule else [sc1, G.scenario(["pass"])]
                prog = {"features": [G.feature(items), G.feature([G.scenario(["pass"])])], "family": "kbdhooks", "kbdhooks": True, "hookcl": n % 2 == 0}
                res.append((with_o2(prog), [G.cfg(), G.cfg(retry=True)], [[0, 0], [3, 0]]))
        return res

    def with_typed(p, prob):
        """some programs: steps written with all five keywords, one step function per step type under the same pattern"""
        if rnd.random() < prob:
            p["typed"] = rnd.randint(1, 15)
        return p

    def typed_programs():
        """every keyword at every position of a five-step scenario (salts 1..15), with feature and rule backgrounds, plain
        scenarios and outline rows: the function registered for the step's own type runs, And / But inherit the type"""
        res = []
        for salt in range(1, 16):
            sc = G.scenario(["pass"] * 5)
            ol = G.outline([([], [["pass", "pass", "pass"], ["pass", "fail", "pass"]])])
            items = [sc, ol, G.rule([G.scenario(["pass", "pass", "error"]), G.scenario(["pass", "nest_pass", "pass", "pending"], ["wip"])], bg=["pass", "pass"])]
            prog = {"features": [G.feature(items, bg=["pass", "pass", "pass"])], "family": "typed", "typed": salt}
            res.append((with_o2(prog), [G.cfg(), G.cfg(cont=True, async_steps=(salt % 2 == 0)), G.cfg(dry=True)] if salt % 3 == 0 else [G.cfg(async_steps=(salt % 2 == 0))], [[0, 0]]))
        return res

    def with_literal(p, prob):
        """some programs: outline steps whose text is the same in all rows are written without placeholder"""
        if rnd.random() < prob:
            p["literal_steps"] = True
        return p

    def with_hdronly(p, prob):
        """some programs: every outline has an additional Examples table without rows"""
        if rnd.random() < prob:
            p["hdronly"] = True
        return p

    def with_skips(p, prob):
        """some programs: a before_feature / before_rule / before_scenario hook excludes its element at run time"""
        if rnd.random() < prob:
            flat = G.flatten(p)
            cands = [e for e in flat["elems"] if e["kind"] in ("feature", "rule", "scenario")]
            e = rnd.choice(cands)
            p["skips"] = [["before_" + e["kind"], e["id"]]]
            late = [x for x in flat["elems"] if x["kind"] == "scenario" and x["steps"]]
            # (not with scenarios that have no steps: a late skip() pins them to skipped and thereby wipes an earlier
            #  hook error of theirs -- observed, outside every listed quantifier, see DESIGN 11.5)
            stepless = any(x["kind"] == "scenario" and not x["steps"] for x in flat["elems"])
            if late and not stepless and rnd.random() < 0.5:
                # "skip the rest": the after_scenario hook of a scenario calls skip() on its feature or rule
                s = rnd.choice(late)
                ancs = []
                x = s
                while x["parent"]:
                    x = flat["elems"][x["parent"] - 1]
                    if x["kind"] in ("feature", "rule"):
                        ancs.append(x["id"])
                p["skips"] = [["after_scenario", s["id"], rnd.choice(ancs)]]
        return p

    def lateskip_programs():
        """after the first (failing or passing) scenario its after_scenario hook skips the rest of the feature / rule"""
        res = []
        for first in (["fail"], ["pass"], ["pass", "error"]):
            for in_rule in (False, True):
                for target_rule in ((False, True) if in_rule else (False,)):
                    sc1, sc2, sc3 = G.scenario(first), G.scenario(["pass"]), G.scenario(["pass", "pass"])
                    items = [G.rule([sc1, sc2]), G.rule([sc3])] if in_rule else [sc1, sc2, G.outline([([], [["pass"], ["fail"]])])]
                    prog = {"features": [G.feature(items, bg=["pass"] if in_rule else None), G.feature([G.scenario(["pass"])])], "family": "lateskip"}
                    flat = G.flatten(prog)
                    s1 = [e for e in flat["elems"] if e["kind"] == "scenario"][0]
                    rule_id = [e for e in flat["elems"] if e["kind"] == "rule"][0]["id"] if in_rule else 0
                    feat_id = [e for e in flat["elems"] if e["kind"] == "feature"][0]["id"]
                    prog["skips"] = [["after_scenario", s1["id"], rule_id if target_rule else feat_id]]
                    res.append((with_o2(prog), [G.cfg(), G.cfg(stop=True), G.cfg(show_skipped=False, observe=True)], [[0, 0]]))
        return res

    def pair_programs(n):
        """EVERY pair of hook invocations as fault set on small programs (two faults on the same element included)"""
        progs = [{"features": [G.feature([G.scenario(["pass", "fail"], ["t1"])], ["t1"])], "family": "pairs"},
                 {"features": [G.feature([G.rule([G.scenario(["pass"], ["t2"]), G.scenario(["pass"])], ["t1"])])], "family": "pairs"},
                 {"features": [G.feature([G.outline([(["t1"], [["pass"], ["error"]])])], bg=["pass"])], "family": "pairs"}][:n]
        res = []
        for p in progs:
            nh = G.count_hooks_upper(G.flatten(p))
            res.append((with_o2(p), [G.cfg()], [[0, 0]] + [[a, b] for a in range(1, nh + 1) for b in range(a + 1, nh + 1)]))
        return res

    def with_o2(p):
        """second-attempt outcomes for the steps of a program (scenario_autoretry)"""
        def fix(steps):
            for st in steps or []:
                if st["o"] not in ("undefined", "badarg"):
                    st["o2"] = rnd.choice(["pass", "pass", "fail", "error", st["o"]])
                    if st["o2"] in ("undefined", "badarg"):
                        st["o2"] = "pass"

        def walk(items):
            for it in items:
                if it["kind"] == "rule":
                    fix(it.get("bg")); walk(it["items"])
                elif it["kind"] == "scenario":
                    fix(it["steps"])
                else:
                    for b in it["blocks"]:
                        for row in b["rows"]:
                            fix(row)
        for f in p["features"]:
            fix(f.get("bg")); walk(f["items"])
        return p

    def rfaults(p, n):
        nh = G.count_hooks_upper(G.flatten(p))
        fs = [[0, 0]]
        if rnd.random() < 0.12:
            fs.append([1, 0])        # the very first hook invocation: before_all
        for _ in range(n):
            a = rnd.randint(1, nh)
            fs.append([a, 0] if rnd.random() < 0.8 else [a, rnd.randint(1, nh)])
        return fs

    def retry_programs():
        """scenario_autoretry: the second attempt takes another course than the first one -- a step at an EARLIER position
        skips the scenario, fails, is undefined-free ... : every step status is the one of the latest attempt"""
        res = []
        firsts = (["pass", "pass", "fail", "pass"], ["pass", "error", "pass"], ["pass", "pass", "pass", "fail"])
        seconds = ("skip", "fail", "error", "pending", "skip_fail", "abort")
        for f in firsts:
            for at in range(len(f)):
                for o2 in seconds:
                    steps = [G.step(o, o2=(o2 if k == at else "pass")) for k, o in enumerate(f)]
                    prog = {"features": [G.feature([G.scenario(steps), G.scenario(["pass"])], bg=["pass"] if at % 2 else None)], "family": "retry"}
                    res.append((prog, [G.cfg(retry=True)], [[0, 0]]))
        return res

    def dupstep_programs():
        """scenarios in which a step repeats the text of the step before it (Step objects that compare equal): every first
        non-passing position x outcome over 4 steps, + continue_after_failed_step, + second attempts"""
        res = []
        rr = random.Random(seed * 7 + 3)
        for k in range(4):
            for o in ("fail", "error", "pending", "skip", "kbd", "abort", "skip_fail", "nest_fail"):
                seq = ["pass"] * k + [o] + ["pass"] * (3 - k)
                prog = {"features": [G.feature([G.scenario(seq), G.scenario(["pass", "pass", "fail", "pass", "pass", "pass"])], bg=["pass"])],
                        "family": "dupsteps", "dupsteps": True}
                res.append((with_o2(prog), [G.cfg(), G.cfg(cont=True) if k % 2 else G.cfg(retry=True)], [[0, 0]] + ([[rr.randint(1, 30), 0]] if k == 1 else [])))
        res.append((with_o2({"features": [G.feature([G.scenario(["pass"] * 6)])], "family": "dupsteps", "dupsteps": True}), [G.cfg(), G.cfg(dry=True)], [[0, 0]]))
        return res

    if with_dup:
        out.extend(dupstep_programs())
    out.extend(retry_programs())
    if quick:
        for p in G.family_scen(2):
            out.append((with_o2(p), [G.cfg(), rcfg()], rfaults(p, 2)))
        for p in G.family_tree(rnd, 260):
            p = with_kbd(with_typed(with_literal(with_hdronly(with_hookcl(with_skips(with_o2(p), 0.2), 0.3), 0.2), 0.3), 0.3), 0.1)
            out.append((p, with_names(p, [dict(c, retry=False) for c in (rcfg(), rcfg())] if p.get("skips") else [rcfg(), rcfg()], 0.2), rfaults(p, 2)))
        for p in G.family_big(rnd, 40):
            out.append((with_typed(with_o2(p), 0.4), [rcfg()], rfaults(p, 2)))
        out.extend(typed_programs())
        out.extend(kbd_hook_programs())
        out.extend(cleanup_only_programs())
        out.extend(logging_programs())
        out.extend(lateskip_programs())
        out.extend(pair_programs(1))
        out.extend(truth_table_programs())
        out.extend(exception_class_programs())
        out.extend(decorated_hook_programs())
        out.extend(stop_fault_programs())
    else:
        # ~85k runs: (a) EVERY hook invocation as injection point on the exhaustive family scen(2) under the default
        # configuration (also with autoretry: positions of the second attempt); (b) scen(3) under 4 configurations with
        # faults spread over the run; (c) random trees with every single position; (d) big random programs
        def spread(nh, n):
            step = max(1, nh // n)
            return [[k, 0] for k in range(1, nh + 1, step)][:n]
        for p in G.family_scen(2):
            p = with_o2(p)
            nh = G.count_hooks_upper(G.flatten(p))
            out.append((p, [G.cfg()], [[0, 0]] + [[k, 0] for k in range(1, nh + 1)]))
            out.append((p, [G.cfg(retry=True)], [[0, 0]] + [[k, 0] for k in range(1, 2 * nh + 1, 2)]))
        alt = 0
        for p in G.family_scen(3):
            p = with_o2(p)
            nh = G.count_hooks_upper(G.flatten(p))
            alt += 1
            cfgs = [G.cfg(), G.cfg(stop=True) if alt % 2 else G.cfg(dry=True), G.cfg(cont=True) if alt % 3 else G.cfg(retry=True),
                    G.cfg(show_skipped=False, capture=(alt % 2 == 0, alt % 3 == 0, alt % 5 == 0))]
            out.append((p, cfgs, [[0, 0]] + spread(nh, 3)))
        for p in G.family_tree(rnd, 1000):
            p = with_kbd(with_typed(with_literal(with_hdronly(with_hookcl(with_skips(with_o2(p), 0.2), 0.3), 0.2), 0.3), 0.3), 0.1)
            nh = G.count_hooks_upper(G.flatten(p))
            cf = [rcfg(), rcfg()]
            out.append((p, with_names(p, [dict(c, retry=False) for c in cf] if p.get("skips") else cf, 0.2), [[0, 0]] + spread(nh, 6) + rfaults(p, 2)[1:]))
        out.extend(cleanup_only_programs())
        out.extend(logging_programs())
        out.extend(lateskip_programs())
        out.extend(pair_programs(3))
        out.extend(truth_table_programs())
        out.extend(exception_class_programs())
        out.extend(decorated_hook_programs())
        out.extend(stop_fault_programs())
        out.extend(typed_programs())
        out.extend(kbd_hook_programs())
        for p in G.family_big(rnd, 300):
            out.append((with_typed(with_o2(p), 0.4), [rcfg(), rcfg()], rfaults(p, 6)))
    # interrupted-hook programs are not combined with observer hooks: a feature status read (and cached) mid-run survives
    # when the interrupt skips the end of Feature.run -- observed, not modelled (DESIGN 11.5)
    out = [(p, [dict(c, observe=False) for c in cfgs] if p.get("kbdhooks") else cfgs, faults) for p, cfgs, faults in out]
    return out


def shared(chk, part="core"):
    """Run (or load) the shared stage for this tree / tier / seed.  Returns a dict:
       n_runs, tlc: [{module,cfg,distinct,generated,wall,coverage}], verdicts: {clause: [ {key, ...} ]},
       divergences, samples, design_violations"""
    key = tree_key({"tier": chk.tier, "seed": chk.seed, "part": part, "v": 45})
    os.makedirs(CACHE, exist_ok=True)
    # one entry per (part, tier, repository location): runs against a mutated copy must not evict /repo's entry
    prefix = "%s-%s-%s-" % (part, chk.tier, hashlib.sha256(REPO.encode()).hexdigest()[:8])
    path = os.path.join(CACHE, "%s%s.json.gz" % (prefix, key))
    lock = open(os.path.join(CACHE, "%slock" % prefix), "w")
    fcntl.flock(lock, fcntl.LOCK_EX)
    try:
        if os.path.exists(path) and not os.environ.get("VERIF_NOCACHE"):
            with gzip.open(path, "rt") as fh:
                res = json.load(fh)
            res["cached"] = True
            return res
        res = _compute(chk, part)
        for old in os.listdir(CACHE):
            if old.startswith(prefix) and old.endswith(".json.gz"):
                os.unlink(os.path.join(CACHE, old))
        with gzip.open(path + ".tmp", "wt") as fh:
            json.dump(res, fh)
        os.rename(path + ".tmp", path)
        res["cached"] = False
        return res
    finally:
        fcntl.flock(lock, fcntl.LOCK_UN)
        lock.close()


def _compute(chk, part):
    import shutil
    import tempfile
    t0 = time.time()
    pl = plan(chk.tier, chk.seed, with_dup=True)
    cases, info = [], {}
    for i, (p, cfgs, faults) in enumerate(pl):
        case, flat = C.make_case(i + 1, p, cfgs, faults)
        cases.append(case)
        info[i + 1] = (p, flat, cfgs, faults, case)
    tmp = tempfile.mkdtemp(prefix="verif-stage-")
    tlc_runs = []
    preds = {}
    design = []
    try:
        # TLC: explore every (case, cfg, fault set); invariants in every state; emit every behaviour
        nchunks = 1 if chk.tier == "quick" else 8
        size = (len(cases) + nchunks - 1) // nchunks
        for c in range(nchunks):
            part_cases = cases[c * size:(c + 1) * size]
            if not part_cases:
                continue
            cf = os.path.join(tmp, "cases%d.ndjson" % c)
            _tlc.write_ndjson(cf, part_cases)
            r = _tlc.run_tlc("Run_MC", env={"CASE_FILE": cf}, workers=16, timeout=3000, heap="12g")
            tlc_runs.append({"module": "Run_MC", "cfg": "Run_MC.cfg", "distinct": r.distinct, "generated": r.generated,
                             "wall_s": round(r.wall, 1), "depth": r.depth,
                             "actions_covered": {k: v[1] for k, v in sorted(r.coverage.items())}})
            for name in r.violated:
                design.append({"inv": name, "clause": "", "key": []})
            for t in r.by_tag("DESIGNVIOL"):
                design.append({"inv": "PropsHold", "clause": t[4], "key": [t[1], t[2], t[3]]})
            for t in r.by_tag("CASE"):
                d = json.loads(t[1])
                preds[(d["tid"], d["ci"], d["fi"])] = d
            os.unlink(cf)
    finally:
        shutil.rmtree(tmp, ignore_errors=True)
    # design level, two-run clause: every predicted faulty behaviour paired with the predicted fault-free one
    prows = []
    for k in sorted(preds):
        if k[2] == 1 or (k[0], k[1], 1) not in preds or info[k[0]][4]["kbd"]:
            continue
        d, b = preds[k], preds[(k[0], k[1], 1)]
        case = info[k[0]][4]
        prows.append({"id": len(prows) + 1, "prog": case["prog"], "cfg": case["cfgs"][k[1] - 1], "skips": case["skips"], "hookcl": case["hookcl"], "kbd": False, "events": d["events"],
                      "end": {"ran": True, "verdict": d["verdict"], "status": d["status"], "step_status": d["step_status"], "hook_failed": d["hook_failed"]},
                      "base": {"ran": True, "aborted": any(e["k"] == "step" and e["outcome"] in ("kbd", "abort") for e in b["events"]),
                               "status": b["status"], "step_status": b["step_status"]}, "_key": list(k)})

    class _Acc0(object):
        tlc_runs = []
    acc0 = _Acc0()
    acc0.tlc_runs = []
    pv = _trace.judge_rows(acc0, "RunPair_Trace", [{x: y for x, y in r.items() if x != "_key"} for r in prows], chunks=16)
    for m, c, r in acc0.tlc_runs:
        tlc_runs.append({"module": m, "cfg": c, "distinct": r.distinct, "generated": r.generated, "wall_s": round(r.wall, 1),
                         "depth": r.depth, "actions_covered": {}})
    for rid, vs in pv.items():
        for v in vs:
            design.append({"inv": "PropsHold", "clause": v[2], "key": prows[rid - 1]["_key"]})
    # the real code on exactly the explored inputs
    jobs = []
    for tid in sorted(info):
        p, flat, cfgs, faults, case = info[tid]
        for ci, c in enumerate(cfgs):
            for fi, f in enumerate(faults):
                jobs.append({"key": [tid, ci + 1, fi + 1], "prog": p, "flat": flat, "cfg": c, "fault": f,
                             "fault_kind": "kbd" if p.get("kbdhooks") else ("assert" if (tid + ci + fi) % 3 == 0 else "exc"),
                             # every 7th job: the same model objects were run once before and reset (history)
                             # ... every 14th: by this very runner object (same configuration), the others by another runner
                             "prerun": ("same" if (tid + 2 * ci + 3 * fi) % 14 == 7 else True) if (tid + 2 * ci + 3 * fi) % 7 == 0 else False})
    out = drive_all(jobs)
    for row in out:
        if "driver_error" in row:
            raise RuntimeError("driver failed on %s:\n%s" % (row["key"], row["driver_error"]))
    jrows, divergences, div_samples = [], 0, []
    bykey = {tuple(row["key"]): row for row in out}
    for n, row in enumerate(out):
        k = tuple(row["key"])
        case = info[k[0]][4]
        jrows.append(judge_row(n + 1, case["prog"], case["cfgs"][k[1] - 1], row, base=base_of(bykey[(k[0], k[1], 1)]), skips=case["skips"], hookcl=case["hookcl"], kbd=case["kbd"]))
        if k in preds:
            d = compare(preds[k], row, info[k[0]][1])
            if d:
                divergences += 1
                if len(div_samples) < 5:
                    div_samples.append({"key": list(k), "diff": d[:3]})
        else:
            divergences += 1

    class _Acc(object):
        tlc_runs = []
    acc = _Acc()
    acc.tlc_runs = []
    verdicts = _trace.judge_rows(acc, "Run_Trace", jrows, chunks=16)
    for m, c, r in acc.tlc_runs:
        tlc_runs.append({"module": m, "cfg": c, "distinct": r.distinct, "generated": r.generated, "wall_s": round(r.wall, 1),
                         "depth": r.depth, "actions_covered": {}})
    byclause = {}
    for rid, vs in verdicts.items():
        job = jobs[rid - 1]
        row = out[rid - 1]
        for v in vs:
            byclause.setdefault(v[2], []).append({
                "key": job["key"], "cfg": job["cfg"], "fault": job["fault"], "fault_kind": job["fault_kind"], "prog": job["prog"],
                "status": row["end"]["status"], "step_status": row["end"]["step_status"], "verdict": row["end"]["verdict"],
                "escaped": row["end"]["escaped"]})
    samples = []
    for j in (0, len(jobs) // 2, len(jobs) - 1):
        job, row = jobs[j], out[j]
        R = drive.Rendered(job["prog"], job["flat"])
        samples.append({"cfg": job["cfg"], "fault_positions": job["fault"], "feature_text": R.files[0][1],
                        "observed_events": len(row["events"]), "verdict_failed": row["end"]["verdict"], "statuses": row["end"]["status"]})
    nontrivial = len({json.dumps([j["prog"], j["cfg"], j["fault"]], sort_keys=True) for j in jobs})
    return {"n_runs": len(jobs), "n_programs": len(pl), "tlc": tlc_runs, "verdicts": byclause, "divergences": divergences,
            "divergence_samples": div_samples, "samples": samples, "design_violations": design[:200],
            "distinct_inputs": nontrivial, "wall_s": round(time.time() - t0, 1), "n_predicted": len(preds)}
