--------------------------- MODULE TagExpr_Trace ---------------------------
(* Judge of C07 on rows recorded from the real make_tag_expression() /     *)
(* Configuration.setup_tag_expression().  One state per row; a violated    *)
(* clause is printed as <<"VERDICT", row id, clause>>.                      *)
EXTENDS TagExpr, TLC, Json, IOUtils
Rows == ndJsonDeserialize(IOEnv.TRACE_FILE)
Univ == << <<"a">>, <<"b">>, <<"a","b">>, <<"z","b">>, <<"c",".","d">>, <<"x","-","y","=","1">>, <<"N","O","T","-","r">> >>
SS == SubsetSeq(Univ)

VARIABLE i
Init == i = 1
R == Rows[i]

TT(tree) == TruthTable(tree, SS)
AllTrue(tt) == \A k \in DOMAIN tt : tt[k]
IsBlank(s) == \A k \in DOMAIN s : s[k] = " "

\* kind "expr": text (chars) or terms (list of char seqs), form, err, tt, printed, printed_err, printed_tt, pretty, pretty_tt
Parsed(r) == IF r.form = "list" THEN ParseList(r.terms) ELSE ParseText(r.text)
ExprClauses(r) ==
   LET p == Parsed(r) IN
   IF ~p.ok THEN {}       \* ill-formed text: not judged (the statement speaks about expressions)
   ELSE (IF r.err \/ r.tt # TT(p.tree) THEN {"C07.truth"} ELSE {})
        \* ... also under the default protocol (auto-detection of the dialect)
        \cup (IF r.auto_err \/ r.auto_tt # TT(p.tree) THEN {"C07.truth_default_protocol"} ELSE {})
        \cup (IF ~r.err /\ r.form = "text" /\ IsBlank(r.text) /\ ~AllTrue(r.tt) THEN {"C07.empty"} ELSE {})
        \cup (IF r.err THEN {}
              ELSE LET q1 == ParseText(r.printed)  q2 == ParseText(r.pretty) IN
                   IF \/ r.printed_err \/ r.printed_tt # r.tt \/ ~q1.ok \/ TT(q1.tree) # r.tt
                      \/ r.pretty_err \/ r.pretty_tt # r.tt \/ ~q2.ok \/ TT(q2.tree) # r.tt
                   THEN {"C07.roundtrip"} ELSE {})
\* kind "ph": pre, post, c (chars): command-line text = pre {config.tags} post, config-file tags = c; pre and post may hold
\* further placeholders: EVERY occurrence stands for the configured expression
PH == <<"{", "c", "o", "n", "f", "i", "g", ".", "t", "a", "g", "s", "}">>
RECURSIVE Subst(_,_)
Subst(t, rep) == IF Len(t) < Len(PH) THEN t
                 ELSE IF SubSeq(t, 1, Len(PH)) = PH THEN rep \o Subst(SubSeq(t, Len(PH) + 1, Len(t)), rep)
                 ELSE <<t[1]>> \o Subst(Tail(t), rep)
PhClauses(r) ==
   LET want == ParseText(Subst(r.pre \o PH \o r.post, <<"(">> \o r.c \o <<")">>)) IN
   IF ~want.ok \/ ~ParseText(r.c).ok THEN {}
   ELSE IF r.err \/ r.tt # TT(want.tree) THEN {"C07.placeholder"} ELSE {}
\* kind "wip": --wip --tags=<text>: the configured expression is (text) AND wip: with the tag wip present it has the truth table
\* of the text on the tag set enlarged by wip (a wildcard may match the tag wip itself), without it it is false for every
\* tag set (tt / tt0 over the subsets of Univ)
WipClauses(r) ==
   LET p == ParseText(r.text) IN
   IF ~p.ok THEN {}
   ELSE IF r.err \/ r.tt # [k \in DOMAIN SS |-> Eval(p.tree, SS[k] \cup {<<"w", "i", "p">>})] \/ (\E k \in DOMAIN r.tt0 : r.tt0[k])
        THEN {"C07.wip_conjunction"} ELSE {}
Clauses(r) == IF r.kind = "ph" THEN PhClauses(r) ELSE IF r.kind = "wip" THEN WipClauses(r) ELSE ExprClauses(r)

Next == /\ i <= Len(Rows)
        /\ \A c \in Clauses(R) : PrintT(<<"VERDICT", R.id, c>>)
        /\ i' = i + 1
Spec == Init /\ [][Next]_i
Done == PrintT(<<"DONE", Len(Rows), TLCGet("stats").diameter>>)
=============================================================================
