\* nested execute_steps (depth 2 and 3, every text/table shape per level, innermost ok/fails) + execute_steps + push/pop
INIT Init
NEXT Next
CONSTANTS
  OpsAt <- Ops1121
  UNames = {1}
  Vals = {1}
  WithFailed = FALSE
  WithRoot = FALSE
  WithUseOr = FALSE
  WithReads = FALSE
  WithMode = FALSE
  WithExec = TRUE
  MaxIds = 0
  ArgModes = {0, 1}
  WithFixtures = FALSE
  WithAttrs = FALSE
  NestSet <- NestAll
  TwoRuns = FALSE
  OpsB = 0
  EqualLayers = FALSE
  UseOrRoot = FALSE
INVARIANT Visible
INVARIANT Shadow
INVARIANT DeleteLocal
INVARIANT ScopeEnd
INVARIANT RootAttr
INVARIANT CleanupOnce
INVARIANT CleanupLifo
INVARIANT CleanupDespiteErrors
INVARIANT CleanupLayer
INVARIANT FixtureCleanup
INVARIANT ExecStepsRestore
INVARIANT ApiErrors
INVARIANT Shape
INVARIANT ViewsAgree
INVARIANT Emit
