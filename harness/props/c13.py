"""C13 -- Context scoping and cleanups (API-history part).

(S)+(P) specs/Context.tla   (MC) specs/Context_MC.tla + Context_MC_<tier>*.cfg   judge: specs/Context_Trace.tla
TLC enumerates every operation history of the bound (several alphabets, see PARTS), applies the implementation
model and the property monitor to each (INVARIANTs = the clauses) and prints every closed history together with
the observation predicted after every operation.  This driver replays each history on a real behave Context
(built the way ModelRunner builds it, scopes pushed/popped the way model.py does), probes the public API after
every operation (`name in context`, getattr for the whole name pool), records the exception type, the
ContextMaskWarnings and the log of executed cleanup functions, and hands the rows to the TLC judge.  Python
never decides a clause.  Seeded random histories (length <= 60) go the same way (code -> spec direction).

The run part of C13 (scopes around every feature/rule/scenario in real runs, raising cleanup => element error and
failed run) is judged on the run-engine spec: see the marked place in run()."""
import io
import json
import os
import random
import sys
import time
import warnings
from concurrent.futures import ThreadPoolExecutor

from vlib import trace
from vlib.tlc import TlcError

POOL = ["a", "b", "failed", "text", "table"]            # = Pool of Context.tla
LAYERS = [None, "testrun", "feature", "rule", "scenario", "no_such_layer"]
OPNAME = ["", "push", "pop", "set", "setroot", "get", "has", "del", "use_or_assign", "use_or_create",
          "add_cleanup", "use_fixture", "switch_mode", "execute_steps", "end_run", "execute_nested", "new_context"]
EXCNAME = ["", "AttributeError", "LookupError", "KeyError", "CleanupBoom", "SetupBoom", "AssertionError",
           "ValueError", "TypeError", "other"]
MISSING = object()
VALUES = [1, 1, 2, 2, 3, 6, 6, 7, 8, 9]      # value codes of the random histories: 1 2 False None 0 '' []

# every part is one exhaustive TLC run of Context_MC; alphabet and operation budget per prelude depth are in the cfg:
#   *_quick/_thorough      attribute alphabet (2 names + `failed`, 2 values)          len 2,2,3,2 / 3,3,3,3
#   *_thorough_attrs4      attribute alphabet with 1 name + `failed`                  len 4 below feature+scenario
#   *_cleanups             cleanup alphabet (3 callables x raising x bare/args x layer=, 4 fixture kinds)  len 2 / 3
#   *_thorough_cleanups4   cleanup alphabet without args/fixtures                     len 4 below feature+scenario
#   *_reduced              1 name, 2 values: push pop set setroot del                 len 5 / 6 from the testrun scope
#   *_exec                 nested execute_steps: depth 2/3, every none/text/table shape per level, innermost ok/fails
#   *_two                  two Contexts in one process: cleanups/attributes of the first must not reach the second
#   *_values               set / use_or_* with the values 1 False None 0 '' [] and on the pre-defined text/table (None)
#   *_layers               equal layer names: scenario inside scenario, unnamed inside unnamed (push pop set del [cleanups])
#   *_thorough_sim         complete alphabet incl. get/has, -simulate, 50 operations
# get/has are not separate operations in the exhaustive parts: the probe after EVERY operation does both for all names
PARTS = {
    "quick": ["Context_MC_quick.cfg", "Context_MC_quick_cleanups.cfg", "Context_MC_quick_reduced.cfg",
              "Context_MC_quick_exec.cfg", "Context_MC_quick_two.cfg", "Context_MC_quick_values.cfg",
              "Context_MC_quick_layers.cfg"],
    "thorough": ["Context_MC_thorough.cfg", "Context_MC_thorough_attrs4.cfg", "Context_MC_thorough_cleanups.cfg",
                 "Context_MC_thorough_cleanups4.cfg", "Context_MC_thorough_reduced.cfg",
                 "Context_MC_thorough_exec.cfg", "Context_MC_thorough_two.cfg", "Context_MC_thorough_values.cfg",
                 "Context_MC_thorough_layers.cfg"],
}
SIM_CFG = "Context_MC_thorough_sim.cfg"


class CleanupBoom(Exception):
    def __init__(self, key):
        # the text contains percent signs: error reporting must not use it as a format string
        Exception.__init__(self, "cleanup %s failed at 100%% (%%s, %%d)" % key)
        self.key = key


class SetupBoom(Exception):
    pass


def key(seq, kind, ident):
    return 1000 * seq + 100 * kind + ident


class World(object):
    """Everything that is shared between histories: configuration, step registry, one parsed feature, one runner."""

    def __init__(self):
        from behave.configuration import Configuration
        from behave.runner import ModelRunner
        from behave.step_registry import StepRegistry
        from behave.parser import parse_feature
        from behave.model import Table
        self.Table = Table
        self.config = Configuration(command_args=[], load_config=False)
        self.registry = StepRegistry()

        def sub_ok(context):
            pass

        def sub_fails(context):
            assert False, "sub-step fails"

        def nest_step(context):
            # the step of nesting level `level`: calls execute_steps for the next level and reports what it sees in
            # context.text/.table after that call came back (normally or by AssertionError)
            st = self.nest
            st["level"] += 1
            level = st["level"]
            try:
                if level < st["depth"]:
                    try:
                        context.execute_steps(st["steps"][level + 1])
                    finally:
                        st["log"].append(key(st["seq"], 3 + level,
                                             10 * nest_digit(getattr(context, "text", MISSING), False)
                                             + nest_digit(getattr(context, "table", MISSING), True)))
                else:
                    assert st["ok"], "innermost sub-step fails"
            finally:
                st["level"] -= 1
        self.nest = None
        self.registry.add_step_definition("given", u"nest step", nest_step)
        self.registry.add_step_definition("given", u"sub ok", sub_ok)
        self.registry.add_step_definition("given", u"sub fails", sub_fails)
        self.feature = parse_feature(u"Feature: F\n  Scenario: S\n    Given sub ok\n", filename=u"c13.feature")
        self.runner = ModelRunner(self.config, [self.feature], step_registry=self.registry)
        self.runner.feature = self.feature
        self.stale_calls = 0        # cleanups of an earlier history that were executed during a later one

    def new_context(self):
        from behave.runner import Context
        ctx = Context(self.runner)
        self.runner.context = ctx
        ctx.feature = self.feature          # BEHAVE mode, root scope: what Feature.run does one level deeper
        return ctx


def nest_digit(v, table):
    """0 None, 1 + k: the text / table of nesting level k, 9 anything else"""
    if v is None:
        return 0
    try:
        if table:
            name = v.headings[0] if len(v.headings) == 1 else ""
        else:
            name = v if isinstance(v, type(u"")) else ""
        if len(name) == 2 and name[0] == (u"h" if table else u"L") and name[1] in u"0123":
            return 1 + int(name[1])
    except Exception:       # pylint: disable=broad-except
        pass
    return 9


def nest_steps_text(level, shape):
    text = u"Given nest step\n"
    if shape == 1:
        text += u'  """\n  L%d\n  """\n' % level
    elif shape == 2:
        text += u"  | h%d |\n  | 1 |\n" % level
    return text


def exc_code(x):
    t = type(x)
    if t is AttributeError:
        return 1
    if t is LookupError:
        return 2
    if t is KeyError:
        return 3
    if t is CleanupBoom:
        return 4
    if t is SetupBoom:
        return 5
    if t is AssertionError:
        return 6
    if t is ValueError:
        return 7
    if t is TypeError:
        return 8
    return 9


def replay_history(world, ops):
    """Run one history on a real Context; returns the list of observations (one int list per op)."""
    from behave.runner import scoped_context_layer, use_context_with_mode, ContextMode, ContextMaskWarning
    from behave.fixture import use_fixture, use_composite_fixture_with, fixture_call_params, fixture
    Table = world.Table
    box = [world.new_context()]         # box[0] = the Context in use (operation 16 builds a new one)
    log = []
    funcs = {}
    alive = [True]
    pushed = []         # how each open scope was pushed: None (_push) or the scoped_context_layer manager
    modes = []          # open use_with_user_mode managers

    def cleanup_func(ident, raises):
        fn = funcs.get((ident, raises))
        if fn is None:
            def fn(*args, **kwargs):
                if not alive[0]:            # called after its history (and its Context) ended
                    world.stale_calls += 1
                    return
                if args or kwargs:
                    k = args[0] if (len(args) == 1 and kwargs == {"k": args[0]}) else 999999
                else:
                    k = ident
                log.append(k)
                if raises:
                    raise CleanupBoom(k)
            funcs[(ident, raises)] = fn
        return fn

    @fixture
    def gen_fixture(context, ident, seq, raises):
        log.append(key(seq, 3, ident))
        yield ident
        if not alive[0]:
            world.stale_calls += 1
            return
        log.append(key(seq, 2, ident))
        if raises:
            raise CleanupBoom(key(seq, 2, ident))

    @fixture
    def nesting_fixture(context, ident, seq, raises):
        # the SETUP part registers a cleanup of its own and uses another generator fixture
        log.append(key(seq, 3, ident))
        k = key(seq, 1, 97)
        context.add_cleanup(cleanup_func(97, 0), k, k=k)
        use_fixture(gen_fixture, context, 98, seq, 0)
        yield ident
        if not alive[0]:
            world.stale_calls += 1
            return
        log.append(key(seq, 2, ident))
        if raises:
            raise CleanupBoom(key(seq, 2, ident))

    @fixture
    def failing_fixture(context, seq):
        log.append(key(seq, 3, 99))
        raise SetupBoom("setup fails")
        yield None      # pylint: disable=unreachable

    @fixture
    def plain_fixture(context, ident, seq):
        log.append(key(seq, 3, ident))
        context.a = 2
        return 2

    def code(v):
        if v is MISSING:
            return 0
        if v is False:
            return 3
        if v is None:
            return 6
        if type(v) is int and v in (1, 2):
            return v
        if type(v) is int and v == 0:
            return 7
        if type(v) is list and not v:
            return 9
        if isinstance(v, Table):
            d = nest_digit(v, True)
            return 5 if d == 9 else 19 + d
        if isinstance(v, type(u"")):
            if v == u"":
                return 8
            if v == u"CALLER":
                return 4
            d = nest_digit(v, False)
            if d != 9:
                return 9 + d
        return 99

    def value(y):
        """value code -> the Python object that is assigned (falsy values included)"""
        return {3: False, 6: None, 7: 0, 8: u"", 9: []}.get(y, y)

    out = []
    with warnings.catch_warnings(record=True) as caught:
        warnings.simplefilter("always")
        for seq, op in enumerate(ops, 1):
            c, x, y, z = op
            ctx = box[0]
            e = 0
            ret = 0
            n0 = len(log)
            w0 = len(caught)
            try:
                if c == 1:
                    # scenario and unnamed layers: behave.runner.scoped_context_layer, or (inside a layer that was
                    # pushed that way, at odd positions) Context._push, so that equal names nest in both ways
                    if x in (0, 4) and not (pushed and pushed[-1] is not None and seq % 2):
                        cm = scoped_context_layer(ctx, LAYERS[x]) if x else scoped_context_layer(ctx)
                        cm.__enter__()
                        pushed.append(cm)
                    elif x:
                        ctx._push(layer=LAYERS[x])
                        pushed.append(None)
                    else:
                        ctx._push()
                        pushed.append(None)
                elif c == 2:
                    cm = pushed.pop() if pushed else None
                    if cm is None:
                        ctx._pop()
                    else:
                        cm.__exit__(None, None, None)
                elif c == 3:
                    setattr(ctx, POOL[x - 1], value(y))
                elif c == 4:
                    ctx._set_root_attribute(POOL[x - 1], value(y))
                elif c == 5:
                    ret = code(getattr(ctx, POOL[x - 1]))
                elif c == 6:
                    ret = 1 if POOL[x - 1] in ctx else 0
                elif c == 7:
                    delattr(ctx, POOL[x - 1])
                elif c == 8:
                    ret = code(ctx.use_or_assign_param(POOL[x - 1], value(y)))
                elif c == 9:
                    ret = code(ctx.use_or_create_param(POOL[x - 1], lambda v: v, value(y)))
                elif c == 10:
                    fn = cleanup_func(x, y % 2)
                    kw = {}
                    if z:
                        kw["layer"] = LAYERS[min(z, 5)]
                    if y // 2:
                        k = key(seq, 1, x)
                        ctx.add_cleanup(fn, k, k=k, **kw)
                    else:
                        ctx.add_cleanup(fn, **kw)
                elif c == 11:
                    if z == 1:
                        use_fixture(gen_fixture, ctx, x, seq, y)
                    elif z == 2:
                        use_fixture(plain_fixture, ctx, x, seq)
                    elif z == 3:
                        use_fixture(failing_fixture, ctx, seq)
                    elif z == 5:
                        use_fixture(nesting_fixture, ctx, x, seq, y)
                    else:
                        use_composite_fixture_with(ctx, [fixture_call_params(gen_fixture, x, seq, y),
                                                         fixture_call_params(failing_fixture, seq)])
                elif c == 12:
                    if modes:
                        modes.pop().__exit__(None, None, None)
                    else:
                        cm = ctx.use_with_user_mode()
                        cm.__enter__()
                        modes.append(cm)
                elif c == 13:
                    # the calling step: Step.run assigns its text/table in BEHAVE mode, then the step function
                    # (USER mode) calls execute_steps with a sub-step that carries a table
                    with use_context_with_mode(ctx, ContextMode.BEHAVE):
                        ctx.text = u"CALLER"
                        ctx.table = None
                    with ctx.use_with_user_mode():
                        ctx.execute_steps(u"Given sub ok\n  | h |\n  | 1 |\n" if x else u"Given sub fails\n  | h |\n  | 1 |\n")
                elif c == 14:
                    ctx._do_cleanups()
                elif c == 15:
                    shapes = [(y // 3 ** l) % 3 for l in range(x + 1)]
                    world.nest = {"depth": x, "ok": bool(z), "level": 0, "seq": seq, "log": log,
                                  "steps": [None] + [nest_steps_text(l, shapes[l]) for l in range(1, x + 1)]}
                    with use_context_with_mode(ctx, ContextMode.BEHAVE):        # Step.run of the calling step
                        ctx.text = u"L0" if shapes[0] == 1 else None
                        ctx.table = Table([u"h0"], rows=[[u"1"]], line=0) if shapes[0] == 2 else None
                    with ctx.use_with_user_mode():
                        ctx.execute_steps(world.nest["steps"][1])
                else:
                    # the run is over: a second Context is built in the same process (same runner, same callables)
                    while modes:
                        modes.pop().__exit__(None, None, None)
                    del pushed[:]
                    box[0] = world.new_context()
            except Exception as ex:     # pylint: disable=broad-except
                e = exc_code(ex)
                if e == 4 and c in (2, 14):
                    ret = ex.key
            wcode = 0
            if len(caught) > w0:
                mine = [wm for wm in caught[w0:] if wm.category is ContextMaskWarning]
                if mine:
                    text = str(mine[0].message)
                    kind = 1 if "behave runner is masking" in text else 2 if "originally set by behave" in text else 3
                    wcode = 10 * len(mine) + kind
            ctx = box[0]
            has = []
            val = []
            for name in POOL:
                try:
                    has.append(1 if name in ctx else 0)
                except Exception:       # pylint: disable=broad-except
                    has.append(0)
                try:
                    val.append(code(getattr(ctx, name, MISSING)))
                except Exception:       # pylint: disable=broad-except
                    val.append(98)
            out.append([e, wcode, ret] + has + val + log[n0:])
    while modes:
        modes.pop().__exit__(None, None, None)
    alive[0] = False
    return out


def pretty(ops, upto=None):
    parts = []
    for op in ops[:upto]:
        c, x, y, z = op
        if c == 1:
            parts.append("push(%s)" % (LAYERS[x] or "unnamed"))
        elif c in (3, 4, 8, 9):
            parts.append("%s(%s,%s)" % (OPNAME[c], POOL[x - 1], {3: "False", 6: "None", 7: "0", 8: "''", 9: "[]"}.get(y, y)))
        elif c in (5, 6, 7):
            parts.append("%s(%s)" % (OPNAME[c], POOL[x - 1]))
        elif c == 10:
            parts.append("add_cleanup(c%d%s%s%s)" % (x, "!" if y % 2 else "", ",args" if y // 2 else "",
                                                     ",layer=%s" % LAYERS[min(z, 5)] if z else ""))
        elif c == 11:
            parts.append("use_fixture(%s%s)" % (["", "generator", "plain", "failing_setup", "composite", "generator_with_registering_setup"][min(z, 5)],
                                               "!" if y else ""))
        elif c == 13:
            parts.append("execute_steps(%s)" % ("ok" if x else "fails"))
        elif c == 15:
            parts.append("execute_nested(%s,%s)" % ("/".join(["none", "text", "table"][(y // 3 ** l) % 3] for l in range(x + 1)),
                                                    "ok" if z else "innermost fails"))
        else:
            parts.append(OPNAME[c])
    return "; ".join(parts)


def show_obs(ob):
    if len(ob) < 13:
        return {"malformed": ob}
    e, w, r = ob[:3]
    has = ob[3:8]
    val = ob[8:13]
    return {"exc": EXCNAME[e] if e < len(EXCNAME) else "other", "warn": w, "ret": r,
            "in": dict(zip(POOL, has)), "value": dict(zip(POOL, val)), "cleanups_run": ob[13:]}


# ---------------------------------------------------------------- random histories (code -> spec direction)
def random_history(rnd, length):
    ops = []
    layers = [1]
    rz = {}
    second = False
    while len(ops) < length:
        r = rnd.random()
        top = layers[-1]
        if r < 0.12:
            nxt = {1: [2], 2: [3, 4], 3: [4], 4: [0, 0, 4], 0: [0] if len(layers) < 7 else []}[top]
            if not nxt:
                continue
            l = rnd.choice(nxt)
            layers.append(l)
            ops.append([1, l, 0, 0])
        elif r < 0.22:
            if len(layers) == 1:
                continue
            layers.pop()
            ops.append([2, 0, 0, 0])
        elif r < 0.40:
            n = rnd.choice([1, 1, 2, 2, 3])
            ops.append([3, n, 1 if n == 3 else rnd.choice(VALUES), 0])
        elif r < 0.46:
            n = rnd.choice([1, 2, 3])
            ops.append([4, n, 1 if n == 3 else rnd.choice(VALUES), 0])
        elif r < 0.50:
            ops.append([rnd.choice([5, 6]), rnd.choice([1, 2, 3, 4, 5]), 0, 0])
        elif r < 0.60:
            ops.append([7, rnd.choice([1, 1, 2, 2, 3]), 0, 0])
        elif r < 0.66:
            ops.append([rnd.choice([8, 9]), rnd.choice([1, 1, 2, 2, 4, 5]), rnd.choice(VALUES), 0])
        elif r < 0.84:
            ident = rnd.randint(1, 5)
            raises = rz.setdefault(ident, 1 if rnd.random() < 0.3 else 0)
            layer = rnd.choice([0, 0, 0, 1, 2, 3, 4, 5])
            ops.append([10, ident, raises + 2 * rnd.choice([0, 0, 1]), layer])
        elif r < 0.91:
            kind = rnd.choice([1, 1, 2, 3, 4, 5])
            if kind in (1, 4, 5):
                ident = 10 + len(ops) % 80          # a fresh callable each time
                ops.append([11, ident, 1 if rnd.random() < 0.3 else 0, kind])
            else:
                ops.append([11, 9 if kind == 2 else 99, 0, kind])
        elif r < 0.94:
            ops.append([12, 0, 0, 0])
        elif r < 0.97:
            ops.append([13, rnd.choice([0, 1]), 0, 0])
        elif r < 0.99 or second:
            depth = rnd.choice([2, 3])
            ops.append([15, depth, rnd.randrange(3 ** (depth + 1)), rnd.choice([0, 1])])
        else:
            # the run ends here; a second Context is built in the same process and the history goes on
            second = True
            for _ in range(len(layers) - 1):
                ops.append([2, 0, 0, 0])
            layers = [1]
            ops.append([14, 0, 0, 0])
            ops.append([16, 0, 0, 0])
    for _ in range(len(layers) - 1):
        ops.append([2, 0, 0, 0])
    ops.append([14, 0, 0, 0])
    return ops


# ---------------------------------------------------------------- judging
class Verdicts(object):
    """Collects the judge's verdicts; per signature only the KEEP shortest histories are kept in full."""
    KEEP = 40

    def __init__(self):
        self.best = {}          # sig -> list of (len(ops), serial, clause, text, ops)
        self.count = {}
        self.serial = 0
        self.diverging = 0

    def add(self, clause, sig, text, ops):
        self.serial += 1
        self.count[sig] = self.count.get(sig, 0) + 1
        lst = self.best.setdefault(sig, [])
        lst.append((len(ops), self.serial, clause, text, ops))
        if len(lst) > 4 * self.KEEP:
            lst.sort()
            del lst[self.KEEP:]

    def flush(self, chk):
        for sig in sorted(self.best):
            for _, _, clause, text, ops in sorted(self.best[sig])[:self.KEEP]:
                chk.violation(clause, sig, text, {"ops": ops})
        chk.extra["verdicts_by_signature"] = dict(self.count)
        chk.divergences = self.diverging


def judge(chk, rows, origin, out):
    """rows: list of {"id", "ops", "obs"}, origin: id -> part name; verdicts go into `out` (Verdicts)."""
    if not rows:
        return
    r0 = len(chk.tlc_runs)
    verdicts = trace.judge_rows(chk, "Context_Trace", rows, chunks=CHUNKS, min_chunk=400)
    byid = {row["id"]: row for row in rows}
    found = []
    for rid, vs in verdicts.items():
        for v in vs:
            found.append((rid, v))
    # the judge counts the verdicts it printed: a verdict line that was not parsed is a machinery failure
    printed = sum(t[1] for _, _, res in chk.tlc_runs[r0:] for t in res.by_tag("NVERDICTS"))
    if printed != len(found):
        raise TlcError("Context_Trace printed %d verdicts, %d were parsed" % (printed, len(found)))
    for rid, v in found:
        clause, step, opcode, detail = "C13." + v[2], v[3], v[4], v[5]
        row = byid[rid]
        sig = "%s|%s:%s" % (clause, OPNAME[opcode] if 0 < opcode < len(OPNAME) else "row", detail)
        text = "history [%s] step %d: observed %s (%s)" % (
            pretty(row["ops"], step), step, json.dumps(show_obs(row["obs"][step - 1]) if 0 < step <= len(row["obs"]) else {},
                                                       sort_keys=True), origin.get(rid, ""))
        out.add(clause, sig, text, row["ops"])
    diverging = set()
    for _, _, res in chk.tlc_runs[r0:]:
        for t in res.by_tag("DIVERGE"):
            diverging.add(t[1])
        res.tuples = []          # free memory
    out.diverging += len(diverging)


class Session(object):
    """Replays histories in batches, hands every batch to the judge, keeps only counters."""
    BATCH = 60000

    def __init__(self, chk):
        self.chk = chk
        self.world = World()
        self.out = Verdicts()
        self.rows = []
        self.origin = {}
        self.nrows = 0
        self.nsteps = 0
        self.by_op = {}
        self.mismatching = 0
        self.samples = []
        self.sink = io.StringIO()

    def feed(self, origin, ops, predicted=None):
        self.origin[self.nrows + 1] = origin
        stdout = sys.stdout
        sys.stdout = self.sink          # Context.print_cleanup_error writes to sys.stdout
        try:
            obs = replay_history(self.world, ops)
        finally:
            sys.stdout = stdout
            self.sink.seek(0)
            self.sink.truncate()
        if predicted is not None and predicted != obs:
            self.mismatching += 1
        self.nrows += 1
        self.nsteps += len(ops)
        for op in ops:
            name = OPNAME[op[0]]
            self.by_op[name] = self.by_op.get(name, 0) + 1
        if self.nrows in (1, 5000, 20000):
            self.samples.append({"history": pretty(ops), "last_observation": show_obs(obs[-1])})
        self.rows.append({"id": self.nrows, "ops": ops, "obs": obs})
        if len(self.rows) >= self.BATCH:
            self.drain()

    def drain(self):
        if self.rows:
            judge(self.chk, self.rows, self.origin, self.out)
            self.rows = []
            self.origin = {}


def run(chk):
    t_start = time.time()
    ses = Session(chk)
    rnd = random.Random(chk.seed)
    seen = set()
    stats = {}
    runs = [(cfg, {}) for cfg in PARTS[chk.tier]]
    if not chk.quick():
        runs.append((SIM_CFG, {"simulate": SIM_TRACES, "depth": 70}))
    def model_check(run):
        cfg, kw = run
        # -simulate with ONE worker: the behaviours are then a function of the seed (R5)
        return chk.tlc("Context_MC", cfg, timeout=2400, workers=1 if kw else (4 if chk.quick() else WORKERS),
                       coverage=False, heap="2g" if chk.quick() else "8g", **kw)
    if chk.quick():
        # the quick parts are small (JVM start dominates): all TLC runs at once, four workers each
        with ThreadPoolExecutor(max_workers=len(runs)) as ex:
            results = list(ex.map(model_check, runs))
    else:
        results = None
    for k, (cfg, kw) in enumerate(runs):
        r = results[k] if results is not None else model_check((cfg, kw))
        for name in r.violated:
            chk.violation("C13.design." + name, "design:%s" % name,
                          "TLC: invariant %s violated in Context_MC (%s)" % (name, cfg))
        cases = r.by_tag("CASE")
        r.tuples = []
        n = 0
        for t in cases:
            case = json.loads(t[1])
            k = t[1][:t[1].index('"obs"')] if '"obs"' in t[1] else t[1]
            if k in seen:
                continue
            if not kw:
                seen.add(k)
            n += 1
            ses.feed(cfg, case["ops"], case["obs"])
        del cases
        stats[cfg] = n
        seen.clear()            # the parts have different alphabets; duplicates across parts are rare and harmless
    chk.exhaustive = True
    # ---- seeded random histories generated here (the prediction is computed by the judge)
    nrand = 1000 if chk.quick() else 20000
    for _ in range(nrand):
        ses.feed("random", random_history(rnd, rnd.randint(5, 60)))
    stats["random"] = nrand
    ses.drain()
    ses.out.flush(chk)
    chk.impl_traces = ses.nrows
    chk.evaluations = ses.nsteps
    chk.extra["distinct_nontrivial"] = ses.nrows
    chk.extra["histories_by_part"] = stats
    chk.extra["operations_by_kind"] = ses.by_op
    chk.extra["emitted_prediction_mismatches"] = ses.mismatching
    chk.extra["stale_cleanup_calls"] = ses.world.stale_calls
    if ses.world.stale_calls:
        chk.note("C13: %d calls of cleanup functions whose history (and Context) had already ended -- state shared "
                 "between Context objects (judged by the two-Context histories)" % ses.world.stale_calls)
    chk.extra["api_part_wall_s"] = round(time.time() - t_start, 1)
    for s in ses.samples:
        chk.sample(s)
    chk.rule = ("every history = prelude (0..3 nested scopes) + all operation sequences up to the length bound of each "
                "alphabet part (cfg files) + closing pops/end of run; plus TLC -simulate behaviours (thorough) and seeded "
                "random histories of length <= 60; after EVERY operation `in`/getattr for 5 names, exception type, "
                "warnings, executed cleanups are recorded; distinct = distinct operation sequences; divergences = "
                "histories where the implementation model's prediction differs from the observation")
    chk.assumptions = [
        "cleanup callables raise subclasses of Exception only (BaseException aborts _do_cleanups by design)",
        "no user-installed context.on_cleanup_error handler; fail_on_cleanup_errors keeps its default",
        "scopes nest as model.py nests them (testrun > feature > [rule] > scenario > one unnamed layer)",
        "the sentence 'a raising cleanup makes the owning element and the run fail' is judged by the run part",
    ]
    # ---- RUN PART OF C13 (lead): real runs judged on the run-engine spec --------------------------------
    try:
        from props import c13_run           # noqa: F401  pylint: disable=import-outside-toplevel
    except ImportError:
        c13_run = None
    if c13_run is not None and not os.environ.get("VERIF_C13_API_ONLY"):
        c13_run.run_part(chk)
    # -----------------------------------------------------------------------------------------------------


WORKERS = 8         # TLC workers of the model-checking runs (registered checks may use 16)
CHUNKS = 8          # parallel judge processes (one TLC worker each)
SIM_TRACES = 600


def replay(chk, payload):
    if not (isinstance(payload.get("replay"), dict) and "ops" in payload["replay"]):
        # ---- a replay file written by the RUN PART (lead): hand it to its own replay
        from props import c13_run           # pylint: disable=import-outside-toplevel
        return c13_run.replay_part(chk, payload)
    ses = Session(chk)
    ops = payload["replay"]["ops"]
    ses.feed("replay", ops)
    ses.drain()
    ses.out.flush(chk)
    chk.impl_traces = 1
    chk.sample({"replayed": pretty(ops)})
