INIT Init
NEXT NextSim
CONSTANTS
  MaxRules = 2
  MaxScen = 3
  MaxEx = 2
  MaxSteps = 3
  MaxStmts = 8
  MaxStepsTot = 14
  MaxLines = 95
  MaxElems = 40
  LayoutsF = {"none", "one", "two", "cmt", "multi"}
  Layouts = {"none", "one", "two", "cmt", "multi"}
  Hows = {"none", "blank", "comment", "both"}
  Descs = {0, 1}
  StepKws <- AllKws
  Args <- ArgsFull
  ExVariants = {"none", "2x2", "1x3", "2x3"}
  Gaps = {"none", "blank", "comment"}
INVARIANT Faithful
INVARIANT Neutral
INVARIANT Emit
