"""C16 plug-in of run/reports.py: what the JUnit report files say after a run with --junit.

project(env) -> {"files": [per feature of the program, in program order], "stray": [names of other files], "ran": ran_objects,
                 "names": per element the name of that scenario in the parsed model ("" = no scenario)}
  one entry per feature:  {"f": feature index, "el": abstract id of the feature, "exists": a TESTS-<file stem>.xml is there (or,
     failing that, another TESTS-*.xml whose <testsuite name> ends in this feature's name: "by" = filename / suite_name),
     "wellformed": the independent parser (xml.dom.minidom = expat) accepted it, "parse_error": its message,
     "root": tag of the document element, "suites": number of <testsuite> elements,
     "tests" / "failures" / "errors" / "skipped": the counter attributes of <testsuite> as ints (-1 = absent or no int),
     "attrs": the attribute names of <testsuite> (sorted),
     "cases": the <testcase> elements in document order, each
         {"el": abstract id of the scenario the `name` attribute stands for: the first not yet used scenario (outline rows
                included) of this feature's PARSED MODEL that carries this name, identified by its location (file, line ->
                element id through Rendered.by_loc) -- not by the generated row index, which shifts when an outline has
                Examples tables without rows; 0 = no scenario of this feature has that name; "name", "status" (attribute),
          "entries": the child elements in document order, each {"kind": tag (failure / error / skipped / system-out /
                system-err / ...), "type", "message" (first 120 characters), "steps": the step positions of that
                scenario whose step text (`fbg k` / `rbg k` / `own k`) occurs in message or text, "hook": "HOOK-ERROR"
                occurs in message or text, "hooks": the hook names after "HOOK-ERROR in "}}}
Python only parses and maps names; what had to be in the documents is decided by specs/JUnit_Trace.tla from the
recorded final statuses.  Nothing is dropped: unknown names, unknown child elements, files that do not parse are kept
as such.  (If the reporter made the run die this shows in row["end"]["escaped"]; the file of that feature is missing.)"""
import os
import re
from xml.dom import minidom

_STEP = re.compile(r"\b(fbg|rbg|own) (\d+)\b")
_HOOK = re.compile(r"HOOK-ERROR in (\w+)")
_SCEN = re.compile(r"^S(\d+)$")
_ROW = re.compile(r"^O(\d+) -- @(\d+)\.(\d+)\b")
COUNTERS = ("tests", "failures", "errors", "skipped")


def outline_blocks(prog):
    """{outline id: [number of rows per Examples block]} -- ids as assigned by gen.flatten (document order)"""
    out = {}
    n = [0]

    def items(lst):
        for it in lst:
            n[0] += 1
            if it["kind"] == "rule":
                items(it["items"])
            elif it["kind"] == "outline":
                out[n[0]] = [len(b["rows"]) for b in it["blocks"]]
                n[0] += sum(out[n[0]])
    for f in prog["features"]:
        n[0] += 1
        items(f["items"])
    return out


def name_to_el(name, flat, blocks):
    """scenario id named by a testcase name; 0 if it names none"""
    elems = flat["elems"]
    m = _SCEN.match(name or "")
    if m:
        i = int(m.group(1))
        if 1 <= i <= len(elems) and elems[i - 1]["kind"] == "scenario":
            return i
        return 0
    m = _ROW.match(name or "")
    if m:
        o, b, r = int(m.group(1)), int(m.group(2)), int(m.group(3))
        sizes = blocks.get(o)
        if not sizes or not (1 <= o <= len(elems)) or elems[o - 1]["kind"] != "outline":
            return 0
        if not (1 <= b <= len(sizes)) or not (1 <= r <= sizes[b - 1]):
            return 0
        k = sum(sizes[:b - 1]) + r
        kids = elems[o - 1]["children"]
        return kids[k - 1] if k <= len(kids) else 0
    return 0


def _text_of(node):
    out = []
    for c in node.childNodes:
        if c.nodeType in (c.TEXT_NODE, c.CDATA_SECTION_NODE):
            out.append(c.data)
        elif c.nodeType == c.ELEMENT_NODE:
            out.append(_text_of(c))
    return "".join(out)


def _int(v):
    try:
        return int(v)
    except (TypeError, ValueError):
        return -1


def positions(text, steps):
    """positions (1-based) of the steps of a scenario whose step text occurs in `text`"""
    named = {(m.group(1), int(m.group(2))) for m in _STEP.finditer(text)}
    return [p + 1 for p, s in enumerate(steps) if (s["org"], s["k"]) in named]


def model_names(env):
    """per feature index: [(scenario name, abstract id)] of the real parsed model in document order (outline rows included);
    the id comes from the scenario's LOCATION (env.elid: file + line -> element), the name is what the parser / outline
    builder gave it -- public attributes, nothing of the reporter"""
    out = {}
    fidx = {fn: i for i, (fn, _t) in enumerate(env.rendered.files)}
    for f in env.feats or []:
        fi = fidx.get(os.path.basename(f.filename), -1)
        lst = []
        try:
            for sc in f.walk_scenarios():
                lst.append((sc.name, env.elid(sc)))
        except Exception:
            pass
        out[fi] = lst
    return out


RECORDER = "run.reports_c17:ScenStatusRecorder"       # tiny registered formatter that keeps the objects given to Formatter.scenario()
RECORDER_ARGS = ["-f", RECORDER, "-o", os.devnull]


def ran_objects(env):
    """final status / step statuses / hook_failed of the scenario OBJECTS THAT RAN (the ones the runner announced to the
    formatters during the run, read now), per element; "" / [] / False where none was announced.  A walk over the model
    after the run may hand out other objects (ScenarioOutline.scenarios can rebuild its rows)."""
    n = len(env.flat["elems"])
    out = {"recorded": False, "status": [""] * n, "steps": [[] for _ in range(n)], "hook_failed": [False] * n}
    if RECORDER not in ((env.case or {}).get("extra_args") or []):
        return out
    from . import reports_c17
    out["recorded"] = True
    for sc in list(reports_c17.SEEN):     # a retried scenario is announced twice: the same object, the later reading wins
        el = env.elid(sc)
        if el and env.flat["elems"][el - 1]["kind"] == "scenario":
            out["status"][el - 1] = sc.status.name
            out["steps"][el - 1] = [st.status.name for st in sc.all_steps]
            out["hook_failed"][el - 1] = bool(getattr(sc, "hook_failed", False))
    return out


def suite_name(path):
    """name attribute of the <testsuite> of a report file ("" if it cannot be read)"""
    try:
        root = minidom.parse(path).documentElement
        suites = [root] if root.tagName == "testsuite" else list(root.getElementsByTagName("testsuite"))
        return suites[0].getAttribute("name") if suites else ""
    except Exception:
        return ""


def read_report(path, flat, blocks, names=None):
    d = {"exists": os.path.exists(path), "wellformed": False, "parse_error": "", "root": "", "suites": 0,
         "tests": -1, "failures": -1, "errors": -1, "skipped": -1, "attrs": [], "cases": []}
    if not d["exists"]:
        return d
    try:
        dom = minidom.parse(path)
    except Exception as x:                  # expat error (or an unreadable file): recorded, judged by the XML part
        d["parse_error"] = "%s: %s" % (type(x).__name__, str(x)[:100])
        return d
    d["wellformed"] = True
    root = dom.documentElement
    d["root"] = root.tagName
    suites = [root] if root.tagName == "testsuite" else list(root.getElementsByTagName("testsuite"))
    d["suites"] = len(suites)
    if not suites:
        return d
    suite = suites[0]
    d["attrs"] = sorted(suite.attributes.keys())
    for c in COUNTERS:
        d[c] = _int(suite.getAttribute(c)) if suite.hasAttribute(c) else -1
    used = set()
    for tc in [n for n in suite.childNodes if n.nodeType == n.ELEMENT_NODE]:
        if tc.tagName != "testcase":
            d["cases"].append({"el": 0, "name": "<%s>" % tc.tagName, "status": "", "entries": []})
            continue
        name = tc.getAttribute("name")
        if names is not None:
            # the first not yet used scenario of this feature that carries the name (names are unique unless prog["dupnames"])
            el = 0
            for k, (nm, i) in enumerate(names):
                if nm == name and k not in used:
                    used.add(k)
                    el = i
                    break
        else:
            el = name_to_el(name, flat, blocks)
        steps = flat["elems"][el - 1]["steps"] if el else []
        entries = []
        for e in [n for n in tc.childNodes if n.nodeType == n.ELEMENT_NODE]:
            msg = e.getAttribute("message") if e.hasAttribute("message") else ""
            body = msg + "\n" + _text_of(e)
            problem = e.tagName in ("failure", "error")
            entries.append({"kind": e.tagName, "type": e.getAttribute("type") if e.hasAttribute("type") else "",
                            "message": msg[:120],
                            "steps": positions(body, steps) if problem else [],
                            "hook": problem and "HOOK-ERROR" in body,
                            "hooks": sorted(set(_HOOK.findall(body))) if problem else []})
        d["cases"].append({"el": el, "name": name[:60], "status": tc.getAttribute("status") if tc.hasAttribute("status") else "",
                           "entries": entries})
    return d


def project(env):
    flat = env.flat
    prog = env.case["prog"] if env.case else env.rendered.prog
    blocks = outline_blocks(prog)
    jdir = os.path.join(env.outdir, "junit")
    present = sorted(os.listdir(jdir)) if os.path.isdir(jdir) else []
    files, expected = [], set()
    names = model_names(env)
    fnames = {}
    fidx = {fn: i for i, (fn, _t) in enumerate(env.rendered.files)}
    for f in env.feats or []:
        fnames[fidx.get(os.path.basename(f.filename), -1)] = f.name
    for fi, fid in enumerate(flat["features"]):
        expected.add("TESTS-%s.xml" % os.path.splitext(env.rendered.files[fi][0])[0])
    # a document that does not carry the usual file name still counts for the feature its <testsuite name="...F<i>"> names
    stray = [n for n in present if n not in expected]
    claimed = {}
    for n in stray:
        last = suite_name(os.path.join(jdir, n)).rsplit(".", 1)[-1]
        for fi in range(len(flat["features"])):
            if last and fnames.get(fi) == last and fi not in claimed:
                claimed[fi] = n
                break
    for fi, fid in enumerate(flat["features"]):
        name = "TESTS-%s.xml" % os.path.splitext(env.rendered.files[fi][0])[0]
        by = "filename"
        if not os.path.exists(os.path.join(jdir, name)) and fi in claimed:
            name, by = claimed[fi], "suite_name"
        d = read_report(os.path.join(jdir, name), flat, blocks, names.get(fi))
        d["f"], d["el"], d["file"], d["by"] = fi, fid, name, by
        files.append(d)
    scen_names = [""] * len(flat["elems"])
    for lst in names.values():
        for nm, el in lst:
            if el:
                scen_names[el - 1] = nm
    return {"files": files, "stray": stray, "ran": ran_objects(env), "names": scen_names}
