"""Child-process runs through `python -m behave` (C01.exit_code): the same abstract case as drive.run_case, realised as a
project directory (features/, steps, environment.py) whose generated code records its events into a file."""
import json
import os
import shutil
import subprocess
import sys
import tempfile

from . import gen as G
from .render import Rendered
from vlib.core import REPO

CHILD = r'''
import json, os, sys, logging
HERE = os.path.dirname(os.path.abspath(__file__))
CASE = json.load(open(os.path.join(HERE, "case.json")))
ELEMS = CASE["flat"]["elems"]
BY_LOC = {tuple(k): v for k, v in CASE["by_loc"]}
FAULTS = [x for x in CASE["fault"] if x]
LOG = open(os.path.join(HERE, "events.ndjson"), "a")
N = [0]
CFG = CASE.get("cfg", {})
# continue_after_failed_step: class-wide default, or the per-scenario switch set by the before_scenario hook against the
# opposite default (same realisation as drive.run_case)
from behave.model import Scenario as _Scenario
_Scenario.continue_after_failed_step = bool(CFG.get("cont", False)) != bool(CFG.get("cont_by_hook"))

def rec(**kw):
    LOG.write(json.dumps(kw, sort_keys=True) + "\n"); LOG.flush()

def elid(x):
    return BY_LOC.get((os.path.basename(x.filename), x.line), 0)

def pos_of(sid, org, k):
    for i, s in enumerate(ELEMS[sid - 1]["steps"]):
        if s["org"] == org and s["k"] == k:
            return i + 1
    return 0

def realise(ctx, org, k):
    from behave.api.pending_step import StepNotImplementedError
    sc = ctx.scenario
    sid = elid(sc); pos = pos_of(sid, org, k)
    s = ELEMS[sid - 1]["steps"][pos - 1]
    o = s["o"]
    rec(k="step", el=sid, pos=pos, outcome=o)
    if s["cl_id"]:
        cid, raises = s["cl_id"], s["cl_raises"]
        def cfun(cid=cid, raises=raises):
            rec(k="cleanup", cid=cid, raised=raises)
            if raises and CASE.get("fault_kind") == "kbd":
                raise KeyboardInterrupt()
            if raises:
                raise RuntimeError("cleanup%d" % cid)
        if s["cl_layer"]:
            ctx.add_cleanup(cfun, layer=s["cl_layer"])
        else:
            ctx.add_cleanup(cfun)
    if o.startswith("nest_"):
        x = {"nest_pass": "pass", "nest_fail": "fail", "nest_error": "error", "nest_pending": "pending"}.get(o, "undef")
        ctx.execute_steps((u"Given nosub %s %d %d" if x == "undef" else u"Given sub %s %d %d") % (x, sid, pos))
        return
    if o == "skip_fail":
        sc.skip("S")
        assert False, "M"
    if o == "fail": assert False, "M"
    if o == "error": raise RuntimeError("X")
    if o == "pending": raise StepNotImplementedError("P")
    if o == "abort": ctx.abort(reason="step asks to abort the run")
    if o == "kbd": raise KeyboardInterrupt()
    if o == "skip": sc.skip("S")

def sub(ctx, x, sid, pos):
    from behave.api.pending_step import StepNotImplementedError
    rec(k="sub", el=sid, pos=pos, outcome=x)
    if x == "fail": assert False, "sub"
    if x == "error": raise RuntimeError("sub")
    if x == "pending": raise StepNotImplementedError("sub")

def hook(nm, ctx, *a):
    N[0] += 1
    el, tag, pos = 0, "", 0
    if nm in ("before_tag", "after_tag"):
        tag = str(a[0])
        own = None
        for x in ("scenario", "rule", "feature"):
            if x in ctx and getattr(ctx, x) is not None:
                own = getattr(ctx, x); break
        el = elid(own) if own is not None else 0
    elif nm.endswith("_step"):
        el = elid(ctx.scenario)
        import re
        m = re.search(r"(fbg|rbg|own) (\d+)$", a[0].name)
        pos = pos_of(el, m.group(1), int(m.group(2))) if m else 0
    elif a:
        el = elid(a[0])
    raised = N[0] in FAULTS
    rec(k="hook", name=nm, el=el, tag=tag, pos=pos, raised=raised)
    if nm == "before_scenario" and CFG.get("cont_by_hook"):
        a[0].continue_after_failed_step = bool(CFG.get("cont", False))
    if CASE.get("hookcl") and nm in ("before_all", "after_all", "before_feature", "before_rule", "before_scenario", "after_scenario"):
        # the hook registers a cleanup of its own in the current scope
        def hook_cleanup(cid=500 + N[0]):
            rec(k="cleanup", cid=cid, raised=False)
        ctx.add_cleanup(hook_cleanup)
    for sk in CASE.get("skips", []):
        if sk[0] == nm and sk[1] == el:
            tgt = sk[2] if len(sk) > 2 else el
            if tgt == el:
                a[0].skip("excluded by hook")
            else:
                (ctx.feature if ELEMS[tgt - 1]["kind"] == "feature" else ctx.rule).skip("rest skipped by hook")
    if raised:
        if CASE.get("fault_kind") == "assert":
            raise AssertionError("hookfault")
        if CASE.get("fault_kind") == "kbd":
            raise KeyboardInterrupt()          # the user interrupts the run while a hook is running
        raise RuntimeError("hookfault")
'''

ENV = '''
import sys, os
sys.path.insert(0, os.path.dirname(os.path.dirname(os.path.abspath(__file__))))
import verif_child as V
def before_all(ctx): V.hook("before_all", ctx)
def after_all(ctx): V.hook("after_all", ctx)
def before_feature(ctx, x): V.hook("before_feature", ctx, x)
def after_feature(ctx, x): V.hook("after_feature", ctx, x)
def before_rule(ctx, x): V.hook("before_rule", ctx, x)
def after_rule(ctx, x): V.hook("after_rule", ctx, x)
def before_scenario(ctx, x): V.hook("before_scenario", ctx, x)
def after_scenario(ctx, x): V.hook("after_scenario", ctx, x)
def before_step(ctx, x): V.hook("before_step", ctx, x)
def after_step(ctx, x): V.hook("after_step", ctx, x)
def before_tag(ctx, t): V.hook("before_tag", ctx, t)
def after_tag(ctx, t): V.hook("after_tag", ctx, t)
'''

STEPS = '''
import sys, os
sys.path.insert(0, os.path.dirname(os.path.dirname(os.path.dirname(os.path.abspath(__file__)))))
import verif_child as V
from behave import step, register_type
import parse

@parse.with_pattern(r"\\d+")
def conv_bad(text):
    raise ValueError("bad argument")
register_type(Bad=conv_bad)

if V.CASE.get("typed"):
    # one function per step type under the same pattern
    from behave import given, when, then
    for _deco in (given, when, then):
        def _typed_step(ctx, org, k):
            V.realise(ctx, org, k)
        _deco("{org:w} {k:d}")(_typed_step)
else:
    @step("{org:w} {k:d}")
    def any_step(ctx, org, k):
        V.realise(ctx, org, k)

@step("sub {x:w} {sid:d} {pos:d}")
def sub_step(ctx, x, sid, pos):
    V.sub(ctx, x, sid, pos)

@step("bad {org:w} {k:Bad}")
def bad_step(ctx, org, k):
    raise AssertionError("must not be reached")
'''


def run_cli(case, timeout=900):
    """-> dict(exit, events) of one `python -m behave` child run of the case"""
    prog, flat, cfg = case["prog"], case["flat"], case["cfg"]
    R = Rendered(prog, flat)
    d = tempfile.mkdtemp(prefix="verif-cli-")
    try:
        os.makedirs(os.path.join(d, "features", "steps"))
        for fn, text in R.files:
            with open(os.path.join(d, "features", fn), "w") as fh:
                fh.write(text)
        by_loc = [[["f%d.feature" % fi, line], el] for (fi, line), el in R.by_loc.items()]
        with open(os.path.join(d, "case.json"), "w") as fh:
            json.dump({"flat": flat, "by_loc": by_loc, "fault": case.get("fault", [0, 0]), "fault_kind": case.get("fault_kind", "exc"), "typed": bool(prog.get("typed")), "hookcl": bool(prog.get("hookcl")), "cfg": {"cont": bool(cfg.get("cont")), "cont_by_hook": bool(cfg.get("cont_by_hook"))},
                       "skips": [list(x) for x in (prog.get("skips") or [])]}, fh)
        with open(os.path.join(d, "verif_child.py"), "w") as fh:
            fh.write(CHILD)
        with open(os.path.join(d, "features", "environment.py"), "w") as fh:
            fh.write(ENV)
        with open(os.path.join(d, "features", "steps", "s.py"), "w") as fh:
            fh.write(STEPS)
        args = [sys.executable, "-m", "behave", "--no-color", "-f", "progress", "--no-summary"]
        if cfg["stop"]:
            args.append("--stop")
        if cfg["dry"]:
            args.append("--dry-run")
        args.append("--show-skipped" if cfg["show_skipped"] else "--no-skipped")
        ex = G.EXPRS[cfg["expr"]]
        if ex["text"]:
            args.append("--tags=%s" % ex["text"])
            args += ["--tags=%s" % t for t in ex.get("more", [])]
        if cfg.get("wip"):
            args.append("--wip")
        if cfg.get("loglevel"):
            args.append("--logging-level=%s" % cfg["loglevel"])
        if cfg.get("logfilter"):
            args.append("--logging-filter=%s" % cfg["logfilter"])
        if cfg.get("logclear"):
            args.append("--logging-clear-handlers")
        if cfg.get("names") is not None:
            # --name: one anchored pattern per selected scenario (names from a parse of the rendered texts)
            import re
            from behave.parser import parse_feature
            name_of = {}
            for fi, (fn, text) in enumerate(R.files):
                for sc in parse_feature(text, filename=fn).walk_scenarios(with_outlines=False):
                    name_of[R.by_loc.get((fi, sc.line), 0)] = sc.name
            for sid in cfg["names"]:
                args += ["--name", "^%s$" % re.escape(name_of[sid])]
            if not cfg["names"]:
                args += ["--name", "^no such scenario$"]
        args += [os.path.join("features", fn) for fn, _t in R.files]
        env = dict(os.environ)
        env["PYTHONPATH"] = REPO + os.pathsep + env.get("PYTHONPATH", "")
        env["HOME"] = d
        p = subprocess.run(args, cwd=d, env=env, stdout=subprocess.PIPE, stderr=subprocess.PIPE, timeout=timeout)
        events = []
        ep = os.path.join(d, "events.ndjson")
        if os.path.exists(ep):
            with open(ep) as fh:
                events = [json.loads(l) for l in fh if l.strip()]
        return {"exit": p.returncode, "events": events, "stderr_tail": p.stderr.decode("utf-8", "replace")[-400:]}
    finally:
        shutil.rmtree(d, ignore_errors=True)
