---------------------------- MODULE Config_Trace ----------------------------
(* Judge of C20 on rows recorded from the real behave code.                 *)
(* One state per row; a violated clause is printed as                       *)
(* <<"VERDICT", row id, clause>>.  The pseudo clause "~div" marks a row on  *)
(* which the observation differs from what the model of the code predicts   *)
(* (informational, counted as divergence, never a violation).               *)
(*                                                                          *)
(* row kinds                                                                *)
(*  layer   okind, files, cmd, mfiles, mcmd, hasmode, mobs, islist, vals,   *)
(*          obs, exc : one option in one Configuration() construction       *)
(*          (okind "userdata": one user data name)                          *)
(*  relpath cwd, d, p, o, exc : a path p named in a file with dirname d,    *)
(*          stored as o by a process with working directory cwd             *)
(*  couple  cwd, d, nf, named, autos, obs, exc : outfiles of a file with nf *)
(*          formats                                                         *)
(*  define  text, name, value, exc : parse_user_define / -D                 *)
(*  getter  g, present, text, res, ty, neg, mag, repr : typed getters       *)
(*  gseq    text, present, calls, outs : several getter calls on ONE object *)
EXTENDS Config, TLC, Json, IOUtils
Rows == ndJsonDeserialize(IOEnv.TRACE_FILE)

VARIABLE i
Init == i = 1
R == Rows[i]

\* ---------------------------------------------------------------- layer
LayerClauses(r) ==
   LET model == LayerRun(LayerInit(r.okind, r.files, r.cmd, r.mfiles, r.mcmd, r.hasmode))
       pred  == Concrete(r.vals, model.store)
       want  == Concrete(r.vals, Resolve(r.files, r.cmd))
       cands == {Concrete(r.vals, c) : c \in FileCandidates(r.files)}
       ud    == r.okind \in {"userdata", "udupdate"}
       div   == IF r.exc # "" \/ r.obs # pred THEN {"~div"} ELSE {}
       prop  ==
          IF r.hasmode /\ r.mobs THEN {}                  \* a mode switch documented to force this option is on
          ELSE IF r.cmd # "absent" THEN
               IF r.exc # "" THEN {IF ud THEN "C20.userdata_override" ELSE "C20.cmdline_wins"}
               ELSE IF r.okind \in AppendKinds THEN       \* merging is not judged, the order of the file's items is
                    (IF \A c \in cands : OrderKept(c, r.obs) THEN {} ELSE {"C20.list_order"})
               ELSE IF r.obs = want THEN {}
               ELSE {IF ud THEN "C20.userdata_override" ELSE "C20.cmdline_wins"}
          ELSE IF Assigned(r.files) # {} THEN
               IF ud /\ Len(r.files) > 1 THEN {}          \* several files carrying user data: not stated
               ELSE IF r.exc = "" /\ r.obs \in cands THEN {}
               ELSE IF ud THEN {"C20.userdata_override"}
               ELSE IF r.exc = "" /\ r.islist /\ \E c \in cands : IsPerm(c, r.obs) THEN {"C20.list_order"}
               ELSE {"C20.file_wins"}
          \* mentioned nowhere in THIS construction (whatever earlier constructions of the process have read):
          \* the built-in default; for a user data name: not defined
          ELSE IF r.exc # "" \/ r.obs # r.vals.d THEN {"C20.default_kept"} ELSE {}
   IN prop \cup div

\* ---------------------------------------------------------------- paths
Cwd(r) == [abs |-> TRUE, segs |-> r.cwd]
RelpathClauses(r) ==
   (IF r.exc # "" \/ Lands(Cwd(r), r.o) # Required(Cwd(r), r.d, r.p) THEN {"C20.relative_paths"} ELSE {})
   \cup (IF r.exc # "" \/ PNorm(r.o) # FilePath(r.d, r.p) THEN {"~div"} ELSE {})
CoupleClauses(r) ==
   LET m    == IF Len(r.named) < Len(r.obs) THEN Len(r.named) ELSE Len(r.obs)
       req  == [k \in 1..m |-> Required(Cwd(r), r.d, r.named[k])]
       got  == [k \in 1..m |-> Lands(Cwd(r), r.obs[k])]
       plan == Couple(r.nf, Len(r.named))
       pred == [k \in DOMAIN plan |-> FilePath(r.d, IF plan[k].auto THEN r.autos[k] ELSE r.named[k])]
   IN (IF r.exc # "" THEN {"C20.relative_paths"}
       ELSE IF got = req THEN {}
       ELSE IF IsPerm(got, req) THEN {"C20.list_order"} ELSE {"C20.relative_paths"})
      \cup (IF r.exc # "" \/ [k \in DOMAIN r.obs |-> PNorm(r.obs[k])] # pred THEN {"~div"} ELSE {})

\* ---------------------------------------------------------------- defines
DefineClauses(r) ==
   LET d == Doc(r.text)
       p == ParseDefine(r.text)
   IN (IF d.wf /\ (r.exc # "" \/ r.name # d.name \/ r.value # d.value) THEN {"C20.define_parse"} ELSE {})
      \cup (IF r.exc # "" \/ r.name # p.name \/ r.value # p.value THEN {"~div"} ELSE {})

\* ---------------------------------------------------------------- getters
\* one call: the converted value of the ORIGINAL text, the given default for a missing name, or ValueError
OneGetter(g, present, text, o) ==
   IF ~present THEN o.res = "default"
   ELSE LET w == Outcome(g, text) IN
        IF w.ok THEN o.res = "value" /\ o.ty = w.ty /\ o.neg = w.neg /\ o.mag = w.mag /\ o.repr = w.repr
        ELSE o.res = "valueerror"
GetterClauses(r) == IF OneGetter(r.g, r.present, r.text, r) THEN {} ELSE {"C20.getter"}
\* a sequence of calls on one object (row: text, present, calls, outs): every call as on the original text
GseqClauses(r) == IF \A k \in DOMAIN r.calls : OneGetter(r.calls[k], r.present, r.text, r.outs[k]) THEN {} ELSE {"C20.getter"}

Clauses(r) == CASE r.kind = "layer"   -> LayerClauses(r)
                [] r.kind = "relpath" -> RelpathClauses(r)
                [] r.kind = "couple"  -> CoupleClauses(r)
                [] r.kind = "define"  -> DefineClauses(r)
                [] r.kind = "getter"  -> GetterClauses(r)
                [] r.kind = "gseq"    -> GseqClauses(r)

Next == /\ i <= Len(Rows)
        /\ \A c \in Clauses(R) : PrintT(<<"VERDICT", R.id, c>>)
        /\ i' = i + 1
Spec == Init /\ [][Next]_i
Done == PrintT(<<"DONE", Len(Rows), TLCGet("stats").diameter>>)
=============================================================================
