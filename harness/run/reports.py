"""Report projections of a finished run with all built-in report writers on.

drive.run_case(case, reports=True) runs behave with the formatters json, plain, progress2, progress3, rerun (each with
its own output file in `outdir`), --junit (outdir/junit) and --summary (real stdout), then calls project().
Every property owns one plug-in module run/reports_<name>.py with project(env) -> JSON-able dict; it is stored in the
row under row["reports"][<name>].  env attributes: outdir, real_out (text), real_err (text), rendered (Rendered: files,
by_loc, line_of), feats (the real model after the run), elid (model element -> abstract id, 0 if unknown),
config (the real Configuration), case (the abstract case), flat (flat program table)."""
import importlib
import traceback

PLUGINS = ["c14", "c15", "c16", "c17"]


class Env(object):
    pass


def project(outdir, real_out, R, feats, elid, config, case=None, real_err=""):
    env = Env()
    env.outdir, env.real_out, env.real_err = outdir, real_out, real_err
    env.rendered, env.feats, env.elid, env.config = R, feats, elid, config
    env.case = case
    env.flat = case["flat"] if case else R.flat
    out = {}
    wanted = (case or {}).get("plugins") or PLUGINS
    for name in wanted:
        try:
            mod = importlib.import_module("run.reports_%s" % name)
        except ImportError:
            continue
        try:
            out[name] = mod.project(env)
        except Exception:       # a projection bug is a machinery failure of that check, recorded not raised
            out[name] = {"projection_error": traceback.format_exc()}
    return out
