INIT Init
NEXT Next
CONSTANTS
  MaxOwn = 2
  MaxScen = 2
  OtherModes = {"after"}
  EmitMod = 19
INVARIANT ClausesHold
INVARIANT RepairedHolds
INVARIANT KFNarrow
INVARIANT Emit
