---------------------------- MODULE StepRegistry ----------------------------
(***************************************************************************)
(* Step matching and dispatch of behave (C11).                             *)
(*                                                                         *)
(* Abstract patterns are sequences of  Lit(word) | Fld(kind, name)  with   *)
(* kind in {any, int, word, float, custom, falsy, many, optional, many0};  *)
(* step texts are sequences of tokens (words); words are sequences of      *)
(* one-character strings (TLC strings are atomic).  Match is the anchored, *)
(* case sensitive, leftmost-shortest assignment of token spans to the      *)
(* fields (exactly the backtracking order of the regular expressions that  *)
(* the parse, cfparse, re and re0 matchers end up with: untyped fields are *)
(* lazy and span >= 1 whole tokens, typed fields take exactly one token of *)
(* their class, an optional / many0 field -- the cfparse cardinalities     *)
(* "zero or one" and "zero or more" -- greedily takes one token or none).  *)
(* "falsy" is a custom type whose converter yields None, 0, '', False and  *)
(* [] : the step function must receive exactly the converter's result,     *)
(* also when it is not truthy; likewise None / [] of an absent cardinality *)
(* field.                                                                  *)
(*                                                                         *)
(* The registry is a state machine over                                    *)
(*   st = [steps : type -> list of entries, current, default matcher]      *)
(* with the actions Register, UseMatcher, SetDefault, ModuleEnd (state     *)
(* changing) and Lookup (read only), written as operators on st so that    *)
(* StepRegistry_MC composes them into a state space and StepRegistry_Trace *)
(* re-runs them over what the real StepRegistry / StepMatcherFactory did.  *)
(*                                                                         *)
(* Render gives the concrete pattern text of an abstract pattern for a     *)
(* matcher kind: the ambiguity rule of the code matches an existing        *)
(* definition against the *text of the new pattern*, so that text is part  *)
(* of the model.                                                           *)
(***************************************************************************)
EXTENDS Integers, Sequences, FiniteSets

\* ---------------------------------------------------------------- characters
Lows   == <<"a","b","c","d","e","f","g","h","i","j","k","l","m","n","o","p","q","r","s","t","u","v","w","x","y","z">>
Ups    == <<"A","B","C","D","E","F","G","H","I","J","K","L","M","N","O","P","Q","R","S","T","U","V","W","X","Y","Z">>
DigitS == <<"0","1","2","3","4","5","6","7","8","9">>
LowSet == {Lows[k] : k \in 1..26}
UpSet  == {Ups[k] : k \in 1..26}
Digits == {DigitS[k] : k \in 1..10}
WordChars == LowSet \cup UpSet \cup Digits \cup {"_"}
LowerMap == [c \in UpSet |-> Lows[CHOOSE k \in 1..26 : Ups[k] = c]]
UpperMap == [c \in LowSet |-> Ups[CHOOSE k \in 1..26 : Lows[k] = c]]
DigitMap == [c \in Digits |-> (CHOOSE k \in 1..10 : DigitS[k] = c) - 1]
Lower(c) == IF c \in UpSet THEN LowerMap[c] ELSE c
Upper(c) == IF c \in LowSet THEN UpperMap[c] ELSE c
LowerS(s) == [k \in DOMAIN s |-> Lower(s[k])]
UpperS(s) == [k \in DOMAIN s |-> Upper(s[k])]
Cap(s)    == IF s = <<>> THEN s ELSE <<Upper(s[1])>> \o Tail(s)

\* ---------------------------------------------------------------- sequences of characters
RECURSIVE SplitOn(_,_,_,_)
\* tokens of s separated by the character sep (cur = token under construction, acc = finished tokens)
SplitOn(s, sep, cur, acc) ==
   IF s = <<>> THEN Append(acc, cur)
   ELSE IF Head(s) = sep THEN SplitOn(Tail(s), sep, <<>>, Append(acc, cur))
   ELSE SplitOn(Tail(s), sep, Append(cur, Head(s)), acc)
Split(s)  == IF s = <<>> THEN <<>> ELSE SplitOn(s, " ", <<>>, <<>>)
RECURSIVE JoinWith(_,_)
JoinWith(toks, sep) == IF toks = <<>> THEN <<>>
                       ELSE IF Len(toks) = 1 THEN toks[1]
                       ELSE toks[1] \o sep \o JoinWith(Tail(toks), sep)
Join(toks) == JoinWith(toks, <<" ">>)
RECURSIVE Flat(_)
Flat(ss) == IF ss = <<>> THEN <<>> ELSE Head(ss) \o Flat(Tail(ss))

\* ---------------------------------------------------------------- token classes
Red   == <<"r","e","d">>
Green == <<"g","r","e","e","n">>
Blue  == <<"b","l","u","e">>
Colours == {Red, Green, Blue}
Pink  == <<"p","i","n","k">>        \* accepted only by the re-registered (second) converter of the type Colour
Unsigned(t) == IF t # <<>> /\ t[1] \in {"-", "+"} THEN Tail(t) ELSE t
AllDigits(s) == \A k \in DOMAIN s : s[k] \in Digits
IsIntTok(t)   == LET b == Unsigned(t) IN b # <<>> /\ AllDigits(b)
IsFloatTok(t) == LET b == Unsigned(t)
                     dots == {k \in DOMAIN b : b[k] = "."}
                 IN /\ Cardinality(dots) = 1
                    /\ LET d == CHOOSE k \in dots : TRUE
                       IN d < Len(b) /\ \A k \in DOMAIN b : k = d \/ b[k] \in Digits
IsWordTok(t)  == t # <<>> /\ \A k \in DOMAIN t : t[k] \in WordChars
IsManyTok(t)  == t # <<>> /\ LET parts == SplitOn(t, ",", <<>>, <<>>) IN \A k \in DOMAIN parts : parts[k] \in Colours
\* the custom type Falsy of the driver: none -> None, zero -> 0, blank -> '', no -> False, nil -> []
TNone  == <<"n","o","n","e">>
TZero  == <<"z","e","r","o">>
TBlank == <<"b","l","a","n","k">>
TNo    == <<"n","o">>
TNil   == <<"n","i","l">>
FalsyToks == {TNone, TZero, TBlank, TNo, TNil}
FieldKinds == {"any", "int", "word", "float", "custom", "falsy", "many", "optional", "many0"}
\* cardinality fields that may take nothing; their rendering owns the blank in front of them
FusedKinds == {"optional", "many0"}
InClass(kind, t) == CASE kind = "any"      -> t # <<>>
                      [] kind = "int"      -> IsIntTok(t)
                      [] kind = "word"     -> IsWordTok(t)
                      [] kind = "float"    -> IsFloatTok(t)
                      [] kind = "custom"   -> t \in Colours
                      [] kind = "custom2"  -> t \in Colours \cup {Pink}
                      [] kind = "optional" -> t \in Colours
                      [] kind = "many0"    -> t \in Colours
                      [] kind = "falsy"    -> t \in FalsyToks
                      [] kind = "many"     -> IsManyTok(t)
                      [] OTHER -> FALSE

\* ---------------------------------------------------------------- converters (what the declared type yields)
RECURSIVE Num(_,_)
Num(s, acc) == IF s = <<>> THEN acc ELSE Num(Tail(s), acc * 10 + DigitMap[Head(s)])
IntOf(t) == LET n == Num(Unsigned(t), 0) IN IF t[1] = "-" THEN 0 - n ELSE n          \* needs IsIntTok(t)
\* thousandths of a float token with at most three decimals (needs IsFloatTok(t))
MilliOf(t) == LET b == Unsigned(t)
                  d == CHOOSE k \in DOMAIN b : b[k] = "."
                  ip == SubSeq(b, 1, d - 1)
                  fp == SubSeq(b, d + 1, Len(b)) \o <<"0","0","0">>
                  m == Num(ip, 0) * 1000 + Num(SubSeq(fp, 1, 3), 0)
              IN IF t[1] = "-" THEN 0 - m ELSE m
\* values as uniformly shaped records: ty in {str, int, float, list, none, other}
VStr(s)   == [ty |-> "str",   s |-> s,    i |-> 0, l |-> <<>>]
VInt(n)   == [ty |-> "int",   s |-> <<>>, i |-> n, l |-> <<>>]
VFloat(m) == [ty |-> "float", s |-> <<>>, i |-> m, l |-> <<>>]
VList(l)  == [ty |-> "list",  s |-> <<>>, i |-> 0, l |-> l]
VNone     == [ty |-> "none",  s |-> <<>>, i |-> 0, l |-> <<>>]
VBool(b)  == [ty |-> "bool",  s |-> <<>>, i |-> IF b THEN 1 ELSE 0, l |-> <<>>]
FalsyVal(tok) == CASE tok = TNone -> VNone [] tok = TZero -> VInt(0) [] tok = TBlank -> VStr(<<>>)
                   [] tok = TNo -> VBool(FALSE) [] OTHER -> VList(<<>>)
ParseKinds == {"parse", "cfparse"}          \* matchers with type converters
RegexKinds == {"re", "re0"}                 \* no conversion: the value is the matched text
MatcherKinds == ParseKinds \cup RegexKinds
\* the registered custom types of the driver: Colour -> upper case text; Colour+ -> list of them;
\* SpColour? (blank + colour, the blank belongs to the field) -> upper case colour or None
\* tok: the token (class member) the field matched; orig: the reported original text
Conv(mk, fk, tok, orig) ==
   IF mk \in RegexKinds THEN VStr(orig)
   ELSE CASE fk = "int"      -> VInt(IntOf(tok))
          [] fk = "float"    -> VFloat(MilliOf(tok))
          [] fk = "custom"   -> VStr(UpperS(tok))
          [] fk = "custom2"  -> VStr(Cap(tok))
          [] fk = "optional" -> VStr(UpperS(tok))
          [] fk = "many0"    -> VList(<<UpperS(tok)>>)
          [] fk = "falsy"    -> FalsyVal(tok)
          [] fk = "many"     -> LET parts == SplitOn(tok, ",", <<>>, <<>>) IN VList([k \in DOMAIN parts |-> UpperS(parts[k])])
          [] OTHER           -> VStr(orig)

\* ---------------------------------------------------------------- abstract patterns
Lit(w)       == [k |-> "lit", w |-> w,    name |-> <<>>]
Fld(kind, n) == [k |-> kind,  w |-> <<>>, name |-> n]        \* n = <<>>: anonymous
IsField(e)   == e.k # "lit"
Fields(p)    == SelectSeq(p, IsField)
\* which matcher kinds can express the pattern (many/optional need cfparse cardinality fields or a regex;
\* the fused rendering of an optional field needs a predecessor)
Renderable(p, mk) == /\ p # <<>>
                     /\ p[1].k \notin FusedKinds
                     /\ mk = "parse" => \A i \in DOMAIN p : p[i].k \notin {"many", "optional", "many0"}

\* ---------------------------------------------------------------- concrete pattern texts
ColourAlt == <<"r","e","d","|","g","r","e","e","n","|","b","l","u","e">>
ManyRe    == <<"(","?",":","r","e","d","|","g","r","e","e","n","|","b","l","u","e",")","(","?",":",",","(","?",":","r","e","d","|","g","r","e","e","n","|","b","l","u","e",")",")","*">>
Group(name, body) == IF name = <<>> THEN <<"(">> \o body \o <<")">>
                     ELSE <<"(","?","P","<">> \o name \o <<">">> \o body \o <<")">>
ReBody(fk) == CASE fk = "any"    -> <<".","+","?">>
                [] fk = "int"    -> <<"[","-","+","]","?","\\","d","+">>
                [] fk = "word"   -> <<"\\","w","+">>
                [] fk = "float"  -> <<"[","-","+","]","?","\\","d","*","\\",".","\\","d","+">>
                [] fk = "custom" -> ColourAlt
                [] fk = "many"   -> ManyRe
                [] fk = "falsy"  -> <<"n","o","n","e","|","z","e","r","o","|","b","l","a","n","k","|","n","o","|","n","i","l">>
                [] OTHER         -> ColourAlt
ParseSpec(fk) == CASE fk = "any"    -> <<"}">>
                   [] fk = "int"    -> <<":","d","}">>
                   [] fk = "word"   -> <<":","w","}">>
                   [] fk = "float"  -> <<":","f","}">>
                   [] fk = "custom" -> <<":","C","o","l","o","u","r","}">>
                   [] fk = "custom2" -> <<":","C","o","l","o","u","r","}">>
                   [] fk = "many"   -> <<":","H","u","e","+","}">>
                   [] fk = "falsy"  -> <<":","F","a","l","s","y","}">>
                   [] fk = "many0"  -> <<":","S","p","C","o","l","o","u","r","*","}">>
                   [] OTHER         -> <<":","S","p","C","o","l","o","u","r","?","}">>
\* one element with its separator: a blank before every element but the first; an optional field swallows
\* its blank ("go{c:SpColour?} now", "go(?: (?P<c>red|green|blue))? now")
Piece(e, mk, first) ==
   LET sp == IF first THEN <<>> ELSE <<" ">> IN
   IF e.k = "lit" THEN sp \o e.w
   ELSE IF mk \in ParseKinds THEN (IF e.k \in FusedKinds THEN <<>> ELSE sp) \o <<"{">> \o e.name \o ParseSpec(e.k)
   ELSE IF e.k \in FusedKinds THEN <<"(","?",":"," ">> \o Group(e.name, ColourAlt) \o <<")","?">>
   ELSE sp \o Group(e.name, ReBody(e.k))
Render(p, mk) == LET body == Flat([i \in DOMAIN p |-> Piece(p[i], mk, i = 1)])
                 IN IF mk = "re0" THEN <<"^">> \o body \o <<"$">> ELSE body

\* ---------------------------------------------------------------- Match
\* spans: one [f, t] (token indices) per field in pattern order; an optional field that takes nothing has t = f - 1
Fail == [ok |-> FALSE, spans |-> <<>>]
Cons(sp, r) == IF r.ok THEN [ok |-> TRUE, spans |-> <<sp>> \o r.spans] ELSE Fail
RECURSIVE MatchFrom(_,_,_,_), AnyFrom(_,_,_,_,_)
MatchFrom(p, toks, i, j) ==
   IF i > Len(p) THEN [ok |-> j = Len(toks) + 1, spans |-> <<>>]
   ELSE LET e == p[i] IN
        IF e.k = "lit" THEN (IF j <= Len(toks) /\ toks[j] = e.w THEN MatchFrom(p, toks, i + 1, j + 1) ELSE Fail)
        ELSE IF e.k = "any" THEN AnyFrom(p, toks, i, j, j)
        ELSE IF e.k \in FusedKinds THEN
             LET with == IF j <= Len(toks) /\ InClass(e.k, toks[j])
                         THEN Cons([f |-> j, t |-> j], MatchFrom(p, toks, i + 1, j + 1)) ELSE Fail
             IN IF with.ok THEN with ELSE Cons([f |-> j, t |-> j - 1], MatchFrom(p, toks, i + 1, j))
        ELSE IF j <= Len(toks) /\ InClass(e.k, toks[j]) THEN Cons([f |-> j, t |-> j], MatchFrom(p, toks, i + 1, j + 1))
        ELSE Fail
AnyFrom(p, toks, i, j, k) ==
   IF k > Len(toks) THEN Fail
   ELSE LET r == MatchFrom(p, toks, i + 1, k + 1) IN
        IF r.ok THEN Cons([f |-> j, t |-> k], r) ELSE AnyFrom(p, toks, i, j, k + 1)
Match(p, toks) == MatchFrom(p, toks, 1, 1)
\* the same ignoring case (used only to name a wrong binding: C11.case)
LowerPat(p) == [i \in DOMAIN p |-> [p[i] EXCEPT !.w = LowerS(@)]]
MatchCI(p, toks) == Match(LowerPat(p), [j \in DOMAIN toks |-> LowerS(toks[j])])

\* ---------------------------------------------------------------- reported arguments
\* character offsets (0-based, end exclusive) of token j in Join(toks)
RECURSIVE TokStart(_,_)
TokStart(toks, j) == IF j <= 1 THEN 0 ELSE TokStart(toks, j - 1) + Len(toks[j - 1]) + 1
TokEnd(toks, j) == IF j < 1 THEN 0 ELSE TokStart(toks, j) + Len(toks[j])
NoChars == <<>>
Arg(start, end, hasorig, orig, name, val) ==
   [start |-> start, end |-> end, has_orig |-> hasorig, orig |-> orig, has_name |-> name # <<>>, name |-> name, val |-> val]
\* what the cardinality converter of cfparse yields for a field that took nothing: ? -> None, * -> []
AbsentVal(fk) == IF fk = "many0" THEN VList(<<>>) ELSE VNone
\* the Argument the matcher kind mk reports for field e with token span sp
ArgOf(e, mk, toks, sp) ==
   LET chars == Join(toks)
       absent == sp.t < sp.f
   IN IF e.k \in FusedKinds /\ absent THEN
           (IF mk \in RegexKinds THEN Arg(0 - 1, 0 - 1, FALSE, NoChars, e.name, VNone)     \* group did not participate
            ELSE Arg(TokEnd(toks, sp.f - 1), TokEnd(toks, sp.f - 1), TRUE, NoChars, e.name, AbsentVal(e.k)))
      ELSE LET s0 == TokStart(toks, sp.f)
               s  == IF e.k \in FusedKinds /\ mk \in ParseKinds THEN s0 - 1 ELSE s0         \* the blank belongs to SpColour
               en == TokEnd(toks, sp.t)
               orig == SubSeq(chars, s + 1, en)
               tok  == SubSeq(chars, s0 + 1, en)
           IN Arg(s, en, TRUE, orig, e.name, Conv(mk, e.k, tok, orig))
\* the regex matchers report the groups in pattern order; ParseMatcher.check_match collects the anonymous fields,
\* then the named ones, and sorts by start (stable: only zero-width arguments -- absent optional fields -- can tie)
RECURSIVE InsertByStart(_,_), SortByStart(_,_)
InsertByStart(a, s) == IF s = <<>> THEN <<a>>
                       ELSE IF a.start < Head(s).start THEN <<a>> \o s
                       ELSE <<Head(s)>> \o InsertByStart(a, Tail(s))
SortByStart(s, acc) == IF s = <<>> THEN acc ELSE SortByStart(Tail(s), InsertByStart(Head(s), acc))
IsNamedArg(a) == a.has_name
IsAnonArg(a)  == ~a.has_name
ArgsOf(p, mk, toks, spans) ==
   LET fs  == Fields(p)
       raw == [n \in DOMAIN fs |-> ArgOf(fs[n], mk, toks, spans[n])]
   IN IF mk \in RegexKinds THEN raw
      ELSE SortByStart(SelectSeq(raw, IsAnonArg) \o SelectSeq(raw, IsNamedArg), <<>>)

\* ---------------------------------------------------------------- the registry
Types == {"given", "when", "then", "step"}
\* tver: which converter the custom type Colour currently has (1: red|green|blue -> upper case;
\* 2, after the step modules re-registered the name: red|green|blue|pink -> capitalised)
InitReg == [steps |-> [t \in Types |-> <<>>], current |-> "parse", default |-> "parse", tver |-> 1]
\* SimplifiedRegexMatcher keeps "^pattern$" as its pattern attribute
Stored(mk, text) == IF mk = "re" THEN <<"^">> \o text \o <<"$">> ELSE text
\* func identifies the step function and with it its source location (one function per location)
\* a parse / cfparse definition compiles its pattern with the type converters registered at definition time:
\* a field of the type Colour defined after the re-registration is a field of the second converter for good
Resolve(p, mk, tver) == IF mk \in ParseKinds /\ tver = 2
                        THEN [n \in DOMAIN p |-> IF p[n].k = "custom" THEN [p[n] EXCEPT !.k = "custom2"] ELSE p[n]]
                        ELSE p
Entry(p0, mk, func, tver) ==
                      LET text == Render(p0, mk)
                          p == Resolve(p0, mk, tver) IN
                      [pat |-> p, kind |-> mk, text |-> text, stored |-> Stored(mk, text), func |-> func]
\* Matcher.matches(text): the stored pattern itself, or a (non-error) match
Matches(e, text) == e.stored = text \/ Match(e.pat, Split(text)).ok
\* StepRegistry.same_step_definition(existing, new_step_matcher.pattern, new location): the *stored* patterns
\* are compared ("^text$" for the re matcher on both sides), so the very same function and pattern is ignored
\* under every matcher
SameDef(e, newstored, func) == e.stored = newstored /\ e.func = func
RECURSIVE Scan(_,_,_,_,_)
Scan(list, i, text, newstored, func) ==
   IF i > Len(list) THEN "ok"
   ELSE IF SameDef(list[i], newstored, func) THEN "ignored"
   ELSE IF Matches(list[i], text) THEN "ambiguous"
   ELSE Scan(list, i + 1, text, newstored, func)

UseMatcher(st, mk) == [st EXCEPT !.current = mk]
\* environment.py: use_step_matcher(mk), then load_step_modules: use_current_step_matcher_as_default()
SetDefault(st, mk) == [st EXCEPT !.current = mk, !.default = mk]
\* register_type(Colour=<the second converter>) in a step module (needs a parse / cfparse current matcher)
ReType(st) == [st EXCEPT !.tver = 2]
\* StepRegistry.clear(): forgets every definition of all four step types (each type keeps a list of its own);
\* the matcher state and the registered types belong to the factory and stay
Clear(st)  == [st EXCEPT !.steps = [t \in Types |-> <<>>]]
\* load_step_modules after each step module: use_default_step_matcher()
ModuleEnd(st)      == [st EXCEPT !.current = st.default]
\* add_step_definition(type, Render(p, current), func): res in {ok, ignored, ambiguous}
Register(st, ty, p, func) ==
   LET e == Entry(p, st.current, func, st.tver)
       r == Scan(st.steps[ty], 1, e.text, e.stored, func)
   IN [res |-> r, st |-> IF r = "ok" THEN [st EXCEPT !.steps[ty] = Append(@, e)] ELSE st]

\* find_match(step): candidates = the step type's list ++ the generic list, first hit wins
Cands(st, ty) == IF ty # "step" THEN st.steps[ty] \o st.steps["step"] ELSE st.steps["step"]
RECURSIVE FirstHit(_,_,_)
FirstHit(c, toks, i) == IF i > Len(c) THEN 0 ELSE IF Match(c[i].pat, toks).ok THEN i ELSE FirstHit(c, toks, i + 1)
NoHit == [func |-> 0, args |-> <<>>]
Lookup(st, ty, toks) ==
   LET c == Cands(st, ty)
       h == FirstHit(c, toks, 1)
   IN IF h = 0 THEN NoHit
      ELSE [func |-> c[h].func, args |-> ArgsOf(c[h].pat, c[h].kind, toks, Match(c[h].pat, toks).spans)]
=============================================================================
