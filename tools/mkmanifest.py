#!/venv/bin/python
"""Regenerates MANIFEST.json from the table below (single source of truth for what is claimed)."""
import json
import os

HERE = os.path.dirname(os.path.dirname(os.path.abspath(__file__)))

CLAIMED = {
    "C07": dict(
        text="TLC enumerates every expression tree of the bound (quick: depth<=2 over 4 operands, 652 trees; thorough: 8 operands incl. "
             "character classes) and proves on the complete truth table (2^6 tag subsets) that the transcribed normalisation + tokenizer + "
             "shunting yard + operand factory parse every rendering back to the rendered formula, that print/parse is meaning preserving and "
             "that {config.tags} substitution acts as sub-formula substitution; every rendering and text-level variant is then run through the "
             "real make_tag_expression()/Configuration and the recorded truth tables, str()/to_string() texts and re-parses are judged by TLC "
             "against the specification's own parse of the very same text.",
        design_ref="DESIGN.md §7 C07",
        note="Bounded: operand pool and tree depth as stated in evidence; third-party cucumber_tag_expressions is observed, not modelled beyond its algorithm; "
             "only blanks as whitespace.",
        technique="TLA+ spec (TagExpr.tla) model-checked with TLC + TLC-judged traces of the real parser on TLC-generated renderings",
    ),
    "C20": dict(
        text="TLC proves on the layering state machine of Config.tla (Default < File_1..n < CmdLine, mode post-processing, path joining, format/outfiles "
             "coupling) that the stored value is the documented precedence for every option kind, and the -D parse laws on ALL strings up to the "
             "bound over {letter,=,blank,quotes}; every case is rendered into real config files (behave.ini, .behaverc, setup.cfg, tox.ini, "
             "pyproject.toml, cwd and HOME) and argv for every option of behave's real OPTIONS schema, Configuration() is constructed for real and "
             "the recorded attributes / getter results are judged by TLC.",
        design_ref="DESIGN.md §7 C20",
        note="Bounded as stated in the evidence; list merging of append options, file-vs-file precedence and options forced by a mode switch are "
             "recorded but not judged (the statement is silent); defaults are the documented ones.",
        technique="TLA+ spec (Config.tla) model-checked with TLC + TLC-judged traces of the real Configuration on TLC-generated cases",
    ),
}

PENDING_REASON = "check not built yet in this round (planned with the same TLA+/TLC technique, see DESIGN.md §7); not claimed until its check exists"


def main():
    props = [json.loads(l) for l in open(os.path.join(HERE, "properties.jsonl"))]
    checks = []
    na = []
    for p in props:
        pid = p["id"]
        c = CLAIMED.get(pid)
        if not c:
            na.append({"property_id": pid, "reason": PENDING_REASON})
            continue
        checks.append({
            "property_id": pid,
            "quick_cmd": "./check %s --tier quick" % pid,
            "thorough_cmd": "./check %s --tier thorough" % pid,
            "evidence_file": "/verif/evidence/%s.json" % pid,
            "replay_cmd_template": "./check %s --replay {path}" % pid,
            "engine": "tlc",
            "level_claimed": {"category": "model_checking", "text": c["text"], "design_ref": c["design_ref"]},
            "level_note": c["note"],
            "technique": c["technique"],
        })
    man = {
        "version": 1,
        "setup_cmd": "./tools/setup.sh",
        "hooks": {
            "guard": "BEHAVE_VERIF",
            "enable": "export BEHAVE_VERIF=1 (set by ./check); behave is imported from /repo's working tree (editable install), nothing is built",
            "baseline_off_cmd": "cd /repo && env -u BEHAVE_VERIF /venv/bin/python -m pytest -ra -q -p no:cacheprovider --timeout=900 --continue-on-collection-errors",
            "source_commits": [],
            "add_only": True,
        },
        "engines": [{"name": "tlc", "path": "/verif/specs", "serves_properties": [c["property_id"] for c in checks],
                     "kind_free_text": "explicit TLA+ specifications checked by TLC 1.8; traces of the real code judged by TLC trace modules"}],
        "checks": checks,
        "not_applicable": na,
        "notes": "One CLI: ./check <ID> --tier quick|thorough [--seed N] [--replay PATH]. Exit 0 held, 1 VIOLATION, 2 machinery failure.",
    }
    with open(os.path.join(HERE, "MANIFEST.json"), "w") as fh:
        json.dump(man, fh, indent=1)
        fh.write("\n")


if __name__ == "__main__":
    main()
