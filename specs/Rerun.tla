------------------------------- MODULE Rerun -------------------------------
(***************************************************************************)
(* C17 -- the rerun report and its way back into the next run.             *)
(*                                                                         *)
(* (S) what the code does, transcribed from                                *)
(*     behave/formatter/rerun.py  RerunFormatter.feature / eof / close     *)
(*     behave/runner_util.py      FeatureListParser.parse, parse_features, *)
(*                                FeatureScenarioLocationCollector2,       *)
(*                                FeatureLineDatabase                      *)
(*   * the formatter automaton: state [cur, failed, file]; `feature(f)`    *)
(*     remembers the current feature, `eof()` appends the scenarios of the *)
(*     current feature whose status is `failed` -- but only when the       *)
(*     feature's own status is `failed` -- in walk_scenarios() order (rows *)
(*     of outlines, scenarios inside rules), `close()` writes one          *)
(*     `file:line` per collected scenario or, when nothing was collected,  *)
(*     removes a file of that name;                                        *)
(*   * the feed-back: every `file:line` line of the list file is a         *)
(*     location, consecutive locations of one file make one Feature object,*)
(*     a line selects the run item found in the feature's line database    *)
(*     (exact line, otherwise the nearest entry above) and with it its     *)
(*     scenarios; every other scenario of that feature is marked skipped;  *)
(*     features that are not named do not take part in the run.            *)
(*   It models the code as it is, including the behaviour (P) rejects.     *)
(*   Not modelled: the banner/comment lines, timestamps, the               *)
(*   show_failed_scenarios_descriptions block.                             *)
(*   (the programs of the run cluster never use these tags).               *)
(*                                                                         *)
(* (P) the property clauses, over observables only: the model after the    *)
(*     run (final statuses, file and line of every element), the content   *)
(*     of the rerun file, the scenarios selected by the second run.        *)
(*                                                                         *)
(* A model m is a record of sequences indexed by element id (document      *)
(* order, the order in which behave runs them):                            *)
(*   prog[el] = [kind, parent, children]   kind: feature rule outline      *)
(*              scenario (rows of outlines are scenarios under an outline) *)
(*   status[el], line[el], fidx[el] (index of the feature file)            *)
(* A file is [exists, stale, lines]; stale = still the content that was    *)
(* there before the run; lines = <<[f, l]>> the non-comment lines.         *)
(***************************************************************************)
EXTENDS Naturals, Integers, Sequences, FiniteSets, TLC

\* ---------------------------------------------------------------- the model after a run
Els(m)      == DOMAIN m.prog
Kind(m, el) == m.prog[el].kind
Par(m, el)  == m.prog[el].parent
Kids(m, el) == m.prog[el].children
Ids(m)      == [i \in 1..Len(m.prog) |-> i]
ScenSeq(m)  == SelectSeq(Ids(m), LAMBDA e : Kind(m, e) = "scenario")      \* run order = document order
FeatSeq(m)  == SelectSeq(Ids(m), LAMBDA e : Kind(m, e) = "feature")
Scens(m)    == {e \in Els(m) : Kind(m, e) = "scenario"}
SeqSet(s)   == {s[k] : k \in DOMAIN s}
Max(S)      == CHOOSE x \in S : \A y \in S : y <= x
RECURSIVE FeatOf(_,_)
FeatOf(m, el) == IF Par(m, el) = 0 THEN el ELSE FeatOf(m, Par(m, el))
\* ScenarioContainer.walk_scenarios(): rule -> its walk, outline -> its rows, scenario -> itself
RECURSIVE Walk(_,_)
RECURSIVE WalkKids(_,_,_)
Walk(m, el) == IF Kind(m, el) = "scenario" THEN <<el>> ELSE WalkKids(m, Kids(m, el), 1)
WalkKids(m, ch, k) == IF k > Len(ch) THEN <<>> ELSE Walk(m, ch[k]) \o WalkKids(m, ch, k + 1)

Loc(m, s)        == [f |-> m.fidx[s], l |-> m.line[s]]
LocsOf(m, seq)   == [i \in DOMAIN seq |-> Loc(m, seq[i])]
Norm(lines)      == [i \in DOMAIN lines |-> [f |-> lines[i].f, l |-> lines[i].l]]
NoFile           == [exists |-> FALSE, stale |-> FALSE, lines |-> <<>>]
StaleFile        == [exists |-> TRUE, stale |-> TRUE, lines |-> <<>>]

\* ---------------------------------------------------------------- status classes (model_core.Status)
ErrorClass    == {"error", "hook_error", "cleanup_error", "undefined", "pending"}
FailedOrError == ErrorClass \cup {"failed"}

\* ================================================================ (S) RerunFormatter
FmtInit(before) == [cur |-> 0, failed |-> <<>>, file |-> before]
\* def feature(self, feature): self.current_feature = feature
OnFeature(st, f) == [st EXCEPT !.cur = f]
\* def eof(self): if self.current_feature and self.current_feature.status == Status.failed:
\*                    for scenario in self.current_feature.walk_scenarios():
\*                        if scenario.status == Status.failed: self.failed_scenarios.append(scenario)
\*                self.current_feature = None
OnEof(st, m) ==
   [st EXCEPT !.cur = 0,
              !.failed = IF st.cur # 0 /\ m.status[st.cur] = "failed"
                         THEN @ \o SelectSeq(Walk(m, st.cur), LAMBDA s : m.status[s] = "failed")
                         ELSE @]
\* the repaired code (/repo a6c29a8 and its follow-up): every scenario of the finished feature with a failed or
\* error-class status is collected, whatever the feature's own status is (after an aborted run with autoretry a
\* feature can be `untested` -- its first row untested -- while a later row ended hook_error)
OnEofRepaired(st, m) ==
   [st EXCEPT !.cur = 0,
              !.failed = IF st.cur # 0
                         THEN @ \o SelectSeq(Walk(m, st.cur), LAMBDA s : m.status[s] \in FailedOrError)
                         ELSE @]
\* def close(self): if self.failed_scenarios: open("w"); banner; one location per scenario
\*                  elif stream_name and os.path.exists(stream_name): os.remove(stream_name)
OnClose(st, m) ==
   [st EXCEPT !.file = IF st.failed # <<>> THEN [exists |-> TRUE, stale |-> FALSE, lines |-> LocsOf(m, st.failed)]
                       ELSE NoFile]
\* the formatter driven by a sequence of call-outs <<[name, el]>>, name in feature / eof / close
RECURSIVE Drive(_,_,_,_,_)
Drive(st, m, calls, k, mode) ==
   IF k > Len(calls) THEN st
   ELSE LET c == calls[k] IN
        Drive(CASE c.name = "feature" -> OnFeature(st, c.el)
                [] c.name = "eof"     -> (IF mode = "code" THEN OnEof(st, m) ELSE OnEofRepaired(st, m))
                [] c.name = "close"   -> OnClose(st, m)
                [] OTHER              -> st,
              m, calls, k + 1, mode)
\* the code as it is now (eof() repaired: has_failed() in both tests); mode "code" = the former behaviour, kept for reference
FileAfter(m, calls, before) == Drive(FmtInit(before), m, calls, 1, "repaired").file
FileAfterRepaired(m, calls, before) == Drive(FmtInit(before), m, calls, 1, "repaired").file
\* the call-outs of the run engine (Run.tla: container.run announces a feature -- feature(f) ... eof() -- only if it
\* should run or show_skipped; run_model closes every formatter at the end)
RECURSIVE EngineCallsFrom(_,_,_)
EngineCallsFrom(m, announced, k) ==
   IF k > Len(FeatSeq(m)) THEN << [name |-> "close", el |-> 0] >>
   ELSE LET f == FeatSeq(m)[k] IN
        (IF f \in announced THEN << [name |-> "feature", el |-> f], [name |-> "eof", el |-> 0] >> ELSE <<>>)
        \o EngineCallsFrom(m, announced, k + 1)
EngineCalls(m, announced) == EngineCallsFrom(m, announced, 1)

\* ================================================================ (S) feeding the file back: `behave @rerun.txt`
\* parse_features(): `if location.filename == scenario_collector.filename: add_location` -- consecutive locations of the
\* same file are collected for ONE Feature object; a location without line number selects the whole feature
RECURSIVE Grp(_,_,_)
Grp(lines, k, acc) ==
   IF k > Len(lines) THEN acc
   ELSE LET x == lines[k]
            n == Len(acc) IN
        IF n > 0 /\ acc[n].f = x.f
        THEN Grp(lines, k + 1, [acc EXCEPT ![n] = [f |-> x.f, ls |-> IF x.l = 0 THEN acc[n].ls ELSE acc[n].ls \cup {x.l},
                                                   all |-> acc[n].all \/ x.l = 0]])
        ELSE Grp(lines, k + 1, Append(acc, [f |-> x.f, ls |-> IF x.l = 0 THEN {} ELSE {x.l}, all |-> x.l = 0]))
Groups(lines) == Grp(lines, 1, <<>>)
FeaturesOfFile(m, f) == {e \in Els(m) : Kind(m, e) = "feature" /\ m.fidx[e] = f}
Under(m, f) == {e \in Els(m) : FeatOf(m, e) = f}
\* FeatureLineDatabase: entries (0, feature) and (line, entity) for the feature and everything below it;
\* select_run_item_by_line: exact entry, otherwise bisect(lines, line) - 1 = the last entry at or above the line
SelectRunItem(m, f, l) ==
   LET U   == Under(m, f)
       key == Max({x \in {0} \cup {m.line[e] : e \in U} : x <= l})
   IN IF key = 0 THEN f ELSE CHOOSE e \in U : m.line[e] = key
\* select_scenarios_by_line: feature / rule -> walk_scenarios, outline -> its rows, scenario -> itself
\* build_feature: no line collected or a bare file name -> the feature unchanged (everything selected)
\* the documented exemption: a scenario whose OWN tags (for an outline row: the tags of its outline and of its Examples
\* block, which behave copies onto the row) contain setup or teardown; tags inherited from a rule or feature do not count
Exempt(m, s) == \E k \in DOMAIN m.prog[s].tags : m.prog[s].tags[k] \in {"setup", "teardown"}
GroupSel(m, g) ==
   IF FeaturesOfFile(m, g.f) = {} THEN {}
   ELSE LET f == CHOOSE e \in FeaturesOfFile(m, g.f) : TRUE IN
        IF g.all \/ g.ls = {} THEN SeqSet(Walk(m, f))
        ELSE UNION {SeqSet(Walk(m, SelectRunItem(m, f, l))) : l \in g.ls}
             \* build_feature: `if "setup" in scenario.tags or "teardown" in scenario.tags: continue` -- never skip-marked
             \cup {s \in SeqSet(Walk(m, f)) : Exempt(m, s)}
\* result of the second start: ok = every named file is a feature file of the program (otherwise parse_file raises);
\* sel = scenarios left to run (should_skip false); everything else in the named features is mark_skipped()
FeedBack(m, lines) ==
   LET gs == Groups(lines) IN
   [ok  |-> \A i \in DOMAIN gs : FeaturesOfFile(m, gs[i].f) # {},
    sel |-> UNION {GroupSel(m, gs[i]) : i \in DOMAIN gs}]

\* ================================================================ (P) property clauses
\* the unsuccessful scenarios in run order, decided from the final statuses
UnsuccSeq(m)  == SelectSeq(ScenSeq(m), LAMBDA s : m.status[s] \in FailedOrError)
Expected(m)   == LocsOf(m, UnsuccSeq(m))
\* C17.exact: the file lists exactly their locations, in run order, each once
ExactOK(m, file) ==
   UnsuccSeq(m) # <<>> => file.exists /\ ~file.stale /\ Norm(file.lines) = Expected(m)
\* C17.stale_removed: nothing unsuccessful => no rerun file is left (a previous one is removed)
StaleOK(m, file) == UnsuccSeq(m) = <<>> => ~file.exists
\* C17.loop: the definition of a location -- a line selects the scenario (row) that starts at that line of that file.
\* Judged against what the file says (so that a wrong file yields C17.exact only, not an avalanche), and only when
\* there is a freshly written file whose lines all are scenario locations.
ScenAt(m, x)  == {s \in Scens(m) : m.fidx[s] = x.f /\ m.line[s] = x.l}
LoopJudged(m, file) == file.exists /\ ~file.stale /\ \A i \in DOMAIN file.lines : ScenAt(m, file.lines[i]) # {}
Listed(m, file) == UNION {ScenAt(m, file.lines[i]) : i \in DOMAIN file.lines}
\* scenarios exempt from skipping in the features the file names: they may run or not (the statement is silent about
\* them, the code documents that they stay; their handling is C10's business) -- a relation, not a function
ExemptNamed(m, file) == {s \in Scens(m) : Exempt(m, s) /\ \E i \in DOMAIN file.lines : file.lines[i].f = m.fidx[s]}
LoopOK(m, file, fb) == LoopJudged(m, file) =>
   fb.ok /\ Listed(m, file) \subseteq fb.sel /\ fb.sel \subseteq Listed(m, file) \cup ExemptNamed(m, file)

\* ---------------------------------------------------------------- the known defect (DESIGN §8 #2), narrowly
\* eof() tests `== Status.failed` on the feature and on the scenario: scenarios that ended in an error-class status are
\* never collected, and neither are failed scenarios of a feature whose own status is not `failed` (its first problem
\* was an error, or one of its hooks failed).  The predicate holds iff the file is EXACTLY the required list minus these.
CodeListed(m) == SelectSeq(ScenSeq(m), LAMBDA s : m.status[s] = "failed" /\ m.status[FeatOf(m, s)] = "failed")
Ignored(m)    == SelectSeq(UnsuccSeq(m), LAMBDA s : ~(m.status[s] = "failed" /\ m.status[FeatOf(m, s)] = "failed"))
KF_C17_error_class_ignored(m, file) ==
   /\ Ignored(m) # <<>>
   /\ IF CodeListed(m) = <<>> THEN ~file.exists
      ELSE file.exists /\ ~file.stale /\ Norm(file.lines) = LocsOf(m, CodeListed(m))

\* clause ids violated by (model, file, feed-back result); dry = the run was a dry run (C17.exact and
\* C17.stale_removed are not judged then: DESIGN Appendix D, statuses under dry-run are not constrained)
ExactId(m, file) == IF KF_C17_error_class_ignored(m, file) THEN "C17.exact/error_class_ignored" ELSE "C17.exact"
FileClauses(m, dry, file) ==
   IF dry THEN {}
   ELSE (IF ~ExactOK(m, file) THEN {ExactId(m, file)} ELSE {})
        \cup (IF ~StaleOK(m, file) THEN {"C17.stale_removed"} ELSE {})
LoopClauses(m, file, fb) == IF ~LoopOK(m, file, fb) THEN {"C17.loop"} ELSE {}
KnownFamilies == {}          \* the error_class_ignored family was repaired in /repo; it is only a label now
=============================================================================
