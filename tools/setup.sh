#!/bin/sh
# offline setup: nothing is fetched or built; verify the tools are present and the specs parse
set -e
cd "$(dirname "$0")/.."
command -v java >/dev/null
test -f /opt/veriftools/tla/tla2tools.jar
/venv/bin/python -c "import behave, hypothesis" 
/venv/bin/python -m compileall -q harness >/dev/null
mkdir -p evidence replays
echo setup-ok
