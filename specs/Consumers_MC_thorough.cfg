INIT Init
NEXT Next
CONSTANTS
  MaxOwn = 2
  MaxScen = 3
  OtherModes = {"none"}
  EmitMod = 41
INVARIANT ClausesHold
INVARIANT RepairedHolds
INVARIANT KFNarrow
INVARIANT Emit
