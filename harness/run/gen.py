"""Abstract programs for the run cluster: exhaustive families and seeded random ones.

A *program* is a nested dict (features -> items -> steps).  flatten() turns it into the flat element
table shared by Run.tla (prediction), the renderer (feature text) and the trace judge.
Step: {"o": outcome, "cl": [id, layer, raises] or None}
Outcomes: pass fail error pending undefined skip kbd badarg
"""
import itertools
import random

NEST = ["nest_pass", "nest_fail", "nest_error", "nest_pending", "nest_undef"]      # the step calls context.execute_steps()
OUTCOMES = ["pass", "fail", "error", "pending", "undefined", "skip", "kbd", "badarg", "skip_fail", "abort"] + NEST
NONPASS = OUTCOMES[1:]
TAGPOOL = ["t1", "t2", "wip", "android"]        # ("android": a name that contains the letters of a v2 keyword)

# tag expressions as node tables: [op, a, b, name]; text rendering per dialect
EXPRS = {
    "true": {"text": "", "nodes": [["true", 0, 0, ""]], "root": 1},
    "t1": {"text": "t1", "nodes": [["lit", 0, 0, "t1"]], "root": 1},
    "not_t1": {"text": "not t1", "nodes": [["lit", 0, 0, "t1"], ["not", 1, 0, ""]], "root": 2},
    "t1_and_t2": {"text": "t1 and t2", "nodes": [["lit", 0, 0, "t1"], ["lit", 0, 0, "t2"], ["and", 1, 2, ""]], "root": 3},
    "t1_or_t2": {"text": "@t1 or @t2", "nodes": [["lit", 0, 0, "t1"], ["lit", 0, 0, "t2"], ["or", 1, 2, ""]], "root": 3},
    "not_any": {"text": "not (t1 or t2)", "nodes": [["lit", 0, 0, "t1"], ["lit", 0, 0, "t2"], ["or", 1, 2, ""], ["not", 3, 0, ""]], "root": 4},
    "glob": {"text": "t*", "nodes": [["glob", 0, 0, "t"]], "root": 1},
    "globq": {"text": "t?", "nodes": [["glob", 0, 0, "t"]], "root": 1},
    "globc": {"text": "@t[12]", "nodes": [["glob", 0, 0, "t"]], "root": 1},
    "not_globq": {"text": "not t?", "nodes": [["glob", 0, 0, "t"], ["not", 1, 0, ""]], "root": 2},
    # several --tags options (AND-ed as a whole), one of them with a top-level `or` between parenthesised parts
    # (the second part must not already be implied by a branch of the first one: `... and android`)
    "parts": {"text": "(t1 and t2) or (wip)", "more": ["@android"], "nodes": [["lit", 0, 0, "t1"], ["lit", 0, 0, "t2"], ["and", 1, 2, ""],
                                                                            ["lit", 0, 0, "wip"], ["or", 3, 4, ""], ["lit", 0, 0, "android"],
                                                                            ["and", 5, 6, ""]], "root": 7},
    "parts_v1": {"text": "t1,wip", "more": ["-t2"], "nodes": [["lit", 0, 0, "t1"], ["lit", 0, 0, "wip"], ["or", 1, 2, ""],
                                                             ["lit", 0, 0, "t2"], ["not", 4, 0, ""], ["and", 3, 5, ""]], "root": 6},
    "v1t": {"text": "~@t1", "nodes": [["lit", 0, 0, "t1"], ["not", 1, 0, ""]], "root": 2},
    "v1b": {"text": "android,t1", "nodes": [["lit", 0, 0, "android"], ["lit", 0, 0, "t1"], ["or", 1, 2, ""]], "root": 3},
    # old-style list with blanks around the comma inside ONE argument: still an OR of its members
    "v1sp": {"text": "@t1, -@t2", "nodes": [["lit", 0, 0, "t1"], ["lit", 0, 0, "t2"], ["not", 2, 0, ""], ["or", 1, 3, ""]], "root": 4},
    "v1": {"text": "-t1,t2", "nodes": [["lit", 0, 0, "t1"], ["not", 1, 0, ""], ["lit", 0, 0, "t2"], ["or", 2, 3, ""]], "root": 4},
    "wip": {"text": "wip", "nodes": [["lit", 0, 0, "wip"]], "root": 1},
    "not_wip": {"text": "not @wip", "nodes": [["lit", 0, 0, "wip"], ["not", 1, 0, ""]], "root": 2},
}


KEYWORDS = ["Given", "When", "Then", "And", "But"]


def keywords(typed, section, n, item=0):
    """-> [(keyword, step type)] of the n steps of one section (0 feature background, 1 rule background, 2 own steps).
    typed = 0: every step is written `Given`.  typed = 1..: prog["typed"], a salt; the first step of a section has an
    explicit type, later ones any of the five keywords (And / But inherit the type of the step before them).
    item: ordinal of the scenario / outline in its program (own steps): the same step text appears under different
    step types in different scenarios."""
    out, last = [], "given"
    if typed:
        typed += item
    for j in range(n):
        if not typed:
            kw = "Given"
        elif j == 0:
            kw = KEYWORDS[(typed + section) % 3]
        else:
            kw = KEYWORDS[(typed + 2 * section + 3 * j + (typed // 5)) % 5]
        if kw in ("Given", "When", "Then"):
            last = kw.lower()
        out.append((kw, last))
    return out


def step(o, cl=None, o2=None):
    """o2: outcome when the scenario runs a second time (scenario_autoretry); text-bound outcomes stay the same"""
    if o in ("undefined", "badarg") or o2 is None:
        o2 = o if o in ("undefined", "badarg") else "pass"
    return {"o": o, "cl": cl, "o2": o2}


def scenario(steps, tags=()):
    return {"kind": "scenario", "tags": list(tags), "steps": [s if isinstance(s, dict) else step(s) for s in steps]}


def outline(blocks, tags=(), ptag=False, rtag=False):
    """blocks: list of (block tags, rows) ; row = list of steps/outcomes; all rows of an outline same length.
    ptag: the outline additionally carries the parametrized tag @x<c1> (rendered per row from the first cell);
    rtag: ... and the tag @t<row.index> (special placeholder: t1 for the first row of a block, t2 for the second)"""
    return {"kind": "outline", "tags": list(tags), "ptag": bool(ptag), "rtag": bool(rtag),
            "blocks": [{"tags": list(bt), "rows": [[s if isinstance(s, dict) else step(s) for s in row] for row in rows]}
                       for bt, rows in blocks]}


def rule(items, tags=(), bg=None):
    return {"kind": "rule", "tags": list(tags), "bg": _bg(bg), "items": list(items)}


def feature(items, tags=(), bg=None):
    return {"kind": "feature", "tags": list(tags), "bg": _bg(bg), "items": list(items)}


def _bg(bg):
    if bg is None:
        return None
    return [s if isinstance(s, dict) else step(s) for s in bg]


def cfg(expr="true", stop=False, dry=False, show_skipped=True, cont=False, capture=(True, True, True), wip=False, retry=False,
        observe=False, async_steps=False, chatty=False, loglevel="", logfilter="", logclear=False, tamper=False, rootlvl0=False, names=None, async_timeout=False, cont_by_hook=False, setuplog="", capdeco=False):
    """loglevel: --logging-level (DEBUG / INFO / WARNING / ERROR / CRITICAL; "" = not given, behave's default INFO);
    logfilter: --logging-filter (comma separated logger names, a leading '-' excludes);
    wip: --wip (only @wip scenarios, --stop, no capture of stdout and logging);
    logclear: --logging-clear-handlers, the user's own root handler is then installed in before_all;
    names: None, or the ids of the scenarios (plain ones and outline rows) selected with --name (one anchored pattern each);
    setuplog: "" or a level name: before_all calls context.config.setup_logging(level=<that level>) (public API);
    capdeco: the after_scenario hook is wrapped with the @behave.log_capture.capture decorator;
    rootlvl0: the before_all hook sets the root logger's level to NOTSET (0);
    tamper: a failing / raising step body first replaces sys.stdout / sys.stderr (if captured) by a forwarding wrapper"""
    return {"setuplog": setuplog, "capdeco": bool(capdeco), "rootlvl0": bool(rootlvl0 and not setuplog),
            "cont_by_hook": bool(cont_by_hook and not dry), "async_timeout": bool(async_timeout), "names": None if names is None else list(names), "wip": bool(wip), "logclear": bool(logclear), "tamper": bool(tamper), "loglevel": loglevel, "logfilter": logfilter, "observe": bool(observe), "async_steps": bool(async_steps), "chatty": bool(chatty), "expr": expr, "stop": stop, "dry": dry, "show_skipped": show_skipped, "cont": cont, "retry": bool(retry and not dry),
            "cap_out": capture[0], "cap_err": capture[1], "cap_log": capture[2]}


# ----------------------------------------------------------------------------- flatten
def flatten(prog):
    """-> dict(elems=[...1-based list of element dicts...], features=[ids])
    element: id kind parent tags children steps has_bg fidx
    steps (scenarios only): list of dict(kw, stype, o, def, org, k, cl_id, cl_layer, cl_raises)
    """
    elems = []

    def new(kind, parent, tags):
        e = {"id": len(elems) + 1, "kind": kind, "parent": parent, "tags": list(tags), "children": [],
             "steps": [], "has_bg": False, "fidx": 0}
        elems.append(e)
        if parent:
            elems[parent - 1]["children"].append(e["id"])
        return e

    typed = int(prog.get("typed") or 0)

    item = [0]      # ordinal of the scenario / outline (document order)

    def mk_steps(fbg, rbg, own):
        out = []
        for si, (org, lst) in enumerate((("fbg", fbg or []), ("rbg", rbg or []), ("own", own))):
            kws = keywords(typed, si, len(lst), item[0] if si == 2 else 0)
            for k, s in enumerate(lst):
                o = s["o"]
                cl = s.get("cl") or [0, "", False]
                out.append({"kw": kws[k][0], "stype": kws[k][1], "o": o, "o2": s.get("o2", o if o in ("undefined", "badarg") else "pass"), "def": o != "undefined", "org": org, "k": k + 1,
                            "cl_id": cl[0], "cl_layer": cl[1], "cl_raises": bool(cl[2])})
        return out

    feats = []
    for fi, f in enumerate(prog["features"]):
        fe = new("feature", 0, f["tags"])
        fe["fidx"] = fi
        fe["has_bg"] = f.get("bg") is not None
        feats.append(fe["id"])
        fbg = f.get("bg")

        def items(lst, parent, rbg, inherited_fbg):
            for it in lst:
                if it["kind"] == "rule":
                    re_ = new("rule", parent["id"], it["tags"])
                    re_["fidx"] = fi
                    # a rule without own background gets the feature's (inherited) one announced by formatters
                    re_["has_bg"] = it.get("bg") is not None or inherited_fbg is not None
                    items(it["items"], re_, it.get("bg"), inherited_fbg)
                elif it["kind"] == "scenario":
                    item[0] += 1
                    se = new("scenario", parent["id"], it["tags"])
                    se["fidx"] = fi
                    se["steps"] = mk_steps(inherited_fbg, rbg, it["steps"])
                else:
                    item[0] += 1
                    oe = new("outline", parent["id"], it["tags"])
                    oe["fidx"] = fi
                    for b in it["blocks"]:
                        for ri, row in enumerate(b["rows"]):
                            ptag = []
                            if it.get("rtag"):
                                ptag = ["t%d" % (ri + 1)]    # outline tag @t<row.index>, rendered per row
                            if it.get("ptag"):
                                o1 = row[0]["o"]
                                cell = "nodef own 1" if o1 == "undefined" else ("bad own 1" if o1 == "badarg" else "own 1")
                                ptag = ["x" + cell.replace(" ", "_")] + ptag    # Tag.make_name of the rendered tag
                            se = new("scenario", oe["id"], list(it["tags"]) + ptag + list(b["tags"]))
                            se["fidx"] = fi
                            se["steps"] = mk_steps(inherited_fbg, rbg, row)
        items(f["items"], fe, None, fbg)
    return {"elems": elems, "features": feats}


def count_hooks_upper(flat):
    """upper bound of the number of hook invocations of a run (fault positions 1..N)"""
    n = 2
    for e in flat["elems"]:
        if e["kind"] in ("feature", "rule"):
            n += 2 + 2 * len(e["tags"])
        elif e["kind"] == "scenario":
            n += 2 + 2 * len(e["tags"]) + 2 * len(e["steps"])
    return n


# ----------------------------------------------------------------------------- families
def outcome_sequences(n, full=False):
    """pass^k . o . (defined|undefined)^*   for every first-non-pass position and outcome;
    all sequences when full (continue_after_failed_step)."""
    if n == 0:
        yield []
        return
    if full:
        for seq in itertools.product(OUTCOMES, repeat=n):
            yield list(seq)
        return
    yield ["pass"] * n
    for k in range(n):
        for o in NONPASS:
            rest = n - k - 1
            for tail in itertools.product(["pass", "undefined"], repeat=rest):
                yield ["pass"] * k + [o] + list(tail)


def family_scen(max_steps=3, quick=False):
    """one feature, optional rule, feature/rule background of <=1 step, one scenario or one outline with 2 rows"""
    progs = []
    shapes = []
    for with_rule in (False, True):
        for fbg in (None, "pass", "fail"):
            for rbg in ((None,) if not with_rule else (None, "pass", "error")):
                shapes.append((with_rule, fbg, rbg))
    for with_rule, fbg, rbg in shapes:
        for n in range(0, max_steps + 1):       # (n = 0: a scenario without steps)
            for seq in outcome_sequences(n):
                for wip in (False, True):
                    if wip and "pending" not in seq:
                        continue
                    tags = ["wip"] if wip else []
                    sc = scenario(seq, tags)
                    its = [rule([sc], bg=None if rbg is None else [rbg])] if with_rule else [sc]
                    progs.append({"features": [feature(its, bg=None if fbg is None else [fbg])], "family": "scen"})
    # outline rows: 2 rows of <=2 steps
    for fbg in (None, "pass"):
        for r1 in outcome_sequences(2):
            for r2 in (["pass", "pass"], ["fail", "pass"], ["pass", "undefined"]):
                progs.append({"features": [feature([outline([([], [r1, r2])])], bg=None if fbg is None else [fbg])], "family": "scen"})
    return progs


def family_tree(rnd, n, quick=False):
    """<=2 features, <=1 rule each, <=4 scenarios/rows with <=2 own steps, tags at every level"""
    progs = []
    outcomes = ["pass", "pass", "pass", "fail", "error", "undefined", "kbd", "abort", "skip", "skip_fail", "pending", "nest_pass", "nest_fail", "nest_undef"]

    def rtags(p=0.35):
        return [t for t in TAGPOOL if rnd.random() < p]

    def rsc():
        if rnd.random() < 0.3:
            nst = rnd.randint(1, 2)
            blocks = []
            for _ in range(rnd.randint(1, 2)):
                blocks.append((rtags(0.3), [[rnd.choice(outcomes) for _ in range(nst)] for _ in range(rnd.randint(1, 2))]))
            return outline(blocks, rtags(0.3), ptag=rnd.random() < 0.3, rtag=rnd.random() < 0.25)
        return scenario([rnd.choice(outcomes) for _ in range(0 if rnd.random() < 0.1 else rnd.randint(1, 2))], rtags())

    def routline():
        nst = rnd.randint(1, 2)
        return outline([(rtags(0.3), [[rnd.choice(outcomes) for _ in range(nst)] for _ in range(rnd.randint(1, 2))])], rtags(0.3),
                       ptag=rnd.random() < 0.3, rtag=rnd.random() < 0.25)

    for _ in range(n):
        feats = []
        for _f in range(rnd.randint(1, 2)):
            if rnd.random() < 0.12:
                # outline-only feature whose background steps carry outline placeholders (rendered per row)
                its = [routline()] if rnd.random() < 0.6 else []
                its.append(rule([routline() for _ in range(rnd.randint(1, 2))], rtags(),
                                bg=[rnd.choice(["pass", "pass", "fail"])] if rnd.random() < 0.6 else None))
                ft = feature(its, rtags(), bg=[rnd.choice(["pass", "pass", "error"]) for _ in range(rnd.randint(1, 2))])
                ft["pbg"] = True
                feats.append(ft)
                continue
            its = [rsc() for _ in range(rnd.randint(1, 2))]
            if rnd.random() < 0.45:
                its.append(rule([rsc() for _ in range(rnd.randint(1, 2))], rtags(),
                                bg=[rnd.choice(["pass", "pass", "fail"])] if rnd.random() < 0.3 else None))
            feats.append(feature(its, rtags(), bg=[rnd.choice(["pass", "pass", "error"])] if rnd.random() < 0.3 else None))
        progs.append({"features": feats, "family": "tree"})
    return progs


def family_big(rnd, n):
    progs = []
    outcomes = ["pass"] * 8 + ["fail", "error", "undefined", "kbd", "abort", "skip", "skip_fail", "pending", "badarg"] + NEST

    def rtags(p=0.3):
        return [t for t in TAGPOOL if rnd.random() < p]

    def rsteps(lo, hi, cleanups):
        out = []
        for _ in range(rnd.randint(lo, hi)):
            cl = None
            if cleanups and rnd.random() < 0.2:
                cleanups[0] += 1
                cl = [cleanups[0], rnd.choice(["", "", "scenario", "feature", "rule", "testrun"]), rnd.random() < 0.3]
            out.append(step(rnd.choice(outcomes), cl))
        return out

    def rsc(cl):
        if rnd.random() < 0.3:
            nst = rnd.randint(1, 3)
            blocks = []
            for _ in range(rnd.randint(1, 2)):
                rows = []
                for _r in range(rnd.randint(1, 3)):
                    rows.append([step(rnd.choice(outcomes)) for _ in range(nst)])
                blocks.append((rtags(), rows))
            return outline(blocks, rtags())
        return scenario(rsteps(1, 4, cl), rtags())

    for _ in range(n):
        cl = [0]
        feats = []
        for _f in range(rnd.randint(1, 3)):
            its = [rsc(cl) for _ in range(rnd.randint(0, 3))]
            for _r in range(rnd.randint(0, 2)):
                its.append(rule([rsc(cl) for _ in range(rnd.randint(1, 3))], rtags(),
                                bg=[step(o) for o in [rnd.choice(["pass", "pass", "fail"])] * rnd.randint(1, 2)] if rnd.random() < 0.4 else None))
            if not its:
                its = [rsc(cl)]
            feats.append(feature(its, rtags(), bg=[step(rnd.choice(["pass", "pass", "pass", "error"])) for _ in range(rnd.randint(1, 2))] if rnd.random() < 0.4 else None))
        progs.append({"features": feats, "family": "big"})
    return progs
