--------------------------- MODULE ActiveTags_MC ---------------------------
(* Design-level check of C19 and emission of the abstract cases:           *)
(* one state per (tag list, current values) of the bound.  Tag lists are   *)
(* multisets (non-decreasing index sequences) of at most MaxLen tags of    *)
(* the 30-tag pool; they are spread over NB bucket states so that the TLC  *)
(* workers share them.  The driver permutes and renders them.              *)
EXTENDS ActiveTags, Json
CONSTANTS MaxLen, NB

\* ---------------------------------------------------------------- the pool
PUse == <<"u","s","e">>
PNot == <<"n","o","t">>
PAct == <<"a","c","t","i","v","e">>
PNac == <<"n","o","t","_","a","c","t","i","v","e">>
POnl == <<"o","n","l","y">>
PS0  == <<PUse, PNot, PAct, PNac, POnl>>          \* ActiveTagMatcher.tag_prefixes, in this order
N0   == {PNot, PNac}                              \* the negative ones of the statement
Sep0 == <<"=">>
PS1  == <<<<"r","u","n">>, <<"n","o","t","_","r","u","n">>, <<"n","o","t">>, <<"o","n">>, <<"i","f">>>>   \* a custom schema
Sep1 == <<":">>
C1 == <<"o","s">>
C2 == <<"b","r",".","n","m">>                     \* a dotted category
CU == <<"z","z">>                                 \* never known to the provider
CatsQ == <<C1, C2, CU>>
T1 == <<"a","l">>
T2 == <<"b","o">>
T3 == <<"c","h">>
ValsQ == <<T1, T2>>
Render(r, PS, sep) == IF r.k = "active" THEN PS[r.pre] \o WithLit \o CatsQ[r.cat] \o sep \o ValsQ[r.val] ELSE r.text
PoolA == [i \in 1..25 |->
            LET q == ((i - 1) % 5) + 1 IN
            [k |-> "active", pre |-> ((i - 1) \div 5) + 1, cat |-> IF q <= 2 THEN 1 ELSE IF q <= 4 THEN 2 ELSE 3,
             val |-> IF q \in {2, 4} THEN 2 ELSE 1, text |-> <<>>]]
Other(k, text) == [k |-> k, pre |-> 0, cat |-> 0, val |-> 0, text |-> text]
PoolB == << Other("plain", <<"f","o","o">>),
            Other("plain", C1),                                             \* an ordinary tag named like a category
            Other("malformed", PUse \o WithLit \o C1),                     \* no separator, no value
            Other("malformed", <<"U","s","e">> \o WithLit \o C1 \o Sep0 \o T1),   \* prefix in another case
            Other("malformed", <<"w","i","t","h","_">> \o C1 \o Sep0 \o T1) >>    \* no prefix
Pool == TLCEval(PoolA \o PoolB)
PN == Len(Pool)
Text0 == TLCEval([i \in 1..PN |-> Render(Pool[i], PS0, Sep0)])

RECURSIVE ListsOfLen(_)
ListsOfLen(n) == IF n = 0 THEN {<<>>}
                 ELSE UNION {{Append(s, k) : k \in (IF s = <<>> THEN 1 ELSE s[Len(s)])..PN} : s \in ListsOfLen(n - 1)}
AllLists == UNION {ListsOfLen(n) : n \in 0..MaxLen}
Bucket(s) == ((IF Len(s) >= 1 THEN 7 * s[1] ELSE 0) + (IF Len(s) >= 2 THEN 3 * s[2] ELSE 0)
              + (IF Len(s) >= 3 THEN 5 * s[3] ELSE 0) + (IF Len(s) >= 4 THEN s[4] ELSE 0) + Len(s)) % NB

\* ---------------------------------------------------------------- current values and providers
CurSpec(ch) == VSpec("str", "eq", [V0 EXCEPT !.s = <<T1, T2, T3>>[ch]])
Cur(c1, c2) == (C1 :> CurSpec(c1)) @@ (C2 :> CurSpec(c2))
Cur1(c1) == (C1 :> CurSpec(c1))
Cur2(c2) == (C2 :> CurSpec(c2))
ProvOf(pk, c1, c2) ==
   CASE pk = "dict" -> DictProv(Cur(c1, c2))
     [] pk = "atvp" -> [pk |-> "atvp", mem |-> <<[pk |-> "atvp", data |-> Cur(c1, c2), call |-> {}]>>]
     [] OTHER       -> [pk |-> "comp", mem |-> <<[pk |-> "dict", data |-> Cur1(c1), call |-> {}],
                                                 [pk |-> "dict", data |-> Cur2(c2), call |-> {}]>>]

\* the pool is parsed once (TLCEval: evaluated eagerly and cached by TLC); ParseLaw ties both parsers to Render
PoolAlg == TLCEval([i \in 1..PN |-> AlgParse(Text0[i], PS0, Sep0)])
PoolDef == TLCEval([i \in 1..PN |-> DefParses(Text0[i], SeqToSet(PS0), Sep0)])
RECURSIVE SelOf(_)
SelOf(x) == IF x = <<>> THEN <<>> ELSE (IF PoolAlg[Head(x)].ok THEN <<PoolAlg[Head(x)].t>> ELSE <<>>) \o SelOf(Tail(x))
ActOf(x) == UNION {PoolDef[x[i]] : i \in DOMAIN x}
\* everything the laws speak about, computed once per state (variable res)
Results(x, a1, a2) ==
   LET sel == SelOf(x)                                        \* = AlgSelect(Tags, PS0, Sep0)
       act == ActOf(x)                                        \* = DefActive(Tags, SeqToSet(PS0), Sep0)
       pc  == ProvOf("comp", a1, a2)
       k1  == AlgCallSel(sel, pc, TRUE, EmptyCache)
       k2  == AlgCallSel(sel, pc, TRUE, k1.cache)
       n1  == (a1 % 3) + 1                                    \* the current values change (lazy entries of dict members)
       n2  == (a2 % 3) + 1
       k3  == AlgCallSel(sel, ProvOf("comp", n1, n2), TRUE, k2.cache)
   IN [def   |-> DefExcludedA(act, N0, Cur(a1, a2)),
       def1  |-> DefExcludedA(act, N0, Cur1(a1)),
       def2  |-> DefExcludedA(act, N0, Cur2(a2)),
       defU  |-> DefExcludedA(act, N0, (CU :> Junk) @@ Cur(a1, a2)),
       dict  |-> AlgExcludedSel(sel, ProvOf("dict", a1, a2), TRUE),
       run   |-> AlgRunSel(sel, ProvOf("dict", a1, a2), TRUE),
       atvp  |-> AlgExcludedSel(sel, ProvOf("atvp", a1, a2), TRUE),
       comp  |-> k1.ex,
       warm  |-> k2.ex,
       cacheok |-> /\ k2.cache = k1.cache
                   /\ \A c \in DOMAIN k1.cache : c \in {C1, C2} /\ ~k1.cache[c].frozen /\ k1.cache[c].sp = Cur(a1, a2)[c],
       later |-> k3.ex,
       poked |-> AlgCallSel(sel, pc, TRUE, PokeCache(pc, <<C1, CU, C2>>, EmptyCache)).ex,
       pokedw |-> AlgCallSel(sel, pc, TRUE, PokeCache(pc, <<CU, C2, CU>>, k2.cache)).ex,
       pokeok |-> \A c \in DOMAIN PokeCache(pc, <<C1, CU, C2>>, EmptyCache) : c \in {C1, C2},
       defL  |-> DefExcludedA(act, N0, Cur(n1, n2)),
       notign |-> AlgExcludedSel(sel, ProvOf("dict", a1, a2), FALSE),
       many  |-> AlgCompositeSel(sel, <<DictProv(Cur1(a1)), DictProv(Cur2(a2))>>, TRUE),
       none  |-> AlgCompositeSel(sel, <<>>, TRUE)]

VARIABLES ph, b, t, c1, c2, res
vars == <<ph, b, t, c1, c2, res>>
Init == ph = "start" /\ b = 0 /\ t = <<>> /\ c1 = 1 /\ c2 = 1 /\ res = Results(<<>>, 1, 1)
ToBucket == ph = "start"  /\ ph' = "bucket" /\ b' \in 0..(NB - 1) /\ UNCHANGED <<t, c1, c2, res>>
ToCase   == ph = "bucket" /\ ph' = "case" /\ b' = b /\ t' \in {x \in AllLists : Bucket(x) = b}
                          /\ c1' \in 1..3 /\ c2' \in 1..3 /\ res' = Results(t', c1', c2')
Next == ToBucket \/ ToCase
Spec == Init /\ [][Next]_vars

OnCase(P) == ph = "case" => P
Tags == [i \in DOMAIN t |-> Text0[t[i]]]
\* the cached pool parse is the parse of the rendered list (checked on the lists of one bucket: all pool members occur)
PoolParse == OnCase(b = 0 => /\ SelOf(t) = AlgSelect(Tags, PS0, Sep0) /\ ActOf(t) = DefActive(Tags, SeqToSet(PS0), Sep0)
                             /\ res.dict = AlgExcluded(Tags, PS0, Sep0, ProvOf("dict", c1, c2), TRUE)
                             /\ res.def = DefExcluded(Tags, SeqToSet(PS0), N0, Sep0, Cur(c1, c2)))
\* the grouped algorithm of the code decides exactly the definitional formula of the statement
AlgEqDef == OnCase(res.dict = res.def)
RunIsNegation == OnCase(res.run = ~res.def)
\* a composite matcher over members that know one category each = "some known category excludes"
CompositeAny == OnCase(res.many = (res.def1 \/ res.def2) /\ res.many = res.def /\ ~res.none)
\* the cache of the composite provider holds only true values and a warm cache does not change the answer
CacheSound == OnCase(res.warm = res.comp /\ res.cacheok)
\* ... and a warm cache over dict members follows the value that is current at the later call
CacheFollowsCurrent == OnCase(res.later = res.defL)
\* plain lookups (get with any default, print_active_tags) before a decision never change what the provider knows
LookupKeepsKnowledge == OnCase(res.poked = res.def /\ res.pokedw = res.def /\ res.pokeok)
\* unknown categories: with ignore_unknown_categories=False the group of an unknown category behaves like a
\* known category whose value matches nothing (documented in features/tags.active_tags.feature; not part of C19)
NotIgnored == OnCase(res.notign = res.defU)
\* SOFT (printed, never stops TLC): the provider classes of behave answer like a plain dict
ProviderTransparent == OnCase(
   /\ (res.atvp = res.dict \/ PrintT(<<"DESIGN", "ProviderTransparent", "atvp", t, c1, c2>>))
   /\ (res.comp = res.dict \/ PrintT(<<"DESIGN", "ProviderTransparent", "comp", t, c1, c2>>)))

\* ---------------------------------------------------------------- laws checked once, in the start state
Schemas == {<<PS0, Sep0>>, <<PS1, Sep1>>}
ParseLaw == ph = "start" =>
   \A sc \in Schemas : \A i \in 1..PN :
      LET PS == sc[1]  sep == sc[2]  tag == Render(Pool[i], PS, sep)
          a == AlgParse(tag, PS, sep)  d == DefParses(tag, SeqToSet(PS), sep) IN
      /\ a.ok = (d # {})
      /\ a.ok => d = {a.t}
      /\ (Pool[i].k = "active") = a.ok
      /\ a.ok => a.t = [pre |-> PS[Pool[i].pre], cat |-> CatsQ[Pool[i].cat], val |-> ValsQ[Pool[i].val]]
\* a tag of one schema is no active tag of the other one
SchemaSeparation == ph = "start" =>
   \A i \in 1..25 : /\ ~AlgParse(Render(Pool[i], PS0, Sep0), PS0, Sep1).ok
                    /\ DefParses(Render(Pool[i], PS0, Sep0), SeqToSet(PS0), Sep1) = {}
Txt(s) == [s |-> s, n |-> 0, b |-> FALSE, set |-> <<>>]
VOSpecs ==
   {VSpec("str", op, Txt(s)) : op \in {"eq", "ne"}, s \in {T1, T2, T3}}
   \cup {VSpec("num", op, [V0 EXCEPT !.n = n]) : op \in {"eq", "ge", "le", "ne"}, n \in {0 - 5, 10, 15, 20}}
   \cup {VSpec("num2", op, [V0 EXCEPT !.n = n]) : op \in {"eq", "ge", "le", "ne"}, n \in {0 - 9, 20, 21, 31, 40}}
   \cup {VSpec("bool", op, [V0 EXCEPT !.b = x]) : op \in {"eq", "ne"}, x \in BOOLEAN}
   \cup {VSpec("set", "contains", [V0 EXCEPT !.set = q]) : q \in {<<>>, <<T1>>, <<T1, T2>>}}
   \cup {Junk}
NumSetSpecs == {VSpec("numset", "contains", [V0 EXCEPT !.set = q]) : q \in {<<10>>, <<10, 20>>, <<0 - 5, 15>>}}
VerSpecs == {VSpec("ver", op, [V0 EXCEPT !.set = q]) : op \in {"eq", "ge", "le"}, q \in {<<3, 12>>, <<3>>, <<3, 12, 1>>}}
VOTexts == {T1, T2, <<>>, <<"1","0">>, <<"2","0">>, <<"1","5">>, <<"-","5">>, <<"0","1","0">>, <<"2","x">>, <<"-">>,
            <<"1",".","5">>, <<"3",".","1","2">>, <<"3">>, <<"3",".","1","3">>, <<"3",".">>, <<"3",".","x">>,
            <<"y","e","s">>, <<"Y","e","s">>, <<"T","R","U","E">>, <<"o","n">>, <<"n","o">>, <<"O","f","f">>,
            <<"f","a","l","s","e">>, <<"m","a","y","b","e">>, <<"1">>, <<"0">>}
VOLaw == ph = "start" => /\ \A sp \in VOSpecs : \A tv \in VOTexts : AlgMatches(sp, tv) = DefMatches(sp, tv)
                         /\ \A sp \in VerSpecs : \A tv \in VOTexts : AlgMatches(sp, tv) = DefMatches(sp, tv)
                         /\ \A sp \in NumSetSpecs : \A tv \in VOTexts : AlgMatches(sp, tv) = DefMatches(sp, tv)
                         /\ \A sp \in VerSpecs : /\ AlgMatches(sp, <<"3",".","1","2">>) = (sp.set = <<3, 12>> \/ (sp.op = "ge" /\ sp.set = <<3, 12, 1>>) \/ (sp.op = "le" /\ sp.set = <<3>>))
\* malformed values never match, whatever the operator
Malformed(sp, tv) == \/ sp.kind \in {"num", "num2", "numset"} /\ ~IsIntText(tv)
                     \/ sp.kind = "bool" /\ Lower(tv) \notin TrueTexts \cup FalseTexts
                     \/ sp.kind = "ver" /\ ~IsVerText(tv)
MalformedNeverMatches == ph = "start" =>
   /\ \A sp \in VOSpecs : \A tv \in VOTexts : Malformed(sp, tv) => ~AlgMatches(sp, tv)
   /\ \A sp \in VerSpecs : \A tv \in VOTexts : Malformed(sp, tv) => ~AlgMatches(sp, tv)
   /\ \A sp \in NumSetSpecs : \A tv \in VOTexts : Malformed(sp, tv) => ~AlgMatches(sp, tv)

EmitPool == ph = "start" =>
   PrintT(<<"POOL", ToJson([pool |-> [i \in 1..PN |-> [k |-> Pool[i].k, pre |-> Pool[i].pre, cat |-> Pool[i].cat,
                                                        val |-> Pool[i].val, text |-> Text0[i]]],
                            prefixes |-> PS0, sep |-> Sep0, cats |-> CatsQ, vals |-> ValsQ, cur |-> <<T1, T2, T3>>])>>)
Emit == OnCase(PrintT(<<"CASE", ToJson([t |-> t, v |-> <<c1, c2>>, ex |-> <<res.dict, res.atvp, res.comp>>, d |-> res.def])>>))
=============================================================================
