"""TEMPORARY stub (builder test) -- the lead owns this file."""
from props import c16_xml


def run(chk):
    c16_xml.run_xml(chk, workers=4, procs=4)


def replay(chk, payload):
    c16_xml.replay_xml(chk, payload)
