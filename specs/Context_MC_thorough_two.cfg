\* two Contexts in one process: 2 operations (push pop add_cleanup of 2 bare callables x raising x layer, set/del of one name), end of run, new Context, 2 operations, end of run
INIT Init
NEXT Next
CONSTANTS
  OpsAt <- Ops2000
  UNames = {1}
  Vals = {1}
  WithFailed = FALSE
  WithRoot = FALSE
  WithUseOr = FALSE
  WithReads = FALSE
  WithMode = FALSE
  WithExec = FALSE
  MaxIds = 2
  ArgModes = {0}
  WithFixtures = FALSE
  WithAttrs = TRUE
  NestSet <- NestNone
  TwoRuns = TRUE
  OpsB = 2
  EqualLayers = FALSE
  UseOrRoot = FALSE
INVARIANT Visible
INVARIANT Shadow
INVARIANT DeleteLocal
INVARIANT ScopeEnd
INVARIANT RootAttr
INVARIANT CleanupOnce
INVARIANT CleanupLifo
INVARIANT CleanupDespiteErrors
INVARIANT CleanupLayer
INVARIANT FixtureCleanup
INVARIANT ExecStepsRestore
INVARIANT ApiErrors
INVARIANT Shape
INVARIANT ViewsAgree
INVARIANT Emit
