"""C11 -- step matching and dispatch: full-text match, right definition, right arguments.

(S) specs/StepRegistry.tla   (P)+(MC) specs/StepRegistry_MC.tla   judge: specs/StepRegistry_Trace.tla

TLC enumerates (a) one registration of every pattern of the big pool under every matcher kind and (b) every
registration history of up to FullRegs registrations over the small pool (matcher switches, module ends, default
matcher, new / re-used functions) plus a seeded hash sample of the longer ones, checks the design-level laws and
emits each history with the predicted register results and the predicted result of every lookup.  The driver replays a history on the real code: the step modules of the history are written to a
scratch directory and loaded with behave.runner_util.load_step_modules() (so "end of module" is the real reset to
the default matcher), registrations go through the decorators of a fresh StepRegistry() while a fresh
StepMatcherFactory() is installed, then every lookup (step type x text) is done with StepRegistry.find_match() and
the match is run with recording step functions.  The recorded rows are judged by TLC (StepRegistry_Trace)."""
import json
import os
import shutil
import sys
import tempfile
import types

from vlib import trace

LOOK_TYPES = ["given", "when", "step"]          # = LookTypes of StepRegistry_MC
NFUNCS = 8
REC_MODULE = "_verif_c11_rec"
PARSE_SPEC = {"any": "}", "int": ":d}", "word": ":w}", "float": ":f}", "custom": ":Colour}",
              "many": ":Hue+}", "optional": ":SpColour?}", "many0": ":SpColour*}", "falsy": ":Falsy}"}
FUSED = ("optional", "many0")          # cfparse cardinality fields that may take nothing; they own the blank before them
FALSY = {"none": None, "zero": 0, "blank": "", "no": False, "nil": []}      # = FalsyVal of StepRegistry.tla
COLOURS = "red|green|blue"
RE_BODY = {"any": ".+?", "int": r"[-+]?\d+", "word": r"\w+", "float": r"[-+]?\d*\.\d+", "custom": COLOURS,
           "many": "(?:%s)(?:,(?:%s))*" % (COLOURS, COLOURS), "optional": COLOURS, "many0": COLOURS,
           "falsy": "none|zero|blank|no|nil"}


def j(chars):
    return "".join(chars)


def render(pat, kind):
    """concrete pattern text of an abstract pattern (the driver's own rendering; must agree with Render of the spec)"""
    out = []
    for n, e in enumerate(pat):
        sp = "" if n == 0 else " "
        name = j(e["name"])
        if e["k"] == "lit":
            out.append(sp + j(e["w"]))
        elif kind in ("parse", "cfparse"):
            out.append(("" if e["k"] in FUSED else sp) + "{" + name + PARSE_SPEC[e["k"]])
        else:
            group = ("(?P<%s>%s)" % (name, RE_BODY[e["k"]])) if name else "(%s)" % RE_BODY[e["k"]]
            out.append("(?: %s)?" % group if e["k"] in FUSED else sp + group)
    text = "".join(out)
    return "^" + text + "$" if kind == "re0" else text


def enc_val(v):
    """values as uniformly shaped records (TLC compares records of one shape only)"""
    r = {"ty": "other", "s": [], "i": 0, "l": []}
    if v is None:
        r["ty"] = "none"
    elif isinstance(v, bool):
        r["ty"], r["i"] = "bool", int(v)
    elif isinstance(v, str):
        r["ty"], r["s"] = "str", list(v)
    elif isinstance(v, int) and abs(v) < 2 ** 30:
        r["ty"], r["i"] = "int", v
    elif isinstance(v, float) and abs(v) < 10 ** 5 and abs(v * 1000 - round(v * 1000)) < 1e-9:
        r["ty"], r["i"] = "float", int(round(v * 1000))
    elif isinstance(v, list) and all(isinstance(x, str) for x in v):
        r["ty"], r["l"] = "list", [list(x) for x in v]
    else:
        r["s"] = list(repr(v))[:40]
    return r


class Env(object):
    """everything that is set up once per run and restored afterwards"""

    def __init__(self):
        import parse
        from behave import matchers
        from behave.configuration import Configuration
        from behave.runner import Context
        self.tmp = tempfile.mkdtemp(prefix="verif-c11-")
        self.matchers = matchers
        self.saved_factory = matchers._the_step_matcher_factory          # set-up only, never used in a verdict
        self.saved_types = dict(matchers.ParseMatcher.TYPE_REGISTRY)
        self.saved_path = list(sys.path)
        # recording step functions, one source line (= one location) each
        # and two shared functools.wraps decorators: a step function may be registered bare, as deco_a(f) or as
        # deco_b(deco_a(f)); the wrapper closures of one decorator all share one source line
        src = ("import functools\nCALLS = []\n"
               "def deco_a(func):\n    @functools.wraps(func)\n    def wrapper(*args, **kwargs):\n        return func(*args, **kwargs)\n    return wrapper\n"
               "def deco_b(func):\n    @functools.wraps(func)\n    def wrapper(*args, **kwargs):\n        return func(*args, **kwargs)\n    return wrapper\n"
               + "".join("def f%d(context, *args, **kwargs): CALLS.append((%d, args, kwargs))\n" % (n, n) for n in range(1, NFUNCS + 1)))
        self.funcs_mod = types.ModuleType("c11_step_functions")
        exec(compile(src, os.path.join(self.tmp, "c11_step_functions.py"), "exec"), self.funcs_mod.__dict__)
        fm = self.funcs_mod
        self.funcs = {}
        for n in range(1, NFUNCS + 1):
            f = getattr(fm, "f%d" % n)
            self.funcs[(n, 0)] = f
            self.funcs[(n, 1)] = fm.deco_a(f)
            self.funcs[(n, 2)] = fm.deco_b(fm.deco_a(f))
        self.func_id = {id(f): n for (n, w), f in self.funcs.items()}
        self.calls = self.funcs_mod.CALLS

        @parse.with_pattern(r"red|green|blue")
        def parse_colour(text):
            return text.upper()

        @parse.with_pattern(r" red| green| blue")
        def parse_spcolour(text):
            return text.strip().upper()
        @parse.with_pattern(r"none|zero|blank|no|nil")
        def parse_falsy(text):
            v = FALSY[text]
            return list(v) if isinstance(v, list) else v            # a converter whose result is not truthy
        @parse.with_pattern(r"red|green|blue|pink")
        def parse_colour2(text):
            return text.capitalize()
        # Hue: the element type of the cardinality field {x:Hue+} (never re-registered: cfparse derives and keeps Hue+)
        self.types = {"Colour": parse_colour, "Hue": parse_colour, "SpColour": parse_spcolour, "Falsy": parse_falsy}
        self.retype = {"Colour": parse_colour2}            # the second converter registered under the same name

        class RunnerStub(object):
            config = Configuration(command_args=[], load_config=False)
        self.runner = RunnerStub()
        self.context = Context(self.runner)
        self.rec = types.ModuleType(REC_MODULE)
        sys.modules[REC_MODULE] = self.rec
        self.nhist = 0

    def close(self):
        self.matchers._the_step_matcher_factory = self.saved_factory
        reg = self.matchers.ParseMatcher.TYPE_REGISTRY
        reg.clear()
        reg.update(self.saved_types)
        sys.modules.pop(REC_MODULE, None)
        sys.path[:] = self.saved_path
        shutil.rmtree(self.tmp, ignore_errors=True)


def replay_history(env, acts, texts):
    """run one history on the real code; returns (observed acts, observed lookups, info)"""
    import behave
    from behave.matchers import StepMatcherFactory, MatchWithError, Match
    from behave.model import Step
    from behave.runner_util import load_step_modules
    from behave.step_registry import StepRegistry, AmbiguousStep
    M = env.matchers
    registry = StepRegistry()
    factory = StepMatcherFactory()
    M._the_step_matcher_factory = factory
    M.ParseMatcher.TYPE_REGISTRY.clear()
    behave.register_type(**env.types)
    decorators = {ty: registry.make_decorator(ty) for ty in ("given", "when", "then", "step")}
    observed = {}          # act index -> (res, exception name, matcher class name of the appended entry)

    def retype():
        behave.register_type(**env.retype)
    env.rec.retype = retype
    env.rec.clear = registry.clear                                   # the public StepRegistry.clear() of the same object

    def reg(index, ty, text, func, wrap):
        before = list(registry.steps[ty])
        try:
            decorators[ty](text)(env.funcs[(func, wrap)])
        except AmbiguousStep:
            observed[index] = ("ambiguous", "AmbiguousStep", "")
            return
        except Exception as e:                                        # noqa: recorded, judged by C11.ambiguous
            observed[index] = ("exc", type(e).__name__, "")
            return
        after = registry.steps[ty]
        if len(after) == len(before) and all(a is b for a, b in zip(after, before)):
            observed[index] = ("ignored", "", "")
        elif len(after) == len(before) + 1 and all(a is b for a, b in zip(after, before)) and after[-1].func is env.funcs[(func, wrap)]:
            observed[index] = ("ok", "", getattr(type(after[-1]), "NAME", "") or "")
        else:
            observed[index] = ("exc", "list-changed-otherwise", "")
    env.rec.reg = reg

    # ---- the step modules of this history
    env.nhist += 1
    d = os.path.join(env.tmp, "h%d" % env.nhist)
    os.mkdir(d)
    modules = [[]]
    first = 0
    if acts and acts[0]["a"] == "setdef":
        first = 1
    for index in range(first, len(acts)):
        a = acts[index]
        if a["a"] == "use":
            modules[-1].append("use_step_matcher(%r)" % a["kind"])
        elif a["a"] == "end":
            modules.append([])
        elif a["a"] == "retype":
            modules[-1].append("_R.retype()")
        elif a["a"] == "clear":
            modules[-1].append("_R.clear()")
        elif a["a"] == "reg":
            modules[-1].append("_R.reg(%d, %r, %r, %d, %d)" % (index, a["ty"], j(a["text"]), a["func"], a.get("wrap", 0)))
    for n, lines in enumerate(modules):
        with open(os.path.join(d, "m%02d_steps.py" % n), "w") as fh:
            fh.write("import sys\n_R = sys.modules[%r]\n" % REC_MODULE + "\n".join(lines) + "\n")
    load_exc = ""
    try:
        if first:
            behave.use_step_matcher(acts[0]["kind"])                  # environment.py
        load_step_modules([d])
    except Exception as e:                                            # noqa
        load_exc = type(e).__name__
    shutil.rmtree(d, ignore_errors=True)

    obs_acts = []
    for index, a in enumerate(acts):
        row = {"a": a["a"], "kind": a["kind"], "ty": a["ty"], "pat": a["pat"], "func": a["func"], "res": ""}
        if a["a"] == "reg":
            row["res"] = observed.get(index, ("exc", load_exc or "not-executed", ""))[0]
        obs_acts.append(row)

    # ---- lookups
    looks = []
    for ty in LOOK_TYPES:
        for toks in texts:
            text = " ".join(j(t) for t in toks)
            l = {"ty": ty, "toks": toks, "out": "none", "func": 0, "args": [], "run": "skip", "calls": 0, "pos": [], "kw": []}
            looks.append(l)
            step = Step("c11.feature", 1, ty.title(), ty, text)
            try:
                m = registry.find_match(step)
            except Exception as e:                                    # noqa: recorded, judged
                l["out"] = "exc"
                continue
            if m is None:
                continue
            l["func"] = env.func_id.get(id(getattr(m, "func", None)), 99)
            if isinstance(m, MatchWithError) or not isinstance(m, Match):
                l["out"] = "error"
                continue
            l["out"] = "match"
            try:
                for arg in m.arguments:
                    l["args"].append({"start": int(arg.start), "end": int(arg.end),
                                      "has_orig": arg.original is not None,
                                      "orig": list(arg.original) if isinstance(arg.original, str) else [],
                                      "has_name": arg.name is not None, "name": list(arg.name or ""),
                                      "val": enc_val(arg.value)})
            except Exception:                                         # noqa
                l["out"] = "exc"
                continue
            del env.calls[:]
            try:
                m.run(env.context)
                l["run"] = "ok"
            except Exception:                                         # noqa
                l["run"] = "exc"
            l["calls"] = len(env.calls)
            if len(env.calls) == 1:
                fid, args, kwargs = env.calls[0]
                if fid != l["func"]:
                    l["calls"] = 0
                l["pos"] = [enc_val(v) for v in args]
                l["kw"] = [{"name": list(k), "val": enc_val(v)} for k, v in sorted(kwargs.items())]
    info = {"kinds": {i: o[2] for i, o in observed.items()}, "exc": {i: o[1] for i, o in observed.items() if o[1]},
            "load_exc": load_exc}
    return obs_acts, looks, info


def describe(case_acts):
    out = []
    for a in case_acts:
        if a["a"] == "reg":
            out.append("@%s(%r)->%sf%d%s [%s]" % (a["ty"], j(a["text"]), ("", "deco_a(", "deco_b(deco_a(")[a.get("wrap", 0)],
                                                 a["func"], ")" * a.get("wrap", 0), a["kind"]))
        elif a["a"] == "end":
            out.append("<module end>")
        elif a["a"] == "setdef":
            out.append("environment: use_step_matcher(%r)" % a["kind"])
        elif a["a"] == "retype":
            out.append("register_type(Colour=<second converter>)")
        elif a["a"] == "clear":
            out.append("registry.clear()")
        else:
            out.append("use_step_matcher(%r)" % a["kind"])
    return "; ".join(out)


def check_rendering(case):
    for a in case["acts"]:
        if a["a"] == "reg" and render(a["pat"], a["kind"]) != j(a["text"]):
            raise RuntimeError("driver and spec disagree on the rendering of %s for %s: %r vs %r" % (
                json.dumps(a["pat"]), a["kind"], render(a["pat"], a["kind"]), j(a["text"])))


def divergence(case, obs_acts, looks):
    """spec prediction vs observation (informational full conformance)"""
    n = 0
    for a, o in zip(case["acts"], obs_acts):
        if a["a"] == "reg" and a["res"] != o["res"]:
            n += 1
    k = 0
    for ti in range(len(LOOK_TYPES)):
        for pred in case["look"][ti]:
            l = looks[k]
            k += 1
            if pred["func"] != l["func"] or (l["out"] == "match" and pred["args"] != l["args"]) or l["out"] in ("error", "exc"):
                n += 1
    return n


def judge(chk, cases, env, chunks):
    rows, meta = [], {}
    for rid, case in enumerate(cases, 1):
        check_rendering(case)
        obs_acts, looks, info = replay_history(env, case["acts"], case["texts"])
        rows.append({"id": rid, "acts": obs_acts, "looks": looks})
        meta[rid] = (case, info)
        chk.divergences += divergence(case, obs_acts, looks)
        chk.evaluations += len(looks) + sum(1 for a in obs_acts if a["a"] == "reg")
    verdicts = trace.judge_rows(chk, "StepRegistry_Trace", rows, chunks=chunks, min_chunk=20)
    byid = {r["id"]: r for r in rows}
    for rid, vs in sorted(verdicts.items()):
        case, info = meta[rid]
        row = byid[rid]
        for v in vs:
            clause, where, idx, extra = v[2], v[3], v[4], v[5]
            if where == "reg":
                a = row["acts"][idx - 1]
                sig = "%s|reg|kind=%s|obs=%s" % (clause, extra, a["res"])
                detail = "history: %s -- registration #%d observed %s%s" % (
                    describe(case["acts"][:idx]), idx, a["res"], (" (%s)" % info["exc"][idx - 1]) if (idx - 1) in info["exc"] else "")
            else:
                l = row["looks"][idx - 1]
                sig = "%s|look|%s|out=%s" % (clause, extra, l["out"])
                detail = "history: %s -- lookup %s %r observed out=%s func=f%d args=%s call=%s pos=%s kw=%s" % (
                    describe(case["acts"]), l["ty"], " ".join(j(t) for t in l["toks"]), l["out"], l["func"],
                    [(a["start"], a["end"], j(a["orig"]) if a["has_orig"] else None, j(a["name"]) if a["has_name"] else None,
                      show_val(a["val"])) for a in l["args"]], l["run"] + "/%d" % l["calls"],
                    [show_val(x) for x in l["pos"]], {j(x["name"]): show_val(x["val"]) for x in l["kw"]})
            chk.violation(clause, sig, detail, {"case": case})
    return rows


def show_val(v):
    return {"str": j(v["s"]), "int": v["i"], "float": v["i"] / 1000.0, "list": [j(x) for x in v["l"]], "bool": bool(v["i"]),
            "none": None}.get(v["ty"], "<%s>" % j(v["s"]))


def run(chk):
    cfg = "StepRegistry_MC_quick.cfg" if chk.quick() else "StepRegistry_MC_thorough.cfg"
    workers = int(os.environ.get("VERIF_WORKERS") or 16)
    r = chk.tlc("StepRegistry_MC", cfg, timeout=1200 if chk.quick() else 2400, workers=workers, env={"C11_SEED": chk.seed})
    for name in r.violated:
        chk.violation("C11.design." + name, "design:%s" % name, "TLC: invariant %s violated in StepRegistry_MC (%s)" % (name, cfg))
    cases, seen = [], set()
    for t in r.by_tag("CASE"):
        c = json.loads(t[1])
        key = json.dumps(c["acts"], sort_keys=True)
        if key not in seen:                     # a small-pool pattern is also reached as a "single" behaviour
            seen.add(key)
            cases.append(c)
    cases.sort(key=lambda c: json.dumps(c["acts"], sort_keys=True))         # TLC's worker interleaving is not an input
    chk.exhaustive = True
    env = Env()
    try:
        rows = judge(chk, cases, env, chunks=workers)
    finally:
        env.close()
    chk.impl_traces = len(rows)
    pairs = set()
    found = 0
    outcomes = {}
    for row in rows:
        regs = [(a["kind"], json.dumps(a["pat"])) for a in row["acts"] if a["a"] == "reg"]
        for a in row["acts"]:
            if a["a"] == "reg":
                outcomes[a["res"]] = outcomes.get(a["res"], 0) + 1
        for l in row["looks"]:
            found += 1 if l["out"] == "match" else 0
            if len(regs) == 1:
                pairs.add((regs[0], l["ty"], json.dumps(l["toks"])))
    for row in rows[:1] + rows[len(rows) // 2: len(rows) // 2 + 1] + rows[-1:]:
        case = cases[row["id"] - 1]
        chk.sample({"history": describe(case["acts"]), "observed_register_results": [a["res"] for a in row["acts"] if a["a"] == "reg"],
                    "lookups": len(row["looks"]), "bound": sum(1 for l in row["looks"] if l["out"] == "match")})
    chk.rule = ("every pattern of the big pool x matcher kind x step type as a single registration, and every history of "
                "at most FullRegs registrations over the small pool (matcher switch / module end / default matcher / new or "
                "re-used function before each); longer histories up to MaxRegs: seeded hash sample; every history is "
                "followed by all lookups step type x derived text (2 instances, wrong case, changed literal, prefix, suffix "
                "per registered pattern); distinct = distinct histories")
    chk.extra["distinct_nontrivial"] = len(seen)
    nregs = {}
    for c in cases:
        n = sum(1 for a in c["acts"] if a["a"] == "reg")
        nregs[n] = nregs.get(n, 0) + 1
    chk.extra["histories_by_registrations"] = {str(k): v for k, v in sorted(nregs.items())}
    chk.extra["lookups_bound"] = found
    chk.extra["observed_register_results"] = outcomes
    chk.extra["distinct_single_pattern_lookups"] = len(pairs)
    chk.assumptions = [
        "parse / parse_type and the re module are part of the observed behaviour (third party, not a mutation target)",
        "patterns: literal words and fields separated by single blanks (an optional field owns its blank); texts: words "
        "separated by single blanks; behaviour of arbitrary user regular expressions is outside the model",
        "one step function per source location (same_step_definition compares locations)",
        "re0 patterns are rendered with ^...$ (the statement speaks about parse, cfparse and re for full-text matching)",
    ]


def replay(chk, payload):
    case = payload["replay"]["case"]
    env = Env()
    try:
        judge(chk, [case], env, chunks=1)
    finally:
        env.close()
    chk.impl_traces = 1
    chk.sample({"replayed": describe(case["acts"])})
