------------------------ MODULE GherkinParser_Trace ------------------------
(* Judge of C05 on rows recorded from the real parse_feature / parse_rule / *)
(* parse_scenario / parse_steps / parse_tags.  A row:                       *)
(*   id, entry, lines (abstract lines as rendered), nl (number of lines of  *)
(*   the text), obs = [k: accept|error|internal|timeout, n: line of the     *)
(*   ParserError, exc: exception type], fl (line of an injected fault, 0 =  *)
(*   none: then the judge takes the line at which the grammar stops, so     *)
(*   that EVERY row that is an accepted document plus one catalogued fault  *)
(*   is judged by C05.fault_line with the exact line).                      *)
(* Clauses speak about the OBSERVED outcome only.  The machine is used (a)  *)
(* to decide whether line fl is a catalogued grammar violation injected     *)
(* into a document the grammar accepts and (b) for the informational        *)
(* prediction mismatch <<"DIV", ..>>.                                       *)
EXTENDS GherkinParser, TLC, Json, IOUtils
Rows == ndJsonDeserialize(IOEnv.TRACE_FILE)

VARIABLE i
Init == i = 1
R == Rows[i]

Without(s, k) == SubSeq(s, 1, k - 1) \o SubSeq(s, k + 1, Len(s))

\* ---------------------------------------------------------------- the fault catalogue of the statement
\* ps = machine state before the injected line, ln = the injected line
FaultKind(ps, ln) ==
   LET c == Eff(ps, ln) IN
   IF ps.res.k # "live" \/ ps.state = "mltext" THEN ""
   ELSE IF c = "F" /\ ps.feature # 0 /\ ps.state \in {"steps", "table", "taggable"} THEN "second_feature"
   ELSE IF c = "t" /\ ps.state \in {"steps", "table"} THEN "text_after_steps"
   ELSE IF c = "E" /\ (ps.stmt = 0 \/ ps.elems[ps.stmt].k # "outline") THEN "examples_outside_outline"
   ELSE IF c = "Step" /\ ln.a \in {"and", "but"} /\ BgType(ps) = ""
           /\ (ps.state \in {"scenario", "background"} \/ (ps.state = "steps" /\ ps.last = "")) THEN "and_without_step"
   ELSE IF c = "Row" /\ ps.state = "table" /\ ps.hasTable /\ Len(ln.ps) # Len(ps.trows[1].cells) THEN "row_wrong_cells"
   ELSE IF c = "Tags" /\ ln.a = "bad" THEN "bad_tag"
   ELSE ""
\* the candidate line: the one the driver injected (fl), else the line at which the grammar (the machine) stops
Pred(r) == Outcome(Run(r.entry, r.lines))
FaultLine(r) == IF r.fl # 0 THEN r.fl ELSE LET p == Pred(r) IN IF p.k = "error" THEN p.n ELSE 0
\* the fault of row r at line k ("" if line k is not a catalogued fault in an otherwise accepted document)
FaultAt(r, k) ==
   IF k = 0 \/ k > Len(r.lines) THEN ""
   ELSE IF Run(r.entry, Without(r.lines, k)).res.k # "live" THEN ""
   ELSE IF r.entry = "tags" THEN          \* parse_tags: a line that is neither blank nor comment and has a word without '@'
        (IF r.lines[k].c \notin {"_", "#", "Lang"} /\ (r.lines[k].c # "Tags" \/ r.lines[k].a = "bad") THEN "bad_tag" ELSE "")
   ELSE FaultKind(Prefix(r.entry, SubSeq(r.lines, 1, k - 1)), r.lines[k])

Clauses(r) ==
   LET o == r.obs IN
      (IF o.k = "internal" THEN {"C05.internal"} ELSE {})
 \cup (IF o.k = "timeout" THEN {"C05.terminates"} ELSE {})
 \cup (IF o.k = "error" /\ ~(1 <= o.n /\ o.n <= r.nl) THEN {"C05.line_range"} ELSE {})
 \cup (IF o.k \notin {"accept", "error", "internal", "timeout"} THEN {"C05.internal"} ELSE {})

Agrees(p, o) == \/ p.k = "accept" /\ o.k = "accept"
                \/ p.k = "error" /\ o.k = "error" /\ p.n = o.n
                \/ p.k = "crash" /\ o.k = "internal" /\ p.why = o.exc

Next == /\ i <= Len(Rows)
        /\ \A c \in Clauses(R) : PrintT(<<"VERDICT", R.id, c>>)
        \* (raw rows -- a line truncated inside -- carry no abstract line sequence: outcome-class clauses only)
        /\ LET k == IF R.raw THEN 0 ELSE FaultLine(R)
               f == FaultAt(R, k) IN
           IF f = "" THEN TRUE
           ELSE /\ PrintT(<<"FAULT", R.id, f, k>>)
                /\ IF R.obs.k \in {"accept", "error"} /\ ~(R.obs.k = "error" /\ R.obs.n = k)
                   THEN PrintT(<<"VERDICT", R.id, "C05.fault_line", f, k>>) ELSE TRUE
        /\ LET p == Pred(R) IN IF R.raw \/ Agrees(p, R.obs) THEN TRUE ELSE PrintT(<<"DIV", R.id, p.k, p.n, p.why>>)
        /\ i' = i + 1
Spec == Init /\ [][Next]_i
Done == PrintT(<<"DONE", Len(Rows), TLCGet("stats").diameter>>)
=============================================================================
