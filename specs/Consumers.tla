----------------------------- MODULE Consumers -----------------------------
(***************************************************************************)
(* C15 -- the consumers of the formatter event stream.                     *)
(*                                                                         *)
(* (S) automata transcribed callback by callback from the code:            *)
(*   behave/formatter/json.py      JSONFormatter  (JsonFmt: the report     *)
(*        under construction `current_feature_data["elements"]`, the       *)
(*        cursor `_step_index`, `current_scenario`,                        *)
(*        finish_current_scenario writes into elements[-1] -- called by    *)
(*        background() too since the repair of DESIGN section 8 #12; every *)
(*        partial operation -- assert, ["elements"] of a dict without that *)
(*        key, steps[_step_index] beyond the list, writing to a closed     *)
(*        stream -- is an explicit CRASH state; a MatchWithError carries   *)
(*        arguments = [] since the repair of #11),                         *)
(*   behave/formatter/plain.py     PlainFormatter (PlainFmt: the queue     *)
(*        `steps`, reset by feature / rule / background / scenario,        *)
(*        result() prints the POPPED step with the popped step's status),  *)
(*   behave/formatter/progress.py  ProgressFormatterBase + Step /          *)
(*        ScenarioStep variants (ProgFmt: queue, dot_status table, one     *)
(*        line per feature resp. per scenario) and the Scenario variant    *)
(*        (SProgFmt),                                                      *)
(*   behave/json_parser.py         JsonParser (ReadBack: background        *)
(*        elements become feature.background, scenarios are added with     *)
(*        the background current at that moment, use_background = False    *)
(*        since the repair of #13).                                        *)
(* They are fed with the `fmt` events of Run.tla's alphabet:               *)
(*   uri feature rule background scenario step match result rule_finished  *)
(*   eof close,   event = [name, el, pos, status, undef, bad, n]           *)
(*   (el: element id of feature / rule / scenario, for step / match /      *)
(*    result the scenario they belong to; pos: step position; status: the  *)
(*    step status handed to result(); undef: match is a NoMatch; bad: the  *)
(*    match is a MatchWithError (arguments = None); n: own steps of the    *)
(*    announced background).                                               *)
(* Statuses the formatters READ from model objects during a callback       *)
(* (scenario status in finish_current_scenario, feature status in eof,     *)
(* status of the popped step in plain) are taken from the model after the  *)
(* run, X.st / X.sst: at those moments they are final (Run.tla: a scenario *)
(* is finished before the next one is announced, a feature before eof, a   *)
(* step's status is set before result()).                                  *)
(*                                                                         *)
(* (P) the clauses of C15 over (events, model after the run, reports):     *)
(*   Grammar  JsonMirror  JsonValid  ReadBackClause  PlainOnce             *)
(*   ProgressOnce  Agree  -- each returns a set of <<clause[/family],      *)
(*   detail>>; the one family left names the known finding of the code as  *)
(*   it is (DESIGN section 8 #4, dry-run half), guarded by a narrow        *)
(*   predicate.  #11 #12 #13 are repaired: a return is a plain violation.  *)
(*                                                                         *)
(* X = [dry, nsteps, defd, st, sst]: functions of the element id -- number *)
(* of steps of a scenario (0 otherwise), which steps have a definition,    *)
(* final status, final step statuses.                                      *)
(***************************************************************************)
EXTENDS Naturals, Integers, Sequences, FiniteSets, TLC

RECURSIVE Fold(_,_,_,_)
Fold(Op(_,_), s, q, i) == IF i > Len(q) THEN s ELSE Fold(Op, Op(s, q[i]), q, i + 1)
SeqSet(q) == {q[i] : i \in DOMAIN q}
Ids(n) == [i \in 1..n |-> i]

FE(name, el, pos, status, undef, bad, n) ==
   [name |-> name, el |-> el, pos |-> pos, status |-> status, undef |-> undef, bad |-> bad, n |-> n]

StOf(X, el) == IF el \in DOMAIN X.st THEN X.st[el] ELSE "?"
SstOf(X, el, p) == IF el \in DOMAIN X.sst /\ p \in DOMAIN X.sst[el] THEN X.sst[el][p] ELSE "?"
NOf(X, el) == IF el \in DOMAIN X.nsteps THEN X.nsteps[el] ELSE 0
DefOf(X, el, p) == IF el \in DOMAIN X.defd /\ p \in DOMAIN X.defd[el] THEN X.defd[el][p] ELSE TRUE

\* THE CODE AS IT IS in /repo (generator side, used by Consumers_MC and by the attribution rule of Consumers_Trace):
\*   dryundef  model.py Scenario.run: a dry run reports undefined steps with match(NoMatch) + result -- NOT repaired
\*             (known finding, DESIGN section 8 #4); switch to TRUE in the commit that repairs it
CodeGen == [dryundef |-> FALSE]

\* ======================================================================= JsonFmt  (formatter/json.py)
JStep(pos) == [pos |-> pos, match |-> FALSE, status |-> ""]
JElem(type, el, steps) == [type |-> type, el |-> el, steps |-> steps, status |-> ""]
JInit == [cfd |-> FALSE, feat |-> 0, els |-> <<>>, idx |-> 0, cur |-> 0,
          out |-> <<>>, toks |-> <<>>, count |-> 0, open |-> TRUE, crash |-> ""]
JCrash(s, kind) == [s EXCEPT !.crash = kind]
\* property current_feature_element: assert current_feature_data is not None; ["elements"][-1]
JCfe(s) == IF ~s.cfd THEN "AssertionError" ELSE IF s.els = <<>> THEN "KeyError" ELSE ""
\* finish_current_scenario
JFinish(s, X) == IF s.cur = 0 THEN s
                 ELSE IF JCfe(s) # "" THEN JCrash(s, JCfe(s))
                 ELSE [s EXCEPT !.els[Len(s.els)].status = StOf(X, s.cur)]
\* add_feature_element
JAdd(s, x) == IF ~s.cfd THEN JCrash(s, "AssertionError") ELSE [s EXCEPT !.els = Append(@, x), !.idx = 0]

JNext(s, e, X) ==
   IF s.crash # "" THEN s
   ELSE CASE e.name = "feature" ->              \* reset(); current_feature_data = {...}
               [s EXCEPT !.cfd = TRUE, !.feat = e.el, !.els = <<>>, !.idx = 0, !.cur = 0]
          [] e.name = "background" ->           \* finish_current_scenario(); current_scenario = None; add element,
                                                \* _step_index = 0, self.step(s) for the background's own steps
               LET s1 == [JFinish(s, X) EXCEPT !.cur = 0] IN
               IF s1.crash # "" THEN s1 ELSE JAdd(s1, JElem("background", 0, [k \in 1..e.n |-> JStep(k)]))
          [] e.name = "scenario" ->             \* finish_current_scenario(); current_scenario = scenario; add element
               LET s1 == JFinish(s, X) IN
               IF s1.crash # "" THEN s1 ELSE JAdd([s1 EXCEPT !.cur = e.el], JElem("scenario", e.el, <<>>))
          [] e.name = "step" ->
               IF JCfe(s) # "" THEN JCrash(s, JCfe(s))
               ELSE [s EXCEPT !.els[Len(s.els)].steps = Append(@, JStep(e.pos))]
          [] e.name = "match" ->                \* for argument in match.arguments ([] for NoMatch and MatchWithError);
                                                \* if match.location: steps[_step_index]["match"]
               IF e.undef THEN s
               ELSE IF JCfe(s) # "" THEN JCrash(s, JCfe(s))
               ELSE IF s.idx + 1 > Len(s.els[Len(s.els)].steps) THEN JCrash(s, "IndexError")
               ELSE [s EXCEPT !.els[Len(s.els)].steps[s.idx + 1].match = TRUE]
          [] e.name = "result" ->               \* steps[_step_index]["result"] = {...}; _step_index += 1
               IF JCfe(s) # "" THEN JCrash(s, JCfe(s))
               ELSE IF s.idx + 1 > Len(s.els[Len(s.els)].steps) THEN JCrash(s, "IndexError")
               ELSE [s EXCEPT !.els[Len(s.els)].steps[s.idx + 1].status = e.status, !.idx = @ + 1]
          [] e.name = "eof" ->
               IF ~s.cfd THEN s
               ELSE LET s1 == JFinish(s, X) IN
                    IF s1.crash # "" THEN s1
                    ELSE IF ~s1.open THEN JCrash(s1, "ClosedStream")
                    ELSE [s1 EXCEPT !.out = Append(@, [el |-> s1.feat, status |-> StOf(X, s1.feat), els |-> s1.els]),
                                    !.toks = @ \o <<IF s1.count = 0 THEN "[" ELSE ",", "F">>,
                                    !.count = @ + 1, !.cfd = FALSE, !.feat = 0, !.els = <<>>, !.idx = 0, !.cur = 0]
          [] e.name = "close" ->
               IF ~s.open THEN JCrash(s, "ClosedStream")
               ELSE [s EXCEPT !.toks = @ \o (IF s.count = 0 THEN <<"[">> ELSE <<>>) \o <<"]">>, !.open = FALSE]
          [] OTHER -> s                         \* uri, rule, rule_finished: Formatter base class, no-ops
JsonRun(evs, X) == Fold(LAMBDA s, e : JNext(s, e, X), JInit, evs, 1)
\* the text written is a JSON list:  [ F (, F)* ]  or  [ ]
ToksValid(t) == /\ Len(t) >= 2 /\ t[1] = "[" /\ t[Len(t)] = "]"
                /\ (Len(t) = 2 \/ Len(t) % 2 = 1)
                /\ \A i \in 2..(Len(t) - 1) : t[i] = IF i % 2 = 0 THEN "F" ELSE ","

\* ======================================================================= ReadBack  (json_parser.py on the tree the JSON text holds)
\* -> Seq([el, scens: Seq([el, npre, steps: Seq([pos, status])])]); npre = steps that all_steps has in front of `steps`
\* (always 0: add_feature_element sets scenario.use_background = False, the scenario's steps hold the background steps)
RBStatus(s) == IF s = "" THEN "untested" ELSE s
RBFeature(f) ==
   LET RECURSIVE Walk(_,_,_)
       Walk(i, nbg, acc) ==
          IF i > Len(f.els) THEN acc
          ELSE LET x == f.els[i] IN
               IF x.type = "background" THEN Walk(i + 1, Len(x.steps), acc)      \* feature.background = background
               ELSE Walk(i + 1, nbg, Append(acc, [el |-> x.el, npre |-> 0,
                                                 steps |-> [k \in DOMAIN x.steps |-> [pos |-> x.steps[k].pos, status |-> RBStatus(x.steps[k].status)]]]))
   IN [el |-> f.el, scens |-> Walk(1, 0, <<>>)]
ReadBack(J) == [k \in DOMAIN J |-> RBFeature(J[k])]

\* ======================================================================= PlainFmt  (formatter/plain.py)
PInit == [q |-> <<>>, scen |-> 0, lines |-> <<>>, open |-> TRUE, crash |-> ""]
PNext(s, e, X) ==
   IF s.crash # "" THEN s
   ELSE CASE e.name \in {"feature", "rule", "background"} ->       \* reset_steps(); write the heading
               IF ~s.open THEN [s EXCEPT !.crash = "ClosedStream"] ELSE [s EXCEPT !.q = <<>>]
          [] e.name = "scenario" ->
               IF ~s.open THEN [s EXCEPT !.crash = "ClosedStream"] ELSE [s EXCEPT !.q = <<>>, !.scen = e.el]
          [] e.name = "step" -> [s EXCEPT !.q = Append(@, [el |-> e.el, pos |-> e.pos])]
          [] e.name = "result" ->                                   \* step = self.steps.pop(0); prints step.name, step.status
               IF s.q = <<>> THEN [s EXCEPT !.crash = "IndexError"]
               ELSE IF ~s.open THEN [s EXCEPT !.crash = "ClosedStream"]
               ELSE [s EXCEPT !.q = Tail(@),
                              !.lines = Append(@, [scen |-> s.scen, pos |-> Head(s.q).pos, status |-> SstOf(X, Head(s.q).el, Head(s.q).pos)])]
          [] e.name = "eof" -> IF ~s.open THEN [s EXCEPT !.crash = "ClosedStream"] ELSE s
          [] e.name = "close" -> [s EXCEPT !.open = FALSE]
          [] OTHER -> s
PlainRun(evs, X) == Fold(LAMBDA s, e : PNext(s, e, X), PInit, evs, 1)

\* ======================================================================= ProgFmt  (formatter/progress.py, step variants progress2 / progress3)
DotOf(s) == CASE s = "passed" -> "." [] s = "failed" -> "F" [] s = "error" -> "E" [] s = "hook_error" -> "H"
              [] s = "skipped" -> "S" [] s = "untested" -> "_" [] s = "untested_pending" -> "p"
              [] s = "untested_undefined" -> "u" [] s = "undefined" -> "U" [] s = "pending" -> "P"
              [] s = "pending_warn" -> "p" [] OTHER -> "?"          \* "?" = not in dot_status: KeyError
GInit == [q |-> 0, p2 |-> <<>>, p3 |-> <<>>, open |-> TRUE, crash |-> ""]
AddChar(lines, c) == IF lines = <<>> THEN lines ELSE [lines EXCEPT ![Len(lines)].chars = Append(@, c)]
GNext(s, e) ==
   IF s.crash # "" THEN s
   ELSE CASE e.name = "feature" -> IF ~s.open THEN [s EXCEPT !.crash = "ClosedStream"]
                                   ELSE [s EXCEPT !.p2 = Append(@, [feat |-> e.el, chars |-> <<>>])]
          [] e.name = "scenario" -> IF ~s.open THEN [s EXCEPT !.crash = "ClosedStream"]
                                    ELSE [s EXCEPT !.p3 = Append(@, [scen |-> e.el, chars |-> <<>>])]
          [] e.name = "step" -> [s EXCEPT !.q = @ + 1]
          [] e.name = "result" ->                                   \* self.steps.pop(0); dot_status[step.status]
               IF s.q = 0 THEN [s EXCEPT !.crash = "IndexError"]
               ELSE IF DotOf(e.status) = "?" THEN [s EXCEPT !.crash = "KeyError"]
               ELSE IF ~s.open THEN [s EXCEPT !.crash = "ClosedStream"]
               ELSE [s EXCEPT !.q = @ - 1, !.p2 = AddChar(@, DotOf(e.status)), !.p3 = AddChar(@, DotOf(e.status))]
          [] e.name = "eof" -> IF ~s.open THEN [s EXCEPT !.crash = "ClosedStream"] ELSE [s EXCEPT !.q = 0]     \* reset()
          [] e.name = "close" -> [s EXCEPT !.open = FALSE]
          [] OTHER -> s
ProgRun(evs) == Fold(LAMBDA s, e : GNext(s, e), GInit, evs, 1)

\* scenario variant (progress): the status of the previous scenario is printed when the next one or eof arrives
SPInit == [q |-> 0, cur |-> 0, p1 |-> <<>>, open |-> TRUE, crash |-> ""]
SPReport(s, X) == IF s.cur = 0 THEN s
                  ELSE IF DotOf(StOf(X, s.cur)) = "?" THEN [s EXCEPT !.crash = "KeyError"]
                  ELSE IF ~s.open THEN [s EXCEPT !.crash = "ClosedStream"]
                  ELSE [s EXCEPT !.p1 = AddChar(@, DotOf(StOf(X, s.cur)))]
SPNext(s, e, X) ==
   IF s.crash # "" THEN s
   ELSE CASE e.name = "feature" -> IF ~s.open THEN [s EXCEPT !.crash = "ClosedStream"]
                                   ELSE [s EXCEPT !.p1 = Append(@, [feat |-> e.el, chars |-> <<>>])]
          [] e.name = "scenario" -> [SPReport(s, X) EXCEPT !.cur = e.el]
          [] e.name = "step" -> [s EXCEPT !.q = @ + 1]
          [] e.name = "result" -> IF s.q = 0 THEN [s EXCEPT !.crash = "IndexError"] ELSE [s EXCEPT !.q = @ - 1]
          [] e.name = "eof" -> LET s1 == SPReport(s, X) IN
                               IF s1.crash # "" THEN s1 ELSE IF ~s1.open THEN [s1 EXCEPT !.crash = "ClosedStream"]
                               ELSE [s1 EXCEPT !.q = 0, !.cur = 0]
          [] e.name = "close" -> [s EXCEPT !.open = FALSE]
          [] OTHER -> s
SProgRun(evs, X) == Fold(LAMBDA s, e : SPNext(s, e, X), SPInit, evs, 1)


\* ======================================================================= analysis of an event stream (computed once)
\* shown = Seq([feat, scens]) in announcement order; res[s] = positions of the result events of scenario s in order
ShNext(a, e) == IF e.name = "feature" THEN Append(a, [feat |-> e.el, scens |-> <<>>])
                ELSE IF e.name = "scenario" /\ a # <<>> THEN [a EXCEPT ![Len(a)].scens = Append(@, e.el)]
                ELSE a
Analyse(evs) ==
   LET shown == Fold(ShNext, <<>>, evs, 1)
       scens == UNION {SeqSet(shown[k].scens) : k \in DOMAIN shown}
       rix == SelectSeq(Ids(Len(evs)), LAMBDA i : evs[i].name = "result")
   IN [shown |-> shown, scens |-> scens,
       results |-> [k \in DOMAIN rix |-> evs[rix[k]]],
       res |-> [s \in scens |-> LET q == SelectSeq(rix, LAMBDA i : evs[i].el = s) IN [k \in DOMAIN q |-> evs[q[k]].pos]]]
ResOf(a, s) == IF s \in DOMAIN a.res THEN a.res[s] ELSE <<>>
Processed(a, s, p) == \E k \in DOMAIN ResOf(a, s) : ResOf(a, s)[k] = p
\* the defect of DESIGN section 8 #4, as narrow as it is: a dry run in which an undefined step got no result although a
\* later step of the same scenario got one
DryGap(a, X, s) == X.dry /\ \E p, q \in 1..NOf(X, s) : p < q /\ ~DefOf(X, s, p) /\ ~Processed(a, s, p) /\ Processed(a, s, q)
Fam(clause, family) == IF family = "none" THEN clause ELSE clause \o "/" \o family
KF_DRY == "dryrun_undefined_no_callbacks"

\* ======================================================================= C15.grammar
\*   ( uri ( feature ( scenario step^n (match result)^m )* eof )? )* close       m <= n, steps 1..n, results 1..m
\* rule, rule_finished and background are tolerated inside a feature wherever no scenario is in the middle of its step
\* announcements or between a match and its result (Appendix D: their presence is not constrained).
GrInit == [st |-> "top", cur |-> 0, k |-> 0, m |-> 0, wait |-> FALSE, closed |-> FALSE, bad |-> {}]
GrNext(g, e, X, a) ==
   LET n == NOf(X, g.cur)
       complete == g.st = "scen" /\ g.k = n /\ ~g.wait
       flag(d) == [g EXCEPT !.bad = @ \cup {<<"C15.grammar", d>>}]
   IN
   IF g.closed THEN flag("after_close")
   ELSE CASE e.name = "uri" -> IF g.st \in {"top", "uri"} THEN [g EXCEPT !.st = "uri"] ELSE [flag("uri_inside_feature") EXCEPT !.st = "uri", !.wait = FALSE]
          [] e.name = "feature" -> IF g.st = "uri" THEN [g EXCEPT !.st = "feat"] ELSE [flag("feature_without_uri") EXCEPT !.st = "feat", !.wait = FALSE]
          [] e.name \in {"rule", "rule_finished", "background"} ->
               IF g.st = "feat" \/ complete THEN g ELSE flag("misplaced_" \o e.name)
          [] e.name = "scenario" ->
               IF g.st = "feat" \/ complete THEN [g EXCEPT !.st = "scen", !.cur = e.el, !.k = 0, !.m = 0]
               ELSE [flag("misplaced_scenario") EXCEPT !.st = "scen", !.cur = e.el, !.k = 0, !.m = 0, !.wait = FALSE]
          [] e.name = "step" ->
               IF g.st = "scen" /\ g.m = 0 /\ ~g.wait /\ e.pos = g.k + 1 /\ e.pos <= n THEN [g EXCEPT !.k = e.pos]
               ELSE [flag("step_announcement") EXCEPT !.k = e.pos]
          [] e.name = "match" ->
               IF complete THEN [g EXCEPT !.wait = TRUE] ELSE [flag("misplaced_match") EXCEPT !.wait = TRUE]
          [] e.name = "result" ->
               IF g.st = "scen" /\ g.wait /\ e.pos = g.m + 1 /\ e.pos <= n THEN [g EXCEPT !.m = e.pos, !.wait = FALSE]
               ELSE IF g.st = "scen" /\ g.wait /\ e.pos > g.m + 1 /\ e.pos <= n
                    THEN \* a step was passed over: the known family if every step passed over is an undefined one of a dry run
                         [g EXCEPT !.m = e.pos, !.wait = FALSE,
                                   !.bad = @ \cup {<<Fam("C15.grammar", IF X.dry /\ \A p \in (g.m + 1)..(e.pos - 1) : ~DefOf(X, g.cur, p) THEN KF_DRY ELSE "none"),
                                                     "result_skips_step">>}]
               ELSE [flag(IF g.wait THEN "result_order" ELSE "result_without_match") EXCEPT !.m = e.pos, !.wait = FALSE]
          [] e.name = "eof" -> IF g.st = "feat" \/ complete THEN [g EXCEPT !.st = "top"] ELSE [flag("misplaced_eof") EXCEPT !.st = "top", !.wait = FALSE]
          [] e.name = "close" -> IF g.st \in {"top", "uri"} THEN [g EXCEPT !.closed = TRUE] ELSE [flag("close_inside_feature") EXCEPT !.closed = TRUE]
          [] OTHER -> flag("unknown_callback")
Grammar(evs, X, a) ==
   LET g == Fold(LAMBDA s, e : GrNext(s, e, X, a), GrInit, evs, 1) IN
   g.bad \cup (IF g.closed THEN {} ELSE {<<"C15.grammar", "no_close">>})

\* ======================================================================= C15.json_mirror
\* J = Seq([el, status, els: Seq([type, el, status, steps: Seq([pos, match, status])])])   ("" = no status / null)
ScenEls(f) == SelectSeq(f.els, LAMBDA x : x.type = "scenario")
JShape(J) == [k \in DOMAIN J |-> [feat |-> J[k].el, scens |-> LET q == ScenEls(J[k]) IN [j \in DOMAIN q |-> q[j].el]]]
JsonMirror(J, X, a) ==
   (IF JShape(J) # a.shown THEN {<<"C15.json_mirror", "features_or_scenarios">>} ELSE {})
   \cup UNION {
      LET f == J[k] IN
      (IF f.status # StOf(X, f.el) THEN {<<"C15.json_mirror", "feature_status">>} ELSE {})
      \cup UNION {
         LET x == f.els[i] IN
         IF x.type = "background"
         THEN \* a status on a background element belongs to some other element
              IF x.status = "" THEN {}
              ELSE {<<"C15.json_mirror", "status_on_background">>}
         ELSE (IF x.status = StOf(X, x.el) THEN {}
               ELSE {<<"C15.json_mirror", "scenario_status">>})
              \cup (IF [p \in DOMAIN x.steps |-> x.steps[p].pos] = Ids(NOf(X, x.el)) THEN {} ELSE {<<"C15.json_mirror", "steps">>})
              \cup (IF \A p \in DOMAIN x.steps :
                          LET sp == x.steps[p] IN
                          IF Processed(a, x.el, sp.pos) THEN sp.status = SstOf(X, x.el, sp.pos)
                          ELSE sp.status \in {"", SstOf(X, x.el, sp.pos)}
                    THEN {} ELSE {<<Fam("C15.json_mirror", IF DryGap(a, X, x.el) THEN KF_DRY ELSE "none"), "step_status">>})
         : i \in DOMAIN f.els}
      : k \in DOMAIN J}

\* ======================================================================= C15.json_readback (structure + step statuses of what the report holds)
ReadBackClause(RB, J) ==
   (IF [k \in DOMAIN RB |-> [feat |-> RB[k].el, scens |-> [j \in DOMAIN RB[k].scens |-> RB[k].scens[j].el]]] # JShape(J)
    THEN {<<"C15.json_readback", "features_or_scenarios">>} ELSE {})
   \cup UNION {
      LET q == ScenEls(J[k]) IN
      UNION {
         LET rb == RB[k].scens[j]
             x == q[j]
         IN
         (IF rb.npre = 0 THEN {} ELSE {<<"C15.json_readback", "all_steps_longer">>})
         \cup (IF [p \in DOMAIN rb.steps |-> rb.steps[p].pos] = [p \in DOMAIN x.steps |-> x.steps[p].pos] THEN {} ELSE {<<"C15.json_readback", "steps">>})
         \cup (IF \A p \in DOMAIN rb.steps \cap DOMAIN x.steps : x.steps[p].status # "" => rb.steps[p].status = x.steps[p].status
               THEN {} ELSE {<<"C15.json_readback", "step_status">>})
         : j \in DOMAIN q \cap DOMAIN RB[k].scens}
      : k \in DOMAIN J \cap DOMAIN RB}

\* ======================================================================= C15.plain_once / C15.progress_once / C15.agree
\* lines = Seq([scen, pos, status]) in file order: each processed step once, in order, with its final status
LinesOf(lines, s) == LET q == SelectSeq(lines, LAMBDA l : l.scen = s) IN [k \in DOMAIN q |-> <<q[k].pos, q[k].status>>]
PlainOnce(lines, X, a) ==
   (IF \E k \in DOMAIN lines : lines[k].scen \notin a.scens THEN {<<"C15.plain_once", "step_outside_shown_scenario">>} ELSE {})
   \cup UNION {IF LinesOf(lines, s) = [k \in DOMAIN ResOf(a, s) |-> <<ResOf(a, s)[k], SstOf(X, s, ResOf(a, s)[k])>>] THEN {}
               ELSE {<<Fam("C15.plain_once", IF DryGap(a, X, s) THEN KF_DRY ELSE "none"), "steps_of_scenario">>} : s \in a.scens}
   \cup (IF [k \in DOMAIN lines |-> lines[k].scen] # [k \in DOMAIN a.results |-> a.results[k].el] /\
            \A s \in a.scens : Len(LinesOf(lines, s)) = Len(ResOf(a, s))
         THEN {<<"C15.plain_once", "order">>} ELSE {})
DotsOf(X, a, s) == [k \in DOMAIN ResOf(a, s) |-> DotOf(SstOf(X, s, ResOf(a, s)[k]))]
RECURSIVE Concat(_)
Concat(qq) == IF qq = <<>> THEN <<>> ELSE Head(qq) \o Concat(Tail(qq))
\* p3 = Seq([scen, chars]) one line per shown scenario; p2 = Seq([feat, chars]) one line per shown feature
ProgressOnce(p2, p3, has2, has3, X, a) ==
   LET allScens == Concat([k \in DOMAIN a.shown |-> a.shown[k].scens]) IN
   (IF has3 /\ p3 # [k \in DOMAIN allScens |-> [scen |-> allScens[k], chars |-> DotsOf(X, a, allScens[k])]]
    THEN {<<"C15.progress_once", "progress3">>} ELSE {})
   \cup (IF has2 /\ p2 # [k \in DOMAIN a.shown |-> [feat |-> a.shown[k].feat,
                                                     chars |-> Concat([j \in DOMAIN a.shown[k].scens |-> DotsOf(X, a, a.shown[k].scens[j])])]]
         THEN {<<"C15.progress_once", "progress2">>} ELSE {})
\* the reports of one run agree with each other, scenario by scenario: statuses shown by plain = characters of progress3
\* = statuses the JSON report holds (steps that have a result, in step order)
JsonDots(J, s) ==
   LET hits == {<<k, i>> \in UNION {{<<kk, ii>> : ii \in DOMAIN J[kk].els} : kk \in DOMAIN J} : J[k].els[i].type = "scenario" /\ J[k].els[i].el = s} IN
   IF hits = {} THEN <<>>
   ELSE LET h == CHOOSE x \in hits : TRUE
            st == SelectSeq(J[h[1]].els[h[2]].steps, LAMBDA sp : sp.status # "") IN
        [p \in DOMAIN st |-> DotOf(st[p].status)]
\* the scenario variant of the progress formatter shows one mark per shown scenario: it agrees with the other reports (and
\* the model after the run) on the FINAL status of each scenario -- a hook or cleanup after the last step may still turn a
\* scenario whose steps all passed into an error.  p1 = Seq([feat, chars]), one line per shown feature
ScenarioMarks(p1, has1, X, a) ==
   IF has1 /\ p1 # [k \in DOMAIN a.shown |-> [feat |-> a.shown[k].feat,
                                                chars |-> [j \in DOMAIN a.shown[k].scens |-> DotOf(StOf(X, a.shown[k].scens[j]))]]]
   THEN {<<"C15.agree", "scenario_marks">>} ELSE {}
Agree(J, hasJ, lines, hasP, p3, has3, X, a) ==
   UNION {
      LET views == (IF hasJ THEN {JsonDots(J, s)} ELSE {})
                   \cup (IF hasP THEN {[k \in DOMAIN LinesOf(lines, s) |-> DotOf(LinesOf(lines, s)[k][2])]} ELSE {})
                   \cup (IF has3 THEN {LET q == SelectSeq(p3, LAMBDA l : l.scen = s) IN IF q = <<>> THEN <<>> ELSE q[1].chars} ELSE {})
      IN IF Cardinality(views) <= 1 THEN {} ELSE {<<Fam("C15.agree", IF DryGap(a, X, s) THEN KF_DRY ELSE "none"), "reports_differ">>}
      : s \in a.scens}

\* the named exception predicate of the one defect family left, under the name of DESIGN.md
KF_C15_dryrun_undefined_no_callbacks(a, X, s) == DryGap(a, X, s)
\* family of the code as it is (DESIGN section 8 #4, known finding): modelled by (S), rejected by (P)
KnownFamilies == {"C15.grammar/" \o KF_DRY, "C15.json_mirror/" \o KF_DRY, "C15.plain_once/" \o KF_DRY, "C15.agree/" \o KF_DRY}
=============================================================================
