INIT Init
NEXT Next
CONSTANTS
  Tiers <- TiersThorough
  EmitMaxLen = 4
  SampleMod = 97
INVARIANT WellFormedAfterPipeline
INVARIANT KFNarrow
INVARIANT Emit
