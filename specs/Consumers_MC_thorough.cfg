INIT Init
NEXT Next
CONSTANTS
  MaxOwn = 2
  MaxScen = 3
  TwoFeat = TRUE
  EmitMod = 499
INVARIANT ClausesHold
INVARIANT RepairedHolds
INVARIANT KFNarrow
INVARIANT KFBgReal
INVARIANT Emit
