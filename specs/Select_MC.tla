----------------------------- MODULE Select_MC -----------------------------
(* Design-level check of C10 and emission of abstract inputs for replay.    *)
(* Families of states (one state per abstract input):                       *)
(*   "layout": every document layout of at most MaxEnt entities (feature,   *)
(*             rules, scenarios, outlines, examples rows) x tag variants x  *)
(*             gap profiles; BisectIsNearest / ZeroSelectsAll /             *)
(*             SetupTeardownExempt quantify over EVERY line 0..last+3,      *)
(*             UnionLaw over every multiset of 1..3 representative lines,   *)
(*             GroupingLaw over location sequences of two files;            *)
(*   "list"  : list files of at most MaxList lines over the line pool;      *)
(*   "name"  : --name option lists over the branch pool.                    *)
(* Layouts are spread over bucket states (kind sequence x gap profile) so   *)
(* that the TLC workers share them.                                         *)
EXTENDS Select, TLC, Json
CONSTANTS MaxEnt,        \* entities per document, the feature included
          Profiles,      \* gap profiles per number of entities: [2..MaxEnt -> set of sequences of MaxEnt + 1 numbers]
          STags, OTags,  \* tag choices of scenarios / outlines
          MaxTagged,     \* at most that many specials (tagged entities, heading-only tables) per document: [2..MaxEnt -> Nat]
          MaxList,       \* lines per list file
          ListPool,      \* list line pool
          Texts          \* branch texts for --name patterns

\* ---------------------------------------------------------------- layouts
Kinds == {"rule", "scenario", "outline", "row"}
\* scenario-less entities are part of the family: a rule without scenarios (followed by another rule or by the end
\* of the document) and an outline without rows (no Examples at all, or a heading-only Examples table: et = 2)
ValidKinds(s) == \A i \in DOMAIN s :
   s[i] = "row" => i > 1 /\ s[i - 1] \in {"outline", "row"}
KindSeqs == UNION {{s \in [1..n -> Kinds] : ValidKinds(s)} : n \in 1..(MaxEnt - 1)}
\* gaps: filler lines before entity i = prof[i]; body lines: description/background of a feature or rule
\* = prof[i+1], steps of an outline = 1 or 2, body lines of a scenario = prof[i+1] = 0, 1 or 2 (0: a scenario
\* WITHOUT steps; the driver also renders some one-line bodies as a description only)
BodyOf(prof, i, k) == CASE k \in {"feature", "rule"} -> prof[i + 1]
                        [] k = "scenario"            -> prof[i + 1]
                        [] k = "outline"             -> 1 + (prof[i + 1] % 2)
                        [] OTHER -> 0
Choices(ks, prof, i) ==    \* items for position i + 1 (kind ks[i])
   LET k == ks[i]
       lastrow == k = "row" /\ (i = Len(ks) \/ ks[i + 1] # "row")
       rowless == k = "outline" /\ (i = Len(ks) \/ ks[i + 1] # "row")
   IN
   {Item(k, prof[i + 1], BodyOf(prof, i + 1, k) + (IF et = 2 THEN 2 ELSE 0), tg, nt, et) :
      tg \in (CASE k = "scenario" -> STags [] k = "outline" -> OTags [] OTHER -> {"none"}),
      nt \in (IF k # "row" THEN {FALSE} ELSE IF ks[i - 1] = "outline" THEN {TRUE} ELSE {TRUE, FALSE}),
      et \in (CASE k = "row" -> {0, 1} \cup (IF lastrow THEN {2} ELSE {})
                [] rowless   -> {0, 2}
                [] OTHER     -> {0})}
RECURSIVE Ext(_,_,_)
Ext(ks, prof, i) == IF i = 0 THEN {<<Item("feature", prof[1], BodyOf(prof, 1, "feature"), "none", FALSE, 0)>>}
                    ELSE {Append(p, it) : p \in Ext(ks, prof, i - 1), it \in Choices(ks, prof, i)}
\* a heading-only table in front needs a row that opens a table; specials (tagged entities, heading-only tables,
\* scenario-less rules and outlines) are capped per document
Special(x, i) == \/ x[i].et # 0
                 \/ x[i].k = "outline" /\ (i = Len(x) \/ x[i + 1].k # "row")
                 \/ x[i].k = "rule" /\ (i = Len(x) \/ x[i + 1].k = "rule")
LayoutsOf(ks, prof) == {x \in Ext(ks, prof, Len(ks)) :
   /\ \A i \in DOMAIN x : x[i].et = 1 => x[i].nt
   /\ Cardinality({i \in DOMAIN x : x[i].tag # "none"}) + Cardinality({i \in DOMAIN x : Special(x, i)}) <= MaxTagged[Len(x)]}

\* ---------------------------------------------------------------- list files, name options
ListCases == UNION {[1..n -> ListPool] : n \in 1..MaxList}
Branches == {[l |-> l, r |-> r, t |-> t] : l \in BOOLEAN, r \in BOOLEAN, t \in Texts}
NameCases == {<<(<<b>>)>> : b \in Branches} \cup {<<(<<a, b>>)>> : a \in Branches, b \in Branches}
             \cup {<<(<<a>>), (<<b>>)>> : a \in Branches, b \in Branches}

\* ---------------------------------------------------------------- state space
VARIABLES ph, ks, prof, items, lst, here, pats
vars == <<ph, ks, prof, items, lst, here, pats>>
Init == ph = "start" /\ ks = <<>> /\ prof = <<>> /\ items = <<>> /\ lst = <<>> /\ here = "dot" /\ pats = <<>>
PickBucket     == /\ ph = "start" /\ ph' = "bucket" /\ ks' \in KindSeqs /\ prof' \in Profiles[Len(ks') + 1]
                  /\ UNCHANGED <<items, lst, here, pats>>
PickLayout     == /\ ph = "bucket" /\ ph' = "layout" /\ items' \in LayoutsOf(ks, prof)
                  /\ UNCHANGED <<ks, prof, lst, here, pats>>
PickListBucket == /\ ph = "start" /\ ph' = "lbucket" /\ here' \in {"dot", "sub"}
                  /\ UNCHANGED <<ks, prof, items, lst, pats>>
PickList       == /\ ph = "lbucket" /\ ph' = "list" /\ lst' \in ListCases
                  /\ UNCHANGED <<ks, prof, items, here, pats>>
PickName       == /\ ph = "start" /\ ph' = "name" /\ pats' \in NameCases
                  /\ UNCHANGED <<ks, prof, items, lst, here>>
Next == PickBucket \/ PickLayout \/ PickListBucket \/ PickList \/ PickName
Spec == Init /\ [][Next]_vars

\* ---------------------------------------------------------------- design-level laws on layouts
\* (the laws take the entity table E and the last line as arguments: TLC evaluates an argument once)
OnLayout(P) == ph = "layout" => P
Col1(a)       == AddLocation(NewCollector, Loc(1, a))
Col3(a, b, c) == AddLocation(AddLocation(Col1(a), Loc(1, b)), Loc(1, c))
LinesTo(last) == 0..(last + 3)                             \* EVERY line, also beyond the end of the file

\* the code's bisect over the sorted line data finds the definitional nearest entity, for every line
BisectOn(E, last) ==
   LET ld == LineData(E) IN
   \A line \in LinesTo(last) :
      LET ri == RunItemLD(ld, line) IN
      /\ ri = (IF Nearest(E, line) = 0 THEN 1 ELSE Nearest(E, line))
      /\ Walk(E, ri) = SelDef(E, line)
      /\ Walk(E, ri) = Expand(E, ri)
BisectIsNearest == OnLayout(BisectOn(Table(items).E, Table(items).c))

\* line 0 / bare file name selects all, alone or together with any other line
ZeroOn(E, last) ==
   /\ SelDef(E, 0) = Scens(E)
   /\ Build(Col1(0), E) = {}
   /\ \A a \in LinesTo(last) : /\ Build(AddLocation(Col1(a), Loc(1, 0)), E) = {}
                                /\ Build(AddLocation(Col1(0), Loc(1, a)), E) = {}
ZeroSelectsAll == OnLayout(ZeroOn(Table(items).E, Table(items).c))

\* representative lines: line 0, every entity's first line, the line after it, the last line + 3
\* (BisectIsNearest establishes for EVERY line that it behaves like its nearest entity's first line)
RepLines(E, last) == {l \in LinesTo(last) : l = 0 \/ l = last + 3 \/ \E i \in DOMAIN E : l = E[i].line \/ l = E[i].line + 1}
\* every multiset {a <= b <= c} of 1..3 representative lines: what build_feature skips = everything outside the
\* union of the definitional selections, minus the exempt
UnionOn(E, last) ==
   LET ld  == LineData(E)
       rep == RepLines(E, last)
       SC  == [l \in rep |-> SelCodeLD(E, ld, l)]
       SD  == [l \in rep |-> SelDef(E, l)]
       ex  == Exempt(E)
       sc  == Scens(E)
   IN \A a \in rep : \A b \in {x \in rep : x >= a} : \A c \in {x \in rep : x >= b} :
         BuildWith(Col3(a, b, c), E, LAMBDA l : SC[l])
            = (sc \ ReqSelWith(E, {a, b, c}, LAMBDA l : SD[l])) \ ex
UnionLaw == OnLayout(UnionOn(Table(items).E, Table(items).c))

\* @setup / @teardown scenarios are never marked skipped (every pair of lines)
ExemptOn(E, last) ==
   LET ld == LineData(E)
       SC == [l \in LinesTo(last) |-> SelCodeLD(E, ld, l)]
       ex == Exempt(E)
   IN ex # {} => \A a \in LinesTo(last) : \A b \in {x \in LinesTo(last) : x >= a} :
         BuildWith(AddLocation(Col1(a), Loc(1, b)), E, LAMBDA l : SC[l]) \cap ex = {}
SetupTeardownExempt == OnLayout(ExemptOn(Table(items).E, Table(items).c))

\* parse_features over location sequences of two files (both with this layout): per file, the scenarios kept in
\* at least one of its feature objects = union of its locations' selections (+ exempt); one object per maximal
\* run of consecutive same-file locations
Runs(locs) == Cardinality({i \in DOMAIN locs : i = 1 \/ locs[i].f # locs[i - 1].f \/ locs[i].sp # locs[i - 1].sp})
GroupingOn(E, last) ==
   LET ld  == LineData(E)
       rep == {0, E[2].line, last}
       SC  == [l \in rep |-> SelCodeLD(E, ld, l)]
       SD  == [l \in rep |-> SelDef(E, l)]
       ex  == Exempt(E)
       L   == {Loc(f, l) : f \in {1, 2}, l \in rep}
       L3  == {Loc(f, l) : f \in {1, 2}, l \in rep \ {0}}
       FS  == <<E, E>>
   IN \A n \in 1..3 : \A locs \in [1..n -> IF n = 3 THEN L3 ELSE L] :
         LET res == ParseFeaturesWith(locs, FS, LAMBDA f, l : SC[l]) IN
         /\ Len(res) = Runs(locs)
         /\ \A f \in {1, 2} :
               Kept(res, f, E) = (IF LinesOf(locs, f) = {} THEN {}
                                  ELSE ReqSelWith(E, LinesOf(locs, f), LAMBDA l : SD[l]) \cup ex)
GroupingLaw == OnLayout(GroupingOn(Table(items).E, Table(items).c))

\* ---------------------------------------------------------------- list files
\* every entry line yields its location, comments and blank lines yield nothing (hazard-free lines: the code
\* model agrees with the definition; indented relative entries are judged on the real code only)
ListFileLaw == ph = "list" =>
   /\ Len(ListDef(lst)) = Cardinality({n \in DOMAIN lst : lst[n].k = "entry"})
   /\ (~ListHazard(lst) \/ here = "dot") => ListCode(lst, here = "dot", TRUE) = ListDef(lst)
   /\ ListCode(lst, here = "dot", FALSE) = ListDef(lst)

\* ---------------------------------------------------------------- names

Names == { <<"a","l","p","h","a">>, <<"b","e","t","a">>, <<"a","l","p","h","a"," ","b","e","t","a">>,
           <<"b","e","t","a"," ","a","l","p","h","a">>, <<"g","a","m","m","a">>,
           <<"a","l","p","h","a","b","e","t","a">>, <<"g","a","m","m","a"," "," ","b","e","t","a">>,
           RowName(<<"a","l","p","h","a">>, 1, 2, <<"t","a","b">>), RowName(<<"b","e","t","a">>, 2, 1, <<"t","o","b">>) }
NameLaw == ph = "name" =>
   \A s \in Names :
      /\ NameSelCode(pats, s) = NameSelDef(pats, s)
      \* alternation inside one option = several options = union of the single selections
      /\ NameSelDef(pats, s) = \E b \in Range(Flatten(pats)) : NameSelDef(<<(<<b>>)>>, s)

\* ---------------------------------------------------------------- emission
Emit == /\ OnLayout(PrintT(<<"CASE", ToJson([kind |-> "layout", items |-> items, E |-> Table(items).E, last |-> Table(items).c])>>))
        /\ ph = "list" => PrintT(<<"CASE", ToJson([kind |-> "list", here |-> here, list |-> lst,
                                                    code |-> ListCode(lst, here = "dot", TRUE)])>>)
        /\ ph = "name" => PrintT(<<"CASE", ToJson([kind |-> "name", pats |-> pats,
                                                    texts |-> [p \in DOMAIN pats |-> PatText(pats[p])]])>>)

\* ---------------------------------------------------------------- constant definitions for the cfg files
\* "near": a tag that is NOT setup / teardown but a substring or superstring of them (rendered by the driver from
\* up, set, s, tear, down, setups, setupteardown); it exempts nothing
TagsAll == {"none", "setup", "teardown", "near"}
TagsTwo == {"none", "setup", "near"}
PQ == { <<0,0,0,0,0,0>>, <<0,1,0,2,0,1>>, <<2,0,1,0,2,0>> }
ProfQuick == [n \in 2..5 |-> PQ]
TaggedQuick == [n \in 2..5 |-> 1]
PT == << <<0,0,0,0,0,0,0,0>>, <<1,0,0,1,2,0,0,1>>, <<0,1,0,2,0,1,0,2>>, <<2,0,1,0,2,0,1,0>>,
         <<1,1,1,1,1,1,1,1>>, <<0,2,1,0,0,2,1,0>> >>
\* all six profiles up to 5 entities, three for 6, two for 7
ProfThorough == [n \in 2..7 |-> {PT[k] : k \in 1..(IF n <= 5 THEN 6 ELSE IF n = 6 THEN 3 ELSE 2)}]
TaggedThorough == [n \in 2..7 |-> IF n <= 4 THEN 2 ELSE 1]
LEntry(f, hasline, line, indent, abs, trail) ==
   [k |-> "entry", f |-> f, hasline |-> hasline, line |-> line, indent |-> indent, abs |-> abs, trail |-> trail]
LComment == [k |-> "comment", f |-> 0, hasline |-> FALSE, line |-> 0, indent |-> 0, abs |-> FALSE, trail |-> 0]
LBlank   == [k |-> "blank",   f |-> 0, hasline |-> FALSE, line |-> 0, indent |-> 0, abs |-> FALSE, trail |-> 0]
PoolQuick == { LComment, LBlank,
               LEntry(1, TRUE, 4, 0, FALSE, 0), LEntry(1, FALSE, 0, 0, FALSE, 1), LEntry(1, TRUE, 7, 0, TRUE, 0),
               LEntry(2, TRUE, 4, 0, FALSE, 0), LEntry(2, FALSE, 0, 0, TRUE, 0), LEntry(2, TRUE, 7, 1, TRUE, 1),
               LEntry(1, TRUE, 4, 1, FALSE, 0), LEntry(2, FALSE, 0, 1, FALSE, 0) }
PoolThorough == PoolQuick \cup { LEntry(1, TRUE, 0, 0, FALSE, 0), LEntry(2, TRUE, 11, 0, FALSE, 1) }
\* a pattern is the exact text given (re.search semantics): leading / trailing / inner blanks are significant
TextsQuick == { <<"a","l","p","h","a">>, <<"b","e","t","a">>, <<"a"," ","b">>, <<"@","1",".","2">>,
                <<"a","l","p","h","a"," ">>, <<" ","b","e","t","a">> }
TextsThorough == TextsQuick \cup { <<"p","h">>, <<"t","a","b">>, <<"a"," "," ","b">> }
=============================================================================
