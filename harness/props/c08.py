"""C08 -- v1 tag expressions keep their meaning; dialect auto-detection never misreads.

(S)+(P) definitions specs/TagExprV1.tla   (MC) specs/TagExprV1_MC.tla   judge: specs/TagExprV1_Trace.tla
TLC enumerates every CNF formula of the bound, proves for every rendering style and both input shapes that the
transcribed v1 algorithm equals the CNF definition on the complete truth table, that the transcribed auto-detection
gives the v1 meaning for pure v1 renderings, the v2 meaning for pure v2 renderings and rejects the mixed texts
(modulo the named exceptions KF_C08_n, whose witnesses it prints), and emits every case.  The driver feeds the
emitted renderings (and text-level variants, random decorations, random formulas beyond the bound) to the real
make_tag_expression() under V1, V2 and AUTO_DETECT, records the complete truth tables / exception types, and TLC
judges the rows from their concrete text alone."""
import json
import os
import random
import shutil
import tempfile

from vlib import trace

UNIVERSE = ["a", "b", "nor", "x-y", "a b"]              # = Univ of the TLA+ modules
SUBSETS = [[UNIVERSE[i] for i in range(len(UNIVERSE)) if (k >> i) & 1] for k in range(2 ** len(UNIVERSE))]
WORKERS = int(os.environ.get("VERIF_WORKERS") or 16)
LIMITS = {"a": "3", "b": "12"}                          # = LimitOf (one limit per name: conflicting limits are no formula)


def chars(s):
    return list(s)


def observe_one(value, proto):
    from behave.tag_expression import make_tag_expression
    from behave.tag_expression.parser import TagExpressionError
    try:
        e = make_tag_expression(value, proto)
        return {"exc": "", "tee": False, "tt": [bool(e.check(list(s))) for s in SUBSETS]}
    except Exception as x:      # R4: a crash is an observation
        return {"exc": type(x).__name__, "tee": isinstance(x, TagExpressionError), "tt": []}


def observe(rid, form, value):
    """value: a string (form text) or a list of strings (form list)"""
    from behave.tag_expression import TagExpressionProtocol as P
    arg = value if form == "text" else list(value)
    return {"id": rid, "form": form,
            "text": chars(value) if form == "text" else [],
            "terms": [chars(t) for t in value] if form == "list" else [],
            "v1": observe_one(arg, P.V1), "v2": observe_one(arg, P.V2), "auto": observe_one(arg, P.AUTO_DETECT)}


PROTO_FIELD = {"v1": "v1", "v2": "v2", "strict": "v2", "auto_detect": "auto", "default": "auto"}


def run_history(cons, hows, scratch):
    """Constructs the Configurations of `cons` (dicts proto, terms) one after the other in THIS process and returns,
    per construction, what its config.tag_expression does (same observation format as observe_one).
    hows[k]: how construction k is told its protocol: "kw" (keyword argument, enum member), "kwname" (keyword
    argument, name) or "ini" (behave.ini in its working directory); "default" = it is told nothing.
    The process-wide TagExpressionProtocol selection and the working directory are restored afterwards."""
    from behave.configuration import Configuration
    from behave.tag_expression import TagExpressionProtocol as P
    from behave.tag_expression.parser import TagExpressionError
    saved, cwd, home = P.current(), os.getcwd(), os.environ.get("HOME")
    out = []
    try:
        P.use(P.DEFAULT)
        for k, (c, how) in enumerate(zip(cons, hows)):
            d = os.path.join(scratch, "p%d" % k)
            os.makedirs(d)
            os.chdir(d)
            os.environ["HOME"] = d
            args = ["--tags=" + t for t in c["terms"]]
            kw = {}
            if c.get("ini_tags"):                           # configured tags (and protocol) in the project's behave.ini
                with open("behave.ini", "w") as fh:
                    fh.write("[behave]\n" + ("" if c["proto"] == "default" else "tag_expression_protocol = %s\n" % c["proto"])
                             + "tags = " + "\n    ".join(c["ini_tags"]) + "\n")
            elif c["proto"] == "default":
                kw["load_config"] = (how == "ini")          # an empty project directory / no config file at all
            elif how == "ini":
                with open("behave.ini", "w") as fh:
                    fh.write("[behave]\ntag_expression_protocol = %s\n" % c["proto"])
            else:
                kw = {"load_config": False,
                      "tag_expression_protocol": P.from_name(c["proto"]) if how == "kw" else c["proto"]}
            try:
                e = Configuration(args, **kw).tag_expression
                out.append({"exc": "", "tee": False, "tt": [bool(e.check(list(x))) for x in SUBSETS]})
            except (Exception, SystemExit) as x:
                out.append({"exc": type(x).__name__, "tee": isinstance(x, TagExpressionError), "tt": []})
            os.chdir(cwd)
            shutil.rmtree(d, ignore_errors=True)
    finally:
        os.chdir(cwd)
        if home is None:
            os.environ.pop("HOME", None)
        else:
            os.environ["HOME"] = home
        P.use(saved)
    return out


def history_rows(rid0, cons, hows, scratch):
    """one row per construction: the usual row of its --tags arguments (list form), in which the observation
    under the construction's own protocol is the one made through Configuration in the history"""
    rows = []
    for k, (c, o) in enumerate(zip(cons, run_history(cons, hows, scratch))):
        row = observe(rid0 + k, "list", c.get("judge_terms") or c["terms"])
        row[PROTO_FIELD[c["proto"]]] = o
        rows.append(row)
    return rows


def as_value(inp):
    """a TLC-emitted input record -> (form, python value)"""
    if inp["form"] == "text":
        return "text", "".join(inp["text"])
    return "list", ["".join(t) for t in inp["terms"]]


# ---- renderings made here (judged by TLC from the concrete text, so a rendering slip cannot hide anything)
def decorate(lit, rnd):
    name = lit["name"] if isinstance(lit["name"], str) else "".join(lit["name"])
    s = (rnd.choice("-~") if lit["neg"] else "") + rnd.choice(["", "@"]) + name
    if rnd.random() < 0.4:
        s += ":" + LIMITS.get(name, "7")
    return s


def random_args(f, rnd):
    return [",".join(decorate(l, rnd) for l in g) for g in f]


def random_formula(rnd, names, max_groups, max_alts):
    return [[{"neg": rnd.random() < 0.5, "name": rnd.choice(names)} for _ in range(rnd.randint(1, max_alts))]
            for _ in range(rnd.randint(1, max_groups))]


V1_INJECT = ["-a", "~b", "-@a", "~@b:12", "a,-b", "b,~a", "nor,-@a:3", "-a,b"]


def inject(text, rnd):
    """a v2 rendering with one operand replaced by an old-style alternative group"""
    words = text.replace("(", " ( ").replace(")", " ) ").split()
    idx = [k for k, w in enumerate(words) if w not in ("and", "or", "not", "(", ")")]
    if not idx:
        return None
    words[rnd.choice(idx)] = rnd.choice(V1_INJECT)
    return " ".join(words).replace("( ", "(").replace(" )", ")")


# inputs outside every judged class: recorded for the conformance of the transcription only (divergence count)
PROBES = [("text", ""), ("list", []), ("text", " "), ("text", "@-b"), ("text", "@~b"), ("text", "@-b and a"),
          ("text", "a, b"), ("list", ["a, b"]), ("list", ["a , -b"]), ("text", "a:3 a:4"), ("text", "a:x"),
          ("text", "a:"), ("text", "-a:3 a:03"), ("text", "a,"), ("list", [""]), ("text", "a,b and nor"),
          ("text", "-a b*"), ("text", "a,-b b*"), ("text", "a:3:4"), ("text", "a:-0 a:0"), ("list", ["a b"]),
          ("text", "(-a)"), ("text", "a\\ b or b"), ("text", "~a:+3 -a: 3")]


def build_inputs(cases, rnd, quick):
    """-> list of (form, value, meta)"""
    out = []
    for n, c in enumerate(cases):
        if c["kind"] == "hist":
            continue
        if c["kind"] == "cnf":
            f = c["f"]
            tag = {"family": "cnf", "f": f}
            for s in rnd.sample(range(5), 2 if quick else 3):
                args = ["".join(a) for a in c["args"][s]]
                out.append(("text", " ".join(args), dict(tag, style=s + 1)))
                out.append(("list", args, dict(tag, style=s + 1)))
            args = ["".join(a) for a in c["args"][rnd.randrange(5)]]
            out.append(("text", " " + "  ".join(args) + "  ", dict(tag, style="blanks")))
            # argument list with blanks next to the commas / at the ends of an argument ("@a, -@b", "a , b", " a,b ")
            args = ["".join(a) for a in c["args"][rnd.randrange(5)]]
            sp = [rnd.choice([lambda a: a.replace(",", ", "), lambda a: a.replace(",", " , "), lambda a: " " + a + " ",
                              lambda a: " " + a.replace(",", " ,") + "  "])(a) for a in args]
            if len(f) == 1 or rnd.random() < 0.34:
                out.append(("list", sp, dict(tag, style="list-blanks")))
            args = random_args(f, rnd)
            out.append((("text", " ".join(args), dict(tag, style="random"))))
            if not quick or n % 2:
                out.append(("list", random_args(f, rnd), dict(tag, style="random")))
            if c["mixed"]:
                mixed = c["mixed"][rnd.randrange(2)]
                for inp in (rnd.sample(mixed, 2) if quick else mixed):
                    form, value = as_value(inp)
                    out.append((form, value, {"family": "mixed", "f": f}))
        else:
            mn, full, at = "".join(c["min"]), "".join(c["full"]), "".join(c["at"])
            tag = {"family": "v2", "tree_min": mn}
            out += [("text", mn, tag), ("text", full, tag), ("text", at, tag), ("text", " " + full + " ", tag),
                    ("list", [mn], tag), ("list", [full, "@b"], tag), ("list", ["a", mn], tag)]
            # '@' directly after "(" / "not(" and the name directly before ")"
            fat, mat = "".join(c["fullat"]), "".join(c["minat"])
            tag = {"family": "v2-at", "tree_min": mn}
            out += [("text", fat, tag), ("text", mat, tag), ("list", [mat, fat], tag),
                    ("text", fat.replace("not (", "not("), tag), ("text", "(" + mat + ")", tag)]
            # list parts that start with "(" and end with ")" but are not enclosed by one matching pair: (a) or (b)
            lf, lfa = "".join(c["leafy"]), "".join(c["leafyat"])
            tag = {"family": "v2-leafy", "tree_min": mn}
            out += [("text", lf, tag), ("list", [lf, "@b"], tag), ("list", ["a", lfa], tag), ("list", [lfa, lf], tag),
                    ("list", [lf, mat, "x-y"], tag)]
            m = inject(rnd.choice([mn, full]), rnd)
            if m:
                out.append(("text", m, {"family": "mixed-from-v2", "tree_min": mn}))
                out.append(("list", [m, "b"], {"family": "mixed-from-v2", "tree_min": mn}))
    # beyond the model-checked bound: random formulas, larger name pool, random decorations
    names = ["a", "b", "nor", "x-y", "andy", "c.d", "not1"]
    for _ in range(300 if quick else 20000):
        f = random_formula(rnd, names, 4, 4)
        args = random_args(f, rnd)
        tag = {"family": "cnf-random", "f": f}
        if rnd.random() < 0.5:
            out.append(("text", " ".join(args), tag))
        else:
            out.append(("list", args, tag))
        if rnd.random() < 0.3:
            glue = rnd.choice([" and ", " or ", " and not "])
            tail = rnd.choice([" or b", " and (a or b)"] + ([""] if len(args) > 1 else []))
            out.append(("text", glue.join(args) + tail, {"family": "mixed-random", "f": f}))
    for form, value in PROBES:
        out.append((form, value, {"family": "probe"}))
    return out


def report(chk, verdicts, byid, meta):
    # smallest input first: the first violation of a signature is the one printed and kept for replay
    for i, vs in sorted(verdicts.items(), key=lambda kv: (len(json.dumps(meta[kv[0]]["input"])), kv[0])):
        for v in vs:
            m = meta[i]
            row = byid[i]
            clause, cause = v[2], v[3]
            sig = "%s|%s" % (clause, cause)
            if cause == "other":
                sig += "|form=%s|family=%s" % (row["form"], m.get("family"))
            obs = {p: (row[p]["exc"] or "true on %d of %d subsets" % (sum(row[p]["tt"]), len(row[p]["tt"]))) for p in ("v1", "v2", "auto")}
            hist = ""
            if m.get("family") == "placeholder":
                hist = " as Configuration(--tags=%s) with behave.ini tags = %s, protocol %s" % (
                    json.dumps(m["history"][0]["terms"]), json.dumps(m["history"][0]["ini_tags"]), m["history"][0]["proto"])
            elif m.get("family") == "history":
                hist = " as construction %d of the history %s" % (m["index"] + 1, json.dumps([[c["proto"], c["terms"]] for c in m["history"]]))
            chk.violation(clause, sig, "input=%s (%s)%s observed %s" % (json.dumps(m["input"]), row["form"], hist, json.dumps(obs, sort_keys=True)),
                          {"form": row["form"], "input": m["input"], "meta": m})


def run(chk):
    from behave.tag_expression import TagExpressionProtocol
    rnd = random.Random(chk.seed)
    # quick: <=2 groups x <=2 alternatives over {a, b, nor}, all 5 styles, v2 trees of depth <=1
    # mid:   <=3 x <=2 over {a, b}, all styles, v2 trees of depth <=2
    # thorough: <=3 x <=3 over {a, b}, groups as multisets, styles 4 and 5
    cfgs = ["TagExprV1_MC_quick.cfg"] if chk.quick() else ["TagExprV1_MC_quick.cfg", "TagExprV1_MC_mid.cfg", "TagExprV1_MC_thorough.cfg"]
    cases = []
    seen = set()
    hits = {}
    for cfg in cfgs:
        # (coverage off: the state graph has four trivial actions, and -coverage slows TLC down six times here)
        r = chk.tlc("TagExprV1_MC", cfg, timeout=800, workers=WORKERS, coverage=False)
        for name in r.violated:
            chk.violation("C08.design." + name, "design:%s" % name, "TLC: invariant %s violated in TagExprV1_MC (%s)" % (name, cfg))
        for t in r.by_tag("CASE"):
            c = json.loads(t[1])
            key = (c["kind"], json.dumps(c.get("f") or c.get("min") or c.get("cons")))
            if key not in seen:             # the same formula / tree emitted by two configurations
                seen.add(key)
                cases.append(c)
        # witnesses of the named exceptions: inputs on which the strict design-level law fails
        for t in r.by_tag("KFHIT"):
            form, value = as_value(json.loads(t[3]))
            hits.setdefault((t[1], t[2]), []).append((form, value))
    for (inv, kf), ws in sorted(hits.items()):
        ws.sort(key=lambda w: (len(json.dumps(w[1])), json.dumps(w[1])))
        for form, value in ws[:1]:
            chk.violation("C08.design." + inv, "design:%s|%s" % (inv, kf),
                          "TLC: the strict law %s fails on the transcription of the code (exception %s), smallest of %d witnesses: input=%s (%s)"
                          % (inv, kf, len(ws), json.dumps(value), form), {"form": form, "input": value, "meta": {"family": "design-witness"}})
    chk.exhaustive = True
    inputs = build_inputs(cases, rnd, chk.quick())
    rows, meta = [], {}
    for rid, (form, value, m) in enumerate(inputs, 1):
        rows.append(observe(rid, form, value))
        meta[rid] = dict(m, input=value)
    # histories of Configuration constructions in this process (every history TLC emitted)
    scratch = tempfile.mkdtemp(prefix="verif-c08-")
    nhist = 0
    try:
        for c in cases:
            if c["kind"] != "hist":
                continue
            cons = [{"proto": x["proto"], "terms": ["".join(t) for t in x["terms"]]} for x in c["cons"]]
            hows = [rnd.choice(["kw", "kwname", "ini"]) for _ in cons]
            nhist += 1
            for k, row in enumerate(history_rows(len(rows) + 1, cons, hows, scratch)):
                rows.append(row)
                meta[row["id"]] = {"family": "history", "input": cons[k]["terms"], "history": cons, "hows": hows, "index": k}
        # OLD-STYLE configured tags (ONE group in behave.ini) used through the {config.tags} placeholder on the command
        # line: the placeholder stands for the configured group, so the construction is judged as the argument list
        # in which the placeholder is replaced by the configured text
        groups = []
        for c in cases:
            if c["kind"] == "cnf":
                for s in (0, 1):                            # styles without ':limit'
                    g = "".join(c["args"][s][0])
                    if g not in groups:
                        groups.append(g)
        for g in groups:
            for proto in ("v1", "default", "auto_detect"):
                other = rnd.choice(["-@nor", "@b,~a", "nor"])
                cmd = rnd.choice([["{config.tags}"], ["{config.tags}", other], [other, "{config.tags}"]])
                con = {"proto": proto, "terms": cmd, "ini_tags": [g], "judge_terms": [g if t == "{config.tags}" else t for t in cmd]}
                row = history_rows(len(rows) + 1, [con], ["ini"], scratch)[0]
                rows.append(row)
                meta[row["id"]] = {"family": "placeholder", "input": con["judge_terms"], "history": [con], "hows": ["ini"], "index": 0}
    finally:
        shutil.rmtree(scratch, ignore_errors=True)
    TagExpressionProtocol.use(TagExpressionProtocol.DEFAULT)
    diverged = []
    verdicts = judge(chk, rows, diverged)
    chk.impl_traces = len(rows)
    chk.evaluations = len(rows) * 3 * len(SUBSETS)
    chk.divergences = len(diverged)
    byid = {row["id"]: row for row in rows}
    for rid, proto in diverged[:5]:
        chk.note("DIVERGENCE spec=TagExprV1 protocol=%s input=%s observed=%s" % (proto, json.dumps(meta[rid]["input"]), json.dumps(byid[rid][proto])[:120]))
    report(chk, verdicts, byid, meta)
    for row in rows[:2] + rows[-30:-29]:
        chk.sample({"input": meta[row["id"]]["input"], "form": row["form"],
                    "observed": {p: (row[p]["exc"] or sum(1 for x in row[p]["tt"] if x)) for p in ("v1", "v2", "auto")}})
    fam = {}
    for m in meta.values():
        fam[m["family"]] = fam.get(m["family"], 0) + 1
    chk.rule = ("CNF formulas up to the bound (TLC, exhaustive; all 5 decoration styles x string/list at design level), per emitted "
                "formula 2-3 styles x both shapes + a blank variant + 1-2 random decorations + 2-6 mixed texts; v2 trees x 7 renderings + "
                "injected old-style operands + 5 '@'-tight renderings + 5 every-operand-in-parentheses renderings (1 text, 4 lists); OLD-STYLE behave.ini tags used through {config.tags} under v1/default/auto_detect; argument lists with blanks around commas; histories of 2-3 Configuration constructions x 5 protocol settings x 4 "
                "tag lists (one row per construction); random formulas up to 4x4 over 7 names; every row = one input under V1, V2 and "
                "AUTO_DETECT with the complete truth table over 2^5 tag subsets; distinct = distinct (shape, input)")
    chk.extra["distinct_nontrivial"] = len({(m["family"] == "probe", json.dumps(m["input"])) for m in meta.values()})
    chk.extra["cases_emitted_by_tlc"] = len(cases)
    chk.extra["histories"] = nhist
    chk.extra["rows_by_family"] = fam
    chk.extra["design_witnesses"] = {"%s|%s" % k: len(v) for k, v in sorted(hits.items())}
    chk.assumptions = [
        "tag names of the v1 universe are not v2 keywords (and/or/not) and contain none of , : @ ( ) * ? [ \\ or whitespace, and do not start with - or ~",
        "pure v2 texts: operands do not start with - or ~ and contain no ',' or ':' (such one-word texts are v1 syntax)",
        "only blanks are used as whitespace; ':limit' numbers are consistent per tag name (conflicting limits raise, statement silent)",
        "the meaning of a pure v2 text is Eval of TagExpr.tla's own parse of that text (the v2 grammar proved in TagExpr_MC)",
        "history rows: the observation under the construction's own protocol comes from Configuration(...).tag_expression in the history, the other two from make_tag_expression with an explicit protocol",
        "'@-b' (negation after '@', honoured by normalize_tag by accident, '@~b' is not) is not an old-style form of the statement: not judged",
    ]


def judge(chk, rows, diverged=None):
    chunks = max(1, min(WORKERS, 16))
    verdicts = trace.judge_rows(chk, "TagExprV1_Trace", rows, chunks=chunks, min_chunk=200)
    if diverged is not None:
        for _, _, r in chk.tlc_runs:
            for t in r.by_tag("DIVERGENCE"):
                diverged.append((t[1], t[2]))
    return verdicts


def replay(chk, payload):
    p = payload["replay"]
    m = p.get("meta") or {}
    if m.get("family") in ("history", "placeholder"):
        scratch = tempfile.mkdtemp(prefix="verif-c08-")
        try:
            row = history_rows(1, m["history"], m["hows"], scratch)[m["index"]]
            row["id"] = 1
        finally:
            shutil.rmtree(scratch, ignore_errors=True)
    else:
        row = observe(1, p["form"], p["input"])
    verdicts = judge(chk, [row])
    chk.impl_traces = 1
    meta = {1: dict(p.get("meta") or {}, input=p["input"])}
    meta[1].setdefault("family", "replay")
    report(chk, verdicts, {1: row}, meta)
    chk.sample({"replayed": p["input"], "form": p["form"],
                "observed": {k: (row[k]["exc"] or sum(1 for x in row[k]["tt"] if x)) for k in ("v1", "v2", "auto")}})
