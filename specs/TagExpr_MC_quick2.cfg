INIT Init
NEXT Next
CONSTANTS
  MaxDepth = 1
  NB = 64
  Operands <- OpsFull
  Universe <- Univ
INVARIANT ParseFull
INVARIANT ParseMin
INVARIANT ParseAt
INVARIANT ParseLeafy
INVARIANT RoundTrip
INVARIANT ListForm
INVARIANT Placeholder
INVARIANT EmptyIsTrue
INVARIANT Emit
