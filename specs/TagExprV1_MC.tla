--------------------------- MODULE TagExprV1_MC ---------------------------
(* Design-level check of C08 and emission of cases for the driver.         *)
(* State space: one state per CNF formula of the bound (formulas are       *)
(* spread over one bucket state per first group so that the TLC workers    *)
(* share them) and one state per v2 tree of a small C07-style family.      *)
(* Per formula: every rendering style x both input shapes (one string /    *)
(* argument list) and the mixed texts derived from the renderings.         *)
EXTENDS TagExprV1, TLC, Json
CONSTANTS MaxGroups, MaxAlts, Names,      \* CNF bound; Names: set of tag names (char sequences)
          Sorted,                         \* TRUE: the alternatives of a group are in non-decreasing literal order
                                          \* (groups as multisets; their order is covered by the runs with FALSE)
          Universe,                       \* sequence of tags: truth tables range over all its subsets
          V2Depth, V2Operands, NB,        \* v2 family (as in TagExpr_MC)
          Styles,                         \* rendering styles checked per formula (subset of 1..NStyles)
          EmitMod,                        \* emit the formulas whose hash is 0 modulo EmitMod (1 = all)
          HistLen                         \* histories of up to HistLen Configuration constructions in one process (0 = none)

SS == SubsetSeq(Universe)

\* ---------------------------------------------------------------- the CNF family
Lits     == {[neg |-> n, name |-> x] : n \in BOOLEAN, x \in Names}
NameOrder == << <<"a">>, <<"b">>, <<"n","o","r">> >>
Rank(l)  == 2 * (CHOOSE k \in DOMAIN NameOrder : NameOrder[k] = l.name) + (IF l.neg THEN 1 ELSE 0)
Groups   == {g \in UNION {[1..k -> Lits] : k \in 1..MaxAlts} :
                Sorted => \A j \in 1..(Len(g) - 1) : Rank(g[j]) <= Rank(g[j + 1])}
Rests    == UNION {[1..n -> Groups] : n \in 0..(MaxGroups - 1)}

\* ---------------------------------------------------------------- renderings
\* ':limit' suffixes: one fixed number per tag name (inconsistent limits are an error of their own, not a formula)
LimitOf(n) == IF n = <<"a">> THEN <<"3">> ELSE IF n = <<"b">> THEN <<"1", "2">> ELSE <<"7">>
NStyles == 5
\* how the literal at position (i, j) is decorated in style s
LitStyle(s, i, j) ==
   CASE s = 1 -> [neg |-> "-", at |-> FALSE, lim |-> FALSE]
     [] s = 2 -> [neg |-> "~", at |-> TRUE,  lim |-> FALSE]
     [] s = 3 -> [neg |-> "-", at |-> TRUE,  lim |-> TRUE]
     [] s = 4 -> [neg |-> IF (i + j) % 2 = 0 THEN "-" ELSE "~", at |-> j % 2 = 0, lim |-> i % 2 = 1]
     [] s = 5 -> [neg |-> "~", at |-> FALSE, lim |-> TRUE]
RenderLit(l, st) == (IF l.neg THEN <<st.neg>> ELSE <<>>) \o (IF st.at THEN <<"@">> ELSE <<>>) \o l.name
                    \o (IF st.lim THEN <<":">> \o LimitOf(l.name) ELSE <<>>)
RenderGroup(x, i, s) == JoinBy([j \in DOMAIN x[i] |-> RenderLit(x[i][j], LitStyle(s, i, j))], <<",">>)
RenderArgs(x, s) == [i \in DOMAIN x |-> RenderGroup(x, i, s)]
StrIn(x, s)  == TextIn(JoinBy(RenderArgs(x, s), <<" ">>))
LstIn(x, s)  == ListIn(RenderArgs(x, s))
\* argument list with blanks next to the commas and at the ends of an argument: "@a, -@b", "a , b", " a,b "
CommaSp(k) == CASE k % 3 = 1 -> <<",", " ">> [] k % 3 = 2 -> <<" ", ",", " ">> [] OTHER -> <<",">>
Pad(k) == IF k % 3 = 0 THEN <<" ">> ELSE <<>>
LstSpIn(x, s) == ListIn([i \in DOMAIN x |->
                    Pad(i + s) \o JoinBy([j \in DOMAIN x[i] |-> RenderLit(x[i][j], LitStyle(s, i, j))], CommaSp(i + s)) \o Pad(i + s)])
V1Inputs(x) == {StrIn(x, s) : s \in Styles} \cup {LstIn(x, s) : s \in Styles}
               \cup {LstSpIn(x, s) : s \in Styles \cap {2, 4}}

\* mixed texts: the old-style arguments of a formula with a negated literal, glued with new-style operators
HasNeg(x) == \E i \in DOMAIN x : \E j \in DOMAIN x[i] : x[i][j].neg
And_ == <<" ", "a", "n", "d", " ">>
Or_  == <<" ", "o", "r", " ">>
Not_ == <<"n", "o", "t", " ">>
MixedInputs(x, s) ==
   LET args == RenderArgs(x, s) IN
   { TextIn(JoinBy(args, And_) \o Or_ \o <<"b">>),                           \* g1 and g2 or b
     TextIn(Not_ \o JoinBy(args, <<" ">>)),                                   \* not g1 g2
     TextIn(<<"(">> \o JoinBy(args, Or_) \o <<")">> \o And_ \o <<"a">>),      \* (g1 or g2) and a
     TextIn(<<"a">> \o Or_ \o JoinBy(args, <<" ">>)),                         \* a or g1 g2
     ListIn(Append(args, <<"a">> \o Or_ \o <<"b">>)),                         \* [g1, g2, "a or b"]
     ListIn(<<Not_ \o args[1]>> \o Tail(args)) }                              \* ["not g1", g2]
MixedStyles == {1, 4} \cap Styles

\* ---------------------------------------------------------------- the v2 family
RECURSIVE Trees(_)
Trees(d) == IF d = 0 THEN {Lit(n) : n \in V2Operands}
            ELSE LET S == Trees(d - 1) IN
                 S \cup {Not(x) : x \in S}
                   \cup {Bin(o, l, r) : o \in {"and", "or"}, l \in S, r \in Trees(0)}
                   \cup {Bin(o, l, r) : o \in {"and", "or"}, l \in Trees(0), r \in S}
AllTrees == Trees(V2Depth)
\* '@' on every operand and no blank inside the parentheses: '@' directly after "(" and the name directly before ")"
RECURSIVE FullAt(_)    \* every operator application parenthesised: not (@a), (@a or @b)
FullAt(x) == CASE x.op = "lit" -> <<"@">> \o x.name
               [] x.op = "not" -> <<"n","o","t"," ">> \o Paren(FullAt(x.kids[1]))
               [] OTHER -> Paren(FullAt(x.kids[1]) \o Sp \o Chars(Tok(x.op)) \o Sp \o FullAt(x.kids[2]))
RECURSIVE LeafyAt(_)   \* TagExpr's Leafy with '@': every operand in parentheses of its own, (@a) or (@b)
LeafyAt(x) == CASE x.op = "lit" -> Paren(<<"@">> \o x.name)
                [] x.op = "not" -> <<"n","o","t"," ">> \o (IF x.kids[1].op \in {"lit", "not"} THEN LeafyAt(x.kids[1]) ELSE Paren(LeafyAt(x.kids[1])))
                [] OTHER -> LET l == x.kids[1]  r == x.kids[2]
                                ls == IF Prec(l.op) < Prec(x.op) THEN Paren(LeafyAt(l)) ELSE LeafyAt(l)
                                rs == IF Prec(r.op) <= Prec(x.op) THEN Paren(LeafyAt(r)) ELSE LeafyAt(r)
                            IN ls \o Sp \o Chars(Tok(x.op)) \o Sp \o rs
RECURSIVE MinAt(_)     \* minimal parentheses: (@a or @b) and not @x-y
MinAt(x) == CASE x.op = "lit" -> <<"@">> \o x.name
              [] x.op = "not" -> <<"n","o","t"," ">> \o (IF x.kids[1].op \in {"lit", "not"} THEN MinAt(x.kids[1]) ELSE Paren(MinAt(x.kids[1])))
              [] OTHER -> LET l == x.kids[1]  r == x.kids[2]
                              ls == IF Prec(l.op) < Prec(x.op) THEN Paren(MinAt(l)) ELSE MinAt(l)
                              rs == IF Prec(r.op) <= Prec(x.op) THEN Paren(MinAt(r)) ELSE MinAt(r)
                          IN ls \o Sp \o Chars(Tok(x.op)) \o Sp \o rs
Bucket(x) == (Len(Min(x)) + 3 * Len(Full(x))) % NB
V2Inputs(x) == {TextIn(Min(x)), TextIn(Full(x)), TextIn(WithAt(x)),
                ListIn(<<Min(x)>>), ListIn(<<Full(x), <<"@", "b">> >>), ListIn(<<<<"a">>, Min(x)>>),
                TextIn(FullAt(x)), TextIn(MinAt(x)), ListIn(<<FullAt(x), MinAt(x)>>),
                \* parts that start with "(" and end with ")" without being enclosed by one matching pair: (a) or (b)
                TextIn(Leafy(x)), ListIn(<<Leafy(x), <<"@", "b">> >>), ListIn(<<<<"a">>, LeafyAt(x)>>),
                ListIn(<<LeafyAt(x), Leafy(x)>>)}

\* ---------------------------------------------------------------- histories of Configuration constructions
HProtos == {"v1", "v2", "strict", "auto_detect", "default"}
HInputs == { ListIn(<< <<"a", ",", "@", "b">>, <<"-", "n", "o", "r">> >>),                        \* pure v1: a,@b -nor
             ListIn(<< <<"n","o","t"," ","@","a">> >>),                                            \* pure v2: not @a
             ListIn(<< <<"(","@","a"," ","o","r"," ","@","b",")"," ","a","n","d"," ","n","o","r">> >>),  \* pure v2: (@a or @b) and nor
             ListIn(<< <<"-","@","a"," ","a","n","d"," ","@","b">> >>) }                           \* mixed: -@a and @b
HCons == {[proto |-> p, in |-> x] : p \in HProtos, x \in HInputs}

\* ---------------------------------------------------------------- state space
VARIABLES ph, g0, f, b, t, h
vars == <<ph, g0, f, b, t, h>>
Init == ph = "start" /\ g0 = <<>> /\ f = <<>> /\ b = 0 /\ t = TrueT /\ h = HistInit
Next == \/ ph = "start"   /\ ph' = "group"  /\ g0' \in Groups /\ UNCHANGED <<f, b, t, h>>
        \/ ph = "group"   /\ ph' = "cnf"    /\ f' \in {<<g0>> \o r : r \in Rests} /\ UNCHANGED <<g0, b, t, h>>
        \/ ph = "start"   /\ ph' = "bucket" /\ b' \in 1..NB /\ UNCHANGED <<g0, f, t, h>>
        \/ ph = "bucket"  /\ ph' = "v2"     /\ t' \in {x \in AllTrees : Bucket(x) = b - 1} /\ UNCHANGED <<g0, f, b, h>>
        \* one more construction in the same process
        \/ ph \in {"start", "hist"} /\ Len(h.cons) < HistLen /\ ph' = "hist"
           /\ \E c \in HCons : h' = HistStep(h, c, SS)
           /\ UNCHANGED <<g0, f, b, t>>
Spec == Init /\ [][Next]_vars

OnCnf(P) == ph = "cnf" => P
OnV2(P)  == ph = "v2" => P
Ok(tt) == [exc |-> "", tee |-> FALSE, tt |-> tt]

\* ---------------------------------------------------------------- design-level laws
\* the definitional reader inverts every rendering (ties the judge's grammar to the family)
ReadBack == OnCnf(\A in \in V1Inputs(f) : IsPureV1(in) /\ CnfOf(in) = f)
\* v1 algorithm == CNF definition on the complete truth table, for every style and both input shapes
V1Algorithm == OnCnf(LET want == Ok(CnfTT(f, SS)) IN \A in \in V1Inputs(f) : V1Run(in, SS) = want)
\* auto-detection of a pure v1 rendering yields the v1 meaning
AutoOnV1 == OnCnf(LET want == Ok(CnfTT(f, SS)) IN \A in \in V1Inputs(f) : AutoRun(in, SS) = want \/ KF_C08_2(in))
\* mixed texts are rejected
Rejected(in) == AutoDetect(in) = "error"
AutoOnMixed == OnCnf(HasNeg(f) => \A s \in MixedStyles : \A in \in MixedInputs(f, s) :
                                     IsMixed(in) /\ Rejected(in))
\* auto-detection of a pure v2 rendering yields the v2 meaning (the meaning is TagExpr's own parse of that text,
\* which TagExpr_MC proves equal to the rendered tree)
AutoV2(in) == AutoRun(in, SS) = V2Run(in, SS)
AutoOnV2 == OnV2(\A in \in V2Inputs(t) : V2Parsed(in).ok /\ (IsPureV2(in) => (AutoV2(in) \/ KF_C08_3(in))))
\* the '@' decoration never changes the v2 meaning, wherever it stands
AtNeutral == OnV2(LET want == V2Run(TextIn(Full(t)), SS) IN
                  want.exc = "" /\ V2Run(TextIn(FullAt(t)), SS) = want /\ V2Run(TextIn(MinAt(t)), SS) = want)
\* the list form is the conjunction of its parts, whatever their top-level operator and outermost characters
ListIsConjunction ==
   OnV2(\A in \in V2Inputs(t) : (in.form = "list" /\ Len(in.terms) = 2) =>
           LET r == V2Run(in, SS)  r1 == V2Run(TextIn(in.terms[1]), SS)  r2 == V2Run(TextIn(in.terms[2]), SS) IN
           r.exc = "" /\ r1.exc = "" /\ r2.exc = "" /\ \A k \in DOMAIN SS : r.tt[k] = (r1.tt[k] /\ r2.tt[k]))
\* the result of a construction depends only on its own arguments, whatever the process has constructed before
HistoryIndependent ==
   ph = "hist" => /\ h.cur = Eff(h.cons[Len(h.cons)].proto)
                  /\ \A k \in DOMAIN h.cons : h.results[k] = RunAs(Eff(h.cons[k].proto), h.cons[k].in, SS)
\* the three classes never make contradicting demands: only a text that means the same in both dialects is in two
Classes == /\ OnCnf(LET want == Ok(CnfTT(f, SS)) IN \A in \in V1Inputs(f) : ~IsMixed(in) /\ (IsPureV2(in) => V2Run(in, SS) = want))
           /\ OnV2(\A in \in V2Inputs(t) : IsPureV2(in) => ~IsMixed(in))
           /\ OnCnf(HasNeg(f) => \A s \in MixedStyles : \A in \in MixedInputs(f, s) : ~IsPureV1(in) /\ ~IsPureV2(in))

\* ---------------------------------------------------------------- witnesses of the named exceptions (smallest formulas only):
\* inputs on which the strict law (the invariant above without its exception) fails on the transcription of the code
Size(x) == Len(Flat(x))
Witness ==
   /\ OnCnf(Size(f) <= 2 =>
         /\ LET want == Ok(CnfTT(f, SS)) IN \A in \in V1Inputs(f) :
                (AutoRun(in, SS) # want /\ KF_C08_2(in)) => PrintT(<<"KFHIT", "AutoOnV1", "KF_C08_2", ToJson(in)>>))
   /\ OnV2(t.op = "lit" => \A in \in V2Inputs(t) :
         (IsPureV2(in) /\ ~AutoV2(in) /\ KF_C08_3(in)) => PrintT(<<"KFHIT", "AutoOnV2", "KF_C08_3", ToJson(in)>>))

\* ---------------------------------------------------------------- emission
RECURSIVE SumSeq(_)
SumSeq(s) == IF s = <<>> THEN 0 ELSE Head(s) + SumSeq(Tail(s))
Hash(x) == SumSeq([i \in DOMAIN x |-> SumSeq([j \in DOMAIN x[i] |->
              (7 * i + 3 * j) * (IF x[i][j].neg THEN 5 ELSE 2) + 11 * Len(x[i][j].name) * (i + j)])])
Emit == /\ OnCnf(Hash(f) % EmitMod = 0 =>
                 PrintT(<<"CASE", ToJson([kind  |-> "cnf", f |-> f, tt |-> CnfTT(f, SS),
                                          args  |-> [s \in 1..NStyles |-> RenderArgs(f, s)],
                                          mixed |-> IF HasNeg(f) THEN [s \in 1..2 |-> MixedInputs(f, IF s = 1 THEN 1 ELSE 4)]
                                                    ELSE <<>>])>>))
        /\ OnV2(PrintT(<<"CASE", ToJson([kind |-> "v2", min |-> Min(t), full |-> Full(t), at |-> WithAt(t),
                                         fullat |-> FullAt(t), minat |-> MinAt(t), leafy |-> Leafy(t), leafyat |-> LeafyAt(t),
                                         tt |-> V2Run(TextIn(Min(t)), SS).tt])>>))
        /\ (ph = "hist" /\ Len(h.cons) = HistLen) =>
              PrintT(<<"CASE", ToJson([kind |-> "hist", cons |-> [k \in DOMAIN h.cons |->
                                          [proto |-> h.cons[k].proto, terms |-> h.cons[k].in.terms]]])>>)

\* ---------------------------------------------------------------- constants for the cfg files
NamesQuick    == {<<"a">>, <<"b">>, <<"n","o","r">>}
NamesTwo      == {<<"a">>, <<"b">>}
Univ          == << <<"a">>, <<"b">>, <<"n","o","r">>, <<"x","-","y">>, <<"a"," ","b">> >>
UnivSmall     == << <<"a">>, <<"b">>, <<"n","o","r">> >>
OpsPlain      == {<<"a">>, <<"b">>}
AllStyles     == 1..NStyles
TwoStyles     == {4, 5}
OpsV2         == {<<"a">>, <<"b">>, <<"x","-","y">>, <<"a","*">>, <<"a","\\"," ","b">>}
=============================================================================
