------------------------------ MODULE Summary ------------------------------
(***************************************************************************)
(* C14 -- summary conservation.                                            *)
(*                                                                         *)
(* (S) the consumers of a finished model, transcribed from the code:       *)
(*   behave/reporter/summary.py  SummaryReporterV1.process_* (tree walk    *)
(*       with four name-keyed count tables; `table[status.name] += 1` on a *)
(*       key that is not in the table is an explicit CRASH = KeyError),    *)
(*       AbstractSummaryReporter.on_scenario / end (failing, errored       *)
(*       lists), print_summary, format_summary_v1 / v1A / v1B / v2 / v3 =  *)
(*       format_summary_with_schema, STATUS_ORDER, OPTIONAL_STATUS_PARTS_*;*)
(*       SummaryReporterV2.print_summary (enum-keyed StatusCounts tables); *)
(*   behave/summary.py  SummaryCollector.on_* and                          *)
(*   behave/model_visitor.py  ModelVisitor.visit_* (the traversal).        *)
(* (P) the clauses of C14 over a *model after the run* and what a consumer *)
(*   printed / returned for it.                                            *)
(*                                                                         *)
(* model  m = [kind, children, status, steps]  (functions of element id;   *)
(*   kind in feature rule outline scenario; children in document order =   *)
(*   run_items / outline.scenarios; steps[s] = statuses of all_steps).     *)
(* observation of one reporter run                                         *)
(*   o = [impl, fmt, crashed (exception type or ""), crash_at, lines (one  *)
(*        Line per kind in the order of KindSeq), failing, errored (ids)]  *)
(*   Line = [printed, parts: Seq([name, n]), has_total, total]             *)
(***************************************************************************)
EXTENDS Naturals, Integers, Sequences, FiniteSets, TLC

KindSeq == <<"feature", "rule", "scenario", "step">>
KindSet == {"feature", "rule", "scenario", "step"}
KIx(k) == CASE k = "feature" -> 1 [] k = "rule" -> 2 [] k = "scenario" -> 3 [] k = "step" -> 4
Formats == <<"v1", "v1A", "v1B", "v2", "v3">>

\* ---------------------------------------------------------------- constants of the code
\* behave/summary.py: STATUS_ORDER
StatusOrder == <<"passed", "failed", "error", "hook_error", "skipped", "pending", "pending_warn", "undefined",
                 "untested", "untested_pending", "untested_undefined">>
\* behave/reporter/summary.py: OPTIONAL_STATUS_PARTS_V1 / _V2
OptV1 == {"error", "hook_error", "cleanup_error", "pending", "pending_warn", "undefined", "untested",
          "untested_pending", "untested_undefined"}
OptV2 == OptV1 \cup {"skipped"}
\* SummaryReporterV1.__init__: summary_zero_data and the additional step keys
ZeroKeys == {"all", "passed", "failed", "error", "hook_error", "skipped", "untested"}
StepKeys == ZeroKeys \cup {"undefined", "untested_undefined", "pending", "pending_warn", "untested_pending"}
\* behave/summary.py: StatusCounts.ZERO (keys are enum values)
CounterKeys == {"passed", "failed", "error", "hook_error", "cleanup_error", "skipped", "pending", "pending_warn",
                "undefined", "untested", "untested_pending", "untested_undefined"}
\* behave/model_core.py: Status.is_error()
ErrorClass == {"error", "hook_error", "cleanup_error", "undefined", "pending"}

\* ---------------------------------------------------------------- small helpers
RECURSIVE SumFun(_, _)
SumFun(f, S) == IF S = {} THEN 0 ELSE LET x == CHOOSE y \in S : TRUE IN f[x] + SumFun(f, S \ {x})
SumAll(c) == SumFun(c, DOMAIN c)
SumButAll(c) == SumFun(c, DOMAIN c \ {"all"})                \* compute_summary_sum
CountSeq(s, x) == Cardinality({i \in DOMAIN s : s[i] = x})
SeqSet(s) == {s[i] : i \in DOMAIN s}
Ids(n) == [i \in 1..n |-> i]

\* ---------------------------------------------------------------- the model
Els(m) == DOMAIN m.kind
FeatureSeq(m) == SelectSeq(Ids(Len(m.kind)), LAMBDA e : m.kind[e] = "feature")
ScenSet(m) == {e \in Els(m) : m.kind[e] = "scenario"}
\* every status that occurs in the model, plus every status the code knows
StatusUniverse(m) == CounterKeys \cup {m.status[e] : e \in {x \in Els(m) : m.kind[x] # "outline"}}
                        \cup UNION {SeqSet(m.steps[s]) : s \in ScenSet(m)}
\* the census: computed from the final statuses, by definition
CensusOf(m, k, s) ==
   IF k = "step" THEN SumFun([e \in ScenSet(m) |-> CountSeq(m.steps[e], s)], ScenSet(m))
   ELSE Cardinality({e \in Els(m) : m.kind[e] = k /\ m.status[e] = s})
\* the same as one fold per kind (Z = the zero function over the status universe); CensusOf is the definition,
\* CensusFold the fast form used by the clauses (Summary_MC checks that they agree: CensusFoldIsCensus)
RECURSIVE AddSeq(_, _, _)
AddSeq(f, s, i) == IF i > Len(s) THEN f ELSE AddSeq([f EXCEPT ![s[i]] = @ + 1], s, i + 1)
RECURSIVE CensusFold(_, _, _, _)
CensusFold(m, f, k, e) ==
   IF e > Len(m.kind) THEN f
   ELSE CensusFold(m, IF k = "step" THEN (IF m.kind[e] = "scenario" THEN AddSeq(f, m.steps[e], 1) ELSE f)
                      ELSE IF m.kind[e] = k THEN [f EXCEPT ![m.status[e]] = @ + 1] ELSE f, k, e + 1)
Population(m) == [k \in KindSet |->
   IF k = "step" THEN SumFun([e \in ScenSet(m) |-> Len(m.steps[e])], ScenSet(m))
   ELSE Cardinality({e \in Els(m) : m.kind[e] = k})]

\* ================================================================ (S) SummaryReporterV1: the tree walk
V1Init == [feat |-> [k \in ZeroKeys |-> 0], rule |-> [k \in ZeroKeys |-> 0], scen |-> [k \in ZeroKeys |-> 0],
           step |-> [k \in StepKeys |-> 0], failed |-> <<>>, errored |-> <<>>, crashed |-> FALSE]
Crash(st) == [st EXCEPT !.crashed = TRUE]                   \* KeyError: the key is not in the table
Inc(c, key) == [c EXCEPT ![key] = @ + 1]

RECURSIVE V1Steps(_, _, _, _)
V1Steps(m, st, s, p) ==                                     \* for step in scenario: step_summary[step.status.name] += 1
   IF st.crashed \/ p > Len(m.steps[s]) THEN st
   ELSE LET x == m.steps[s][p] IN
        IF x \notin DOMAIN st.step THEN Crash(st)
        ELSE V1Steps(m, [st EXCEPT !.step = Inc(@, x)], s, p + 1)

V1Scenario(m, st, s) ==                                     \* process_scenario
   IF st.crashed THEN st ELSE
   LET x == m.status[s]
       \* on_scenario: is_failure() -> failing; elif is_error() -> errored
       st1 == [st EXCEPT !.failed = IF x = "failed" THEN Append(@, s) ELSE @,
                         !.errored = IF x # "failed" /\ x \in ErrorClass THEN Append(@, s) ELSE @]
   IN IF x \notin DOMAIN st1.scen THEN Crash(st1)
      ELSE V1Steps(m, [st1 EXCEPT !.scen = Inc(@, x)], s, 1)

RECURSIVE V1Items(_, _, _, _), V1Rule(_, _, _)
V1Items(m, st, items, i) ==                                 \* process_run_items_for
   IF st.crashed \/ i > Len(items) THEN st
   ELSE LET e == items[i]
            st1 == CASE m.kind[e] = "rule" -> V1Rule(m, st, e)
                     [] m.kind[e] = "outline" -> V1Items(m, st, m.children[e], 1)    \* process_scenario_outline: rows only
                     [] OTHER -> V1Scenario(m, st, e)
        IN V1Items(m, st1, items, i + 1)
V1Rule(m, st, e) ==                                         \* process_rule
   IF m.status[e] \notin DOMAIN st.rule THEN Crash(st)
   ELSE V1Items(m, [st EXCEPT !.rule = Inc(@, m.status[e])], m.children[e], 1)
V1Feature(m, st, f) ==                                      \* process_feature
   IF st.crashed THEN st
   ELSE IF m.status[f] \notin DOMAIN st.feat THEN Crash(st)
   ELSE V1Items(m, [st EXCEPT !.feat = Inc(@, m.status[f])], m.children[f], 1)
RECURSIVE V1Feed(_, _, _, _)
V1Feed(m, st, fs, i) == IF i > Len(fs) THEN st ELSE V1Feed(m, V1Feature(m, st, fs[i]), fs, i + 1)
V1Run(m) == V1Feed(m, V1Init, FeatureSeq(m), 1)             \* runner: reporter.feature(f) for every feature

\* ================================================================ (S) SummaryCollector through ModelVisitor
ColInit == [feat |-> [k \in CounterKeys |-> 0], rule |-> [k \in CounterKeys |-> 0], scen |-> [k \in CounterKeys |-> 0],
            step |-> [k \in CounterKeys |-> 0], failed |-> <<>>, errored |-> <<>>]
IncCounter(c, key) == IF key \in DOMAIN c THEN [c EXCEPT ![key] = @ + 1] ELSE c @@ (key :> 1)   \* a Counter never raises
RECURSIVE ColSteps(_, _, _, _)
ColSteps(m, st, s, p) == IF p > Len(m.steps[s]) THEN st                                          \* visit_step -> on_step
                         ELSE ColSteps(m, [st EXCEPT !.step = IncCounter(@, m.steps[s][p])], s, p + 1)
ColScenario(m, st, s) ==                                     \* visit_scenario -> on_scenario, then the steps
   LET x == m.status[s]
       \* on_scenario: status == Status.failed -> failed; elif status.is_error() -> errored  (repaired in /repo 1d0be2e)
       st1 == [st EXCEPT !.failed = IF x = "failed" THEN Append(@, s) ELSE @,
                         !.errored = IF x # "failed" /\ x \in ErrorClass THEN Append(@, s) ELSE @,
                         !.scen = IncCounter(@, x)]
   IN ColSteps(m, st1, s, 1)
RECURSIVE ColItems(_, _, _, _)
ColItems(m, st, items, i) ==                                 \* visit_items_of -> visit() dispatch on the class
   IF i > Len(items) THEN st
   ELSE LET e == items[i]
            st1 == CASE m.kind[e] = "rule" -> ColItems(m, [st EXCEPT !.rule = IncCounter(@, m.status[e])], m.children[e], 1)
                     [] m.kind[e] = "outline" -> ColItems(m, st, m.children[e], 1)   \* on_scenario_outline counts nothing
                     [] OTHER -> ColScenario(m, st, e)
        IN ColItems(m, st1, items, i + 1)
ColFeature(m, st, f) == ColItems(m, [st EXCEPT !.feat = IncCounter(@, m.status[f])], m.children[f], 1)
RECURSIVE ColFeed(_, _, _, _)
ColFeed(m, st, fs, i) == IF i > Len(fs) THEN st ELSE ColFeed(m, ColFeature(m, st, fs[i]), fs, i + 1)
ColRun(m) == ColFeed(m, ColInit, FeatureSeq(m), 1)

\* ================================================================ (S) the line formats
\* a table as the format functions see it: sort = "name" (dict keyed by status name, has "all") or
\* "enum" (StatusCounts: Counter keyed by Status values, get("all") = total)
NameTab(c) == [sort |-> "name", c |-> c]
EnumTab(c) == [sort |-> "enum", c |-> c]
HasName(t, nm) == t.sort = "name" /\ nm \in DOMAIN t.c          \* `status.name in table`: a str never equals-hashes an enum key
RECURSIVE PartsFrom(_, _, _)
PartsFrom(t, opt, i) ==                                          \* the loop over STATUS_ORDER
   IF i > Len(StatusOrder) THEN <<>>
   ELSE LET nm == StatusOrder[i]  rest == PartsFrom(t, opt, i + 1) IN
        IF ~HasName(t, nm) THEN rest
        ELSE IF nm \in opt /\ t.c[nm] = 0 THEN rest             \* optional part, suppressed when zero
        ELSE <<[name |-> nm, n |-> t.c[nm]]>> \o rest
TotalOf(t) == IF t.sort = "enum" THEN SumAll(t.c)                \* StatusCounts.get("all")
              ELSE IF "all" \in DOMAIN t.c THEN t.c["all"]
              ELSE SumButAll(t.c)
\* status_counts.get(Status.passed.name, status_counts.get(Status.passed, 0)): the name finds the count in a name-keyed
\* dict, the enum value in a StatusCounts (repaired in /repo 410d1d0; before, only the enum key was tried)
GetPassed(t) == IF "passed" \in DOMAIN t.c THEN t.c["passed"] ELSE 0
NoLine == [printed |-> FALSE, parts |-> <<>>, has_total |-> FALSE, total |-> 0]
FormatLine(fmt, t) ==
   IF fmt = "v1" THEN                                            \* "N kind(s) passed, n name, ..."
      LET ps == PartsFrom(t, OptV1, 1) IN
      IF HasName(t, "passed") THEN [printed |-> TRUE, parts |-> ps, has_total |-> FALSE, total |-> 0] ELSE NoLine
   ELSE LET ps == PartsFrom(t, OptV2, 1) IN
        IF fmt = "v1B" THEN                                      \* use_passed_for_all: "T kind(s) passed, n name, ..."
           [printed |-> TRUE,
            parts |-> <<[name |-> "passed", n |-> GetPassed(t)]>> \o SelectSeq(ps, LAMBDA p : p.name # "passed"),
            has_total |-> FALSE, total |-> 0]
        ELSE [printed |-> TRUE, parts |-> ps, has_total |-> TRUE, total |-> TotalOf(t)]   \* v1A v2 v3: "T kind(s) ... parts"

WithAll(c) == [c EXCEPT !["all"] = SumButAll(c)]                 \* compute_summary_sums
SpecV1(st, fmt) ==                                 \* st = V1Run(m)
   IF st.crashed
   THEN [impl |-> "V1", fmt |-> fmt, crashed |-> "KeyError", crash_at |-> "feature",
         lines |-> <<NoLine, NoLine, NoLine, NoLine>>, failing |-> <<>>, errored |-> <<>>]
   ELSE LET ft == NameTab(WithAll(st.feat))  rt == NameTab(WithAll(st.rule))
            sc == NameTab(WithAll(st.scen))  sp == NameTab(WithAll(st.step))
        IN [impl |-> "V1", fmt |-> fmt, crashed |-> "", crash_at |-> "",
            lines |-> <<FormatLine(fmt, ft), IF rt.c["all"] > 0 THEN FormatLine(fmt, rt) ELSE NoLine,   \* has_rules
                        FormatLine(fmt, sc), FormatLine(fmt, sp)>>,
            failing |-> st.failed, errored |-> st.errored]
\* SummaryReporterV2: collector + the same format functions on enum-keyed tables; print_summary then reads
\* summary_counts.hook_failed, which SummaryCounts does not have: AttributeError after the four lines
SpecV2(st, fmt) ==                                 \* st = ColRun(m)
   [impl |-> "V2", fmt |-> fmt, crashed |-> "AttributeError", crash_at |-> "end",
    lines |-> <<FormatLine(fmt, EnumTab(st.feat)), IF SumAll(st.rule) > 0 THEN FormatLine(fmt, EnumTab(st.rule)) ELSE NoLine,
                FormatLine(fmt, EnumTab(st.scen)), FormatLine(fmt, EnumTab(st.step))>>,
    failing |-> st.failed, errored |-> st.errored]
SpecCollector(st) ==
   [crashed |-> "", counts |-> <<st.feat, st.rule, st.scen, st.step>>, failing |-> st.failed, errored |-> st.errored]

\* ================================================================ (P) the clauses
\* a verdict is <<clause, impl, fmt, kind>>.  Judged are the end-of-run summary of the run itself (impl "live"), the
\* summary reporter behave uses (SummaryReporter = SummaryReporterV1, impl "V1", every format) and the collector.
\* SummaryReporterV2 (impl "V2") is a class nothing instantiates: it is recorded and compared with its transcription
\* (divergence, informational) but it is not "the end-of-run summary" of the statement and never judged.
\* For speed every printed line is folded once into a function status -> number over the domain D = statuses of the
\* model + statuses the code knows + "?" (any other printed name; its census is 0); not printed = 0 (optional
\* parts are suppressed when zero), so that most comparisons are one native function equality.
RECURSIVE SumParts(_, _)
SumParts(ps, i) == IF i > Len(ps) THEN 0 ELSE ps[i].n + SumParts(ps, i + 1)
RECURSIVE FoldParts(_, _, _)
FoldParts(f, ps, i) == IF i > Len(ps) THEN f
                       ELSE LET nm == IF ps[i].name \in DOMAIN f THEN ps[i].name ELSE "?" IN
                            FoldParts([f EXCEPT ![nm] = @ + ps[i].n], ps, i + 1)
LineOf(o, k) == o.lines[KIx(k)]

\* C14.count -- each printed count = number of elements with that final status; nothing with census > 0 is left out
\* C14.sum   -- the counts add up to the number of elements of the kind; so does a printed total
\* C14.listed -- failing / errored lists = scenarios with failed / error-class status
\* C14.no_crash
RepClauses(m, C, P, o, lf) ==                       \* lf = [k |-> folded line of kind k]
   IF o.crashed # "" THEN {<<"C14.no_crash", o.impl, o.fmt, "-">>}
   ELSE LET failed == {s \in ScenSet(m) : m.status[s] = "failed"}
            errd == {s \in ScenSet(m) : m.status[s] \in ErrorClass}
        IN UNION {
              (IF lf[k] # C[k] THEN {<<"C14.count", o.impl, o.fmt, k>>} ELSE {})
              \cup
              (IF SumParts(LineOf(o, k).parts, 1) # P[k] \/ (LineOf(o, k).has_total /\ LineOf(o, k).total # P[k])
               THEN {<<"C14.sum", o.impl, o.fmt, k>>} ELSE {})
              : k \in KindSet}
           \cup (IF SeqSet(o.failing) # failed \/ SeqSet(o.errored) # errd
                 THEN {<<"C14.listed", o.impl, o.fmt, "scenario">>} ELSE {})

\* C14.formats -- all formats of one implementation print the same numbers (reference: the first one that did not
\* crash; totals: the first one that prints a total)
FormatClauses(reps, lfs, impl) ==
   LET mine == SelectSeq(Ids(Len(reps)), LAMBDA i : reps[i].impl = impl /\ reps[i].crashed = "") IN
   IF Len(mine) < 2 THEN {}
   ELSE LET ref == mine[1]
            withT == SelectSeq(mine, LAMBDA i : LineOf(reps[i], "feature").has_total)
            Differs(i, k) == \/ lfs[i][k] # lfs[ref][k]
                             \/ /\ LineOf(reps[i], k).has_total /\ LineOf(reps[withT[1]], k).has_total
                                /\ LineOf(reps[i], k).total # LineOf(reps[withT[1]], k).total
        IN {<<"C14.formats", impl, reps[mine[x[1]]].fmt, x[2]>> :
               x \in {y \in (2..Len(mine)) \X KindSet : Differs(mine[y[1]], y[2])}}

\* C14.collector -- SummaryCollector.summary_counts = census (c.counts: one Seq([name, n]) per kind; c.totals);
\* the collector's failed / errored lists are judged by C14.listed
CollectorClauses(m, C, P, Z, c) ==
   IF c.crashed # "" THEN {<<"C14.no_crash", "collector", "-", "-">>}
   ELSE {<<"C14.collector", "collector", "-", k>> :
            k \in {kk \in KindSet : FoldParts(Z, c.counts[KIx(kk)], 1) # C[kk] \/ c.totals[KIx(kk)] # P[kk]}}
        \cup (LET failed == {s \in ScenSet(m) : m.status[s] = "failed"}
                  errd == {s \in ScenSet(m) : m.status[s] \in ErrorClass}
              IN IF SeqSet(c.failing) # failed \/ SeqSet(c.errored) # errd
                 THEN {<<"C14.listed", "collector", "-", "scenario">>} ELSE {})

\* obs = [reps: Seq(observation), col: collector observation, live_ok: the run came to its end]
\* the reporter of the real run (impl "live") is observed only if the run was not cut by an escaped exception
Observed(obs) == SelectSeq(obs.reps, LAMBDA o : o.impl # "live" \/ obs.live_ok)
Judged(obs) == SelectSeq(Observed(obs), LAMBDA o : o.impl # "V2")
Clauses(m, obs) ==
   LET SU == StatusUniverse(m) \cup {"?"}
       Z == [s \in SU |-> 0]
       C == [k \in KindSet |-> CensusFold(m, Z, k, 1)]
       P == Population(m)
       reps == Judged(obs)
       lfs == [i \in DOMAIN reps |-> [k \in KindSet |-> IF reps[i].crashed # "" THEN Z
                                                         ELSE FoldParts(Z, LineOf(reps[i], k).parts, 1)]]
   IN UNION {RepClauses(m, C, P, reps[i], lfs[i]) : i \in DOMAIN reps}
      \cup FormatClauses(reps, lfs, "V1")
      \cup CollectorClauses(m, C, P, Z, obs.col)

\* the collector observation in the row format (parts per kind, totals) from the automaton state
ColParts(c) == LET RECURSIVE go(_)
                   go(S) == IF S = {} THEN <<>> ELSE LET x == CHOOSE y \in S : TRUE IN <<[name |-> x, n |-> c[x]]>> \o go(S \ {x})
               IN go({k \in DOMAIN c : c[k] # 0})
SpecColObs(st) == LET s == SpecCollector(st) IN
   [crashed |-> "", counts |-> [i \in 1..4 |-> ColParts(s.counts[i])], totals |-> [i \in 1..4 |-> SumAll(s.counts[i])],
    failing |-> s.failing, errored |-> s.errored]
\* everything the code does for one model, in the row format (S composed with P: Clauses(m, SpecObs(m)))
SpecObs(m) == LET v1 == V1Run(m)  col == ColRun(m) IN
              [reps |-> [i \in 1..10 |-> IF i <= 5 THEN SpecV1(v1, Formats[i]) ELSE SpecV2(col, Formats[i - 5])],
               col |-> SpecColObs(col), live_ok |-> FALSE]

\* No exception: the defects this check found in the shipped summary (format v1B printed 0 passed; the collector's
\* errored list left hook_error scenarios out) are repaired in /repo and (S) above follows the repaired code, so a
\* return of either is a plain violation.  SummaryReporterV2 as it is: AttributeError in end() for every model and no
\* part printed from the enum-keyed tables (SpecV2 / HasName) -- modelled, compared, not judged.
=============================================================================
