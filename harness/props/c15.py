"""C15 -- formatter event protocol well formed; JSON / plain / progress reports mirror the model.

(S)+(P) specs/Consumers.tla   (MC) specs/Consumers_MC.tla   judge: specs/Consumers_Trace.tla   plug-in: run/reports_c15.py

1. design level: TLC generates every small abstract run (features with optional background, optional rule with own /
   inherited / no background, scenarios with <= MaxOwn own steps, selected or not, shown or hidden, normal and dry-run,
   undefined steps, converter errors, a second feature before / after), writes down the formatter stream the runner
   emits for it (after Run.tla), feeds the automata transcribed from JSONFormatter / PlainFormatter / the progress
   formatters / JsonParser and checks every clause in every state -- except the one named family of the code as it is
   (KnownFamilies: a dry run gives its undefined steps no callbacks, DESIGN section 8 #4, a known finding), guarded by a
   narrow predicate (KFNarrow); with the drafted repair nothing fires (RepairedHolds).  A deterministic part of the runs is emitted with the predicted stream and reports.
2. "design" rows: every emitted run is rendered to real feature files and run on the real ModelRunner with the
   built-in report writers; the recorded stream and the reports are compared with the prediction (divergences,
   informational) and judged like every other row.
3. "reports" rows: a class-balanced part of the shared run-cluster plan (stage.plan: exhaustive `scen`, random `tree`
   and `big`; dry-run, rules after scenarios, backgrounds at both levels, outlines, undefined steps, converter
   errors, unselected scenarios with and without show_skipped, hook faults) with json, plain, progress2, progress3
   and rerun active next to the recording formatter.
4. "formats" rows: the same kind of cases with the set and order of built-in formatters varied (json json.pretty
   plain pretty progress progress2 progress3 rerun steps; quick: some subsets, thorough: every subset of size <= 3)
   and --no-timings / --no-multiline / colour switches.
5. "hookskip" rows: emitted runs with unselected elements once more, the exclusion now done at run time by a
   before_feature / before_rule / before_scenario hook calling skip() on its element (no tags, no tag expression):
   the stream and the reports must be those of the tag-excluded run.
6. "decor" rows: small programs whose steps carry data tables and doc-strings (run/render.py renders none): tables
   with distinct headings, with a repeated heading written literally (| name | coord | coord |) and with a repeated
   heading produced by outline placeholders in the heading row that get the same Examples value, cells pairwise
   different, empty cells; one-line and multi-line doc-strings.  The tables / doc-strings of the JSON report must be
   those of the model after the run (step.table.headings, row.cells, step.text), cell by cell (C15.json_mirror).
7. "stdout" rows: cases of the plan (no hook faults) with MORE -f than -o: the last formatter has no output file and
   writes to the real stdout, which the driver records -- json to a file + plain / progress2 / progress3 on stdout,
   plain (+ progress2) to files + json on stdout; judged like every row (the report of the formatter on stdout is read
   from the recorded stdout text).
TLC (Consumers_Trace) judges all rows: grammar of the recorded stream, json_valid, json_mirror, json_readback,
plain_once, progress_once, agree, no_crash.  Python renders, runs, reads files and maps locations to ids."""
import bisect
import itertools
import json
import os
import random
import re
from concurrent.futures import ThreadPoolExecutor

from vlib import trace
from run import gen as G, stage

WORKERS = int(os.environ.get("VERIF_WORKERS") or 16)
PROCS = int(os.environ.get("VERIF_PROCS") or 14)
QUIET = ["--no-junit", "--no-summary"]      # other properties' report writers stay out of these runs
DEFAULT_FORMATS = ["json", "plain", "progress", "progress2", "progress3", "rerun"]
ALL_FORMATS = ["json", "json.pretty", "plain", "pretty", "progress", "progress2", "progress3", "rerun", "steps"]
SWITCHES = [[], ["--no-timings"], ["--no-multiline"], ["--no-color"], ["--color=always"], ["--no-timings", "--no-multiline", "--color=always"]]
KIND2OUTCOME = {"pass": "pass", "fail": "fail", "undef": "undefined", "bad": "badarg", "skip": "skip"}


# ------------------------------------------------------------------------------------------------ rows
def slim_prog(flat):
    return [{"kind": e["kind"], "parent": e["parent"], "steps": [{"o": s["o"], "def": s["def"]} for s in e["steps"]]}
            for e in flat["elems"]]


def fmt_events(events):
    return [{"name": e["name"], "el": e["el"], "pos": e["pos"], "status": e["status"], "undefined": e["undefined"], "n": e["n"]}
            for e in events if e["k"] == "fmt"]


def make_row(rid, job, out):
    end = out["end"]
    rep = (out.get("reports") or {}).get("c15")
    if not rep or "projection_error" in rep:
        raise RuntimeError("plug-in c15 failed on %s:\n%s" % (job["key"], (rep or {}).get("projection_error")))
    ev = out["events"]
    return {"id": rid, "pass": job["pass"], "prog": slim_prog(job["flat"]), "cfg": {"dry": bool(job["cfg"]["dry"])},
            "formats": list(job.get("formats", DEFAULT_FORMATS)) + list(job.get("stdout_formats", [])), "events": fmt_events(ev), "last_k": ev[-1]["k"] if ev else "",
            "end": {"ran": bool(end["ran"] and not end["escaped"]), "escaped": end["escaped"] or "", "status": end["status"],
                    "step_status": end["step_status"]},
            "reports": rep}


def run_job(job):
    # formatters without -o come last on the command line: -f / -o are paired by position, the rest writes to stdout
    j = dict(job, reports=True, plugins=["c15"], extra_args=QUIET + list(job.get("switches", [])) +
             [a for f in job.get("stdout_formats", []) for a in ("-f", f)])
    j.pop("pass", None)
    return j


# ------------------------------------------------------------------------------------------------ planning
def features_of(job):
    """abstract attributes of a case, used for the class-balanced choice and for the coverage record"""
    flat, c = job["flat"], job["cfg"]
    outs = [s["o"] for e in flat["elems"] for s in e["steps"]]
    rule_after_scen = False
    for f in job["prog"]["features"]:
        seen = False
        for it in f["items"]:
            if it["kind"] == "rule" and seen:
                rule_after_scen = True
            if it["kind"] != "rule":
                seen = True
    ex = G.EXPRS[c["expr"]]
    # continue_after_failed_step with a failing step that is not the last one: results follow a failed result
    cont_mid = bool(c.get("cont")) and any(s["o"] == "fail" for e in flat["elems"] for s in e["steps"][:-1])
    return {"dry": bool(c["dry"]), "cont_fail_not_last": cont_mid, "before_all_fault": 1 in list(job["fault"]), "rule_after_scenario": rule_after_scen,
            "feature_bg": any(f.get("bg") is not None for f in job["prog"]["features"]),
            "rule_bg": any(it["kind"] == "rule" and it.get("bg") is not None for f in job["prog"]["features"] for it in f["items"]),
            "outline": any(e["kind"] == "outline" for e in flat["elems"]),
            "undefined": "undefined" in outs, "badarg": "badarg" in outs,
            "tags_show": bool(ex["text"]) and bool(c["show_skipped"]), "tags_hide": bool(ex["text"]) and not c["show_skipped"],
            "fault": bool(job["fault"][0]), "multi": len(job["prog"]["features"]) > 1}


def job_class(job):
    f = features_of(job)
    return (job["prog"].get("family", ""), f["before_all_fault"], f["dry"], f["rule_after_scenario"], f["feature_bg"] or f["rule_bg"], f["outline"],
            f["undefined"], f["badarg"], f["tags_show"], f["tags_hide"], f["fault"], f["cont_fail_not_last"])


def must_keep(job):
    """guaranteed class of the reports pass: the tiny programs of family `cleanup` with a raising cleanup registered on the
    feature / rule / testrun layer -- the container's status changes when its context layer is popped, i.e. around eof"""
    if job["prog"].get("family") == "dupsteps":
        # scenarios whose steps compare equal (same keyword and text): every report still tells them apart
        return job["fault"] == [0, 0]
    if job["prog"].get("family") == "capdeco":
        # ... and the small all-passing program with EVERY single hook invocation as fault: a scenario's mark / status in
        # every report is its final one (a hook or cleanup after the last step may still turn it into an error)
        return True
    return job["prog"].get("family") == "cleanup" and any(
        st["cl_id"] and st["cl_raises"] and st["cl_layer"] in ("feature", "rule", "testrun")
        for e in job["flat"]["elems"] for st in e["steps"])


def thin(jobs, quota, rnd):
    if len(jobs) <= quota:
        return list(jobs)
    kept = [j for j in jobs if must_keep(j)]
    jobs = [j for j in jobs if not must_keep(j)]
    quota = max(0, quota - len(kept))
    return kept + _thin(jobs, quota, rnd)


def _thin(jobs, quota, rnd):
    classes = {}
    for j in jobs:
        classes.setdefault(job_class(j), []).append(j)
    order = sorted(classes)
    for c in order:
        rnd.shuffle(classes[c])
    out, k = [], 0
    while len(out) < quota:
        took = False
        for c in order:
            if k < len(classes[c]):
                out.append(classes[c][k])
                took = True
        if not took:
            break
        k += 1
    return out[:quota]


def plan_jobs(chk, quota, rnd):
    """a class-balanced part of the (program, cfg, fault set) triples of the shared plan"""
    pl = stage.plan(chk.tier, chk.seed, with_dup=True)
    offs, total = [], 0
    for p, cfgs, faults in pl:
        offs.append(total)
        total += len(cfgs) * len(faults)
    picks = range(total) if total <= quota * 8 else sorted(rnd.sample(range(total), quota * 8))
    if total > quota * 8:       # the guaranteed class survives the pre-sample
        extra = set()
        for tid, (p, cfgs, faults) in enumerate(pl):
            if p.get("family") in ("cleanup", "capdeco", "dupsteps"):
                extra.update(range(offs[tid], offs[tid] + len(cfgs) * len(faults)))
        picks = sorted(set(picks) | extra)
    flats = {}
    jobs = []
    for n in picks:
        tid = bisect.bisect_right(offs, n) - 1
        p, cfgs, faults = pl[tid]
        ci, fi = divmod(n - offs[tid], len(faults))
        if p.get("skips") and any(len(sk) > 2 for sk in p["skips"]):
            # an after_scenario hook that skips the enclosing feature / rule rewrites statuses of scenarios that were
            # reported before: outside the statement (before_* hooks excluding their own element are kept)
            p = dict(p, skips=[sk for sk in p["skips"] if len(sk) <= 2])
        if tid not in flats:
            flats[tid] = G.flatten(p)
        c = dict(cfgs[ci], retry=False)     # scenario_autoretry announces a scenario twice: outside the statement of C15
        jobs.append({"key": ["plan", tid + 1, ci + 1, fi + 1], "prog": p, "flat": flats[tid], "cfg": c, "fault": faults[fi],
                     "fault_kind": "assert" if (tid + ci + fi) % 3 == 0 else "exc", "pass": "reports"})
    return thin(jobs, quota, rnd), total


# built-in formatters outside the statement's report clauses: placed FIRST in a run, they must not keep the others from
# getting every callback up to the single close() (C15.no_crash / grammar / json_valid)
EXTRA_FORMATS = ["tags", "tags.location", "steps", "steps.doc", "steps.usage", "steps.catalog", "steps.bad", "steps.code", "sphinx.steps",
                 "rerun", "progress", "null"]


def format_sets(chk, rnd):
    """-> list of formatter lists: quick some subsets and orders, thorough every subset of size <= 3 (order shuffled)
    and every ordered pair"""
    sets = [list(ALL_FORMATS), list(reversed(ALL_FORMATS))] + [[x, "json", "plain"] for x in EXTRA_FORMATS] + \
           [["tags", "tags.location", "json.pretty", "progress3"]]
    subsets = [list(s) for n in (1, 2, 3) for s in itertools.combinations(ALL_FORMATS, n)]
    if chk.quick():
        sets += [[f] for f in ALL_FORMATS]
        sets += [rnd.sample(s, len(s)) for s in rnd.sample([s for s in subsets if len(s) > 1], 16)]
    else:
        sets += [rnd.sample(s, len(s)) for s in subsets]
        sets += [list(p) for p in itertools.permutations(ALL_FORMATS, 2)]
    return sets


STDOUT_COMBOS = [(["json"], ["plain"]), (["json"], ["progress2"]), (["json"], ["progress3"]), (["plain"], ["json"]),
                 (["json", "plain"], ["progress3"]), (["plain", "progress2"], ["json"]), (["json.pretty", "progress3"], ["plain"])]


def stdout_jobs(chk, quiet_jobs):
    """quiet_jobs: cases of the reports pass whose run (all formatters on files) wrote NOTHING to the real stdout --
    behave itself prints there, too ("ABORTED: By user.", HOOK-ERROR / CLEANUP-ERROR tracebacks, uncaptured step
    output); the run is deterministic, so with one formatter moved to stdout the recorded stdout text is that
    formatter's report and nothing else"""
    per = 18 if chk.quick() else 300
    out = []
    if not quiet_jobs:
        return out
    for ci, (files, std) in enumerate(STDOUT_COMBOS):
        for k in range(per):
            j = quiet_jobs[(ci * 131 + k * 17) % len(quiet_jobs)]
            out.append(dict(j, key=["stdout", ci, k] + j["key"][1:], formats=files, stdout_formats=std, **{"pass": "stdout"}))
    return out


def formats_jobs(chk, base_jobs, rnd):
    sets = format_sets(chk, rnd)
    per = 6 if chk.quick() else 24
    # cases that reach the formatters' corners first: dry-run, converter errors, rules after scenarios, tags
    ranked = sorted(base_jobs, key=lambda j: -sum(1 for v in features_of(j).values() if v))
    pool = ranked[:max(200, len(ranked) // 3)]
    # programs without any tag (run without tag expression) for every other row of the sets that start with an extra formatter
    untagged = [j for j in base_jobs if not any(e["tags"] for e in j["flat"]["elems"]) and not G.EXPRS[j["cfg"]["expr"]]["text"]] or pool
    out = []
    for si, fs in enumerate(sets):
        for k in range(per):
            j = pool[(si * per + k * 7) % len(pool)]
            if fs[0] in EXTRA_FORMATS and k % 2 == 0:
                j = untagged[(si * per + k * 7) % len(untagged)]
            out.append(dict(j, key=["formats", si, k] + j["key"][1:], formats=fs, switches=SWITCHES[(si + k) % len(SWITCHES)], **{"pass": "formats"}))
    return out


# ------------------------------------------------------------------------------------------------ emitted design runs -> real programs
def design_job(n, case):
    """an abstract run of Consumers_MC as a program of run/gen.py: unselected = tagged @t1 under the expression `not t1`"""
    run = case["run"]
    feats = []
    for f in run["feats"]:
        items = [G.scenario([KIND2OUTCOME[k] for k in sc["ks"]], [] if sc["sel"] else ["t1"]) for sc in f["pre"]]
        r = f["rule"]
        if r["kind"] == "rule":
            items.append(G.rule([G.scenario([KIND2OUTCOME[k] for k in sc["ks"]], [] if sc["sel"] else ["t1"]) for sc in r["scs"]],
                                [] if r["sel"] else ["t1"], bg=["pass"] * r["rbg"] if r["rbg"] else None))
        feats.append(G.feature(items, [] if f["sel"] else ["t1"], bg=["pass"] * f["fbg"] if f["fbg"] else None))
    prog = {"features": feats, "family": "design"}
    flat = G.flatten(prog)
    if [e["kind"] for e in flat["elems"]] != case["kinds"]:
        raise RuntimeError("element table of the emitted run and of gen.flatten differ: %s / %s" % (case["kinds"], [e["kind"] for e in flat["elems"]]))
    return {"key": ["design", n], "prog": prog, "flat": flat, "cfg": G.cfg(expr="not_t1", dry=run["dry"], show_skipped=run["ss"]),
            "fault": [0, 0], "fault_kind": "exc", "pass": "design", "case": case}


def hookskip_job(n, case):
    """the same abstract run, `unselected` realised by a hook that calls skip() on the element (outermost unselected
    element only; not for dry runs, where no hook is called)"""
    run = case["run"]
    if run["dry"]:
        return None
    feats, hooks, el = [], [], 0
    for f in run["feats"]:
        el += 1
        fel = el
        items = []
        if not f["sel"]:
            hooks.append(["before_feature", fel])
        for sc in f["pre"]:
            el += 1
            items.append(G.scenario([KIND2OUTCOME[k] for k in sc["ks"]]))
            if f["sel"] and not sc["sel"]:
                hooks.append(["before_scenario", el])
        r = f["rule"]
        if r["kind"] == "rule":
            el += 1
            rel = el
            if f["sel"] and not r["sel"]:
                hooks.append(["before_rule", rel])
            scs = []
            for sc in r["scs"]:
                el += 1
                scs.append(G.scenario([KIND2OUTCOME[k] for k in sc["ks"]]))
                if f["sel"] and r["sel"] and not sc["sel"]:
                    hooks.append(["before_scenario", el])
            items.append(G.rule(scs, bg=["pass"] * r["rbg"] if r["rbg"] else None))
        feats.append(G.feature(items, bg=["pass"] * f["fbg"] if f["fbg"] else None))
    if not hooks:
        return None
    prog = {"features": feats, "family": "hookskip"}
    flat = G.flatten(prog)
    if [e["kind"] for e in flat["elems"]] != case["kinds"]:
        raise RuntimeError("element table of the emitted run and of gen.flatten differ")
    return {"key": ["hookskip", n], "prog": prog, "flat": flat, "cfg": G.cfg(expr="true", dry=False, show_skipped=run["ss"]),
            "fault": [0, 0], "fault_kind": "exc", "pass": "hookskip", "case": case, "skip_hooks": hooks}


def hookskip_case(job):
    """run_case with user hooks that exclude their element: the driver's recording hook of the listed (hook, element)
    pairs is followed by element.skip() -- what an environment.py hook may do (behave/model.py: 'Hook may call
    entity.mark_skipped() to exclude it').  The shared driver has no such hook, so ModelRunner.run_hook is wrapped for
    the duration of this one run."""
    import traceback
    from behave.runner import ModelRunner
    try:
        R = stage.drive.Rendered(job["prog"], job["flat"])
        fidx = {fn: i for i, (fn, _t) in enumerate(R.files)}
        want = {(h, el) for h, el in job["skip_hooks"]}
        orig = ModelRunner.run_hook

        def run_hook(self, name, context, *args):
            x = args[0] if args else None
            if x is not None and hasattr(x, "filename") and name in self.hooks and \
                    (name, R.by_loc.get((fidx.get(os.path.basename(x.filename), -1), x.line), 0)) in want:
                user = self.hooks[name]

                def hook(ctx, *a):
                    user(ctx, *a)
                    a[0].skip()
                self.hooks[name] = hook
                try:
                    return orig(self, name, context, *args)
                finally:
                    self.hooks[name] = user
            return orig(self, name, context, *args)
        ModelRunner.run_hook = run_hook
        try:
            case = run_job({k: v for k, v in job.items() if k not in ("case", "skip_hooks")})
            row = stage.drive.run_case(case, reports=True)
        finally:
            ModelRunner.run_hook = orig
        row["key"] = job["key"]
        return row
    except Exception:
        return {"key": job["key"], "driver_error": traceback.format_exc()}


# ------------------------------------------------------------------------------------------------ decorated renderings
TABLES = [
    {"headings": ["name", "value"], "rows": [["a1", "b1"], ["a2", "b2"]]},
    {"headings": ["name", "coord", "coord"], "rows": [["n1", "x1", "y1"], ["n2", "x2", "y2"]]},       # repeated heading
    {"headings": ["k", "k", "k"], "rows": [["1", "2", "3"]]},
    {"headings": ["only"], "rows": [["r1"], ["r2"], ["r3"]]},
    {"headings": ["a b", "c"], "rows": [["", "x y"], ["u", ""]]},
    {"headings": ["coord", "name", "coord"], "rows": [["x1", "n1", "y1"]]},
    # source text of cells that rendering has to escape: an escaped pipe (the cell holds a pipe), backslashes, backslash + n
    {"headings": ["a\\|b", "c\\d"], "rows": [["e\\|f", "g\\h"], ["plain", "y\\nz"]]},
    {"headings": ["p", "q\\|r"], "rows": [["\\|", "\\\\"]]},
    # a table that consists of its heading row only (no data rows: still a table of the step)
    {"headings": ["name", "value"], "rows": []},
    {"headings": ["lonely"], "rows": []},
]
# for outline steps: <h1> / <h2> are extra Examples columns; rows alternate (c, c) -- the headings coincide -- and (c, d)
OUTLINE_TABLES = [
    {"headings": ["<h1>", "<h2>", "z"], "rows": [["p1", "p2", "p3"], ["<h1>!", "q2", "q3"]]},
    {"headings": ["z", "<h2>", "<h1>"], "rows": [["s1", "s2", "s3"]]},
    {"headings": ["<h1>", "z"], "rows": []},
    {"headings": ["<h1>\\|x", "w"], "rows": [["t\\u", "<h2>\\|<h1>"]]},
]
TEXTS = [["one line"], ["line 1", "line 2"], ["first", "", "third"]]
OUTLINE_TEXTS = [["value <h1> here"], ["<h1>", "and <h2>"]]
H_VALUES = [("c", "c"), ("c", "d")]


_Rendered = stage.drive.Rendered


class Decorated(_Rendered):
    """the rendering of run/render.py with data tables / doc-strings under chosen own steps; `decor` = list of
    {"el": scenario or outline id, "k": own step number, "table": {headings, rows} | "text": [lines]}; outlines whose
    decoration uses <h1> / <h2> get these as extra Examples columns.  Lines are only inserted, so every registered
    location moves down by the number of lines inserted above it."""
    decor = []

    def __init__(self, prog, flat):
        _Rendered.__init__(self, prog, flat)
        kinds = {e["id"]: e["kind"] for e in flat["elems"]}
        fidx = {e["id"]: e["fidx"] for e in flat["elems"]}
        for fi, (name, text) in enumerate(self.files):
            lines = text.split("\n")
            inserts = {}                    # old line number -> lines to put behind it
            need_cols = set()
            for d in self.decor:
                if fidx.get(d["el"]) != fi:
                    continue
                at = self.line_of[d["el"]] + d["k"]
                ind = " " * (len(lines[at - 1]) - len(lines[at - 1].lstrip()) + 2)
                if "arg" in d:                          # typed parameter in front of the step text: Given with <arg> own 1
                    lines[at - 1] = re.sub(r"^(\s*)(Given|When|Then|And|But) ", lambda m: "%s%s with %s " % (m.group(1), m.group(2), d["arg"]), lines[at - 1], count=1)
                    continue
                if "table" in d:
                    t = d["table"]
                    new = [ind + "| " + " | ".join(r) + " |" for r in [t["headings"]] + t["rows"]]
                else:
                    new = [ind + '"""'] + [ind + l if l else "" for l in d["text"]] + [ind + '"""']
                inserts.setdefault(at, []).extend(new)
                if kinds[d["el"]] == "outline":
                    need_cols.add(d["el"])
            for el in sorted(need_cols):                # extra Examples columns, up to the next element of the file
                j, header, n = self.line_of[el], False, 0
                while j < len(lines) and not lines[j].lstrip().startswith(("Scenario", "Rule:")):
                    st = lines[j].strip()
                    if st.startswith("Examples:"):
                        header = True
                    elif st.startswith("|"):
                        if header:
                            lines[j] += " h1 | h2 |"
                            header = False
                        else:
                            lines[j] += " %s | %s |" % H_VALUES[n % len(H_VALUES)]
                            n += 1
                    j += 1
            out, shift = [], {}
            added = 0
            for no, line in enumerate(lines, 1):
                shift[no] = no + added
                out.append(line)
                if no in inserts:
                    out.extend(inserts[no])
                    added += len(inserts[no])
            self.files[fi] = (name, "\n".join(out))
            for key in [k for k in self.by_loc if k[0] == fi]:
                el = self.by_loc.pop(key)
                self.by_loc[(fi, -key[1])] = el          # two phases: old and new line numbers overlap
            for key in [k for k in self.by_loc if k[0] == fi and k[1] < 0]:
                el = self.by_loc.pop(key)
                self.by_loc[(fi, shift[-key[1]])] = el
                self.line_of[el] = shift[-key[1]]


ARGS = ["dec:3.50", "frac:1/3", "cplx:1+2j", "bool:yes", "none:x", "list:a,b", "obj:thing", "int:7", "float:2.5"]


class _Thing(object):
    def __init__(self, name):
        self.name = name


def _convert_arg(text):
    """converter of the step parameter type `Val`: Decimal, Fraction, complex, bool, None, list, custom object, int, float"""
    import decimal
    import fractions
    kind, _, v = text.partition(":")
    return {"dec": lambda: decimal.Decimal(v), "frac": lambda: fractions.Fraction(v), "cplx": lambda: complex(v),
            "bool": lambda: v == "yes", "none": lambda: None, "list": lambda: v.split(","), "obj": lambda: _Thing(v),
            "int": lambda: int(v), "float": lambda: float(v)}[kind]()


_convert_arg.pattern = r"\w+:\S+"


def decor_case(job):
    """run_case on the decorated rendering of the job's program.  Steps with a typed parameter (`with <arg> own 1`) need a
    step definition the shared driver does not have: every StepRegistry created during this run gets one more generic
    step `with {val:Val} {org:w} {k:d}` in front, which hands over to the driver's own step function."""
    import traceback
    from behave.step_registry import StepRegistry
    from behave.matchers import ParseMatcher
    try:
        cls = type("DecoratedCase", (Decorated,), {"decor": job["decor"]})
        orig = stage.drive.Rendered
        orig_init = StepRegistry.__init__

        def init(self, *a, **kw):
            orig_init(self, *a, **kw)
            reg = self

            def typed(ctx, val, org, k):
                for m in reg.steps["step"]:
                    if getattr(m, "pattern", None) == "{org:w} {k:d}":
                        return m.func(ctx, org, k)
                raise RuntimeError("the driver's step definition was not found")
            self.steps["step"].append(ParseMatcher(typed, "with {val:Val} {org:w} {k:d}", "step", custom_types={"Val": _convert_arg}))
        stage.drive.Rendered = cls
        StepRegistry.__init__ = init
        try:
            row = stage.drive.run_case(run_job({k: v for k, v in job.items() if k != "decor"}), reports=True)
        finally:
            stage.drive.Rendered = orig
            StepRegistry.__init__ = orig_init
        row["key"] = job["key"]
        return row
    except Exception:
        return {"key": job["key"], "driver_error": traceback.format_exc()}


def decor_jobs(chk, rnd):
    """programs with an optional feature background, two scenarios and an outline with two rows; every own step gets
    a table, a doc-string or nothing; each table of TABLES / OUTLINE_TABLES occurs in every job's neighbourhood"""
    jobs = []
    n = 48 if chk.quick() else 600
    outs = ["pass", "pass", "pass", "fail", "undefined"]
    for i in range(n):
        def steps(m):
            return [rnd.choice(outs) for _ in range(m)]
        sc1, sc2 = G.scenario(steps(2)), G.scenario(steps(3))
        ol = G.outline([([], [steps(2), steps(2)])])
        ol["blocks"][0]["rows"][1] = [dict(x) for x in ol["blocks"][0]["rows"][0]] if rnd.random() < 0.5 else ol["blocks"][0]["rows"][1]
        prog = {"features": [G.feature(rnd.sample([sc1, sc2, ol], 3), bg=["pass"] if i % 3 == 0 else None)], "family": "decor"}
        flat = G.flatten(prog)
        decor = []
        for e in flat["elems"]:
            if e["kind"] == "scenario" and flat["elems"][e["parent"] - 1]["kind"] != "outline":
                nown, pool_t, pool_x = sum(1 for st in e["steps"] if st["org"] == "own"), TABLES, TEXTS
            elif e["kind"] == "outline":
                nown = sum(1 for st in flat["elems"][e["children"][0] - 1]["steps"] if st["org"] == "own")
                pool_t, pool_x = OUTLINE_TABLES + TABLES[1:2], OUTLINE_TEXTS
            else:
                continue
            for k in range(1, nown + 1):
                c = (i + k + e["id"]) % 4
                if c in (0, 1):
                    decor.append({"el": e["id"], "k": k, "table": pool_t[(i + 2 * k + e["id"]) % len(pool_t)]})
                elif c == 2:
                    decor.append({"el": e["id"], "k": k, "text": pool_x[(i + k) % len(pool_x)]})
                if (i + 3 * k + e["id"]) % 3 == 0:         # a typed parameter, with or without table / doc-string
                    decor.insert(0, {"el": e["id"], "k": k, "arg": ARGS[(i + k + e["id"]) % len(ARGS)]})
        job = {"key": ["decor", i], "prog": prog, "flat": flat, "cfg": G.cfg(dry=(i % 5 == 4), show_skipped=True), "fault": [0, 0],
               "fault_kind": "exc", "pass": "decor", "decor": decor, "switches": [[], ["--no-multiline"]][i % 2]}
        if i % 4 == 3:
            job["formats"] = ["json.pretty", "plain", "pretty"]
        elif i % 4 == 1:
            job["formats"] = ["plain", "json", "progress3"]        # plain renders its tables before json dumps the feature
        jobs.append(job)
    return jobs


def pmap(fn, jobs):
    if PROCS <= 1 or len(jobs) < 20:
        return [fn(j) for j in jobs]
    from multiprocessing import Pool
    with Pool(PROCS) as pool:
        return pool.map(fn, jobs, chunksize=max(1, len(jobs) // (PROCS * 8)))


def design_diffs(case, row):
    """prediction of Consumers_MC vs observation of the real run (informational)"""
    d = []
    pe = [(e["name"], e["el"], e["pos"], e["status"], e["undef"], e["n"]) for e in case["events"]]
    oe = [(e["name"], e["el"], e["pos"], e["status"], e["undefined"], e["n"]) for e in row["events"]]
    if case["dead"]:
        if row["end"]["ran"]:
            d.append("spec: a formatter crashes, impl: the run came to its end")
        elif pe[:len(oe)] != oe:
            d.append("events up to the crash differ")
        return d
    if not row["end"]["ran"]:
        return ["spec: no crash, impl: escaped %s" % row["end"]["escaped"]]
    if pe != oe:
        for i, (a, b) in enumerate(zip(pe, oe)):
            if a != b:
                d.append("event %d: spec %s impl %s" % (i, a, b))
                break
        else:
            d.append("event count: spec %d impl %d" % (len(pe), len(oe)))
    if list(case["st"]) != row["end"]["status"]:
        d.append("status spec %s impl %s" % (case["st"], row["end"]["status"]))
    if [list(x) for x in case["sst"]] != row["end"]["step_status"]:
        d.append("step_status spec %s impl %s" % (case["sst"], row["end"]["step_status"]))
    rep = row["reports"]
    for key, got in (("json", rep["json"]["features"]), ("plain", rep["plain"]["lines"]), ("p2", rep["p2"]["lines"]), ("p3", rep["p3"]["lines"])):
        if case[key] != got:
            d.append("%s spec %s impl %s" % (key, json.dumps(case[key])[:200], json.dumps(got)[:200]))
    return d


# ------------------------------------------------------------------------------------------------ verdicts
def signature(v, row):
    return "%s|%s|dry=%d" % (v[2], v[3], int(row["cfg"]["dry"]))


def describe(job, row):
    d = {"pass": row["pass"], "cfg": job["cfg"], "fault": job["fault"], "formats": row["formats"], "switches": job.get("switches", []),
         "skip_hooks": job.get("skip_hooks", []), "prog": job["prog"], "ran": row["end"]["ran"], "escaped": row["end"]["escaped"], "status": row["end"]["status"],
         "step_status": row["end"]["step_status"],
         "events": " ".join("%s%s" % (e["name"], ("(%d,%d%s)" % (e["el"], e["pos"], "," + e["status"] if e["status"] else "")) if e["el"] else "")
                            for e in row["events"])[:1500],
         "json": row["reports"]["json"]["features"], "plain": [[l["scen"], l["pos"], l["status"]] for l in row["reports"]["plain"]["lines"]],
         "p3": [[l["scen"], "".join(l["chars"])] for l in row["reports"]["p3"]["lines"]],
         "readback": {k: row["reports"]["readback"][k] for k in ("parse_exc", "exc")}, "tables": row["reports"]["tables"]}
    return json.dumps(d, sort_keys=True)


def judge(chk, rows, jobs):
    verdicts = trace.judge_rows(chk, "Consumers_Trace", rows, chunks=min(16, WORKERS), min_chunk=150, workers=1)
    byid = {r["id"]: r for r in rows}
    for rid, vs in sorted(verdicts.items()):
        job, row = jobs[rid], byid[rid]
        for v in vs:
            payload = {k: job[k] for k in ("key", "prog", "cfg", "fault", "fault_kind")}
            payload.update({"pass": row["pass"], "formats": row["formats"], "switches": job.get("switches", []),
                            "skip_hooks": job.get("skip_hooks", []), "decor": job.get("decor", []),
                            "stdout_formats": job.get("stdout_formats", [])})
            chk.violation(v[2].split("/")[0], signature(v, row), describe(job, row), payload)
    return verdicts


def tagged(chk, tag):
    out = []
    for m, c, r in chk.tlc_runs:
        if m == "Consumers_Trace":
            out.extend(r.by_tag(tag))
    return out


# ------------------------------------------------------------------------------------------------ run
def design_level(chk):
    """TLC on the design: quick = <= 2 scenarios followed by a second feature; thorough = 3 scenarios (one feature),
    2 scenarios with a second feature before / after, 2 scenarios with <= 3 own steps"""
    cfgs = ["Consumers_MC_quick.cfg"] if chk.quick() else ["Consumers_MC_thorough.cfg", "Consumers_MC_thorough_two.cfg",
                                                            "Consumers_MC_thorough_own3.cfg"]
    return [chk.tlc("Consumers_MC", c, timeout=3000, workers=WORKERS, coverage=False, heap="8g") for c in cfgs]


def run(chk):
    rnd = random.Random(chk.seed)
    quick = chk.quick()
    # real runs first: multiprocessing forks, so no other thread of this process may be alive meanwhile
    base, planned = plan_jobs(chk, 1000 if quick else 24000, rnd)
    # (twin-step programs only with the default switches: without multiline output a report cannot tell twins apart)
    fjobs = formats_jobs(chk, [j for j in base if not j["prog"].get("dupsteps")], rnd)
    real_out = stage.drive_all([run_job(j) for j in base + fjobs], procs=PROCS)
    quiet = [j for j, o in zip(base, real_out) if not j["prog"].get("dupsteps") and ((o.get("reports") or {}).get("c15") or {}).get("quiet_stdout") and
             o["end"]["ran"] and not o["end"]["escaped"]]
    sjobs = stdout_jobs(chk, quiet)
    real_out = real_out + stage.drive_all([run_job(j) for j in sjobs], procs=PROCS)
    fjobs = fjobs + sjobs
    rows, jobs = [], {}

    def add_rows(some_jobs, outs):
        new = []
        for job, o in zip(some_jobs, outs):
            if "driver_error" in o:
                raise RuntimeError("driver failed on %s:\n%s" % (job["key"], o["driver_error"]))
            rid = len(rows) + 1
            rows.append(make_row(rid, job, o))
            jobs[rid] = job
            new.append(rows[-1])
        return new
    part1 = add_rows(base + fjobs, real_out)
    del real_out
    # design level (TLC) while the judge (TLC as well, sub-processes only) works on the rows recorded so far
    ex = ThreadPoolExecutor(max_workers=1)
    fut = ex.submit(design_level, chk)
    try:
        verdicts = judge(chk, part1, jobs)
    finally:
        mcs = fut.result()
        ex.shutdown()
    emitted = []
    for r in mcs:
        for name in r.violated:
            chk.violation("C15.design." + name, "design:%s" % name, "TLC: invariant %s violated in Consumers_MC" % name)
        emitted.extend(json.loads(t[1]) for t in r.by_tag("CASE"))
    n_emitted = len(emitted)
    emitted.sort(key=lambda c: json.dumps(c["run"], sort_keys=True))
    nd = 400 if quick else 6000
    if len(emitted) > nd:
        emitted = rnd.sample(emitted, nd)
    djobs = [design_job(n, c) for n, c in enumerate(emitted)]
    design_out = stage.drive_all([run_job({k: v for k, v in j.items() if k != "case"}) for j in djobs], procs=PROCS)
    hjobs = [j for j in (hookskip_job(n, c) for n, c in enumerate(emitted)) if j is not None]
    hook_out = pmap(hookskip_case, hjobs)
    tjobs = decor_jobs(chk, rnd)
    decor_out = pmap(decor_case, tjobs)
    verdicts.update(judge(chk, add_rows(djobs + hjobs + tjobs, design_out + hook_out + decor_out), jobs))
    # spec vs implementation (informational): the automata on every recorded stream; the generator on the design rows
    div = tagged(chk, "DIVERGE")
    ddiv = []
    for row in rows:
        if row["pass"] in ("design", "hookskip"):
            d = design_diffs(jobs[row["id"]]["case"], row)
            if d:
                ddiv.append({"row": row["id"], "run": jobs[row["id"]]["case"]["run"], "diff": d[:2]})
    notjudged = tagged(chk, "NOTJUDGED")
    chk.divergences = len({t[1] for t in div} | {d["row"] for d in ddiv}) + len(notjudged)
    if div or ddiv or notjudged:
        chk.extra["divergence_samples"] = [{"row": t[1], "what": t[2], "pass": rows[t[1] - 1]["pass"]} for t in div[:5]] + ddiv[:5] + \
                                          [{"row": t[1], "what": t[2]} for t in notjudged[:5]]
        chk.note("DIVERGENCE spec=Consumers: %d rows differ from the automata / the generator of Consumers_MC or died outside a "
                 "formatter (informational)" % chk.divergences)
    # evidence
    chk.impl_traces = len(rows)
    chk.evaluations = len(rows)
    chk.exhaustive = False
    chk.extra["distinct_nontrivial"] = len({json.dumps([x["prog"], x["cfg"], x["formats"], x["events"]], sort_keys=True)
                                            for x in rows if any(e["name"] == "result" for e in x["events"])})
    chk.extra["rows"] = {k: sum(1 for x in rows if x["pass"] == k) for k in ("reports", "formats", "stdout", "design", "hookskip", "decor")}
    drows = [x for x in rows if x["pass"] == "decor"]
    chk.extra["decor_tables_compared"] = sum(len(x["reports"]["tables"]["json"]) for x in drows)
    chk.extra["decor_tables_with_repeated_heading"] = sum(1 for x in drows for t in x["reports"]["tables"]["json"]
                                                          if len(set(t["headings"])) < len(t["headings"]))
    chk.extra["decor_tables_with_escaped_cells"] = sum(1 for x in drows for t in x["reports"]["tables"]["model"]
                                                       if any("|" in c or "\\" in c for r in [t["headings"]] + t["rows"] for c in r))
    chk.extra["decor_doc_strings_compared"] = sum(len(x["reports"]["tables"]["jtext"]) for x in drows)
    chk.extra["planned_cases_of_shared_plan"] = planned
    chk.extra["rows_run_died_in_formatter"] = sum(1 for x in rows if not x["end"]["ran"] and x["last_k"] == "fmt")
    chk.extra["rows_not_judged_died_elsewhere"] = len(notjudged)
    chk.extra["rows_with_verdict"] = len(verdicts)
    cov = {}
    for j in base:
        for k, v in features_of(j).items():
            cov[k] = cov.get(k, 0) + int(bool(v))
    chk.extra["reports_rows_by_attribute"] = cov
    chk.extra["formatter_sets"] = len({json.dumps(j["formats"]) for j in fjobs})
    chk.extra["design_cases_emitted"] = n_emitted
    chk.extra["design_cases_by_family"] = {k: sum(1 for c in emitted if c["clauses"].get(k)) for k in sorted(emitted[0]["clauses"])} if emitted else {}
    for x in ([y for y in rows if y["pass"] == "reports" and y["end"]["ran"]][:1] + [y for y in rows if y["pass"] == "formats"][:1] +
              [y for y in rows if y["pass"] == "design"][-1:]):
        job = jobs[x["id"]]
        chk.sample({"pass": x["pass"], "cfg": job["cfg"], "formats": x["formats"], "feature_text": stage.drive.Rendered(job["prog"], job["flat"]).files[0][1],
                    "recorded_stream": [e["name"] for e in x["events"]], "json_tree": x["reports"]["json"]["features"],
                    "plain_lines": x["reports"]["plain"]["lines"], "progress3": x["reports"]["p3"]["lines"], "final_status": x["end"]["status"]})
    chk.rule = ("design: every run of Consumers_MC (shape x own-step kinds of <= MaxScen scenarios x selected/unselected x dry x show_skipped "
                "x second feature; TLC, exhaustive); rows: design = emitted runs on the real runner; reports = class-balanced part of the "
                "shared run-cluster plan with json plain progress2 progress3 rerun; formats = the same cases with the formatter set / "
                "order and display switches varied; distinct = distinct (program, cfg, formatter list, recorded stream) among rows "
                "with at least one processed step; hookskip = emitted runs with unselected elements, excluded at run time by a hook "
                "calling skip() instead of by tags")
    chk.assumptions = ["a run that died inside a formatter callback is attributed to the first formatter of the run whose automaton crashes "
                       "on the recorded stream (signature only)",
                       "statuses that formatters read from model objects during a callback are compared with the statuses after the run",
                       "stdout rows: only cases whose run with all formatters on files wrote nothing at all to the real stdout (behave's own "
                       "messages, uncaptured step output), so that the recorded stdout text is the report of the one formatter without -o",
                       "--no-junit --no-summary in all runs, so that a run that dies did so inside a formatter callback",
                       "programs of the shared plan whose after_scenario hook skips the enclosing feature / rule run without that hook: it "
                       "rewrites statuses of scenarios that were reported before",
                       "configurations of the shared plan with scenario_autoretry are run without it: a retried scenario is announced "
                       "twice, about which the statement is silent",
                       "tables and doc-strings of steps are judged on the decor rows only (the run cluster's programs have none); "
                       "unicode step texts are not generated",
                       "read-back: structure and step statuses only (JsonParser does not read element statuses)",
                       "scenario variant `progress` and pretty / steps / rerun are judged for C15.no_crash only (the statement's report "
                       "clauses name json, plain and the step progress formatters)"]


# ------------------------------------------------------------------------------------------------ replay
def replay(chk, payload):
    rp = payload["replay"]
    job = {k: rp[k] for k in ("key", "prog", "cfg", "fault", "fault_kind")}
    job["flat"] = G.flatten(job["prog"])
    job["pass"] = rp.get("pass", "reports")
    if rp.get("formats") and rp["formats"] != DEFAULT_FORMATS:
        job["formats"] = rp["formats"]
    job["switches"] = rp.get("switches", [])
    if rp.get("stdout_formats"):
        job["stdout_formats"] = rp["stdout_formats"]
        job["formats"] = [f for f in rp["formats"] if f not in rp["stdout_formats"]]
    if rp.get("decor"):
        job["decor"] = rp["decor"]
        o = decor_case(job)
    elif rp.get("skip_hooks"):
        job["skip_hooks"] = rp["skip_hooks"]
        o = hookskip_case(job)
    else:
        o = stage.drive_all([run_job(job)], procs=1)[0]
    if "driver_error" in o:
        raise RuntimeError(o["driver_error"])
    row = make_row(1, job, o)
    judge(chk, [row], {1: job})
    chk.impl_traces = 1
    chk.sample({"replayed": {k: rp[k] for k in ("prog", "cfg", "fault", "formats") if k in rp}})
