-------------------------- MODULE ActiveTags_Trace --------------------------
(* Judge of C19 on rows recorded from the real ActiveTagMatcher /           *)
(* CompositeTagMatcher.  One state per row.  A row describes one concrete   *)
(* tag list under one matcher configuration and carries one observation per *)
(* combination of current values (combos[j][k] = index into cats[k].ch):    *)
(*   ex[j]   should_exclude_with(tags)            (first call, fresh objects)*)
(*   run[j]  should_run_with(tags)                                           *)
(*   ex2[j]  should_exclude_with(tags) again, after a call with `warm`      *)
(*   mex[j]  the answers of the members of a CompositeTagMatcher            *)
(*   exc[j]  type name of an escaped exception ("" if none)                 *)
(*   ex3/run3/mex3[j]  the same calls on the same objects after the lazy    *)
(*           entries changed their value to combos2[j] (phase 2)            *)
(* VERDICT lines come from the DEFINITION of the statement only; DIVERGE    *)
(* lines (informational) compare with the algorithm model of ActiveTags.    *)
EXTENDS ActiveTags, Json, IOUtils
Rows == ndJsonDeserialize(IOEnv.TRACE_FILE)

VARIABLE i
Init == i = 1
R == Rows[i]

\* ---------------------------------------------------------------- current values of a row
\* phase 1 uses combos[j]; then the driver lets every LAZY entry (cats[k].lazy = "callable" | "vo") return the value
\* combos2[j][k]; ex3 / run3 / mex3 are observed on the same matcher and provider objects afterwards (phase 2)
CatIdx(r, m) == {k \in DOMAIN r.cats : m = 0 \/ r.cats[k].mem = m}
FirstIdx(r, m, c) == LET ks == {k \in CatIdx(r, m) : r.cats[k].name = c} IN CHOOSE k \in ks : \A x \in ks : k <= x
CurOf(r, combo, m) == [c \in {r.cats[k].name : k \in CatIdx(r, m)} |->
                         LET k == FirstIdx(r, m, c) IN VSpec(r.cats[k].kind, r.cats[k].op, r.cats[k].ch[combo[k]])]
CallOf(r, m) == {r.cats[k].name : k \in {x \in CatIdx(r, m) : r.cats[x].lazy = "callable"}}
IsVO(r, c) == \E k \in DOMAIN r.cats : r.cats[k].name = c /\ r.cats[k].vo

\* ---------------------------------------------------------------- clauses (definition of the statement)
\* attribution of "observed obs where the definition says D" for the active tags A under current values cur
Blame(r, A, N, cur, obs, D) ==
   LET Kn    == DOMAIN cur
       unk   == {a.cat : a \in {x \in A : x.cat \notin Kn}}
       curU  == [c \in Kn \cup unk |-> IF c \in Kn THEN cur[c] ELSE Junk]
       vo    == \E a \in A : a.cat \in Kn /\ IsVO(r, a.cat)
   IN IF obs = D THEN {}
      ELSE IF obs /\ A = {} THEN {<<"C19.non_active", "over">>}
      ELSE IF obs /\ unk # {} /\ DefExcludedA(A, N, curU)
           THEN \* "+known": the list also has active tags of known categories (the blame is then not unique)
                {<<"C19.unknown_category", IF \E a \in A : a.cat \in unk /\ a.pre \notin N
                                           THEN (IF \E a \in A : a.cat \in Kn THEN "over.upos+known" ELSE "over.upos")
                                           ELSE "over.uneg">>}
      ELSE {<<IF vo THEN "C19.value_objects" ELSE "C19.exclude", IF obs THEN "over" ELSE "under">>}
\* one phase (ph = 1 | 2): ex / run / members observed under the current values given by combo.  stale: phase 2 of a
\* composite provider whose phase 1 answer was right and whose lazy values changed in between -- a wrong answer now is
\* blamed on the cache (it no longer follows the current value)
Phase(r, A, N, combo, ex, run, mex, stale, ph) ==
   (IF run = ex THEN {<<"C19.run_is_negation", "same", ph>>} ELSE {})
   \cup
   (IF r.mk = "composite"
    THEN (IF ex # (\E m \in 1..r.nm : mex[m]) THEN {<<"C19.composite", "any", ph>>} ELSE {})
         \cup UNION {LET cur == CurOf(r, combo, m) IN
                     {<<v[1], v[2], ph>> : v \in Blame(r, A, N, cur, mex[m], DefExcludedA(A, N, cur))} : m \in 1..r.nm}
    ELSE LET cur == CurOf(r, combo, 0)  D == DefExcludedA(A, N, cur) IN
         IF ph = 2 /\ r.pk = "comp" /\ ex # D /\ stale
         THEN {<<"C19.provider_cache", "stale", ph>>}
         ELSE {<<v[1], v[2], ph>> : v \in Blame(r, A, N, cur, ex, D)})
\* phase 3: after plain lookups r.pokes on the same provider objects (get with some default / print_active_tags) the
\* decisions are taken again under unchanged values.  Only an answer that the lookups CHANGED is judged here (an answer
\* that was already wrong is reported by phase 2): a lookup never changes what the provider knows.
LookedUp(r, A, N, cur, now, before) ==
   IF now = before \/ now = DefExcludedA(A, N, cur) THEN {}
   ELSE LET bl == {v \in Blame(r, A, N, cur, now, DefExcludedA(A, N, cur)) : v[1] = "C19.unknown_category"} IN
        IF bl # {} THEN {<<v[1], v[2], 3>> : v \in bl} ELSE {<<"C19.provider_cache", "lookup", 3>>}
Phase3(r, A, N, j) ==
   (IF r.run4[j] = r.ex4[j] THEN {<<"C19.run_is_negation", "same", 3>>} ELSE {})
   \cup
   (IF r.mk = "composite"
    THEN (IF r.ex4[j] # (\E m \in 1..r.nm : r.mex4[j][m]) THEN {<<"C19.composite", "any", 3>>} ELSE {})
         \cup UNION {LookedUp(r, A, N, CurOf(r, r.combos2[j], m), r.mex4[j][m], r.mex3[j][m]) : m \in 1..r.nm}
    ELSE LookedUp(r, A, N, CurOf(r, r.combos2[j], 0), r.ex4[j], r.ex3[j]))
Judge(r, j, A, N) ==
   IF r.exc[j] # "" THEN {<<"C19.exclude", "exc", 1>>}
   ELSE LET D1 == DefExcludedA(A, N, CurOf(r, r.combos[j], 0)) IN
        Phase(r, A, N, r.combos[j], r.ex[j], r.run[j], r.mex[j], FALSE, 1)
        \cup (IF r.mk # "composite" /\ r.ex2[j] # r.ex[j] /\ r.ex2[j] # D1 THEN {<<"C19.provider_cache", "warm", 1>>} ELSE {})
        \cup Phase(r, A, N, r.combos2[j], r.ex3[j], r.run3[j], r.mex3[j], r.ex[j] = D1 /\ r.combos2[j] # r.combos[j], 2)
        \cup Phase3(r, A, N, j)
Findings(r) == IF ~r.judge THEN {}
               ELSE LET N == SeqToSet(r.N)
                        A == DefActive(r.tags, SeqToSet(r.P), r.sep)      \* the active tags of the row, read once
                    IN UNION {{<<v[1], v[2], v[3], j>> : v \in Judge(r, j, A, N)} : j \in DOMAIN r.combos}
\* one line per (clause, what, phase): the first observation that shows it
Minimal(F) == {f \in F : \A g \in F : (g[1] = f[1] /\ g[2] = f[2] /\ g[3] = f[3]) => f[4] <= g[4]}

\* ---------------------------------------------------------------- prediction of the algorithm model (informational)
ProvOf(r, combo) ==
   IF r.pk = "comp"
   THEN [pk |-> "comp", mem |-> [m \in 1..Len(r.mpk) |-> [pk |-> r.mpk[m], data |-> CurOf(r, combo, m), call |-> CallOf(r, m)]]]
   ELSE [pk |-> r.pk, mem |-> <<[pk |-> r.pk, data |-> CurOf(r, combo, 0), call |-> CallOf(r, 0)]>>]
Predicted(r, j, sel, wsel) ==
   IF r.mk = "composite"
   THEN LET provs  == [m \in 1..r.nm |-> DictProv(CurOf(r, r.combos[j], m))]
            provs2 == [m \in 1..r.nm |-> DictProv(CurOf(r, r.combos2[j], m))] IN
        [ex |-> AlgCompositeSel(sel, provs, r.ign), ex2 |-> AlgCompositeSel(sel, provs, r.ign),
         mex |-> [m \in 1..r.nm |-> AlgExcludedSel(sel, provs[m], r.ign)],
         ex3 |-> AlgCompositeSel(sel, provs2, r.ign), mex3 |-> [m \in 1..r.nm |-> AlgExcludedSel(sel, provs2[m], r.ign)],
         ex4 |-> AlgCompositeSel(sel, provs2, r.ign)]
   ELSE LET p  == ProvOf(r, r.combos[j])
            p2 == ProvOf(r, r.combos2[j])
            k0 == IF r.pre THEN PokeCache(p, r.pokes, EmptyCache) ELSE EmptyCache   \* plain lookups on the fresh provider
            k1 == AlgCallSel(sel, p, r.ign, k0)                             \* should_exclude_with
            k2 == AlgCallSel(sel, p, r.ign, k1.cache)                       \* should_run_with
            k3 == AlgCallSel(wsel, p, r.ign, k2.cache)                      \* the warming call
            k4 == AlgCallSel(sel, p, r.ign, k3.cache)
            k5 == AlgCallSel(sel, p2, r.ign, k4.cache)                      \* after the lazy values changed
            k6 == AlgCallSel(sel, p2, r.ign, k5.cache)                      \* should_run_with
            k7 == AlgCallSel(sel, p2, r.ign, PokeCache(p2, r.pokes, k6.cache))   \* plain lookups, then the decision again
        IN [ex |-> k1.ex, ex2 |-> k4.ex, mex |-> <<>>, ex3 |-> k5.ex, mex3 |-> <<>>, ex4 |-> k7.ex]
Diverges(r, j, sel, wsel) == r.exc[j] # "" \/ LET q == Predicted(r, j, sel, wsel) IN
                  \/ q.ex # r.ex[j] \/ q.ex2 # r.ex2[j] \/ r.run[j] = r.ex[j]
                  \/ q.ex3 # r.ex3[j] \/ r.run3[j] = r.ex3[j]
                  \/ q.ex4 # r.ex4[j] \/ r.run4[j] = r.ex4[j]
                  \/ (r.mk = "composite" /\ \E m \in 1..r.nm : q.mex[m] # r.mex[j][m] \/ q.mex3[m] # r.mex3[j][m])
DivergeAt(r) == LET sel  == AlgSelect(r.tags, r.P, r.sep)
                    wsel == AlgSelect(r.warm, r.P, r.sep)
                IN {j \in DOMAIN r.combos : Diverges(r, j, sel, wsel)}

Next == /\ i <= Len(Rows)
        /\ \A f \in Minimal(Findings(R)) : PrintT(<<"VERDICT", R.id, f[1], f[4], f[2], f[3]>>)
        /\ LET dv == DivergeAt(R) IN IF dv = {} THEN TRUE ELSE PrintT(<<"DIVERGE", R.id, Cardinality(dv)>>)
        /\ i' = i + 1
Spec == Init /\ [][Next]_i
Done == PrintT(<<"DONE", Len(Rows), TLCGet("stats").diameter>>)
=============================================================================
