--------------------------- MODULE Outline_Trace ---------------------------
(* Judge of C06 on rows recorded from the real behave code.                *)
(* A row = one abstract outline o (token form, as emitted by Outline_MC),  *)
(* the name annotation schema, a history of operations (access / addrow /  *)
(* addcol through the public table API) and, for every access, what the    *)
(* driver observed: a snapshot of the template and the examples tables     *)
(* before and after reading outline.scenarios, and the generated scenarios *)
(* (name, tags, line, steps: name / doc-string / table headings / cells)   *)
(* as plain strings.  The expectation is the DEFINITIONAL simultaneous     *)
(* substitution (SubstSim); a violated clause is printed as                *)
(* <<"VERDICT", row id, clause, access number, position, demanded>>.  An access      *)
(* whose "before" snapshot is not the abstract outline (the parser did not *)
(* deliver what was rendered: not C06's business) is printed as NOTJUDGED. *)
EXTENDS Outline, TLC, Json, IOUtils
Rows == ndJsonDeserialize(IOEnv.TRACE_FILE)

VARIABLE i
Init == i = 1
R == Rows[i]

\* ---------------------------------------------------------------- one text position
TextClause(tpl, cols, cells, observed, pos) ==
   LET want == Str(SubstSim(tpl, cols, cells)) IN
   IF observed = want THEN {}
   ELSE IF HasColPh(tpl, cols) THEN {<<"C06.subst", pos, want>>} ELSE {<<"C06.unchanged_text", pos, want>>}

\* name / step name / tag positions: the row's columns and the pseudo-columns <examples.name> <examples.index>
\* <row.index> <row.id>; the examples name is the block's OWN name with THIS row's cells (ExN(blk, ri)).
\* XC(blk, bi, ri, rr): the values for row ri if the examples name were taken from row rr (rr # ri: another row leaked)
ExN(blk, rr) == SubstSim(blk.name, blk.cols, blk.rows[rr].cells)
XC(blk, bi, ri, rr) == XCells(blk.rows[ri].cells, ExN(blk, rr), bi, ri)
OtherRow == ".examples-name-of-other-row"
XTextClause(tpl, blk, bi, ri, observed, pos) ==
   LET xcols == XCols(blk.cols)
       want  == Str(SubstSim(tpl, xcols, XC(blk, bi, ri, ri)))
   IN IF observed = want THEN {}
      ELSE IF \E rr \in DOMAIN blk.rows \ {ri} : observed = Str(SubstSim(tpl, xcols, XC(blk, bi, ri, rr)))
           THEN {<<"C06.isolation", pos \o OtherRow, want>>}
      ELSE IF HasColPh(tpl, xcols) THEN {<<"C06.subst", pos, want>>} ELSE {<<"C06.unchanged_text", pos, want>>}

StepClauses(ts, blk, bi, ri, os) ==
   LET cols == blk.cols  cells == blk.rows[ri].cells IN
   XTextClause(ts.name, blk, bi, ri, os.name, "step")
   \cup TextClause(ts.doc, cols, cells, os.doc, "doc")
   \cup (IF Len(os.th) # Len(ts.th) \/ Len(os.tr) # Len(ts.tr) THEN {<<"C06.subst", "table-shape", "">>}
         ELSE IF \E r \in DOMAIN ts.tr : Len(os.tr[r]) # Len(ts.tr[r]) THEN {<<"C06.subst", "table-shape", "">>}
         ELSE UNION {TextClause(ts.th[j], cols, cells, os.th[j], "heading") : j \in DOMAIN ts.th}
              \cup UNION {UNION {TextClause(ts.tr[r][j], cols, cells, os.tr[r][j], "cell") : j \in DOMAIN ts.tr[r]} :
                          r \in DOMAIN ts.tr})

\* ---------------------------------------------------------------- tags = rendered outline tags ++ block tags
\* a rendered outline tag that still contains a placeholder (unknown column) is left open: it may be dropped or
\* kept in any form (the statement is silent, DESIGN Appendix D)
RECURSIVE JoinTags(_)      \* for the report: "@t1 @t2 (@open)?"
JoinTags(exp) == IF exp = <<>> THEN ""
                 ELSE (IF Head(exp).free THEN "(@" \o Head(exp).s \o ")? " ELSE "@" \o Head(exp).s \o " ") \o JoinTags(Tail(exp))
RECURSIVE TagMatch(_,_)
TagMatch(obs, exp) ==
   IF exp = <<>> THEN obs = <<>>
   ELSE IF Head(exp).free THEN TagMatch(obs, Tail(exp)) \/ (obs # <<>> /\ TagMatch(Tail(obs), Tail(exp)))
   ELSE obs # <<>> /\ Head(obs) \in {Head(exp).s, Head(exp).alt} /\ TagMatch(Tail(obs), Tail(exp))
TagClauses(o, blk, bi, ri, otags) ==
   LET xcols  == XCols(blk.cols)
       xcells == XC(blk, bi, ri, ri)
       nt   == Len(o.tags)
       sub  == [k \in DOMAIN o.tags |-> SubstSim(o.tags[k], xcols, xcells)]
       \* alt: a PARAMETRIZED tag is made a valid tag name by behave (Tag.make_name drops e.g. a literal ">"):
       \* the rendered tag is accepted verbatim or normalised
       exp  == [k \in DOMAIN o.tags |-> [s |-> Str(sub[k]), free |-> HasPh(sub[k]),
                                         alt |-> IF HasColPh(o.tags[k], xcols) THEN Str(MakeName(sub[k])) ELSE Str(sub[k])]]
               \o [j \in DOMAIN blk.tags |-> [s |-> Str(blk.tags[j]), free |-> FALSE, alt |-> Str(blk.tags[j])]]
       refd == {c \in DOMAIN xcols : \E k \in DOMAIN o.tags : \E x \in DOMAIN o.tags[k] : o.tags[k][x] = Ph(xcols[c])}
   IN IF \E c \in refd : ~TagSafe(xcells[c]) THEN {}    \* asserted for tag-safe values only (Tag.make_name)
      ELSE IF TagMatch(otags, exp) THEN {}
      ELSE IF (\E k \in DOMAIN exp : exp[k].free) \/ Len(otags) # Len(exp) THEN {<<"C06.tags", "tags", JoinTags(exp)>>}
      ELSE UNION {IF otags[k] \in {exp[k].s, exp[k].alt} THEN {}
                  ELSE IF k > nt THEN {<<"C06.tags", "block-tags", JoinTags(exp)>>}
                  ELSE IF ~TagSafe(o.tags[k]) /\ otags[k] = Str(MakeName(o.tags[k]))
                       THEN {<<"C06.unchanged_text", "tag.literal-chars-dropped", exp[k].s>>}
                  ELSE XTextClause(o.tags[k], blk, bi, ri, otags[k], "tag") : k \in DOMAIN exp}

\* ---------------------------------------------------------------- name = schema applied to the substituted name
\* {examples.name} of the schema = the block's own name with this row's cells
NameClauses(o, schema, bi, ri, oname) ==
   LET blk == o.blocks[bi]  cols == blk.cols  xcols == XCols(cols)
       idx  == {k \in DOMAIN schema : schema[k] = "{name}"}
       exn  == ExN(blk, ri)
       Full(rr) == Str(Annot(schema, SubstSim(o.name, xcols, XC(blk, bi, ri, rr)), bi, ri, ExN(blk, rr)))
       full == Full(ri)
       usesex == \E k \in DOMAIN schema : schema[k] = "{examples.name}"
   IN IF oname = full THEN {}
      ELSE IF \E rr \in DOMAIN blk.rows \ {ri} : oname = Full(rr) THEN {<<"C06.isolation", "name" \o OtherRow, full>>}
      ELSE IF Cardinality(idx) # 1 THEN {<<"C06.annotation", "name", full>>}
      ELSE LET k    == CHOOSE x \in idx : TRUE
               pre  == Str(Annot(SubSeq(schema, 1, k - 1), <<>>, bi, ri, exn))
               post == Str(Annot(SubSeq(schema, k + 1, Len(schema)), <<>>, bi, ri, exn))
           IN IF Len(oname) >= Len(pre) + Len(post) /\ StartsWith(oname, pre) /\ EndsWith(oname, post)
              THEN (IF HasColPh(o.name, xcols) THEN {<<"C06.subst", "name", full>>} ELSE {<<"C06.unchanged_text", "name", full>>})
              ELSE IF usesex /\ HasColPh(blk.name, cols) THEN {<<"C06.subst", "examples.name", full>>}
              ELSE {<<"C06.annotation", "name", full>>}

\* ---------------------------------------------------------------- one generated scenario against row (bi, ri)
BodyClauses(o, bi, ri, os) ==
   LET blk == o.blocks[bi]  cols == blk.cols  cells == blk.rows[ri].cells
   IN (IF os.line # blk.rows[ri].line THEN {<<"C06.line", "line", ToString(blk.rows[ri].line)>>} ELSE {})
      \cup TagClauses(o, blk, bi, ri, os.tags)
      \cup (IF Len(os.steps) # Len(o.steps) THEN {<<"C06.subst", "steps", ToString(Len(o.steps))>>}
            ELSE UNION {StepClauses(o.steps[s], blk, bi, ri, os.steps[s]) : s \in DOMAIN o.steps})
ScenClauses(o, schema, bi, ri, os) == NameClauses(o, schema, bi, ri, os.name) \cup BodyClauses(o, bi, ri, os)

Perms(n) == {f \in [1..n -> 1..n] : \A x \in 1..n : \A y \in 1..n : x # y => f[x] # f[y]}
AccessClauses(cur, schema, obs) ==
   LET P == Pairs(cur)
       n == Len(P)
   IN IF obs.exc # "" THEN {<<"C06.count_order", "exception", ToString(n)>>}
      ELSE IF Len(obs.scen) # n THEN {<<"C06.count_order", "count", ToString(n)>>}
      ELSE LET all == UNION {ScenClauses(cur, schema, P[k][1], P[k][2], obs.scen[k]) : k \in 1..n}
           IN IF all = {} THEN {}
              ELSE IF /\ \E k \in 1..n : BodyClauses(cur, P[k][1], P[k][2], obs.scen[k]) # {}
                      /\ \E p \in Perms(n) : \A j \in 1..n : BodyClauses(cur, P[p[j]][1], P[p[j]][2], obs.scen[j]) = {}
                   THEN {<<"C06.count_order", "order", "block then row order">>}
              ELSE all

\* ---------------------------------------------------------------- one access, a whole history
\* prev = the scenarios of the previous access, prevok = they were what the property demanded then,
\* dirty = a table was modified since
JudgeAccess(cur, schema, obs, prev, prevok, dirty, n) ==
   IF NoLines(obs.pre) # NoLines(SnapOf(cur)) THEN {<<"NOTJUDGED", n, "template", "">>}
   ELSE LET iso  == IF obs.post # obs.pre THEN {<<"C06.isolation", n, "template", "">>} ELSE {}
            main == AccessClauses(cur, schema, obs)
        IN iso \cup (IF main # {} /\ n > 1 /\ dirty /\ prevok /\ obs.exc = "" /\ obs.scen = prev
                     THEN {<<"C06.rebuild", n, "stale", "">>}      \* modified, yet the previous expansion again
                     ELSE {<<c[1], n, c[2], c[3]>> : c \in main})
ApplyMod(cur, op) == IF op.op = "addrow" THEN AddRow(cur, op.b, op.cells, IF op.line = 0 THEN op.obsline ELSE op.line)
                     ELSE AddCol(cur, op.b, op.name, op.cells, op.dflt)
RECURSIVE Run(_,_,_,_,_,_,_)
Run(r, k, cur, ai, prev, prevok, dirty) ==
   IF k > Len(r.ops) THEN {}
   ELSE LET op == r.ops[k] IN
        IF op.exc # "" THEN {<<"C06.rebuild", ai + 1, "api-exception", "">>}     \* the public table API failed
        ELSE IF op.op = "access"
        THEN (IF ai + 1 > Len(r.acc) THEN {<<"NOTJUDGED", ai + 1, "missing", "">>}
              ELSE LET res == JudgeAccess(cur, r.schema, r.acc[ai + 1], prev, prevok, dirty, ai + 1)
                   IN res \cup Run(r, k + 1, cur, ai + 1, r.acc[ai + 1].scen,
                                   {v \in res : v[1] # "C06.isolation"} = {}, FALSE))
        ELSE Run(r, k + 1, ApplyMod(cur, op), ai, prev, prevok, TRUE)
Verdicts(r) == IF r.kind = "unparsed" THEN {<<"NOTJUDGED", 0, "parse", "">>}
               ELSE Run(r, 1, r.o, 0, <<>>, FALSE, FALSE)

Next == /\ i <= Len(Rows)
        /\ \A v \in Verdicts(R) : IF v[1] = "NOTJUDGED" THEN PrintT(<<"NOTJUDGED", R.id, v[2], v[3]>>)
                                  ELSE PrintT(<<"VERDICT", R.id, v[1], v[2], v[3], v[4]>>)
        /\ i' = i + 1
Spec == Init /\ [][Next]_i
Done == PrintT(<<"DONE", Len(Rows), TLCGet("stats").diameter>>)
=============================================================================
