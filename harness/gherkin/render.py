"""Rendering of abstract Gherkin lines (records of specs/GherkinParser.tla) into concrete text.

Only rendering and bookkeeping live here: which alias / indentation / payload text was chosen for which abstract
line.  Nothing in this module decides a property."""
import random

STEP_TYPES = ("given", "when", "then", "and", "but")
STRUCT = {"F": "feature", "R": "rule", "B": "background", "S": "scenario", "O": "scenario_outline", "E": "examples"}
QUOTES = {"dq": '"""', "sq": "'''"}
WORDS = ["alpha", "beta", "gamma", "delta", "omega", "kappa", "sigma", "theta", "lambda", "zeta", "eta", "iota",
         "Über", "naïve", "données", "שלום", "мир", "数据", "テスト", "ok", "v2", "x_y", "a-b", "n=1", "(paren)", "50%",
         # texts that are hostile to string formatting of messages that embed them
         "{x}", "{", "}", "{0}", "{{", "%s", "%(a)s", "{x!r:>3}", "\\d+"]
UNKNOWN_LANGUAGES = ["xx-nolang", "{de}", "{0}", "{", "%s", "zz"]
BAD_TAG_WORDS = ["oops", "{slow}", "{", "}x", "{0}", "{{", "%s", "no-at-sign"]
TAG_STEMS = ["t", "wip", "slow.x", "a-b", "issue=", "Ü", "{x}", "{", "}", "%s", "issue#", "a#b", "x#"]
EOLS = [u"\n", u"\n", u"\n", u"\n", u"\r\n", u"\r\n", u"\r"]          # line terminators: LF, CR-LF (Windows), lone CR


def prefix_languages():
    """languages in which a step keyword alias is a prefix of one of the structural keywords (hi: 'पर ' / 'परिदृश्य')"""
    out = []
    for name, k in sorted(languages().items()):
        steps = [a.rstrip().lower() for t in STEP_TYPES for a in k[t] if not a.startswith("*")]
        if any(s.lower().startswith(a) for key in STRUCT.values() for s in k[key] for a in steps):
            out.append(name)
    return out


def languages():
    from behave import i18n
    return i18n.languages


def has_star(lang):
    k = languages()[lang]
    return all("* " in k[t] for t in STEP_TYPES)


class Lang(object):
    """keyword table of one language + a stable numbering of its aliases (id = 1-based index in .aliases)"""

    def __init__(self, name):
        self.name = name
        self.kws = languages()[name]
        seen = []
        for key in list(STRUCT.values()) + list(STEP_TYPES):
            for a in self.kws[key]:
                a = (a.rstrip() if key in STEP_TYPES else a).lower()
                if a not in seen:
                    seen.append(a)
        self.aliases = seen

    def alias_id(self, text):
        """aliases that differ only in case share an id: the parser matches step keywords case-insensitively and
        reports the alias of its table, not the spelling of the file ('Sipoze Ke' -> 'Sipoze ke')"""
        try:
            return self.aliases.index(text.lower()) + 1
        except ValueError:
            return 0

    def struct_aliases(self, c):
        return list(self.kws[STRUCT[c]])

    def step_aliases(self, a):
        """aliases usable to write a step of kind a (given..but, star)"""
        if a == "star":
            return ["* "] if "* " in self.kws["given"] else []
        return [x for x in self.kws[a] if not x.startswith("*")]

    # -- what the keyword table makes of a line (used only to choose unambiguous renderings for C05)
    def readings(self, line):
        s = line.strip()
        out = set()
        if not s:
            return {"_"}
        if s.startswith("#"):
            return {"#"}
        if s.startswith("@"):
            out.add("Tags")
        if s.startswith('"""') or s.startswith("'''"):
            out.add("Doc")
        if s.startswith("|"):
            out.add("Row")
        # Parser.parse_step: longer keywords first (stable), the first match wins
        cands = [(kw, t) for t in STEP_TYPES for kw in self.kws[t]]
        cands.sort(key=lambda item: -len(item[0]))
        for kw, t in cands:
            if s.startswith(kw) or s.lower().startswith(kw.lower()):
                out.add("Step:" + ("star" if kw.startswith("*") else t) + ":" + kw)
                break
        for c, key in STRUCT.items():
            for a in self.kws[key]:
                if s.startswith(a + ":"):
                    out.add(c + ":" + a)
        return out


_LANGS = {}


def lang(name):
    if name not in _LANGS:
        _LANGS[name] = Lang(name)
    return _LANGS[name]


def esc_cell(text):
    return text.replace("|", "\\|")


class Texts(object):
    """payload id -> semantic text; ids 0,1,2 are reserved (empty text and the two quote lines)"""

    def __init__(self, rnd, safe_for=()):
        self.rnd = rnd
        self.by_id = {0: u"", 1: u'"""', 2: u"'''"}
        self.safe_for = [lang(x) for x in safe_for]
        self.counter = 0

    def fresh(self, kind):
        """a new text that no keyword table in safe_for reads as anything but free text; unique per Texts"""
        for _ in range(50):
            self.counter += 1
            n = self.rnd.randint(1, 3)
            ws = [self.rnd.choice(WORDS) for _ in range(n)]
            if kind == "tag":
                t = u"%s%d" % (self.rnd.choice(TAG_STEMS), self.counter)
            elif kind == "cell":
                t = u" ".join(ws) + u"%d" % self.counter
                if self.rnd.random() < 0.3:
                    t = t.replace(u" ", u"|", 1) if u" " in t else u"|" + t      # a pipe inside the cell (rendered escaped)
            elif kind == "comment":
                t = self.rnd.choice([u"# ", u"#", u"## "]) + u"%s %d" % (ws[0], self.counter)
            else:
                t = u"%s %d %s" % (ws[0], self.counter, u" ".join(ws[1:]))
                t = t.strip()
                if self.safe_for and self.rnd.random() < 0.12:
                    # free text that begins like a structural keyword written in lower case, colon included
                    # ("example: 2 apples", "regel: ..."): keywords are case-sensitive, this is plain text
                    l = self.rnd.choice(self.safe_for)
                    al = [a for a in l.kws[self.rnd.choice(sorted(STRUCT.values()))] if a.lower() != a]
                    if al:
                        t = u"%s: %s" % (self.rnd.choice(sorted(al)).lower(), t)
            if kind in ("tag", "cell", "comment") or all(l.readings(t) == set() for l in self.safe_for):
                return t
        raise RuntimeError("no safe payload text found")

    def get(self, pid, kind):
        if pid not in self.by_id:
            self.by_id[pid] = self.fresh(kind)
        return self.by_id[pid]

    def ids(self):
        """text -> id for the projection of observed texts (0 = empty; unknown texts are mapped to -1 by callers)"""
        return {v: k for k, v in self.by_id.items()}


def to_text(ln, l1, l2, texts, rnd):
    """one decorated abstract line -> its text.  ln['alias'] (keyword text, absent = choose) and
    ln['ind'] / ln['pad'] are honoured; returns (text, alias id used)."""
    lg = l2 if ln.get("lg", 1) == 2 else l1
    pad = ln.get("pad")
    if pad is None:
        pad = u" " * ln.get("ind", 0)
    c, a, ps = ln["c"], ln.get("a", ""), ln.get("ps", [])
    if c in STRUCT:
        alias = ln.get("alias") or rnd.choice(lg.struct_aliases(c))
        name = texts.get(ps[0], "name") if ps else u""
        sep = ln.get("sep", u" ")
        return pad + alias + u":" + (sep + name if name else u""), lg.alias_id(alias)
    if c == "Step":
        alias = ln.get("alias") or rnd.choice(lg.step_aliases(a))
        name = texts.get(ps[0], "name") if ps else u""
        return pad + alias + name, lg.alias_id(alias.rstrip())
    if c == "Row":
        cells = [esc_cell(texts.get(p, "cell")) for p in ps]
        w = ln.get("cellpad", 1)
        body = u"|".join(u" " * w + x + u" " * w for x in cells)
        if a == "tail":          # the last cell is what is left of a trailing comment: "| a | b | # x"
            body = u"|".join(u" " * w + x + u" " * w for x in cells[:-1])
            return pad + u"|" + body + u"| # x", 0
        return pad + u"|" + body + (u"|" if a == "ok" else u""), 0
    if c == "Doc":
        return pad + QUOTES[a], 0
    if c == "Tags":
        words = [u"@" + texts.get(p, "tag") for p in ps]
        gap = ln.get("gap", u" ")
        s = gap.join(words)
        if a == "bad":
            s += u" " + rnd.choice(BAD_TAG_WORDS)
        elif a == "cmt":
            s += u"  # comment @nota tag"
        return pad + s, 0
    if c == "#":
        return pad + (texts.get(ps[0], "comment") if ps else u"# note"), 0
    if c == "Lang":
        name = rnd.choice(UNKNOWN_LANGUAGES) if a == "unknown" else (l2.name if ln.get("lg", 1) == 2 else l1.name)
        return pad + ln.get("hdr", u"# language: ") + name, 0
    if c == "_":
        return ln.get("blank", u""), 0
    if c == "t":
        return pad + (texts.get(ps[0], "text") if ps else u"text"), 0
    raise ValueError("unknown line class %r" % (c,))


def spec_line(ln):
    """the fields the TLA+ modules know"""
    return {"c": ln["c"], "a": ln.get("a", ""), "ps": list(ln.get("ps", [])), "ind": int(ln.get("ind", 0)),
            "lg": int(ln.get("lg", 1)), "kw": int(ln.get("kw", 0))}


def disjoint_pair_ok(l1, l2):
    """C05 soups: every keyword line of one language must be plain text for the other one (except '* ')"""
    a, b = lang(l1), lang(l2)
    if not (has_star(l1) and has_star(l2)):
        return False
    for x, y in ((a, b), (b, a)):
        for c in STRUCT:
            for al in x.struct_aliases(c):
                if y.readings(al + ": p1 q"):
                    return False
        for t in STEP_TYPES:
            for al in x.step_aliases(t):
                if y.readings(al + "p1 q"):
                    return False
    return True


def unambiguous_aliases(lg, other):
    """per class the aliases of lg whose line lg itself reads in exactly the intended way (C05 renderings)"""
    out = {}
    for c in STRUCT:
        out[c] = [al for al in lg.struct_aliases(c) if lg.readings(al + ": p1 q") == {c + ":" + al}]
    for t in STEP_TYPES + ("star",):
        good = []
        for al in lg.step_aliases(t):
            r = lg.readings(al + "p1 q")
            want = "Step:" + t + ":" + al
            if t == "star":
                if all(x.startswith("Step:star:") for x in r) and r:
                    good.append(al)
            elif r == {want}:
                good.append(al)
        out[t] = good
    return out
