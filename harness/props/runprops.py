"""Common code of the run-cluster property checks (C01 C02 C03 C09 C12 C13r C18 ...): read the shared stage and
turn this property's clause verdicts into violations."""
import json

from run import stage

RULE = ("programs = exhaustive family `scen` (1 feature, optional rule, backgrounds, 1 scenario / outline, every first-non-pass "
        "position x outcome incl. KeyboardInterrupt, skip, skip-then-fail, bad argument, nested execute_steps) + seeded random families "
        "`tree` and `big` + cleanup-only and logging families; some programs with hooks that exclude their element or register "
        "cleanups; each with configurations (tag expression, stop, dry-run, wip, show_skipped, continue_after_failed_step, autoretry, "
        "async steps, capture switches, logging level / filter / clear-handlers, stream-replacing steps) and hook fault sets; TLC explores every (program, cfg, fault set) "
        "with all clauses as invariant, the real ModelRunner is run on exactly these inputs and TLC judges the recorded traces; "
        "distinct = distinct (program, cfg, fault set)")


def apply_shared(chk, prefixes, part="core"):
    res = stage.shared(chk, part)
    for t in res["tlc"]:
        class R(object):
            pass
        r = R()
        r.distinct, r.generated, r.depth, r.wall, r.coverage = t["distinct"], t["generated"], t.get("depth", 0), t["wall_s"], \
            {k: (0, v) for k, v in t.get("actions_covered", {}).items()}
        chk.tlc_runs.append((t["module"], t["cfg"], r))
    for d in res["design_violations"]:
        if d["inv"] == "PropsHold":
            base = d["clause"].split("/")[0]
            if any(base.startswith(p) for p in prefixes):
                chk.violation(base, "design:%s" % d["clause"], "TLC: clause %s violated by a behaviour of Run.tla itself (case %s)" % (d["clause"], d["key"]))
        else:
            chk.violation("%s.design.%s" % (chk.pid, d["inv"]), "design:%s" % d["inv"], "TLC: invariant %s violated in Run_MC" % d["inv"])
    chk.impl_traces += res["n_runs"]
    chk.evaluations += res["n_runs"]
    chk.divergences += res["divergences"]
    chk.extra["distinct_nontrivial"] = res["distinct_inputs"]
    chk.extra["programs"] = res["n_programs"]
    chk.extra["shared_stage"] = {"cached": res.get("cached", False), "wall_s": res["wall_s"], "predicted_behaviours": res["n_predicted"]}
    if res["divergence_samples"]:
        chk.extra["divergence_samples"] = res["divergence_samples"]
        chk.note("DIVERGENCE spec=Run: %d of %d runs differ from the prediction of Run.tla (informational)" % (res["divergences"], res["n_runs"]))
    for s in res["samples"]:
        chk.sample(s)
    chk.rule = RULE
    chk.exhaustive = False
    n = 0
    for clause, hits in sorted(res["verdicts"].items()):
        base = clause.split("/")[0]
        if not any(base.startswith(p) for p in prefixes):
            continue
        for h in hits:
            n += 1
            c = h["cfg"]
            sig = "%s|dry=%d|stop=%d" % (clause, int(c["dry"]), int(c["stop"]))
            chk.violation(base, sig, "cfg=%s fault=%s prog=%s status=%s steps=%s verdict=%s escaped=%s" % (
                json.dumps(c, sort_keys=True), h["fault"], json.dumps(h["prog"]), h["status"], h["step_status"], h["verdict"], h["escaped"]),
                {"prog": h["prog"], "cfg": c, "fault": h["fault"], "fault_kind": h["fault_kind"], "clause": clause})
    return res


def add_shared_verdicts(chk, prefixes, part="core"):
    """for a check that has its own machinery and additionally owns some clauses of the shared run stage: only the
    violations (and the run count) are taken over"""
    res = stage.shared(chk, part)
    for d in res["design_violations"]:
        if d["inv"] == "PropsHold" and any(d["clause"].split("/")[0].startswith(p) for p in prefixes):
            base = d["clause"].split("/")[0]
            chk.violation(base, "design:%s" % d["clause"], "TLC: clause %s violated by a behaviour of Run.tla itself (case %s)" % (d["clause"], d["key"]))
    n = 0
    for clause, hits in sorted(res["verdicts"].items()):
        base = clause.split("/")[0]
        if not any(base.startswith(p) for p in prefixes):
            continue
        for h in hits:
            n += 1
            c = h["cfg"]
            chk.violation(base, "%s|dry=%d|stop=%d" % (clause, int(c["dry"]), int(c["stop"])),
                          "cfg=%s fault=%s prog=%s status=%s steps=%s verdict=%s escaped=%s" % (
                              json.dumps(c, sort_keys=True), h["fault"], json.dumps(h["prog"]), h["status"], h["step_status"], h["verdict"], h["escaped"]),
                          {"prog": h["prog"], "cfg": c, "fault": h["fault"], "fault_kind": h["fault_kind"], "clause": clause})
    chk.extra["run_cluster"] = {"runs_of_the_shared_stage": res["n_runs"], "cached": res.get("cached", False), "wall_s": res["wall_s"],
                                "note": "real runs with --name selecting random subsets of scenarios / outline rows, modelled in Run.tla "
                                        "(NameMatch) and judged by the selection clauses of Props_Run.tla under the id C10.name_in_run"}
    return res


def replay_case(chk, payload, prefixes):
    from run import gen as G, cases as C, drive
    from vlib import trace
    rp = payload["replay"]
    case, flat = C.make_case(1, rp["prog"], [rp["cfg"]], [rp["fault"]])
    row = drive.run_case({"prog": rp["prog"], "flat": flat, "cfg": rp["cfg"], "fault": rp["fault"], "fault_kind": rp.get("fault_kind", "exc")})
    base = None
    if any(rp["fault"]):
        brow = drive.run_case({"prog": rp["prog"], "flat": flat, "cfg": rp["cfg"], "fault": [0, 0]})
        base = stage.base_of(brow)
    jr = stage.judge_row(1, case["prog"], case["cfgs"][0], row, base=base, skips=case["skips"], hookcl=case.get("hookcl", False), kbd=case.get("kbd", False))
    verdicts = trace.judge_rows(chk, "Run_Trace", [jr], chunks=1)
    chk.impl_traces = 1
    chk.sample({"replayed": rp})
    for vs in verdicts.values():
        for v in vs:
            base = v[2].split("/")[0]
            if any(base.startswith(p) for p in prefixes):
                c = rp["cfg"]
                chk.violation(base, "%s|dry=%d|stop=%d" % (v[2], int(c["dry"]), int(c["stop"])),
                              "replayed: status=%s steps=%s verdict=%s" % (row["end"]["status"], row["end"]["step_status"], row["end"]["verdict"]), rp)
