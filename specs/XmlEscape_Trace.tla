-------------------------- MODULE XmlEscape_Trace --------------------------
(* Judge of C16 (well-formedness) on rows recorded from real behave runs      *)
(* with --junit: one row per report document in which ONE source of text       *)
(* (feature name, scenario name, step name, assertion/exception message,       *)
(* captured stdout, captured stderr) carried the payload.                      *)
(*   row: id, src, s (class string of the payload), wellformed (the report     *)
(*        was accepted by the expat parser), written (a report file exists),   *)
(*        exc (exception type that escaped the reporter / run, "" if none)     *)
(* Violated clause:  <<"VERDICT", id, "C16.wellformed", family, ctx, mask>>    *)
(* (ctx = the context the specification blames, mask = the offending character *)
(* classes as bits over ClsOrder -- for attr_ctrl the first one in the text;   *)
(* kept short: TLC wraps long lines).                                          *)
(* Information: <<"INFO", id, "diverges", predicted>>.  The final line         *)
(* <<"DONE", rows, diameter, verdicts>> lets the driver check that no line got *)
(* lost.                                                                       *)
EXTENDS XmlEscape, TLC, Json, IOUtils
Rows == ndJsonDeserialize(IOEnv.TRACE_FILE)

VARIABLE i
Init == i = 1 /\ TLCSet(1, 0)            \* register 1 counts the printed verdicts (the judge runs with ONE worker)
R == Rows[i]
ClsOrder == <<"plain", "lt", "amp", "quot", "apos", "rbr", "gt", "ws", "c0", "c0ws", "delc1", "esc", "lbr", "digit", "m",
              "fffe", "astral", "nonascii">>
RECURSIVE Pow2(_)
Pow2(n) == IF n = 0 THEN 1 ELSE 2 * Pow2(n - 1)
RECURSIVE MaskFrom(_,_)
MaskFrom(S, j) == IF j > Len(ClsOrder) THEN 0 ELSE (IF ClsOrder[j] \in S THEN Pow2(j - 1) ELSE 0) + MaskFrom(S, j + 1)
Mask(S) == MaskFrom(S, 1)

FirstIn(t, S) == t[CHOOSE j \in DOMAIN t : t[j] \in S /\ \A h \in 1..(j - 1) : t[h] \notin S]
KnownRow(r) == r.src \in Sources /\ \A j \in DOMAIN r.s : r.s[j] \in Classes
BadCtxs(r) == {c \in CtxOf(r.src) : ~SourceWellFormed(r.src, c, r.s)}
Predicted(r) == BadCtxs(r) = {}
Offending(r, c) == IF c = "attr" THEN Range(TextIn(r.src, c, r.s)) \cap (NotXmlChar \cup {"lt", "quot", "amp"})
                   ELSE Range(r.s) \cap (NotXmlChar \cup {"rbr", "gt", "esc"})
\* the property demands a well-formed document whatever the characters are: the clause does not depend on the
\* specification's prediction; the prediction only names the family
Verdict(r) ==
   IF r.wellformed /\ r.exc = "" THEN {}
   ELSE IF ~KnownRow(r) THEN {<<"unknown_input", "none", {}>>}
   ELSE IF r.exc # "" THEN {<<"reporter_raised", "none", {}>>}
   ELSE IF ~r.written THEN {<<"no_report", "none", {}>>}
   ELSE IF "attr" \in BadCtxs(r) /\ KF_C16_attr_ctrl("attr", TextIn(r.src, "attr", r.s))
        THEN {<<"attr_ctrl", "attr", {FirstIn(TextIn(r.src, "attr", r.s), NotXmlChar)}>>}   \* the first offending class
   ELSE IF BadCtxs(r) # {} THEN LET c == CHOOSE c \in BadCtxs(r) : TRUE IN {<<"predicted", c, Offending(r, c)>>}
   ELSE {<<"unpredicted", "none", {}>>}
Infos(r) == IF KnownRow(r) /\ Predicted(r) # (r.wellformed /\ r.exc = "") THEN {<<"diverges", Predicted(r)>>} ELSE {}

Next == /\ i <= Len(Rows)
        /\ \A v \in Verdict(R) : PrintT(<<"VERDICT", R.id, "C16.wellformed", v[1], v[2], Mask(v[3])>>)
        /\ \A v \in Infos(R) : PrintT(<<"INFO", R.id, v[1], v[2]>>)
        /\ TLCSet(1, TLCGet(1) + Cardinality(Verdict(R)))
        /\ i' = i + 1
Spec == Init /\ [][Next]_i
Done == PrintT(<<"DONE", Len(Rows), TLCGet("stats").diameter, TLCGet(1)>>)
=============================================================================
