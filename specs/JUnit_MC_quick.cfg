INIT Init
NEXT Next
CONSTANTS
  MaxScen = 3
  FullUpTo = 2
  EmitAllUpTo = 1
  EmitMod = 11
INVARIANT ClausesHold
INVARIANT RepairedHolds
INVARIANT KFNarrow
INVARIANT RepairOnlyThere
INVARIANT Conservation
INVARIANT WalkIsDocOrder
INVARIANT Emit
