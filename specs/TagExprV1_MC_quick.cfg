INIT Init
NEXT Next
CONSTANTS
  MaxGroups = 2
  MaxAlts = 2
  Names <- NamesQuick
  Sorted = FALSE
  Universe <- Univ
  V2Depth = 1
  V2Operands <- OpsV2
  NB = 16
  Styles <- AllStyles
  EmitMod = 1
  HistLen = 2
INVARIANT ReadBack
INVARIANT V1Algorithm
INVARIANT AutoOnV1
INVARIANT AutoOnMixed
INVARIANT AutoOnV2
INVARIANT AtNeutral
INVARIANT ListIsConjunction
INVARIANT HistoryIndependent
INVARIANT Classes
INVARIANT Witness
INVARIANT Emit
