INIT Init
NEXT Next
POSTCONDITION Done
