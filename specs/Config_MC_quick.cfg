INIT Init
NEXT Next
CONSTANTS
  MaxDefine = 5
  MaxFiles = 2
  MaxPad = 1
  MaxGetter = 3
  MaxPath = 2
  MaxHist = 2
  MaxSeq = 3
INVARIANT KeysAreCaseSensitive
INVARIANT ColourSwitchIsLocal
INVARIANT GetterHistory
INVARIANT HistoryIndependent
INVARIANT Precedence
INVARIANT FilesInOrder
INVARIANT AppendExtends
INVARIANT UserdataOverride
INVARIANT ForcedOnlyByMode
INVARIANT DefineLaw
INVARIANT DefineAgree
INVARIANT BareIsTrue
INVARIANT PathLaw
INVARIANT CoupleLaw
INVARIANT GetterLaw
INVARIANT Emit
