INIT Init
NEXT Next
CONSTANTS
  ShapeIds <- ThoroughShapes
  EmitMod = 60
INVARIANT ClausesHold
INVARIANT V1NeverCrashes
INVARIANT CollectorIsCensus
INVARIANT CensusFoldIsCensus
INVARIANT Emit
