INIT Init
NEXT Next
CONSTANTS
  Tiers <- TiersQuick
  EmitMaxLen = 0
  SampleMod = 1000000
INVARIANT WellFormedStrict
