INIT Init
NEXT Next
CONSTANTS
  FullN = 2
  RotN = 3
  Rot4 = TRUE
  HistN = 2
  HistLen = 3
  Deep = TRUE
  AngleCodes <- AngleCodesT
  NB = 64
INVARIANT SeqEqSim
INVARIANT CodeEqDef
INVARIANT CountOrder
INVARIANT Isolation
INVARIANT CacheCoherent
INVARIANT ModMarks
INVARIANT Rebuilt
INVARIANT EmitCase
INVARIANT EmitHist
