---------------------------- MODULE RunPair_Trace ----------------------------
(* Two-run clause C12.others_unaffected on pairs (run with hook fault, fault-free run of the same program and       *)
(* configuration).  Used on pairs of behaviours predicted by Run.tla (design level: every fault position of every      *)
(* explored program) and -- inside Run_Trace -- on pairs of real runs.                                                *)
EXTENDS Props_Run, Json, IOUtils
Rows == ndJsonDeserialize(IOEnv.TRACE_FILE)
VARIABLE i
Init == i = 1
Next == /\ i <= Len(Rows)
        /\ \A c \in PairClauses(Rows[i]) : PrintT(<<"VERDICT", Rows[i].id, c>>)
        /\ i' = i + 1
Spec == Init /\ [][Next]_i
Done == PrintT(<<"DONE", Len(Rows), TLCGet("stats").diameter>>)
=============================================================================
