INIT Init
NEXT Next
CONSTANTS
  MaxScen = 3
  MaxFeat = 2
  EmitMod = 97
INVARIANT ClausesHold
INVARIANT RepairedHolds
INVARIANT KFNarrow
INVARIANT ExemptHolds
INVARIANT FeedBackDefinitional
INVARIANT FeedBackBetween
INVARIANT Emit
