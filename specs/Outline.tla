------------------------------ MODULE Outline ------------------------------
(***************************************************************************)
(* Scenario Outline expansion of behave (C06).                             *)
(*                                                                         *)
(* A text is a sequence of tokens; a token is a string.  The placeholder   *)
(* of column c is the token Ph(c) = "<c>"; every other token is literal    *)
(* text that contains no angle bracket.  Str(text) (the concatenation of   *)
(* the tokens) is exactly the text written in the feature file, so the     *)
(* same abstract outline is rendered by the driver ("".join) and evaluated *)
(* here.  (TLC: "\o", Len and SubSeq work on strings.)                     *)
(*                                                                         *)
(* Next to each other:                                                     *)
(*   definitional  SubstSim  : every placeholder token of a column of the  *)
(*                 row is replaced by that row's cell, simultaneously;     *)
(*   the code      SeqRepl / RenderTemplate / MakeRowTags / StepCode /     *)
(*                 ScenCode / ExpandCode : behave.model.ScenarioOutline-   *)
(*                 Builder, one str.replace per column in column order,    *)
(*                 Tag.make_name on rendered tags, the annotation schema;       *)
(*   the cache     InitSt / DoAccess / DoAddRow / DoAddCol :               *)
(*                 ScenarioOutline.scenarios over _scenarios and the       *)
(*                 Table.modified flags.                                   *)
(* Pure definitions only: Outline_MC composes them into a state space,     *)
(* Outline_Trace judges rows recorded from the real code.                  *)
(***************************************************************************)
EXTENDS Naturals, Sequences, FiniteSets

\* ---------------------------------------------------------------- tokens, texts
ColUniverse == {"a", "b", "c", "u"}          \* "u" is never a column: <u> is an unknown placeholder
\* behave's pseudo-columns: <examples.name> <examples.index> <row.index> <row.id> are substituted like columns in the
\* outline name, the step names and the tags (not in doc-strings and step tables)
PseudoCols == <<"examples.name", "examples.index", "row.index", "row.id">>
Ph(c) == "<" \o c \o ">"
PhUniverse == {Ph(c) : c \in ColUniverse} \cup {Ph(PseudoCols[i]) : i \in DOMAIN PseudoCols}

RECURSIVE Str(_)
Str(t) == IF t = <<>> THEN "" ELSE Head(t) \o Str(Tail(t))
RECURSIVE Flat(_)
Flat(ss) == IF ss = <<>> THEN <<>> ELSE Head(ss) \o Flat(Tail(ss))
StrEach(ts) == [i \in DOMAIN ts |-> Str(ts[i])]
Range(s) == {s[i] : i \in DOMAIN s}

HasPh(text) == \E i \in DOMAIN text : text[i] \in PhUniverse            \* a placeholder token occurs
\* Literal text may contain angle brackets: always as the one-character tokens "<" and ">" ("x > 0 and <c> < 5" =
\* <<"x ", ">", " 0 and ", Ph("c"), " ", "<", " 5">>; the cell List<str> = <<"List", "<", "str", ">">>).
\* The code's test '"<" in text and ">" in text' (render_template, is_parametrized_tag):
HasAngles(text) == /\ \E i \in DOMAIN text : text[i] \in PhUniverse \cup {"<"}
                   /\ \E i \in DOMAIN text : text[i] \in PhUniverse \cup {">"}
HasColPh(text, cols) == \E i \in DOMAIN text : \E k \in DOMAIN cols : text[i] = Ph(cols[k])

StartsWith(s, p) == Len(s) >= Len(p) /\ (Len(p) = 0 \/ SubSeq(s, 1, Len(p)) = p)
EndsWith(s, p)   == Len(s) >= Len(p) /\ (Len(p) = 0 \/ SubSeq(s, Len(s) - Len(p) + 1, Len(s)) = p)

\* ---------------------------------------------------------------- definitional: simultaneous substitution
ValueOf(cols, cells, tok) ==
   LET K == {k \in DOMAIN cols : Ph(cols[k]) = tok}
   IN IF K = {} THEN <<tok>> ELSE cells[CHOOSE k \in K : \A j \in K : k <= j]
SubstSim(text, cols, cells) == Flat([i \in DOMAIN text |-> ValueOf(cols, cells, text[i])])

\* ---------------------------------------------------------------- the code: one replace per column, in column order
ReplaceTok(text, tok, val) == Flat([i \in DOMAIN text |-> IF text[i] = tok THEN val ELSE <<text[i]>>])
RECURSIVE SeqRepl(_,_,_,_)
SeqRepl(text, cols, cells, k) ==
   IF k > Len(cols) THEN text ELSE SeqRepl(ReplaceTok(text, Ph(cols[k]), cells[k]), cols, cells, k + 1)
\* ScenarioOutlineBuilder.render_template(text, row)
RenderTemplate(text, cols, cells) == IF ~HasAngles(text) THEN text ELSE SeqRepl(text, cols, cells, 1)

\* Tag.make_name: alnum and "._-=:,;()" kept, white space -> "_", everything else dropped.
\* Token level: the tokens of these two sets are the only ones of the bounded family that are not kept.
SpaceToks == {" "}
DropToks  == {"/", "+", "#", "@", "!", "%", "<", ">", "\\", "$", "&"}
TagSafe(text) == \A i \in DOMAIN text : text[i] \notin (SpaceToks \cup DropToks)
\* with unescape=True a backslash followed by "t" / "n" first becomes TAB / newline, i.e. "_"; any other backslash
\* is dropped like the other characters that are not kept
RECURSIVE MakeName(_)
MakeName(text) ==
   IF text = <<>> THEN <<>>
   ELSE IF Head(text) = "\\" /\ Len(text) >= 2 /\ text[2] \in {"t", "n"} THEN <<"_">> \o MakeName(Tail(Tail(text)))
   ELSE (IF Head(text) \in DropToks THEN <<>> ELSE IF Head(text) \in SpaceToks THEN <<"_">> ELSE <<Head(text)>>)
        \o MakeName(Tail(text))
\* make_row_tags: tags without placeholder are kept verbatim; parametrized tags are rendered, dropped if they still
\* look parametrized, and normalised with make_name otherwise
RECURSIVE MakeRowTags(_,_,_)
MakeRowTags(tags, cols, cells) ==
   IF tags = <<>> THEN <<>>
   ELSE LET t0 == Head(tags)
            t1 == RenderTemplate(t0, cols, cells)
        IN (IF ~HasAngles(t0) THEN <<t0>> ELSE IF HasAngles(t1) THEN <<>> ELSE <<MakeName(t1)>>) \o MakeRowTags(Tail(tags), cols, cells)

\* steps: [name, doc, th, tr]  (doc = <<>>: no doc-string; th = <<>>: no table; tr = rows of cells)
\* (xcols, xcells) = the row's columns followed by the pseudo-columns: row items first, then params, as in
\* render_template(text, row, params); only the step NAME is rendered with params
StepCode(s, cols, cells, xcols, xcells) ==
   [name |-> RenderTemplate(s.name, xcols, xcells),
    doc  |-> IF s.doc = <<>> THEN <<>> ELSE RenderTemplate(s.doc, cols, cells),
    th   |-> [j \in DOMAIN s.th |-> SeqRepl(s.th[j], cols, cells, 1)],
    tr   |-> [r \in DOMAIN s.tr |-> [j \in DOMAIN s.tr[r] |-> SeqRepl(s.tr[r][j], cols, cells, 1)]]]
StepDef(s, cols, cells, xcols, xcells) ==
   [name |-> SubstSim(s.name, xcols, xcells),
    doc  |-> SubstSim(s.doc, cols, cells),
    th   |-> [j \in DOMAIN s.th |-> SubstSim(s.th[j], cols, cells)],
    tr   |-> [r \in DOMAIN s.tr |-> [j \in DOMAIN s.tr[r] |-> SubstSim(s.tr[r][j], cols, cells)]]]

\* ---------------------------------------------------------------- name annotation schema
\* schema = tokens; fields "{name}" "{row.id}" "{row.index}" "{examples.name}" "{examples.index}"
Dig(n) == <<"0", "1", "2", "3", "4", "5", "6", "7", "8", "9">>[n + 1]
Annot(schema, name, bi, ri, exname) ==
   Flat([i \in DOMAIN schema |->
           CASE schema[i] = "{name}"           -> name
             [] schema[i] = "{row.id}"         -> <<Dig(bi), ".", Dig(ri)>>
             [] schema[i] = "{row.index}"      -> <<Dig(ri)>>
             [] schema[i] = "{examples.name}"  -> exname
             [] schema[i] = "{examples.index}" -> <<Dig(bi)>>
             [] OTHER -> <<schema[i]>>])

\* the pseudo-columns of row ri of block bi; exname = the (rendered) name of the examples block
XCols(cols) == cols \o PseudoCols
XCells(cells, exname, bi, ri) == cells \o <<exname, <<Dig(bi)>>, <<Dig(ri)>>, <<Dig(bi), ".", Dig(ri)>> >>

\* ---------------------------------------------------------------- outlines
\* outline = [name, tags, steps, blocks]; block = [name, tags, cols, hline, rows]; row = [cells, line, gap]
\* gap: what the feature file has between the previous table line and this row: 0 nothing, 1 a "#" comment line,
\* 2 a blank line (both legal inside a table and skipped by the parser); line = the row's line in the file
RECURSIVE PairsFrom(_,_)
PairsFrom(o, bi) == IF bi > Len(o.blocks) THEN <<>>
                    ELSE [ri \in 1..Len(o.blocks[bi].rows) |-> <<bi, ri>>] \o PairsFrom(o, bi + 1)
Pairs(o) == PairsFrom(o, 1)                  \* examples-block then row order
TotalRows(o) == Len(Pairs(o))

\* make_scenario_for as the code does it (token form)
ScenCode(o, schema, bi, ri) ==
   LET blk == o.blocks[bi]  cols == blk.cols  cells == blk.rows[ri].cells
       \* make_scenario_name: params["examples.name"] = example.name; the examples name is rendered PER ROW from the
       \* block's own name, written back to params and used for the name, the tags and the step names of this row
       xcols == XCols(cols)
       exn   == RenderTemplate(blk.name, xcols, XCells(cells, blk.name, bi, ri))
       xcells == XCells(cells, exn, bi, ri)
   IN [name  |-> Annot(schema, RenderTemplate(o.name, xcols, xcells), bi, ri, exn),
       tags  |-> MakeRowTags(o.tags, xcols, xcells) \o blk.tags,
       line  |-> blk.rows[ri].line,
       steps |-> [s \in DOMAIN o.steps |-> StepCode(o.steps[s], cols, cells, xcols, xcells)]]
ExpandCode(o, schema) == LET P == Pairs(o) IN [k \in DOMAIN P |-> ScenCode(o, schema, P[k][1], P[k][2])]

\* what the property demands (tags of ScenDef are the rendered outline tags ++ block tags, see Outline_Trace
\* for the relation that leaves tags with unknown placeholders open)
ScenDef(o, schema, bi, ri) ==
   LET blk == o.blocks[bi]  cols == blk.cols  cells == blk.rows[ri].cells
       xcols == XCols(cols)
       exn   == SubstSim(blk.name, cols, cells)          \* the block's own name with THIS row's cells
       xcells == XCells(cells, exn, bi, ri)
   IN [name  |-> Annot(schema, SubstSim(o.name, xcols, xcells), bi, ri, exn),
       tags  |-> [i \in DOMAIN o.tags |-> SubstSim(o.tags[i], xcols, xcells)] \o blk.tags,
       line  |-> blk.rows[ri].line,
       steps |-> [s \in DOMAIN o.steps |-> StepDef(o.steps[s], cols, cells, xcols, xcells)]]
ExpandDef(o, schema) == LET P == Pairs(o) IN [k \in DOMAIN P |-> ScenDef(o, schema, P[k][1], P[k][2])]

\* ---------------------------------------------------------------- string forms (= what the driver records)
StrStep(s) == [name |-> Str(s.name), doc |-> Str(s.doc), th |-> StrEach(s.th),
               tr |-> [r \in DOMAIN s.tr |-> StrEach(s.tr[r])]]
StrScen(sc) == [name |-> Str(sc.name), tags |-> StrEach(sc.tags), line |-> sc.line,
                steps |-> [s \in DOMAIN sc.steps |-> StrStep(sc.steps[s])]]
StrScens(scs) == [k \in DOMAIN scs |-> StrScen(scs[k])]
SnapOf(o) == [name   |-> Str(o.name), tags |-> StrEach(o.tags),
              steps  |-> [s \in DOMAIN o.steps |-> StrStep(o.steps[s])],
              blocks |-> [b \in DOMAIN o.blocks |->
                            [name |-> Str(o.blocks[b].name), tags |-> StrEach(o.blocks[b].tags),
                             cols |-> o.blocks[b].cols, hline |-> o.blocks[b].hline,
                             rows |-> [r \in DOMAIN o.blocks[b].rows |->
                                         [cells |-> StrEach(o.blocks[b].rows[r].cells),
                                          line  |-> o.blocks[b].rows[r].line]]]]]

\* a snapshot with the line numbers blanked: what must agree before an access is judged (the lines that the parser
\* gave to the rows are not a precondition: C06.line judges the scenarios against the rows' lines in the file)
NoLines(sn) == [name |-> sn.name, tags |-> sn.tags, steps |-> sn.steps,
                blocks |-> [b \in DOMAIN sn.blocks |->
                              [name |-> sn.blocks[b].name, tags |-> sn.blocks[b].tags, cols |-> sn.blocks[b].cols,
                               rows |-> [r \in DOMAIN sn.blocks[b].rows |-> sn.blocks[b].rows[r].cells]]]]

\* ---------------------------------------------------------------- layout of the rendered feature file
\* line 1 "Feature: F"; [tags line]; "Scenario Outline: .."; steps (doc-string between two """ lines,
\* table heading + rows); per block: [tags line]; "Examples: .."; heading; rows, each preceded by its gap line
CountTok(text, tok) == Cardinality({i \in DOMAIN text : text[i] = tok})
StepLines(s) == 1 + (IF s.doc # <<>> THEN 3 + CountTok(s.doc, "\n") ELSE 0)
                  + (IF s.th # <<>> THEN 1 + Len(s.tr) ELSE 0)
RECURSIVE SumStepLines(_)
SumStepLines(steps) == IF steps = <<>> THEN 0 ELSE StepLines(Head(steps)) + SumStepLines(Tail(steps))
GapLines(rows, n) == Cardinality({r \in 1..n : rows[r].gap # 0})        \* gap lines up to and including row n's
BlockLines(b) == (IF b.tags # <<>> THEN 1 ELSE 0) + 2 + Len(b.rows) + GapLines(b.rows, Len(b.rows))
RECURSIVE SumBlockLines(_,_)
SumBlockLines(blocks, n) == IF n = 0 THEN 0 ELSE BlockLines(blocks[n]) + SumBlockLines(blocks, n - 1)
OutlineLine(o) == IF o.tags # <<>> THEN 3 ELSE 2
HeadingLine(o, bi) == OutlineLine(o) + SumStepLines(o.steps) + SumBlockLines(o.blocks, bi - 1)
                      + (IF o.blocks[bi].tags # <<>> THEN 1 ELSE 0) + 2
WithLines(o) == [o EXCEPT !.blocks = [bi \in DOMAIN o.blocks |->
                    [o.blocks[bi] EXCEPT !.hline = HeadingLine(o, bi),
                                         !.rows = [ri \in DOMAIN o.blocks[bi].rows |->
                                                     [o.blocks[bi].rows[ri] EXCEPT
                                                         !.line = HeadingLine(o, bi) + ri + GapLines(o.blocks[bi].rows, ri)]]]]]

\* ---------------------------------------------------------------- table API (taken as given) and the cache
\* op = [op, b, cells, line, name, dflt]: "access" | "addrow" (cells = the new row, line 0 = not given)
\*                                      | "addcol" (name, cells = values for the first rows, dflt for the rest)
AddRow(o, b, cells, line) ==
   [o EXCEPT !.blocks[b].rows = Append(@, [cells |-> cells, line |-> line, gap |-> 0])]
AddCol(o, b, name, vals, dflt) ==
   [o EXCEPT !.blocks[b].cols = Append(@, name),
             !.blocks[b].rows = [r \in DOMAIN @ |->
                                   [@[r] EXCEPT !.cells = Append(@, IF r <= Len(vals) THEN vals[r] ELSE dflt)]]]
\* Table.add_row(row, line=None): line = table.line + len(rows) + 1
DefaultRowLine(o, b) == o.blocks[b].hline + Len(o.blocks[b].rows) + 1

\* st = [cur, cache, mod]: ScenarioOutline._scenarios and Table.modified per examples table
InitSt(o) == [cur |-> o, cache |-> <<>>, mod |-> [b \in DOMAIN o.blocks |-> TRUE]]
AnyMod(st) == \E b \in DOMAIN st.mod : st.mod[b]
DoAccess(st, schema) == IF AnyMod(st)
                        THEN [st EXCEPT !.cache = ExpandCode(st.cur, schema), !.mod = [b \in DOMAIN st.mod |-> FALSE]]
                        ELSE st
DoAddRow(st, op) == [st EXCEPT !.cur = AddRow(st.cur, op.b, op.cells,
                                              IF op.line = 0 THEN DefaultRowLine(st.cur, op.b) ELSE op.line),
                               !.mod[op.b] = TRUE]
DoAddCol(st, op) == [st EXCEPT !.cur = AddCol(st.cur, op.b, op.name, op.cells, op.dflt), !.mod[op.b] = TRUE]
Apply(st, op, schema) == CASE op.op = "access" -> DoAccess(st, schema)
                           [] op.op = "addrow" -> DoAddRow(st, op)
                           [] op.op = "addcol" -> DoAddCol(st, op)
=============================================================================
