INIT Init
NEXT Next
CONSTANTS
  MaxLen = 4
  NB = 25
  Alphabet <- AlphaQuick
  EmitMod = 1
INVARIANT NoCrash
INVARIANT ErrorLineInRange
INVARIANT ErrorAtLastLine
INVARIANT Emit
INVARIANT EmitAlphabet
