#!/venv/bin/python
"""Regenerates the generated tables of DESIGN.md (between <!-- BEGIN x --> / <!-- END x --> markers) from
known_findings.json and seeded/*/meta.json."""
import json
import os
import re

HERE = os.path.dirname(os.path.dirname(os.path.abspath(__file__)))


def table_fixed(F):
    rows = ["| property | commit | defect (as recorded in known_findings.json) |", "|---|---|---|"]
    for f in F:
        if f.get("status") == "fixed":
            what = f["fixed"].split(" ", 3)[3] if f["fixed"].count(" ") >= 3 else f["fixed"]
            rows.append("| %s | %s | %s |" % (f["property"], f["commit"], what.replace("|", "\\|")))
    return "\n".join(rows)


def table_known(F):
    rows = ["| id | property | clause | what fails (signature regex in known_findings.json) |", "|---|---|---|---|"]
    for f in F:
        if f.get("status") == "known":
            rows.append("| %s | %s | %s | %s |" % (f["id"], f["property"], f.get("clause", "(several)"), f["what"].replace("|", "\\|")))
    return "\n".join(rows)


def table_seeded():
    rows = ["| seeded change | property | what it does / what it needs | pinned tests | caught by (quick tier) |", "|---|---|---|---|---|"]
    d = os.path.join(HERE, "seeded")
    for name in sorted(os.listdir(d), key=lambda n: (n.split("-")[0], int(n.split("-")[1]) if n.split("-")[-1].isdigit() else 0)):
        mp = os.path.join(d, name, "meta.json")
        if not os.path.exists(mp):
            continue
        m = json.load(open(mp))
        lv = m.get("lead_verification") or {}
        caught = lv["caught_by"] if "caught_by" in lv else "(not evaluated)"
        if isinstance(caught, list):
            other = lv.get("caught_by_other_check")
            caught = ", ".join(caught) if caught else ("missed by %s; caught by the %s check: %s" % (
                name.split("-")[0], other["check"], ", ".join(other["clauses"])) if other else "**MISSED**")
        summ = (m.get("summary", "") + " -- needs: " + m.get("needs", "")).replace("|", "\\|").replace("\n", " ")
        if len(summ) > 420:
            summ = summ[:417] + "..."
        rows.append("| %s | %s | %s | %s | %s |" % (name, m.get("property", name.split("-")[0]), summ, lv.get("pytest", "1655 pass / 13 fail (agent)"), caught))
    return "\n".join(rows)


def main():
    F = json.load(open(os.path.join(HERE, "known_findings.json")))["findings"]
    p = os.path.join(HERE, "DESIGN.md")
    s = open(p).read()
    for key, text in (("FIXED", table_fixed(F)), ("KNOWN", table_known(F)), ("SEEDED", table_seeded())):
        pat = re.compile(r"(<!-- BEGIN %s -->\n)(.*?)(<!-- END %s -->)" % (key, key), re.S)
        if not pat.search(s):
            raise SystemExit("marker %s missing" % key)
        s = pat.sub(lambda m: m.group(1) + text + "\n" + m.group(3), s)
    open(p, "w").write(s)


if __name__ == "__main__":
    main()
