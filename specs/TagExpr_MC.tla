---------------------------- MODULE TagExpr_MC ----------------------------
(* Design-level check of C07 and emission of behaviours for replay:        *)
(* one state per expression tree of the bounded family (trees are spread   *)
(* over NB bucket states so that the 16 TLC workers share them).           *)
EXTENDS TagExpr, TLC, Json
CONSTANTS MaxDepth, Operands, Universe, NB     \* Operands: set of char sequences; Universe: sequence of tags

RECURSIVE Trees(_)
Trees(d) == IF d = 0 THEN {Lit(n) : n \in Operands}
            ELSE LET S == Trees(d - 1) IN
                 S \cup {Not(x) : x \in S}
                   \cup {Bin(o, l, r) : o \in {"and", "or"}, l \in S, r \in Trees(0)}
                   \cup {Bin(o, l, r) : o \in {"and", "or"}, l \in Trees(0), r \in S}
AllTrees == Trees(MaxDepth)
A == Lit(<<"a">>)
B == Lit(<<"b">>)
G == Lit(<<"a","*">>)
\* partner formulas for the binary laws (list form, placeholder contexts)
Small == {A, Not(B), Bin("or", A, B), Bin("and", G, Not(A))}
SS == SubsetSeq(Universe)
Bucket(x) == (Len(Min(x)) + 3 * Len(Full(x)) + 7 * Len(Str(x))) % NB

VARIABLES ph, b, t
vars == <<ph, b, t>>
Init == ph = "start" /\ b = 0 /\ t = TrueT
Next == \/ ph = "start"  /\ ph' = "bucket" /\ b' \in 0..(NB - 1) /\ t' = t
        \/ ph = "bucket" /\ ph' = "tree" /\ b' = b /\ t' \in {x \in AllTrees : Bucket(x) = b}
Spec == Init /\ [][Next]_vars

Means(text, tree) == LET p == ParseText(text) IN p.ok /\ Same(p.tree, tree, SS)
OnTree(P) == ph = "tree" => P

\* every rendering parses back to the formula it renders (precedence, associativity, parentheses, '@', blanks)
ParseFull == OnTree(Means(Full(t), t))
ParseMin  == OnTree(Means(Min(t), t))
ParseAt   == OnTree(Means(WithAt(t), t))
ParseLeafy == OnTree(Means(Leafy(t), t))
\* printing preserves meaning and is a fixpoint after one round
RoundTrip == OnTree(LET p == ParseText(Min(t)) q == ParseText(Str(p.tree))
                    IN p.ok /\ q.ok /\ Same(q.tree, t, SS) /\ Str(q.tree) = Str(p.tree))
\* list-of-terms form is the conjunction of its terms, whatever the terms' top-level operator
ListForm == OnTree(\A u \in Small : /\ LET p == ParseList(<<Min(t), Min(u)>>) IN p.ok /\ Same(p.tree, Bin("and", t, u), SS)
                                    /\ LET p == ParseList(<<Leafy(t), Leafy(u)>>) IN p.ok /\ Same(p.tree, Bin("and", t, u), SS))
\* {config.tags} substitution by the printed expression acts as substitution of a sub-formula
Placeholder == OnTree(
   \A u \in Small :
      LET c == ParseText(Min(t)).tree
          s == Str(c)
      IN /\ Means(s \o <<" ","a","n","d"," ">> \o Paren(Min(u)), Bin("and", t, u))
         /\ Means(Paren(Min(u)) \o <<" ","o","r"," ">> \o s, Bin("or", u, t))
         /\ Means(<<"n","o","t"," ">> \o s, Not(t))
         /\ Means(<<"n","o","t"," ">> \o s \o <<" ","a","n","d"," ">> \o Paren(Min(u)), Bin("and", Not(t), u)))
EmptyIsTrue == ph = "start" => /\ ParseText(<<>>).ok /\ ParseText(<<" ", " ", " ">>).ok
                               /\ \A k \in DOMAIN SS : Eval(ParseText(<<" ">>).tree, SS[k])

Emit == OnTree(PrintT(<<"CASE", ToJson([min |-> Min(t), full |-> Full(t), at |-> WithAt(t), str |-> Str(t), leafy |-> Leafy(t),
                                        tt |-> TruthTable(t, SS)])>>))

\* operand pools
OpsSmall == {<<"a">>, <<"b">>, <<"a","*">>, <<"?","b">>, <<"*">>}
\* (tag names that BEGIN with the letters of a keyword followed by punctuation are plain operands: "not-r", "or.x")
OpsMid   == {<<"a">>, <<"b">>, <<"c",".","d">>, <<"a","*">>, <<"?","b">>, <<"x","-","y","=","1">>, <<"*">>,
             <<"n","o","t","-","r">>, <<"o","r",".","x">>, <<"N","O","T","-","r">>}
OpsFull  == OpsMid \cup {<<"[","a","z","]","b">>, <<"[","!","a","]","b">>}
Univ     == << <<"a">>, <<"b">>, <<"a","b">>, <<"z","b">>, <<"c",".","d">>, <<"x","-","y","=","1">>, <<"N","O","T","-","r">> >>
=============================================================================
