-------------------------- MODULE StepRegistry_MC --------------------------
(* Design-level check of C11 and emission of behaviours for replay.         *)
(*                                                                           *)
(* Two families of behaviours leave the start state:                         *)
(*  "single": one registration of every pattern of the big pool (all         *)
(*            patterns of up to BigLen elements over 2 literal words and the *)
(*            9 field kinds, named or anonymous) under every matcher kind    *)
(*            that can express it -- the "for all patterns / texts /         *)
(*            matchers" part of the quantifier;                              *)
(*  "hist":   registration histories over the small pool (6 patterns with    *)
(*            interesting match relations), 2 step types + generic, each     *)
(*            registration preceded by an optional matcher switch            *)
(*            (use_step_matcher / end of step module) or a re-registration   *)
(*            of the custom type Colour with another converter, the function *)
(*            either new or one registered before (each function wrapped by  *)
(*            0, 1 or 2 stacked decorators); an optional change of the       *)
(*            default matcher at the very beginning (environment.py).        *)
(* Histories of up to FullRegs registrations are enumerated completely;      *)
(* longer ones (up to MaxRegs) are a seeded pseudo-random sample: a successor *)
(* at level n is kept iff a hash of the choices made so far and of the seed   *)
(* (environment variable C11_SEED) is 0 modulo SampleMod[n] -- breadth-first  *)
(* search over a pruned tree, deterministic for a given seed.                 *)
(* hist is part of the state, so every state is one history; Emit prints     *)
(* every history that ends in a registration together with the predicted     *)
(* register results and the predicted result of every lookup                 *)
(* (step type x text derived from the registered patterns).                  *)
EXTENDS StepRegistry, TLC, Json, IOUtils
CONSTANTS Kinds,        \* matcher kinds of the "single" behaviours
          HistKinds,    \* matcher kinds a history may switch to
          Defaults,     \* default matchers an environment may have installed
          RegTypes,     \* step types used by registrations of histories
          SingleTypes,  \* step types used by the "single" behaviours
          FullRegs,     \* histories up to this many registrations: all of them
          MaxRegs,      \* longer ones up to this many: sampled
          SampleMod,    \* sequence: keep 1 of SampleMod[n] successors at level n > FullRegs
          SampleModEnv, \* the same for histories with a changed default matcher (all levels)
          BigLen

\* ---------------------------------------------------------------- vocabulary
Go   == <<"g","o">>
Home == <<"h","o","m","e">>
Far  == <<"f","a","r">>
Away == <<"a","w","a","y">>
Oh   == <<"o","h">>
XX   == <<"x","x">>
PosName == << <<"x">>, <<"y">>, <<"z">>, <<"u">> >>
LookTypes == <<"given", "when", "step">>

\* representatives of the token classes used to instantiate a field (variant 1 and 2)
Choice(fk, v0) ==
   LET v == IF fk = "falsy" \/ (fk = "custom" /\ v0 = 3) THEN v0 ELSE 2 - (v0 % 2) IN
   CASE fk = "any"      -> IF v = 1 THEN <<Home>> ELSE <<Far, Away>>
     [] fk = "int"      -> IF v = 1 THEN << <<"7">> >> ELSE << <<"-","1","2">> >>
     [] fk = "word"     -> IF v = 1 THEN <<Red>> ELSE << <<"G","o","_","2">> >>
     [] fk = "float"    -> IF v = 1 THEN << <<"1",".","5">> >> ELSE << <<".","2","5">> >>
     [] fk = "custom"   -> IF v = 1 THEN <<Blue>> ELSE IF v = 2 THEN <<Red>> ELSE <<Pink>>   \* pink: second converter only
     [] fk = "many"     -> IF v = 1 THEN << <<"r","e","d",",","b","l","u","e">> >> ELSE <<Green>>
     [] fk = "falsy"    -> << <<TNone, TZero, TBlank, TNo, TNil>>[v] >>
     [] OTHER           -> IF v = 1 THEN <<Red>> ELSE <<>>          \* optional, many0: present / absent
Inst(p, v) == Flat([i \in DOMAIN p |-> IF p[i].k = "lit" THEN <<p[i].w>> ELSE Choice(p[i].k, v)])
FirstLit(p) == IF \E i \in DOMAIN p : p[i].k = "lit" THEN CHOOSE i \in DOMAIN p : p[i].k = "lit" /\ \A j \in 1..(i - 1) : p[j].k # "lit" ELSE 0
WithLit(p, w) == LET i == FirstLit(p) IN IF i = 0 THEN p ELSE [p EXCEPT ![i] = Lit(w)]
\* step texts derived from a pattern: two exact instances (five if it has a field of the falsy type: one per
\* converter result), wrong case, changed literal, extra prefix, extra suffix
TextsOf(p) ==
   LET base == Inst(p, 1)
       i == FirstLit(p)
       hasFalsy == \E n \in DOMAIN p : p[n].k = "falsy"
   IN <<base, Inst(p, 2)>>
      \o (IF hasFalsy THEN <<Inst(p, 3), Inst(p, 4), Inst(p, 5)>>
          ELSE IF \E n \in DOMAIN p : p[n].k = "custom" THEN <<Inst(p, 3)>> ELSE <<>>)
      \o (IF i = 0 THEN <<>> ELSE <<Inst(WithLit(p, Cap(p[i].w)), 1), Inst(WithLit(p, XX), 1)>>)
      \o << <<Oh>> \o base, base \o <<Oh>> >>
      \* ... and the pattern's own text used as a step text ("go {x}", "go (?P<x>.+?)"): a text like any other -- it is
      \* bound only if the pattern matches it, with the arguments that match extracts
      \o (IF Renderable(p, "parse") THEN <<Split(Render(p, "parse"))>> ELSE <<>>)
      \o (IF Renderable(p, "re") THEN <<Split(Render(p, "re"))>> ELSE <<>>)

\* ---------------------------------------------------------------- pattern pools
X == <<"x">>
N == <<"n">>
C == <<"c">>
SmallPool == << <<Lit(Go), Fld("any", X)>>,                       \* go {x}
                <<Lit(Go), Fld("int", N)>>,                       \* go {n:d}
                <<Lit(Go), Lit(Home)>>,                           \* go home
                <<Fld("any", <<>>), Lit(Home)>>,                  \* {} home
                <<Lit(Go), Fld("custom", C)>>,                    \* go {c:Colour}
                <<Lit(Go), Fld("optional", C), Fld("any", <<>>)>> \* go{c:SpColour?} {}     (cfparse, re, re0 only)
             >>
ElemChoices == {[k |-> "lit", w |-> w, nm |-> FALSE] : w \in {Go, Home}}
               \cup {[k |-> fk, w |-> <<>>, nm |-> b] : fk \in FieldKinds, b \in BOOLEAN}
MkElem(c, i) == IF c.k = "lit" THEN Lit(c.w) ELSE Fld(c.k, IF c.nm THEN PosName[i] ELSE <<>>)
PatsOfLen(n) == {[i \in 1..n |-> MkElem(f[i], i)] : f \in [1..n -> ElemChoices]}
BigPool == {p \in UNION {PatsOfLen(n) : n \in 1..BigLen} : p[1].k \notin FusedKinds}

\* ---------------------------------------------------------------- the state space
VARIABLES ph, b, st, hist, nreg, nfun, h,
          fw,            \* fw[n]: how many stacked functools.wraps decorators wrap step function n (0, 1, 2)
          texts, look    \* the lookups of the history and their results, computed once per state
vars == <<ph, b, st, hist, nreg, nfun, h, fw, texts, look>>
\* the "single" behaviours are spread over NB bucket states (the successors of one state are computed by one worker)
NB == 32
ElemCode(e) == CASE e.k = "lit" -> Len(e.w) [] e.k = "any" -> 5 [] e.k = "int" -> 7 [] e.k = "word" -> 9 [] e.k = "float" -> 11
                 [] e.k = "custom" -> 13 [] e.k = "many" -> 15 [] OTHER -> 17
RECURSIVE PatCode(_,_)
PatCode(p, i) == IF i > Len(p) THEN 0 ELSE (ElemCode(p[i]) + Len(p[i].name)) * (2 * i + 1) + PatCode(p, i + 1)
Bucket(p) == PatCode(p, 1) % NB
Seed == IF "C11_SEED" \in DOMAIN IOEnv THEN atoi(IOEnv.C11_SEED) % 60000 ELSE 1
\* hash of the choices of a history (all products stay below 2^31)
KindCode(mk) == CASE mk = "parse" -> 0 [] mk = "cfparse" -> 1 [] mk = "re" -> 2 [] OTHER -> 3
TypeCode(ty) == CASE ty = "given" -> 0 [] ty = "when" -> 1 [] OTHER -> 2
PreCode(pre) == IF pre.a = "none" THEN 0 ELSE IF pre.a = "end" THEN 5 ELSE IF pre.a = "retype" THEN 6
                ELSE IF pre.a = "clear" THEN 7 ELSE 1 + KindCode(pre.kind)
Code(pre, ty, i, func) == ((PreCode(pre) * 3 + TypeCode(ty)) * 6 + (i - 1)) * 8 + (func - 1)
Mix(old, code) == LET a == (old * 131 + code * 7919 + Seed) % 65521 IN (a * 31421 + 6927) % 65521
\* pseudo-random number of stacked decorators of a new step function: 0, 1, 2, 2
WrapLevel(x) == IF x % 4 = 3 THEN 2 ELSE x % 4
Kept(level, hash) == level <= FullRegs \/ hash % SampleMod[level] = 0
\* histories that begin with a changed default matcher are sampled from the second registration on
KeptEnv(level, hash) == hash % SampleModEnv[level] = 0

RECURSIVE Dedup(_,_)
Dedup(s, acc) == IF s = <<>> THEN acc
                 ELSE Dedup(Tail(s), IF \E k \in DOMAIN acc : acc[k] = Head(s) THEN acc ELSE Append(acc, Head(s)))
IsReg(a) == a.a = "reg"
TextsFor(hs) == LET regs == SelectSeq(hs, IsReg) IN Dedup(Flat([k \in DOMAIN regs |-> TextsOf(regs[k].pat)]), <<>>)
LooksFor(s, txs) == [ti \in DOMAIN LookTypes |-> [k \in DOMAIN txs |-> Lookup(s, LookTypes[ti], txs[k])]]

Act(a, mk, ty, p, text, func, wrap, res) ==
   [a |-> a, kind |-> mk, ty |-> ty, pat |-> p, text |-> text, func |-> func, wrap |-> wrap, res |-> res]
UseAct(mk)    == Act("use", mk, "", <<>>, <<>>, 0, 0, "")
EndAct(mk)    == Act("end", mk, "", <<>>, <<>>, 0, 0, "")
SetDefAct(mk) == Act("setdef", mk, "", <<>>, <<>>, 0, 0, "")
ReTypeAct(mk) == Act("retype", mk, "", <<>>, <<>>, 0, 0, "")
ClearAct(mk)  == Act("clear", mk, "", <<>>, <<>>, 0, 0, "")
\* wrap: the step function is registered through `wrap` stacked decorators (the registry has to see through them)
RegAct(s, ty, p, func, wrap, res) == Act("reg", s.current, ty, p, Render(p, s.current), func, wrap, res)

Init == ph = "start" /\ b = 0 /\ st = InitReg /\ hist = <<>> /\ nreg = 0 /\ nfun = 0 /\ h = 0 /\ fw = <<>> /\ texts = <<>> /\ look = <<>>

ToBucket == /\ ph = "start" /\ ph' = "bucket" /\ b' \in 0..(NB - 1)
            /\ UNCHANGED <<st, hist, nreg, nfun, h, fw, texts, look>>
Single == /\ ph = "bucket"
          /\ \E p \in {q \in BigPool : Bucket(q) = b}, mk \in Kinds, ty \in SingleTypes :
                /\ Renderable(p, mk)
                /\ LET s1 == UseMatcher(st, mk)
                       r  == Register(s1, ty, p, 1)
                   IN /\ st' = r.st
                      /\ hist' = (IF mk = "parse" THEN <<>> ELSE <<UseAct(mk)>>) \o <<RegAct(s1, ty, p, 1, WrapLevel(PatCode(p, 1)), r.res)>>
                      /\ fw' = <<WrapLevel(PatCode(p, 1))>>
                      /\ texts' = TextsFor(hist')
                      /\ look' = LooksFor(st', texts')
          /\ ph' = "single" /\ nreg' = 1 /\ nfun' = 1 /\ h' = h /\ b' = b

EnvDefault == /\ ph = "start"
              /\ \E mk \in Defaults \ {"parse"} :
                    /\ st' = SetDefault(st, mk)
                    /\ hist' = <<SetDefAct(mk)>>
              /\ ph' = "hist" /\ h' = 7 /\ UNCHANGED <<b, nreg, nfun, fw, texts, look>>

\* an optional matcher switch, then one registration
\* registry.clear() (second use of one registry object): at most once per history, before the first or the second
\* registration (so also on the still empty registry); histories with a clear are thinned out (1 of ClearMod) from the second registration on
Cleared == \E k \in DOMAIN hist : hist[k].a = "clear"
ClearMod == 8
PreOptions(s) == {[a |-> "none", kind |-> s.current]}
                 \cup {[a |-> "use", kind |-> mk] : mk \in HistKinds \ {s.current}}
                 \cup (IF s.current # s.default THEN {[a |-> "end", kind |-> s.default]} ELSE {})
                 \cup (IF s.current \in ParseKinds /\ s.tver = 1 THEN {[a |-> "retype", kind |-> s.current]} ELSE {})
                 \cup (IF Cleared \/ nreg >= 2 THEN {} ELSE {[a |-> "clear", kind |-> s.current]})
ApplyPre(s, pre) == IF pre.a = "use" THEN UseMatcher(s, pre.kind) ELSE IF pre.a = "end" THEN ModuleEnd(s)
                    ELSE IF pre.a = "retype" THEN ReType(s) ELSE IF pre.a = "clear" THEN Clear(s) ELSE s
PreActs(pre) == IF pre.a = "use" THEN <<UseAct(pre.kind)>> ELSE IF pre.a = "end" THEN <<EndAct(pre.kind)>>
                ELSE IF pre.a = "retype" THEN <<ReTypeAct(pre.kind)>>
                ELSE IF pre.a = "clear" THEN <<ClearAct(pre.kind)>> ELSE <<>>
HasCustom(p) == \E n \in DOMAIN p : p[n].k = "custom"
RegisterStep ==
   /\ ph \in {"start", "hist"} /\ nreg < MaxRegs
   /\ \E pre \in PreOptions(st), ty \in RegTypes, i \in DOMAIN SmallPool, func \in 1..(nfun + 1) :
         LET s1 == ApplyPre(st, pre)
             p  == SmallPool[i]
         IN /\ IF st.default = "parse" THEN Kept(nreg + 1, Mix(h, Code(pre, ty, i, func)))
                                        ELSE KeptEnv(nreg + 1, Mix(h, Code(pre, ty, i, func)))
            /\ Renderable(p, s1.current)
            /\ ((Cleared \/ pre.a = "clear") /\ nreg >= 1) => (Mix(h, Code(pre, ty, i, func)) \div 3) % ClearMod = 0
            /\ pre.a = "retype" => HasCustom(p)        \* the type is re-registered just before a pattern that uses it
            /\ h' = Mix(h, Code(pre, ty, i, func))
            /\ fw' = IF func > nfun THEN Append(fw, WrapLevel(Mix(Mix(h, Code(pre, ty, i, func)), 17))) ELSE fw
            /\ LET r == Register(s1, ty, p, func)
               IN /\ st' = r.st
                  /\ hist' = hist \o PreActs(pre) \o <<RegAct(s1, ty, p, func, fw'[func], r.res)>>
                  /\ texts' = TextsFor(hist')
                  /\ look' = LooksFor(st', texts')
            /\ nfun' = IF func > nfun THEN func ELSE nfun
   /\ ph' = "hist" /\ nreg' = nreg + 1 /\ b' = b

Next == ToBucket \/ Single \/ EnvDefault \/ RegisterStep
Spec == Init /\ [][Next]_vars

\* ---------------------------------------------------------------- lookups of a history
RegActs == SelectSeq(hist, IsReg)
LookTexts == texts
Emitting == ph # "start" /\ hist # <<>> /\ hist[Len(hist)].a = "reg"

\* ---------------------------------------------------------------- design-level laws
\* no list holds two entries where the earlier one matches the later one's pattern text -- unless it is
\* the same function (and with it the same location)
NoAmbiguousPair ==
   \A ty \in Types : \A i, j \in DOMAIN st.steps[ty] :
      i < j => (~Matches(st.steps[ty][i], st.steps[ty][j].text) \/ st.steps[ty][i].func = st.steps[ty][j].func)
\* Lookup returns the first hit of the type list ++ the generic list (stated with quantifiers, not by the scan)
LookupFirstHit ==
   Emitting =>
   \A ti \in DOMAIN LookTypes : \A k \in DOMAIN LookTexts :
      LET ty == LookTypes[ti]
          toks == LookTexts[k]
          own == st.steps[ty]
          gen == IF ty = "step" THEN <<>> ELSE st.steps["step"]
          r == look[ti][k]
          hitsOwn == {i \in DOMAIN own : Match(own[i].pat, toks).ok}
          hitsGen == {i \in DOMAIN gen : Match(gen[i].pat, toks).ok}
      IN IF hitsOwn # {} THEN r.func = own[CHOOSE i \in hitsOwn : \A j \in hitsOwn : i <= j].func
         ELSE IF hitsGen # {} THEN r.func = gen[CHOOSE i \in hitsGen : \A j \in hitsGen : i <= j].func
         ELSE r.func = 0
\* a definition of another step type is never a candidate
TypeOrGeneric ==
   Emitting =>
   \A ti \in DOMAIN LookTypes : \A k \in DOMAIN LookTexts :
      LET r == look[ti][k] IN
      r.func # 0 => \E e \in {st.steps[LookTypes[ti]][i] : i \in DOMAIN st.steps[LookTypes[ti]]}
                             \cup {st.steps["step"][i] : i \in DOMAIN st.steps["step"]} : e.func = r.func
\* every accepted definition is found again by an exact instance of its own pattern unless an earlier
\* candidate takes it (then that one matches the instance, too)
AcceptedFindable ==
   Emitting =>
   \A k \in DOMAIN hist :
      (hist[k].a = "reg" /\ hist[k].res = "ok" /\ ~\E m \in (k + 1)..Len(hist) : hist[m].a = "clear")      \* not cleared since
         => Lookup(st, hist[k].ty, Inst(hist[k].pat, 1)).func # 0

\* Match against an independent, declarative reading: lens[i] = number of tokens element i consumes
RECURSIVE SumTo(_,_)
SumTo(lens, m) == IF m = 0 THEN 0 ELSE SumTo(lens, m - 1) + lens[m]
ValidLens(p, toks, lens) ==
   /\ \A i \in DOMAIN p :
         LET from == 1 + SumTo(lens, i - 1)
         IN CASE p[i].k = "lit"      -> lens[i] = 1 /\ from <= Len(toks) /\ toks[from] = p[i].w
              [] p[i].k = "any"      -> lens[i] >= 1 /\ from + lens[i] - 1 <= Len(toks)
              [] p[i].k \in FusedKinds -> lens[i] = 0 \/ (lens[i] = 1 /\ from <= Len(toks) /\ InClass(p[i].k, toks[from]))
              [] OTHER               -> lens[i] = 1 /\ from <= Len(toks) /\ InClass(p[i].k, toks[from])
   /\ SumTo(lens, Len(p)) = Len(toks)
\* order in which the matchers try: untyped fields shortest first, an optional field present first
Earlier(p, la, lb) == \E i \in DOMAIN p : /\ \A j \in 1..(i - 1) : la[j] = lb[j]
                                          /\ IF p[i].k \in FusedKinds THEN la[i] > lb[i] ELSE la[i] < lb[i]
LensOfMatch(p, m) == LET fs == {i \in DOMAIN p : p[i].k # "lit"}
                         idx(i) == Cardinality({j \in fs : j <= i})
                     IN [i \in DOMAIN p |-> IF p[i].k = "lit" THEN 1 ELSE m.spans[idx(i)].t - m.spans[idx(i)].f + 1]
MatchLaw(p, toks) ==
   LET m == Match(p, toks)
       all == {l \in [DOMAIN p -> 0..Len(toks)] : ValidLens(p, toks, l)}
   IN IF ~m.ok THEN all = {}
      ELSE LET lm == LensOfMatch(p, m) IN lm \in all /\ \A l \in all : l = lm \/ Earlier(p, lm, l)
MatchIsLeftmostShortest ==
   /\ ph = "single" => \A k \in DOMAIN LookTexts : MatchLaw(hist[Len(hist)].pat, LookTexts[k])
   /\ ph = "start"  => \A pa, pb \in DOMAIN SmallPool : \A k \in DOMAIN TextsOf(SmallPool[pb]) :
                           MatchLaw(SmallPool[pa], TextsOf(SmallPool[pb])[k])
\* the reported arguments delimit their original text, in order, without overlap
ArgsLaw(args, toks) ==
   LET chars == Join(toks) IN
   /\ \A n \in DOMAIN args : args[n].has_orig =>
         /\ 0 <= args[n].start /\ args[n].start <= args[n].end /\ args[n].end <= Len(chars)
         /\ SubSeq(chars, args[n].start + 1, args[n].end) = args[n].orig
   /\ \A n \in DOMAIN args : \A m \in DOMAIN args : (n < m /\ args[n].has_orig /\ args[m].has_orig) => args[n].end <= args[m].start
SpansDelimit ==
   Emitting =>
   \A ti \in DOMAIN LookTypes : \A k \in DOMAIN LookTexts :
      LET r == look[ti][k] IN r.func # 0 => ArgsLaw(r.args, LookTexts[k])
\* the concrete text of a pattern splits into as many tokens as the pattern has elements that bring a blank
RenderShape ==
   Emitting => \A k \in DOMAIN RegActs : LET a == RegActs[k] IN a.text = Render(a.pat, a.kind) /\ a.text # <<>>

\* ---------------------------------------------------------------- emission
Emit == Emitting =>
        PrintT(<<"CASE", ToJson([acts  |-> hist,
                                 texts |-> LookTexts,
                                 look  |-> look])>>)

\* ---------------------------------------------------------------- constants for the cfg files
AllKinds   == {"parse", "cfparse", "re", "re0"}
TwoKinds   == {"parse", "re"}
ThreeKinds == {"parse", "cfparse", "re"}
OnlyParse  == {"parse"}
ParseOrRe  == {"parse", "re"}
GivenWhenStep == {"given", "when", "step"}
GivenStep  == {"given", "step"}
OnlyGiven  == {"given"}
ModQuick       == <<1, 1, 600>>
ModEnvQuick    == <<1, 8, 300>>
ModThorough    == <<1, 1, 2000, 400, 500>>
ModEnvThorough == <<1, 1, 2000, 400, 500>>
=============================================================================
