------------------------------- MODULE Run_MC -------------------------------
(* Model checking of the run engine on the cases of CASE_FILE: every       *)
(* (case, configuration, fault set); emits each complete behaviour.        *)
EXTENDS Run
PR == INSTANCE Props_Run

EndRecord == [tid |-> P.tid, ci |-> ci, fi |-> fi, events |-> evlog, verdict |-> Verdict,
              status |-> [el \in 1..N |-> StatusOf(el)], hook_failed |-> hookFailed,
              step_status |-> stepst, errmarks |-> cap.errmarks, nhooks |-> rt.hookN, escaped |-> rt.escaped]
\* the finished behaviour in the row format of the property layer
SpecRow == [prog |-> prog, cfg |-> cfg, skips |-> P.skips, hookcl |-> P.hookcl, kbd |-> P.kbd, events |-> evlog, base |-> [ran |-> FALSE],
            end |-> [verdict |-> Verdict, ran |-> ~rt.escaped, status |-> [el \in 1..N |-> StatusOf(el)], hook_failed |-> hookFailed,
                     step_status |-> stepst, eff |-> [el \in 1..N |-> <<>>], errmarks |-> cap.errmarks,
                     real_out |-> cap.rout, real_err |-> cap.rerr, user_log |-> cap.ulog]]
\* every clause of every property holds on every behaviour of the design -- except the named defect families
\* (a violation is printed, not raised, so that TLC goes on to explore -- and emit -- every behaviour; the check turns
\*  each DESIGNVIOL line into a design-level violation of the owning property)
\* (interrupted-hook cases: the run verdict only, see Props_Run!ClausesKbd)
PropsHold == rt.done => \A c \in ((IF P.kbd THEN PR!ClausesKbd(SpecRow) ELSE PR!ClausesMC(SpecRow)) \ PR!KnownFamilies) :
                           PrintT(<<"DESIGNVIOL", P.tid, ci, fi, c>>)
Emit == rt.done => PrintT(<<"CASE", ToJson(EndRecord)>>)
=============================================================================
