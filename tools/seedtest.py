#!/venv/bin/python
"""Evaluate one seeded change: tools/seedtest.py <seed dir> <check id> [more check ids...]
The patch is applied to a private worktree of /repo (never to /repo itself), the demonstration and the pinned test suite
are run there, then the given checks are run with VERIF_REPO pointing at the copy.  Prints a JSON summary."""
import json
import os
import re
import subprocess
import sys
import tempfile

VERIF = os.path.dirname(os.path.dirname(os.path.abspath(__file__)))


def sh(cmd, cwd=None, env=None, timeout=3600):
    p = subprocess.run(cmd, cwd=cwd, env=env, shell=isinstance(cmd, str), stdout=subprocess.PIPE, stderr=subprocess.STDOUT, timeout=timeout)
    return p.returncode, p.stdout.decode("utf-8", "replace")


def main():
    seed = os.path.abspath(sys.argv[1])
    checks = sys.argv[2:]
    tier = os.environ.get("SEED_TIER", "quick")
    wt = tempfile.mkdtemp(prefix="mut-lead-")
    os.rmdir(wt)
    res = {"seed": seed, "checks": {}}
    sh(["git", "-C", "/repo", "worktree", "add", "--detach", wt])
    try:
        env = dict(os.environ, PYTHONPATH=wt)
        demo = [f for f in os.listdir(seed) if f.startswith("demo") and f.endswith(".py")]
        demo = os.path.join(seed, demo[0]) if demo else None

        def run_demo():
            if not demo:
                return None
            if os.path.basename(demo).startswith("demo_test"):
                rc, out = sh(["/venv/bin/python", "-m", "pytest", "-q", "-p", "no:cacheprovider", demo], cwd=wt, env=env)
            else:
                rc, out = sh(["/venv/bin/python", demo], cwd=wt, env=env)
            return rc, out[-400:]
        res["demo_clean"] = run_demo()
        rc, out = sh(["git", "-C", wt, "apply", os.path.join(seed, "patch.diff")])
        res["apply_rc"] = rc
        if rc != 0:
            res["apply_out"] = out[-400:]
            print(json.dumps(res, indent=1))
            return 1
        res["demo_mutant"] = run_demo()
        if not os.environ.get("SEED_SKIP_TESTS"):
            rc, out = sh(["/venv/bin/python", "-m", "pytest", "-q", "-p", "no:cacheprovider", "--timeout=900", "tests"], cwd=wt, env=env)
            m = re.search(r"(\d+) failed, (\d+) passed", out)
            res["pytest"] = {"failed": int(m.group(1)), "passed": int(m.group(2))} if m else out[-300:]
        for c in checks:
            scratch = wt + "-out"
            os.makedirs(scratch, exist_ok=True)
            e2 = dict(os.environ, VERIF_REPO=wt, VERIF_EVIDENCE_DIR=scratch, VERIF_REPLAY_DIR=scratch)
            rc, out = sh([os.path.join(VERIF, "check"), c, "--tier", tier], cwd=VERIF, env=e2, timeout=7200)
            lines = [l[:260] for l in out.splitlines() if l.startswith(("VIOLATION", "KNOWN-FINDING", "OK ", "FAIL ", "MACHINERY"))]
            res["checks"][c] = {"rc": rc, "lines": lines[:14]}
    finally:
        sh(["rm", "-rf", wt + "-out"])
        sh(["git", "-C", "/repo", "worktree", "remove", "--force", wt])
        sh(["git", "-C", "/repo", "worktree", "prune"])
    print(json.dumps(res, indent=1))
    return 0


if __name__ == "__main__":
    sys.exit(main())
