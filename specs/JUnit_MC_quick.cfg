INIT Init
NEXT Next
CONSTANTS
  MaxScen = 3
  FullUpTo = 2
  EmitMod = 13
INVARIANT ClausesHold
INVARIANT RepairedHolds
INVARIANT KFNarrow
INVARIANT RepairOnlyThere
INVARIANT Conservation
INVARIANT WalkIsDocOrder
INVARIANT Emit
