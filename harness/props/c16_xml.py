"""C16 (well-formedness part) -- JUnit reports are well-formed XML whatever characters occur.

(S)+(P) specs/XmlEscape.tla   (MC) specs/XmlEscape_MC.tla   judge: specs/XmlEscape_Trace.tla
TLC enumerates every character-class string of the bound per context (XML attribute value / CDATA section),
checks that the text is accepted by the XML 1.0 acceptor after the reporter's pipeline (named exception
KF_C16_attr_ctrl) and emits the class strings.  This driver concretises the class strings (representatives per
class) into feature names, scenario names, step names, assertion/exception messages and captured stdout/stderr
of tiny REAL behave runs with --junit (in-process ModelRunner, many features per run, one report document per
feature), parses every TESTS-*.xml with the independent expat parser and records per document whether it is
well-formed and whether the reporter raised.  TLC judges the rows (clause C16.wellformed).

Documents: first one document per payload in which all six sources carry it; only if that document is not
well-formed the sources are isolated (feature name / scenario name / message alone, the three CDATA-only sources
together and, if needed, alone) so that the offending source is known.

Called by harness/props/c16.py:  run_xml(chk)  /  replay_xml(chk, payload)."""
import io
import itertools
import json
import multiprocessing
import os
import random
import shutil
import sys
import tempfile

from vlib import trace

CLAUSE = "C16.wellformed"
SOURCES = ("feature_name", "scenario_name", "step_name", "message", "stdout", "stderr")
CDATA_ONLY = ("step_name", "stdout", "stderr")

# representatives per character class of specs/XmlEscape.tla; the first two are used in the quick tier
REPS = {
    "plain": [u"a", u";", u"#", u"="],          # no blanks: str.strip() of the message would make them vanish
    "lt": [u"<"], "amp": [u"&"], "quot": [u'"'], "apos": [u"'"], "rbr": [u"]"], "gt": [u">"],
    "ws": [u"\t", u"\n", u"\r"],
    "c0": [u"\x01", u"\x08", u"\x00", u"\x0e"],
    "c0ws": [u"\x0c", u"\x1f", u"\x0b", u"\x1c"],        # C0 controls that str.strip() treats as white space
    "delc1": [u"\x7f", u"\x9f", u"\x80"],
    "esc": [u"\x1b"], "lbr": [u"["],
    "digit": [u"0", u"7", u"\u0663"],        # U+0663 ARABIC-INDIC DIGIT THREE is a \d for strip_escapes
    "m": [u"m", u"A"],
    "fffe": [u"\ufffe", u"\uffff"],
    "astral": [u"\U0001F600", u"\U00010000", u"\U0001FFFE"],
    "nonascii": [u"\xe9", u"\u4e2d", u"\xdf", u"\ufffd"],
}
# class strings beyond the quick bound that exercise the interplay of strip_escapes, ]]> and the illegal-character filter
TARGETED = [
    ["rbr", "esc", "lbr", "digit", "m", "rbr", "gt"],                 # ] ESC[0m ]>  : the terminator appears after stripping
    ["rbr", "rbr", "esc", "lbr", "digit", "digit", "m", "gt"],
    ["esc", "lbr", "esc", "lbr", "digit", "m", "digit", "m"],        # one pass: ESC[0m remains after the inner one is removed
    ["rbr", "rbr", "rbr", "gt"], ["rbr", "rbr", "gt", "rbr", "rbr", "gt"], ["rbr", "rbr", "gt", "gt"],
    ["rbr", "c0", "rbr", "gt"], ["rbr", "rbr", "c0", "gt"], ["rbr", "rbr", "amp", "plain", "plain", "plain"],
    ["amp", "plain", "digit", "plain"], ["amp", "lt", "quot", "apos", "gt"],
    ["lt", "plain", "rbr", "rbr", "gt", "quot", "amp"],
    ["ws", "ws", "plain", "ws"], ["ws", "c0", "ws"], ["c0ws", "ws", "c0ws"], ["c0ws", "plain", "c0ws"], ["esc", "lbr", "digit", "m"], ["esc", "lbr", "m"],
    ["fffe", "astral", "nonascii", "delc1"], ["quot", "quot", "apos", "apos"],
]


# ------------------------------------------------------------------ real runs (executed in worker processes)
class _Parsed(object):
    def __init__(self):
        self.attrs = {}
        self.text = []


def parse_report(path):
    """independent parser: expat.  -> (wellformed, error text, _Parsed)"""
    from xml.parsers import expat
    got = _Parsed()
    p = expat.ParserCreate()

    def start(name, attrs):
        for k, v in attrs.items():
            got.attrs.setdefault((name, k), []).append(v)

    p.StartElementHandler = start
    p.CharacterDataHandler = got.text.append
    try:
        with open(path, "rb") as fh:
            p.ParseFile(fh)
        return True, "", got
    except expat.ExpatError as e:
        return False, str(e), got


def _is_xml_text(text):
    """only characters that XML 1.0 neither forbids nor discourages (section 2.2): such text must arrive unchanged"""
    def ok(c):
        cp = ord(c)
        if cp in (0x9, 0xA, 0xD, 0x85):
            return True
        if cp < 0x20 or 0x7F <= cp <= 0x9F or 0xD800 <= cp <= 0xDFFF or 0xFDD0 <= cp <= 0xFDEF:
            return False
        return (cp & 0xFFFE) != 0xFFFE
    return all(ok(c) for c in text)


def _reached(doc, got):
    """did the payload arrive where the reporter puts it (attributes compared exactly; CDATA sources: section present);
    only asked for payloads that an XML document can carry without reservation"""
    text = doc["text"]
    if not _is_xml_text(text):
        return True
    stem = "d%07d" % doc["idx"]
    ok = True
    if "feature_name" in doc["sources"] and text:
        ok = ok and got.attrs.get(("testsuite", "name"), [None])[0] == u"%s.%s" % (stem, text)
    if "scenario_name" in doc["sources"]:
        ok = ok and got.attrs.get(("testcase", "name"), [None])[0] == text
    if "message" in doc["sources"]:
        msgs = got.attrs.get(("failure", "message"), []) + got.attrs.get(("error", "message"), [])
        ok = ok and msgs[:1] == [text.strip()]
    body = u"".join(got.text)
    if "stdout" in doc["sources"] and text:
        ok = ok and u"Captured stdout:" in body
    if "stderr" in doc["sources"] and text:
        ok = ok and u"Captured stderr:" in body
    return ok


def _run_once(docs, outdir):
    """one in-process behave run with --junit over one feature per doc; returns the exception type that escaped"""
    from behave.configuration import Configuration
    from behave.runner import ModelRunner
    from behave.parser import parse_feature
    from behave.step_registry import StepRegistry
    from behave.matchers import Matcher
    from behave.formatter._registry import make_formatters
    plan = {}

    class AnyStep(Matcher):
        def check_match(self, step_text):
            return []

    def step_impl(ctx):
        doc = plan[ctx.feature.filename]
        if ctx.verif_step.keyword == u"When":
            if "stdout" in doc["sources"]:
                sys.stdout.write(doc["text"])
            if "stderr" in doc["sources"]:
                sys.stderr.write(doc["text"])
        elif "message" in doc["sources"]:
            if doc["idx"] % 2:
                raise RuntimeError(doc["text"])         # -> <error message=..>
            raise AssertionError(doc["text"])           # -> <failure message=..>

    real_out, real_err = sys.stdout, sys.stderr
    sys.stdout, sys.stderr = io.StringIO(), io.StringIO()
    try:
        config = Configuration(command_args=["--junit", "--junit-directory", outdir, "-f", "null", "--no-summary"],
                               load_config=False)
        registry = StepRegistry()
        registry.steps["step"].append(AnyStep(step_impl, u"<any step>", "step"))
        features = []
        for doc in docs:
            filename = "d%07d.feature" % doc["idx"]
            feature = parse_feature(u"Feature: F\n  Scenario: S\n    When named\n    Then verdict\n", filename=filename)
            scenario = feature.scenarios[0]
            if "feature_name" in doc["sources"]:
                feature.name = doc["text"]
            if "scenario_name" in doc["sources"]:
                scenario.name = doc["text"]
            if "step_name" in doc["sources"]:
                scenario.steps[0].name = doc["text"]
            plan[filename] = doc
            features.append(feature)
        runner = ModelRunner(config, features, step_registry=registry)

        def before_step(ctx, step):
            ctx.verif_step = step

        runner.hooks = {"before_step": before_step}
        config.base_dir = os.getcwd()
        runner.formatters = make_formatters(config, config.outputs)
        try:
            runner.run()
            return ""
        except Exception as e:              # the reporter (or anything else) raised out of the run
            return type(e).__name__
    finally:
        sys.stdout, sys.stderr = real_out, real_err


def run_docs(args):
    """worker: docs = [{idx, text, sources}] -> [{idx, written, wellformed, exc, err, reached}]"""
    docs, scratch = args
    results = []
    remaining = list(docs)
    guard = 0
    while remaining:
        guard += 1
        outdir = tempfile.mkdtemp(prefix="junit-", dir=scratch)
        try:
            exc = _run_once(remaining, outdir)
            culprit = None
            for k, doc in enumerate(remaining):
                path = os.path.join(outdir, "TESTS-d%07d.xml" % doc["idx"])
                if os.path.exists(path):
                    ok, err, got = parse_report(path)
                    results.append({"idx": doc["idx"], "written": True, "wellformed": ok, "exc": "", "err": err,
                                    "reached": _reached(doc, got) if ok else True})
                elif exc and culprit is None:
                    culprit = k         # the run stopped in the reporter call of this feature
                    results.append({"idx": doc["idx"], "written": False, "wellformed": False, "exc": exc, "err": "", "reached": True})
                    break
                else:
                    results.append({"idx": doc["idx"], "written": False, "wellformed": False, "exc": "", "err": "no report file", "reached": True})
            remaining = remaining[culprit + 1:] if culprit is not None else []
            if exc and culprit is None:
                # raised after all reports were written (e.g. in reporter.end()): blame nobody in particular, keep going
                remaining = []
        finally:
            shutil.rmtree(outdir, ignore_errors=True)
        if guard > len(docs) + 2:
            break
    return results


def run_all(docs, scratch, procs):
    """deterministic: the result of a doc does not depend on the partition"""
    if not docs:
        return {}
    size = max(200, min(2500, (len(docs) + procs - 1) // procs))
    parts = [(docs[k:k + size], scratch) for k in range(0, len(docs), size)]
    if procs <= 1 or len(parts) == 1:
        outs = [run_docs(p) for p in parts]
    else:
        ctx = multiprocessing.get_context("fork")
        with ctx.Pool(min(procs, len(parts))) as pool:
            outs = pool.map(run_docs, parts, chunksize=1)
    return {r["idx"]: r for out in outs for r in out}


# ------------------------------------------------------------------ payloads
def concretise(classes, reps_index):
    return u"".join(REPS[c][reps_index[k] % len(REPS[c])] for k, c in enumerate(classes))


def payloads_for(classes, rnd, nreps, combos_upto, picks):
    """concrete texts for one class string: all representative combinations for short strings, `picks` seeded ones else"""
    if not classes:
        return [u""]
    counts = [min(nreps, len(REPS[c])) for c in classes]
    if len(classes) <= combos_upto:
        return sorted({concretise(classes, ix) for ix in itertools.product(*[range(n) for n in counts])})
    out = [concretise(classes, [0] * len(classes))] if picks > 1 else []
    while len(out) < picks:
        out.append(concretise(classes, [rnd.randrange(n) for n in counts]))
    return sorted(set(out))


def observe(payloads, procs):
    """payloads: [(classes, text)] -> rows (one per (document, source) as described in the module docstring)"""
    scratch = tempfile.mkdtemp(prefix="verif-c16-")
    rows, meta = [], {}
    stats = {"documents": 0, "not_reached": 0, "rounds": 0}
    try:
        counter = [0]

        def mk(pi, sources):
            counter[0] += 1
            return {"idx": counter[0], "pi": pi, "text": payloads[pi][1], "sources": list(sources)}

        def emit(doc, res, srcs):
            for src in srcs:
                rid = len(rows) + 1
                rows.append({"id": rid, "src": src, "s": list(payloads[doc["pi"]][0]), "wellformed": bool(res["wellformed"]),
                             "written": bool(res["written"]), "exc": res["exc"]})
                meta[rid] = {"text": doc["text"], "doc_sources": doc["sources"], "err": res["err"]}
            if not res["reached"]:
                stats["not_reached"] += 1

        def bad(res):
            return not res["wellformed"] or res["exc"]

        # round 1: all six sources in one document
        docs1 = [mk(pi, SOURCES) for pi in range(len(payloads))]
        res1 = run_all(docs1, scratch, procs)
        stats["documents"] += len(docs1); stats["rounds"] += 1
        docs2, parent = [], {}
        for d in docs1:
            if bad(res1[d["idx"]]):
                for srcs in (("feature_name",), ("scenario_name",), ("message",), CDATA_ONLY):
                    nd = mk(d["pi"], srcs)
                    parent[nd["idx"]] = d
                    docs2.append(nd)
            else:
                emit(d, res1[d["idx"]], SOURCES)
        # round 2: isolate
        res2 = run_all(docs2, scratch, procs)
        stats["documents"] += len(docs2); stats["rounds"] += 1 if docs2 else 0
        docs3 = []
        explained = {}
        for d in docs2:
            r = res2[d["idx"]]
            p = parent[d["idx"]]
            if len(d["sources"]) == 1 or not bad(r):
                emit(d, r, d["sources"])
                explained[p["idx"]] = explained.get(p["idx"], False) or bool(bad(r))
            else:
                for src in d["sources"]:
                    nd = mk(d["pi"], (src,))
                    parent[nd["idx"]] = p
                    docs3.append(nd)
        # round 3: the CDATA-only sources alone
        res3 = run_all(docs3, scratch, procs)
        stats["documents"] += len(docs3); stats["rounds"] += 1 if docs3 else 0
        for d in docs3:
            r = res3[d["idx"]]
            emit(d, r, d["sources"])
            p = parent[d["idx"]]
            explained[p["idx"]] = explained.get(p["idx"], False) or bool(bad(r))
        # a document that was bad although no isolated source is: judged as it is
        for d in docs1:
            if bad(res1[d["idx"]]) and not explained.get(d["idx"], False):
                emit(d, res1[d["idx"]], ("group",))
    finally:
        shutil.rmtree(scratch, ignore_errors=True)
    return rows, meta, stats


# ------------------------------------------------------------------ judge + report
CLS_ORDER = ["plain", "lt", "amp", "quot", "apos", "rbr", "gt", "ws", "c0", "c0ws", "delc1", "esc", "lbr", "digit", "m",
             "fffe", "astral", "nonascii"]      # = ClsOrder of XmlEscape_Trace.tla (bit k of the mask)


def judge(chk, rows, chunks=6):
    """TLC judges; returns ({id: [VERDICT..]}, {id: [INFO..]}); a lost VERDICT line is a machinery failure"""
    from vlib.tlc import TlcError
    first = len(chk.tlc_runs)
    got = trace.judge_rows(chk, "XmlEscape_Trace", rows, chunks=chunks, min_chunk=8000)
    infos = {}
    for module, cfg, r in chk.tlc_runs[first:]:
        done = r.by_tag("DONE")
        if not done or len(done[-1]) < 4 or done[-1][3] != len(r.by_tag("VERDICT")):
            raise TlcError("XmlEscape_Trace: %s verdicts counted by TLC, %d lines parsed" % (done[-1:], len(r.by_tag("VERDICT"))))
        for t in r.by_tag("INFO"):
            infos.setdefault(t[1], []).append(t)
    return got, infos


def sig_of(v):
    mask = v[5] if len(v) > 5 and isinstance(v[5], int) else 0
    classes = "+".join(c for k, c in enumerate(CLS_ORDER) if (mask >> k) & 1)
    return "%s|ctx=%s|class=%s|family=%s" % (v[2], v[4] if len(v) > 4 else "none", classes, v[3] if len(v) > 3 else "")


def report(chk, rows, meta, verdicts):
    byid = {r["id"]: r for r in rows}
    for i, vs in sorted(verdicts.items()):
        for v in vs:
            row, m = byid[i], meta[i]
            detail = "%s = %s (classes %s; document sources %s): report %s%s%s" % (
                row["src"], json.dumps(m["text"]), "".join("[%s]" % c for c in row["s"]), ",".join(m["doc_sources"]),
                "well-formed" if row["wellformed"] else "NOT well-formed",
                (" -- expat: " + m["err"]) if m["err"] else "", (" -- raised " + row["exc"]) if row["exc"] else "")
            chk.violation(v[2], sig_of(v), detail,
                          {"part": "xml", "src": row["src"], "classes": row["s"], "codepoints": [ord(ch) for ch in m["text"]],
                           "doc_sources": m["doc_sources"]})


def run_xml(chk, workers=16, procs=None):
    procs = procs or min(8, workers)
    rnd = random.Random(chk.seed)
    cfg = "XmlEscape_MC_quick.cfg" if chk.quick() else "XmlEscape_MC_thorough.cfg"
    r = chk.tlc("XmlEscape_MC", cfg, timeout=1500, workers=workers, coverage=False)
    for name in r.violated:
        chk.violation("C16.design." + name, "design:%s" % name, "TLC: invariant %s violated in XmlEscape_MC (%s)" % (name, cfg))
    cases = [json.loads(t[1]) for t in r.by_tag("CASE")]
    design = {}
    strings = set()
    for c in cases:
        strings.add(tuple(c["s"]))
        for ctx in ("attr", "cdata"):
            if not c[ctx]:
                key = "%s:%s" % (ctx, "attr_ctrl" if (ctx == "attr" and c["kf"]) else "other")
                design[key] = design.get(key, 0) + 1
    strings = sorted(strings, key=lambda s: (len(s), s))
    # real runs: every class string up to length 3; of the longer ones a seeded sample per length
    full_upto = 3
    chosen = [s for s in strings if len(s) <= full_upto]
    sampled = 0
    for n in sorted({len(s) for s in strings if len(s) > full_upto}):
        pool = [s for s in strings if len(s) == n]
        take = (300 if n == 4 else 0) if chk.quick() else (30000 if n == 4 else 6000)
        pick = sorted(rnd.sample(pool, min(take, len(pool))))
        sampled += len(pick)
        chosen += pick
    have = set(chosen)
    chosen += [tuple(t) for t in TARGETED if tuple(t) not in have]
    payloads = []
    seen = set()
    for s in chosen:
        for text in payloads_for(list(s), rnd, nreps=2 if chk.quick() else 4, combos_upto=2,
                                 picks=1 if (chk.quick() or len(s) >= 4) else 2):
            if (s, text) not in seen:
                seen.add((s, text))
                payloads.append((s, text))
    rows, meta, stats = observe(payloads, procs)
    verdicts, infos = judge(chk, rows)
    report(chk, rows, meta, verdicts)
    chk.impl_traces += stats["documents"]
    chk.evaluations += len(rows)
    diverges = sum(1 for ts in infos.values() for t in ts if t[2] == "diverges")
    chk.divergences += diverges
    if stats["not_reached"]:
        chk.note("C16 xml: %d well-formed documents in which the payload was not found where expected" % stats["not_reached"])
    chk.extra["xml_class_strings_from_tlc"] = len(strings)
    chk.extra["xml_class_strings_run"] = len(chosen)
    chk.extra["xml_payloads"] = len(payloads)
    chk.extra["xml_documents_parsed"] = stats["documents"]
    chk.extra["xml_rows"] = len(rows)
    chk.extra["xml_rows_not_wellformed"] = sum(1 for row in rows if not row["wellformed"])
    chk.extra["xml_payload_not_reached"] = stats["not_reached"]
    chk.extra["xml_design_level_known_families"] = design
    chk.extra["xml_spec_vs_code_divergences"] = diverges
    chk.extra["distinct_nontrivial"] = chk.extra.get("distinct_nontrivial", 0) + len({p[1] for p in payloads if len(p[1]) > 1})
    for row in rows[:1] + [row for row in rows if not row["wellformed"]][:1] + rows[-1:]:
        chk.sample({"source": row["src"], "classes": row["s"], "text": meta[row["id"]]["text"], "wellformed": row["wellformed"]}, limit=6)
    rule = ("xml: every class string up to length %d over 18 character classes per context (TLC, exhaustive%s); real runs: "
            "every class string up to length %d + %d seeded longer ones + %d targeted ones, representatives per class, in six "
            "sources of text of a real run with --junit; every report parsed by expat" % (
                4 if chk.quick() else 5, "" if chk.quick() else "; length 6 over the 10 classes with a role, length 7 over the ANSI/CDATA classes",
                full_upto, sampled, len(TARGETED)))
    chk.rule = (chk.rule + " || " if chk.rule else "") + rule
    chk.assumptions += [
        "C16 xml: names are assigned on the parsed model objects (feature.name, scenario.name, step.name): the Gherkin parser "
        "cannot carry line breaks or leading/trailing blanks inside a name; messages and output come from the step function",
        "C16 xml: surrogate code points are out of scope (the statement says surrogates-free)",
        "C16 xml: well-formedness is what the expat parser accepts (XML 1.0)"]
    return rows


def replay_xml(chk, payload):
    rp = payload["replay"]
    text = u"".join(chr(c) for c in rp["codepoints"])
    sources = rp.get("doc_sources") or [rp["src"]]
    scratch = tempfile.mkdtemp(prefix="verif-c16-")
    try:
        res = run_docs(([{"idx": 1, "text": text, "sources": list(sources)}], scratch))[0]
    finally:
        shutil.rmtree(scratch, ignore_errors=True)
    rows = [{"id": 1, "src": rp["src"], "s": list(rp["classes"]), "wellformed": bool(res["wellformed"]),
             "written": bool(res["written"]), "exc": res["exc"]}]
    meta = {1: {"text": text, "doc_sources": list(sources), "err": res["err"]}}
    verdicts, infos = judge(chk, rows, chunks=1)
    report(chk, rows, meta, verdicts)
    chk.impl_traces += 1
    chk.sample({"replayed": rows[0], "text": text, "expat": res["err"]})
