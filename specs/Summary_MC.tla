---------------------------- MODULE Summary_MC ----------------------------
(* Design level of C14: one state per small abstract model-after-the-run   *)
(* (a tree shape with an arbitrary final status on every feature, rule,    *)
(* scenario and step -- the summary has to conserve whatever the statuses  *)
(* are).  The consumer automata of Summary.tla are run on it and the       *)
(* clauses of C14 are evaluated on what they print.                        *)
(* start -> bucket (shape, status of element 1, status of the first        *)
(* scenario) -> model: the buckets spread the models over the workers.     *)
EXTENDS Summary, Json
CONSTANTS ShapeIds,        \* which shapes of Shapes are explored
          EmitMod          \* every model whose hash is 0 modulo EmitMod is emitted as a CASE

\* ---------------------------------------------------------------- status domains (what a real run can produce per kind)
ContFull == {"passed", "failed", "error", "hook_error", "skipped", "untested"}
ScenFull == ContFull
StepFull == {"passed", "failed", "error", "hook_error", "skipped", "untested", "undefined", "pending", "pending_warn",
             "untested_undefined", "untested_pending"}
ContSmall == {"passed", "failed", "hook_error", "untested"}
ScenSmall == {"passed", "failed", "error", "hook_error", "skipped"}
StepSmall == {"passed", "failed", "undefined", "untested", "pending_warn", "skipped"}
ContTiny == {"passed", "untested"}
ContMicro == {"passed", "untested"}
ScenMicro == {"passed", "failed"}
StepMicro == {"passed", "undefined"}
ScenTiny == {"passed", "failed", "hook_error"}
StepTiny == {"passed", "error", "untested_undefined"}
Cont(d) == CASE d = "full" -> ContFull [] d = "small" -> ContSmall [] d = "tiny" -> ContTiny [] OTHER -> ContMicro
Scen(d) == CASE d = "full" -> ScenFull [] d = "small" -> ScenSmall [] d = "tiny" -> ScenTiny [] OTHER -> ScenMicro
Step(d) == CASE d = "full" -> StepFull [] d = "small" -> StepSmall [] d = "tiny" -> StepTiny [] OTHER -> StepMicro

\* ---------------------------------------------------------------- tree shapes: k = kind, c = children, n = number of steps
F(c) == [k |-> "feature", c |-> c, n |-> 0]
R(c) == [k |-> "rule", c |-> c, n |-> 0]
O(c) == [k |-> "outline", c |-> c, n |-> 0]
S(n) == [k |-> "scenario", c |-> <<>>, n |-> n]
Shapes == <<
  [d |-> "full",  t |-> <<F(<<2>>), S(2)>>],                                                  \*  1  F[S2]
  [d |-> "full",  t |-> <<F(<<2>>), R(<<3>>), S(1)>>],                                        \*  2  F[R[S1]]
  [d |-> "small", t |-> <<F(<<2, 3>>), S(1), S(1)>>],                                         \*  3  F[S1 S1]
  [d |-> "small", t |-> <<F(<<2>>), O(<<3, 4>>), S(1), S(1)>>],                               \*  4  F[O[S1 S1]]
  [d |-> "tiny",  t |-> <<F(<<2>>), S(1), F(<<4>>), R(<<5>>), O(<<6>>), S(1)>>],              \*  5  F[S1] F[R[O[S1]]]
  [d |-> "tiny",  t |-> <<F(<<2, 3>>), R(<<4>>), S(1), S(2)>>],                               \*  6  F[R[S2] S1] (rule first)
  \* thorough only
  [d |-> "full",  t |-> <<F(<<2, 3>>), S(1), S(1)>>],                                         \*  7  F[S1 S1] all statuses
  [d |-> "full",  t |-> <<F(<<2>>), O(<<3, 4>>), S(1), S(1)>>],                               \*  8  F[O[S1 S1]] all statuses
  [d |-> "small", t |-> <<F(<<2>>), S(1), F(<<4>>), R(<<5>>), O(<<6>>), S(1)>>],              \*  9
  [d |-> "small", t |-> <<F(<<2, 3>>), R(<<4>>), S(1), S(2)>>],                               \* 10
  [d |-> "tiny",  t |-> <<F(<<2, 4>>), R(<<3>>), S(1), R(<<5>>), O(<<6, 7>>), S(1), S(1)>>],  \* 11 two rules, outline in a rule
  [d |-> "micro", t |-> <<F(<<2, 3>>), S(2), S(2), F(<<5>>), O(<<6, 7>>), S(2), S(2)>>],      \* 12 2 features x 4 scenarios x 2 steps
  [d |-> "tiny",  t |-> <<F(<<2>>), S(2), F(<<4>>), S(2)>>],                                     \* 13 2 features
  [d |-> "small", t |-> <<F(<<2, 3, 4>>), S(1), O(<<>>), O(<<5>>), S(1)>>]                    \* 14 an outline without a single row
>>

\* ---------------------------------------------------------------- all status assignments of a shape
RECURSIVE Prod(_, _)
Prod(doms, i) == IF i > Len(doms) THEN {<<>>} ELSE {<<x>> \o r : x \in doms[i], r \in Prod(doms, i + 1)}
SeqsOf(D, n) == Prod([i \in 1..n |-> D], 1)
FirstScen(t) == CHOOSE e \in DOMAIN t : t[e].k = "scenario" /\ \A x \in DOMAIN t : t[x].k = "scenario" => e <= x
StatDom(sh, e) == CASE sh.t[e].k \in {"feature", "rule"} -> Cont(sh.d)
                    [] sh.t[e].k = "scenario" -> Scen(sh.d)
                    [] OTHER -> {"untested"}            \* the status of an outline is not counted anywhere
ModelsOf(si, fs, ss) ==
   LET sh == Shapes[si]  t == sh.t  n == Len(t)  s1 == FirstScen(t)
       sd == [e \in 1..n |-> IF e = 1 THEN {fs} ELSE IF e = s1 THEN {ss} ELSE StatDom(sh, e)]
       pd == [e \in 1..n |-> IF t[e].k = "scenario" THEN SeqsOf(Step(sh.d), t[e].n) ELSE {<<>>}]
   IN {[sh |-> si, status |-> a, steps |-> p] : a \in Prod(sd, 1), p \in Prod(pd, 1)}
Buckets == {[sh |-> si, fs |-> fs, ss |-> ss] : si \in ShapeIds, fs \in ContFull, ss \in ScenFull}
GoodBucket(b) == b.fs \in Cont(Shapes[b.sh].d) /\ b.ss \in Scen(Shapes[b.sh].d)

VARIABLES ph, b, x
vars == <<ph, b, x>>
Nil == [sh |-> 0, status |-> <<>>, steps |-> <<>>]
Init == ph = "start" /\ b = [sh |-> 0, fs |-> "", ss |-> ""] /\ x = Nil
Next == \/ ph = "start" /\ ph' = "bucket" /\ b' \in {bb \in Buckets : GoodBucket(bb)} /\ x' = x
        \/ ph = "bucket" /\ ph' = "model" /\ b' = b /\ x' \in ModelsOf(b.sh, b.fs, b.ss)
Spec == Init /\ [][Next]_vars

\* the model in the form of Summary.tla
M == LET t == Shapes[x.sh].t IN
     [kind |-> [e \in DOMAIN t |-> t[e].k], children |-> [e \in DOMAIN t |-> t[e].c], status |-> x.status, steps |-> x.steps]
OnModel(P) == ph = "model" => P
Violations == Clauses(M, SpecObs(M))

\* all clauses hold on everything the judged consumers print (no exceptions)
ClausesHold == OnModel(Violations = {})
\* no reachable status crashes the v1 tables; the collector equals the census (kept separately so that they are named)
V1NeverCrashes == OnModel(~V1Run(M).crashed)
CollectorIsCensus == OnModel(LET st == ColRun(M)  Z == [s \in StatusUniverse(M) |-> 0] IN
                                /\ st.feat = CensusFold(M, Z, "feature", 1) /\ st.rule = CensusFold(M, Z, "rule", 1)
                                /\ st.scen = CensusFold(M, Z, "scenario", 1) /\ st.step = CensusFold(M, Z, "step", 1))
\* the fast census used by the clauses is the census by definition (checked on the first shapes only: it is slow)
CensusFoldIsCensus == OnModel(x.sh <= 2 => LET Z == [s \in StatusUniverse(M) |-> 0] IN
                                \A k \in KindSet : CensusFold(M, Z, k, 1) = [s \in StatusUniverse(M) |-> CensusOf(M, k, s)])
\* a sample of the explored models for the driver (rebuilt on real model objects)
AllStat == <<"passed", "failed", "error", "hook_error", "skipped", "untested", "undefined", "pending", "pending_warn",
             "untested_undefined", "untested_pending">>
SIx(s) == CHOOSE i \in DOMAIN AllStat : AllStat[i] = s
Hash == LET RECURSIVE h(_, _)
            h(s, i) == IF i > Len(s) THEN 0 ELSE (31 * h(s, i + 1) + SIx(s[i]) + i) % 9973
            RECURSIVE g(_, _)
            g(ss, i) == IF i > Len(ss) THEN 0 ELSE (17 * g(ss, i + 1) + h(ss[i], 1) + 3 * i) % 9973
        IN (h(x.status, 1) + 7 * g(x.steps, 1) + x.sh) % 9973
Emit == OnModel(Hash % EmitMod = 0 =>
           PrintT(<<"CASE", ToJson([sh |-> x.sh, kind |-> M.kind, children |-> M.children, status |-> x.status, steps |-> x.steps])>>))

QuickShapes == {1, 2, 4, 5, 6, 14}
ThoroughShapes == 1..14
=============================================================================
