---------------------------- MODULE Outline_MC ----------------------------
(* Design-level check of C06 and emission of abstract outlines / histories *)
(* for the driver.  One "case" state per outline of the bounded family     *)
(* (spread over NB bucket states so that the TLC workers share them); from *)
(* the history bases the table API state machine Access | AddRow | AddCol  *)
(* is unfolded to op sequences of length HistLen (HistLen + 1 if Deep).    *)
EXTENDS Outline, TLC, Json
CONSTANTS FullN,      \* outlines with <= FullN example rows in total: every template
          RotN,       \* ... with FullN < rows <= RotN: the template rotates with the case (3 rows: value codes Codes3)
          Rot4,       \* TRUE: the 2x2 shape (4 rows) with the reduced value pool {x, other column's name}
          HistN,      \* history bases have <= HistN rows
          HistLen,    \* length of the op sequences
          Deep,       \* TRUE: op sequences of length HistLen + 1 from the bases with <= 1 row
          AngleCodes, \* value codes used with the angle-bracket template T6
          NB

\* ---------------------------------------------------------------- templates (placeholders at every position class)
PA == Ph("a")
PB == Ph("b")
PC == Ph("c")
PU == Ph("u")
NL == "\n"
Step(n, d, th, tr) == [name |-> n, doc |-> d, th |-> th, tr |-> tr]
None == <<>>
T1 == [name  |-> <<"N ", PA, " and ", PB, " end">>,
       tags  |-> << <<"t", PA>>, <<"plain">>, <<PB, "-", PA>> >>,
       steps |-> << Step(<<"s ", PA, PB>>, <<"d ", PA, NL, PB, " ", PB, " b">>, None, None),
                    Step(<<"w ", PB>>, None, << <<"h", PA>>, <<"k">> >>, << << <<PB>>, <<"c", PA, PA>> >> >>),
                    Step(<<"no placeholder a b">>, None, None, None),
                    \* placeholders in the doc-string / the table only, none in the step's own name
                    Step(<<"letter">>, <<"Dear ", PA, NL, PB, ".">>, None, None),
                    Step(<<"table of b a">>, None, << <<PB>>, <<"k", PA>> >>, << << <<PA>>, <<"v">> >>, << <<"b">>, <<PB, PA>> >> >>) >>]
SwapTok(tok) == IF tok = PA THEN PB ELSE IF tok = PB THEN PA ELSE tok
SwapText(t) == [i \in DOMAIN t |-> SwapTok(t[i])]
SwapTexts(ts) == [i \in DOMAIN ts |-> SwapText(ts[i])]
SwapStep(s) == [name |-> SwapText(s.name), doc |-> SwapText(s.doc), th |-> SwapTexts(s.th),
                tr |-> [r \in DOMAIN s.tr |-> SwapTexts(s.tr[r])]]
T2 == [name |-> SwapText(T1.name), tags |-> SwapTexts(T1.tags), steps |-> [s \in DOMAIN T1.steps |-> SwapStep(T1.steps[s])]]
\* no placeholder anywhere, no outline tag; the column names occur as plain text
T3 == [name  |-> <<"Plain a b name">>,
       tags  |-> <<>>,
       steps |-> << Step(<<"s a">>, <<"doc b", NL, "a">>, << <<"a">>, <<"b">> >>, << << <<"x">>, <<>> >>, << <<"b">>, <<"a b">> >> >>) >>]
\* a third column <c> (unknown until AddCol) and a placeholder <u> that never is a column
\* ... and behave's pseudo-columns in the name, the tags and the step names
PEN == Ph("examples.name")
PEI == Ph("examples.index")
PRX == Ph("row.index")
PRI == Ph("row.id")
T4 == [name  |-> <<"N ", PC, PA, " ", PU, " ", PRI, "/", PEN>>,
       tags  |-> << <<"t", PC>>, <<"x", PA>>, <<"r", PRI>>, <<"i", PEI, "-", PRX>>, <<"n.", PEN>> >>,
       steps |-> << Step(<<"s ", PC, " ", PU, PB, " ", PEN, " ", PRX>>, <<PC, NL, PU, " ", PA>>, << <<PC>>, <<PA, PU>> >>, << << <<PA, PC>>, <<"c">> >> >>),
                    Step(<<"e ", PEI, ".", PRI>>, None, None, None) >>]
\* an outline tag without placeholder whose text contains a character that Tag.make_name drops
T5 == [name  |-> <<"O ", PA>>,
       tags  |-> << <<"p", "/", "q">>, <<"w", PA>> >>,
       steps |-> << Step(<<"s ", PB>>, None, None, None) >>]
\* stray angle brackets in literal text: a ">" before the first placeholder, a "<" after the last one, in the
\* name, a tag, step names, a doc-string, a table heading and table cells; a step with a lone ">" only
GT == ">"
LT == "<"
T6 == [name  |-> <<"a -", GT, " ", PA, " and x ", GT, " 0 and ", PB, " ", LT, " 5">>,
       tags  |-> << <<"limit-", GT, PA>>, <<"t", PB>> >>,
       steps |-> << Step(<<"presses -", GT, " ", PB>>, <<GT, " ", PA, " said", NL, "if 1 ", LT, " 2 then ", PB>>, None, None),
                    Step(<<"Balance ", GT, " 0 for ", PA>>, None, << <<"k ", GT, " ", PA>>, <<"v">> >>,
                         << << <<"-", GT, PB>>, <<PA, " ", LT, " 5">> >> >>),
                    Step(<<"plain 3 ", GT, " 2">>, None, None, None) >>]
Templates == <<T1, T2, T3, T4, T5, T6>>
FullTpls == 1..5
RotTpls  == 4                        \* rotation over T1..T4

\* ---------------------------------------------------------------- cell values, block decoration, schemas
\* TLC's state queue does not preserve non-ASCII characters (a state written to disk comes back with U+00E9 as
\* U+FFE9), so inside this module the unicode cell value is the ASCII token UC; the driver decodes it to U+00E9
\* when it reads the emitted cases (the judge Outline_Trace sees the real character).
UC == "~e"
Other(c) == IF c = "a" THEN "b" ELSE "a"
\* empty, x, unicode, the other column's name as plain text; and two values with angle brackets whose bracketed
\* part is NOT a column name: List<str> and <none>  (a cell such as a<b>c, whose bracketed part is a column name, stays
\* outside: the code's sequential replace substitutes it again -- see the ASSUMEs below)
\* ... and two values with backslashes (and "$", "&"): C:\temp\new.txt and \d+$&  -- plain characters for the
\* demanded substitution, whatever a regex replacement template or an unescape would make of them
BS == "\\"
Vals(c) == << <<>>, <<"x">>, <<UC>>, <<Other(c)>>, <<"List", "<", "str", ">">>, <<"<", "none", ">">>,
              <<"C:", BS, "t", "emp", BS, "n", "ew.txt">>, <<BS, "d", "+", "$", "&">> >>
NV == 8                              \* code = NV * (index of a's value) + (index of b's value), indices from 0
AllCodes == {NV * i + j : i \in 0..3, j \in 0..3}
Codes3   == {NV * i + j : i \in 0..3, j \in 1..3}          \* 3-row outlines: b is never empty (budget)
Codes4   == {NV * i + j : i \in {1, 3}, j \in {1, 3}}        \* values from {x, other column's name}
AngleCodesQ == {NV * 4 + 1, NV * 1 + 5, NV * 5 + 4, NV * 1 + 1, NV * 6 + 7, NV * 7 + 1, NV * 6 + 1}   \* (List<str>, x) (x, <none>) (<none>, List<str>) (x, x)
AngleCodesT == {NV * i + j : i \in {1, 4, 5}, j \in {1, 4, 5}} \cup {NV * 6 + 7, NV * 7 + 1, NV * 1 + 6, NV * 7 + 7, NV * 6 + 1}
CellsFor(ord, code) == LET va == Vals("a")[(code \div NV) + 1]  vb == Vals("b")[(code % NV) + 1]
                       IN IF ord = 1 THEN <<va, vb>> ELSE <<vb, va>>
ColsFor(ord) == IF ord = 1 THEN <<"a", "b">> ELSE <<"b", "a">>
\* names of examples blocks: empty, plain, plain with blanks / unicode / a column name, and two with <column>
\* placeholders of their own (rendered per row; visible through {examples.name} and <examples.name>)
BlockNames == << <<>>, <<"E1">>, <<"B", " ", UC, " ", "a">>, <<"U.", PA>>, <<"like", " ", PB, "-", PA>> >>
BlockTags  == << <<>>, << <<"e1">> >>, << <<"e1">>, <<"e.2">> >> >>
Schemas == << <<"{name}", " -- @", "{row.id}", " ", "{examples.name}">>,        \* behave's default
              <<"{name}">>,
              <<"{name}", " [", "{examples.index}", "/", "{row.index}", "]">>,
              <<"{examples.name}", ":", "{row.id}", " ", "{name}">>,
              <<"{row.index}", ".", "{name}", ".", "{examples.index}">>,
              <<"R", "{row.id}", " ", UC>> >>

\* ---------------------------------------------------------------- cases: [t, ords, rows]  (rows[b][r] = value code)
RECURSIVE SumSeq(_)
SumSeq(s) == IF s = <<>> THEN 0 ELSE Head(s) + SumSeq(Tail(s))
RECURSIVE WSum(_,_)
WSum(s, w) == IF s = <<>> THEN 0 ELSE w * (Head(s) + 1) + WSum(Tail(s), w + 2)
CodeSum(c) == IF Len(c.rows) = 0 THEN 0
              ELSE IF Len(c.rows) = 1 THEN WSum(c.rows[1], 1) ELSE WSum(c.rows[1], 1) + WSum(c.rows[2], 7)
Hash0(c) == 3 * SumSeq(c.ords) + CodeSum(c) + 5 * Len(c.rows)
Hash(c) == c.t + Hash0(c)
NRows(c) == IF Len(c.rows) = 0 THEN 0 ELSE IF Len(c.rows) = 1 THEN Len(c.rows[1]) ELSE Len(c.rows[1]) + Len(c.rows[2])

RowSeqs(n, codes) == IF n = 0 THEN {<<>>} ELSE [1..n -> codes]
CasesOf(sh, tpls, codes) ==
   IF Len(sh) = 0 THEN {[t |-> t, ords |-> <<>>, rows |-> <<>>] : t \in tpls}
   ELSE IF Len(sh) = 1
        THEN {[t |-> t, ords |-> <<o1>>, rows |-> <<r1>>] : t \in tpls, o1 \in 1..2, r1 \in RowSeqs(sh[1], codes)}
        ELSE {[t |-> t, ords |-> <<o1, o2>>, rows |-> <<r1, r2>>] :
                 t \in tpls, o1 \in 1..2, o2 \in 1..2, r1 \in RowSeqs(sh[1], codes), r2 \in RowSeqs(sh[2], codes)}
Shapes == {<<>>} \cup {<<n>> : n \in 0..2} \cup {<<n, m>> : n \in 0..2, m \in 0..2}
Rotate(c) == [c EXCEPT !.t = 1 + (Hash0(c) % RotTpls)]
AllCases ==
   UNION {CasesOf(sh, FullTpls, AllCodes) : sh \in {s \in Shapes : SumSeq(s) <= FullN}}
   \cup {Rotate(c) : c \in UNION {CasesOf(sh, {0}, IF SumSeq(sh) >= 3 THEN Codes3 ELSE AllCodes) :
                                   sh \in {s \in Shapes : SumSeq(s) > FullN /\ SumSeq(s) <= RotN}}}
   \cup (IF Rot4 THEN {Rotate(c) : c \in CasesOf(<<2, 2>>, {0}, Codes4)} ELSE {})
   \* the template with stray angle brackets x cells with angle brackets, <= 2 rows
   \cup UNION {CasesOf(sh, {6}, AngleCodes) : sh \in {s \in Shapes : SumSeq(s) <= 2}}
Bucket(c) == Hash(c) % NB

MkBlock(c, bi) ==
   LET h == Hash(c)
   IN [name |-> BlockNames[((h + bi) % 5) + 1], tags |-> BlockTags[(((h \div 3) + 2 * bi) % 3) + 1], cols |-> ColsFor(c.ords[bi]),
       hline |-> 0,
       \* comment / blank lines between the rows of the examples table rotate with the case
       rows |-> [r \in DOMAIN c.rows[bi] |-> [cells |-> CellsFor(c.ords[bi], c.rows[bi][r]), line |-> 0,
                                              gap |-> (h + 2 * bi + r) % 3]]]
Mk(c) == LET T == Templates[c.t]
         IN WithLines([name |-> T.name, tags |-> T.tags, steps |-> T.steps,
                       blocks |-> [bi \in DOMAIN c.rows |-> MkBlock(c, bi)]])
SchemaNo(c) == ((Hash(c) \div 2) % Len(Schemas)) + 1
SchemaOf(c) == Schemas[SchemaNo(c)]

\* history bases: templates 1 and 4, one value code, few rows
HistCode == NV * 1 + 2                 \* a = x, b = UC
HistLenOf(c) == IF Deep /\ NRows(c) <= 1 THEN HistLen + 1 ELSE HistLen
IsHistBase(c) == /\ c.t \in {1, 4} /\ NRows(c) <= HistN
                 /\ \A b \in DOMAIN c.rows : \A r \in DOMAIN c.rows[b] : c.rows[b][r] = HistCode

\* ---------------------------------------------------------------- operations offered in a state
\* small ops [op, b, v] name the choices; FullOp turns one into the op record of Outline.tla relative to the
\* current outline
\* form: how the driver passes the new row to Table.add_row(): "list" | "tuple" | "row" (a behave.model.Row object);
\* irrelevant for the model: every add_row appends the row and marks the table modified
Op(op, b, cells, line, name, dflt, form) ==
   [op |-> op, b |-> b, cells |-> cells, line |-> line, name |-> name, dflt |-> dflt, form |-> form]
AccessOp == Op("access", 0, <<>>, 0, "", <<>>, "")
NewRowCells(blk, v) == [j \in DOMAIN blk.cols |->
                          IF j = 1 THEN (IF v = 1 THEN <<"y">> ELSE IF v = 2 THEN <<"p", " ", "q">> ELSE <<"r">>)
                          ELSE IF j = 2 THEN (IF v = 1 THEN <<>> ELSE IF v = 2 THEN <<UC>> ELSE <<"x">>) ELSE <<"z">>]
\* v = 1: a list and an explicit line; v = 2: a list or (rotating) a tuple, no line; v = 3: a Row object, no line
RowForm(o, p) == IF p.v = 3 THEN "row" ELSE IF p.v = 2 /\ (p.b + Len(o.blocks[p.b].rows)) % 2 = 1 THEN "tuple" ELSE "list"
ColVariant(n, v) == IF v = 1 THEN << [r \in 1..n |-> <<"C", Dig(r)>>], <<"d">> >>      \* a value for every row
                    ELSE IF v = 2 THEN << <<>>, <<"d">> >>                             \* values=None, default_value
                    ELSE << << <<"K">> >>, <<>> >>                                     \* first row only, "" for the rest
FullOp(o, p) ==
   IF p.op = "access" THEN AccessOp
   ELSE IF p.op = "addrow"
   THEN Op("addrow", p.b, NewRowCells(o.blocks[p.b], p.v),
           IF p.v = 1 THEN 70 + 10 * p.b + Len(o.blocks[p.b].rows) ELSE 0, "", <<>>, RowForm(o, p))
   ELSE LET cv == ColVariant(Len(o.blocks[p.b].rows), p.v) IN Op("addcol", p.b, cv[1], 0, "c", cv[2], "")
Small(op, bi, v) == [op |-> op, b |-> bi, v |-> v]
\* (a row given as a tuple keeps tuple cells, Table.add_column() cannot extend it: no AddCol on such a table)
\* rowvs: the AddRow variants offered (the long op sequences of Deep leave the explicit-line variant out)
OpsFor(o, done, rowvs) ==
             {Small("access", 0, 0)}
             \cup {Small("addrow", bi, v) : bi \in DOMAIN o.blocks, v \in rowvs}
             \cup UNION {{Small("addcol", bi, v) :
                            v \in (IF Len(o.blocks[bi].rows) = 0 THEN {2} ELSE IF Len(o.blocks[bi].rows) = 1 THEN {1, 2} ELSE {1, 2, 3})} :
                         bi \in {y \in DOMAIN o.blocks : /\ "c" \notin Range(o.blocks[y].cols)
                                                         /\ \A k \in DOMAIN done : ~(done[k].form = "tuple" /\ done[k].b = y)}}

\* ---------------------------------------------------------------- state space
\* hs = [ops (full op records), st (Outline.tla: cur, cache, mod), preds (the cache after every access)]
VARIABLES ph, b, cs, hs
vars == <<ph, b, cs, hs>>
NoCase == [t |-> 0, ords |-> <<>>, rows |-> <<>>]
NoOutline == [name |-> <<>>, tags |-> <<>>, steps |-> <<>>, blocks |-> <<>>]
NoHist == [ops |-> <<>>, st |-> InitSt(NoOutline), preds |-> <<>>]
Cases == AllCases
S == SchemaOf(cs)
O == hs.st.cur                      \* in a case state: the outline; in a hist state: the outline after the modifications
hops == hs.ops
Init == ph = "start" /\ b = 0 /\ cs = NoCase /\ hs = NoHist
Next == \/ ph = "start"  /\ ph' = "bucket" /\ b' \in 0..(NB - 1) /\ cs' = cs /\ hs' = hs
        \/ ph = "bucket" /\ ph' = "case" /\ b' = b /\ cs' \in {x \in Cases : Bucket(x) = b}
                         /\ hs' = [ops |-> <<>>, st |-> InitSt(Mk(cs')), preds |-> <<>>]
        \/ /\ ph \in {"case", "hist"} /\ IsHistBase(cs) /\ Len(hs.ops) < HistLenOf(cs)
           /\ \E p \in OpsFor(hs.st.cur, hs.ops, IF HistLenOf(cs) > HistLen THEN {2, 3} ELSE {1, 2, 3}) :
                 LET op  == FullOp(hs.st.cur, p)
                     st2 == Apply(hs.st, op, S)
                 IN hs' = [ops |-> Append(hs.ops, op), st |-> st2,
                           preds |-> IF op.op = "access" THEN Append(hs.preds, StrScens(st2.cache)) ELSE hs.preds]
           /\ ph' = "hist" /\ b' = b /\ cs' = cs
Spec == Init /\ [][Next]_vars

OnCase(P) == ph = "case" => P

\* ---------------------------------------------------------------- design-level laws
StepTexts(s) == {s.name, s.doc} \cup Range(s.th) \cup UNION {Range(s.tr[r]) : r \in DOMAIN s.tr}
AllTexts(o) == {o.name} \cup Range(o.tags) \cup UNION {StepTexts(o.steps[s]) : s \in DOMAIN o.steps}
               \cup {o.blocks[bi].name : bi \in DOMAIN o.blocks}
\* the code's sequential replace equals the simultaneous substitution for every text and every row of the domain
SeqEqSim == OnCase(LET o == O IN
                   \A bi \in DOMAIN o.blocks : \A ri \in DOMAIN o.blocks[bi].rows : \A x \in AllTexts(o) :
                      LET blk == o.blocks[bi]  cells == blk.rows[ri].cells
                          xcells == XCells(cells, SubstSim(blk.name, blk.cols, cells), bi, ri)
                      IN /\ SeqRepl(x, blk.cols, cells, 1) = SubstSim(x, blk.cols, cells)
                         /\ SeqRepl(x, XCols(blk.cols), xcells, 1) = SubstSim(x, XCols(blk.cols), xcells))
\* ... it needs the domain: a cell that is itself a placeholder is substituted again by the code
ASSUME SeqRepl(<<PA>>, <<"a", "b">>, << <<PB>>, <<"x">> >>, 1) = <<"x">>
ASSUME SubstSim(<<PA>>, <<"a", "b">>, << <<PB>>, <<"x">> >>) = <<PB>>
\* ... and the order of the columns does not matter in the domain
ASSUME SeqRepl(<<PA, PB>>, <<"b", "a">>, << <<"a">>, <<"b">> >>, 1) = <<"b", "a">>

\* the code's expansion is the demanded one (tags with an unknown placeholder are left open; literal tag text
\* that Tag.make_name alters is outside this law and is judged on the real code by C06.unchanged_text)
RECURSIVE TagsAgree(_,_)
TagsAgree(code, def) ==
   IF def = <<>> THEN code = <<>>
   ELSE IF HasPh(Head(def)) THEN TagsAgree(code, Tail(def)) \/ (code # <<>> /\ TagsAgree(Tail(code), Tail(def)))
   ELSE code # <<>> /\ Head(code) = Head(def) /\ TagsAgree(Tail(code), Tail(def))
TagSafeTpl(o) == \A i \in DOMAIN o.tags : TagSafe(o.tags[i])
CodeEqDef == OnCase(LET o == O IN TagSafeTpl(o) =>
                LET C == ExpandCode(o, S)  D == ExpandDef(o, S)  P == Pairs(o)
                    \* a tag that uses <examples.name> is made a valid tag by the code (blank -> _): compared for
                    \* tag-safe examples names only
                    \* ... and for tag-safe cells and tag-safe literal text of parametrized tags (Tag.make_name)
                    TagsComparable(k) == LET blk == o.blocks[P[k][1]]
                                         IN /\ \/ \A i \in DOMAIN o.tags : PEN \notin Range(o.tags[i])
                                               \/ TagSafe(SubstSim(blk.name, blk.cols, blk.rows[P[k][2]].cells))
                                            /\ \A c \in DOMAIN blk.cols : TagSafe(blk.rows[P[k][2]].cells[c])
                                            /\ \A i \in DOMAIN o.tags : HasAngles(o.tags[i]) => TagSafe(o.tags[i])
                IN /\ Len(C) = Len(D)
                   /\ \A k \in DOMAIN D : /\ C[k].name = D[k].name /\ C[k].line = D[k].line /\ C[k].steps = D[k].steps
                                          /\ TagsComparable(k) => TagsAgree(C[k].tags, D[k].tags))
ASSUME MakeName(<<"p", "/", "q">>) = <<"p", "q">>        \* the alteration of literal tag text, as the code does it
\* one scenario per row, block then row order, at the row's line
CountOrder == OnCase(LET o == O  C == ExpandCode(o, S)  P == Pairs(o)
                     IN /\ Len(C) = SumSeq([bi \in DOMAIN o.blocks |-> Len(o.blocks[bi].rows)])
                        /\ \A k \in DOMAIN C : C[k].line = o.blocks[P[k][1]].rows[P[k][2]].line
                        /\ \A k \in DOMAIN C : \A j \in DOMAIN C : k < j =>
                              /\ C[k].line < C[j].line
                              /\ (P[k][1] < P[j][1] \/ (P[k][1] = P[j][1] /\ P[k][2] < P[j][2])))
\* changing the cells of one row changes no other row's scenario
AltCells == << <<"Q">>, <<PB>> >>
Isolation == OnCase(LET o == O  sc == S  C == ExpandCode(o, sc)  P == Pairs(o)
                    IN \A k \in DOMAIN P : \A j \in DOMAIN P \ {k} :
                          ScenCode([o EXCEPT !.blocks[P[j][1]].rows[P[j][2]].cells = AltCells], sc, P[k][1], P[k][2]) = C[k])
\* the cache: whenever no table is marked modified the cached scenarios are the expansion of the current tables,
\* and they always are right after an access
CacheCoherent == ph \in {"case", "hist"} =>
                    /\ (~AnyMod(hs.st) /\ hops # <<>>) => hs.st.cache = ExpandCode(O, S)
                    /\ (hops # <<>> /\ hops[Len(hops)].op = "access") => hs.st.cache = ExpandCode(O, S)
\* a modification through the table API always marks the table
ModMarks == ph = "hist" => (hops[Len(hops)].op # "access" => hs.st.mod[hops[Len(hops)].b])
\* right after an access the expansion has one scenario per row of the current (possibly modified) tables
Rebuilt == (ph = "hist" /\ hops[Len(hops)].op = "access") =>
              Len(hs.st.cache) = TotalRows(O)

\* ---------------------------------------------------------------- emission
EmitCase == OnCase(LET o == O IN
                   PrintT(<<"CASE", ToJson([kind |-> "main", t |-> cs.t, sno |-> SchemaNo(cs), o |-> o, schema |-> S,
                                            ops |-> <<AccessOp>>,
                                            preds |-> <<StrScens(ExpandCode(o, S))>>])>>))
EmitHist == (ph = "hist" /\ Len(hops) = HistLenOf(cs) /\ hops[Len(hops)].op = "access") =>
               PrintT(<<"CASE", ToJson([kind |-> "hist", t |-> cs.t, sno |-> SchemaNo(cs), o |-> Mk(cs), schema |-> S,
                                        ops |-> hs.ops, preds |-> hs.preds])>>)
=============================================================================
