INIT Init
NEXT Next
CONSTANTS
  Kinds <- AllKinds
  HistKinds <- AllKinds
  Defaults <- ParseOrRe
  RegTypes <- GivenWhenStep
  SingleTypes <- GivenStep
  BfsRegs = 2
  SimRegs = 5
  BigLen = 3
INVARIANT NoAmbiguousPair
INVARIANT LookupFirstHit
INVARIANT TypeOrGeneric
INVARIANT AcceptedFindable
INVARIANT MatchIsLeftmostShortest
INVARIANT SpansDelimit
INVARIANT RenderShape
INVARIANT Emit
