INIT Init
NEXT Next
CONSTANTS
  MaxGroups = 3
  MaxAlts = 3
  Names <- NamesTwo
  Sorted = TRUE
  Universe <- UnivSmall
  V2Depth = 0
  V2Operands <- OpsPlain
  NB = 1
  Styles <- TwoStyles
  EmitMod = 16
  HistLen = 0
INVARIANT ReadBack
INVARIANT V1Algorithm
INVARIANT AutoOnV1
INVARIANT AutoOnMixed
INVARIANT AutoOnV2
INVARIANT HistoryIndependent
INVARIANT Witness
INVARIANT Emit
