---------------------------- MODULE XmlEscape_MC ----------------------------
(* Design-level check of C16 (well-formedness) and emission of class strings *)
(* for concretisation in real behave runs: one state per (context, class     *)
(* string).  A tier is an alphabet with a length range; the strings of a     *)
(* tier are spread over one bucket state per (tier, context, prefix of two)  *)
(* so that the TLC workers share them.                                        *)
EXTENDS XmlEscape, TLC, Json
CONSTANTS Tiers,        \* sequence of [alpha |-> set of classes, lo |-> min length, hi |-> max length, ctxs |-> contexts, emit |-> ctx]
          EmitMaxLen,   \* every string up to this length is emitted; of the longer ones a hash sample
          SampleMod

SeqsOf(A, a, b) == UNION {[1..n -> A] : n \in a..b}
MinOf(a, b) == IF a < b THEN a ELSE b

VARIABLES ph, k, ctx, s
vars == <<ph, k, ctx, s>>
Init == ph = "start" /\ k = 1 /\ ctx = "attr" /\ s = <<>>
Prefix == /\ ph = "start" /\ ph' = "pre"
          /\ k' \in DOMAIN Tiers /\ ctx' \in Tiers[k'].ctxs
          /\ s' \in SeqsOf(Tiers[k'].alpha, 0, MinOf(2, Tiers[k'].hi))
Extend == /\ ph = "pre" /\ Len(s) = 2 /\ Tiers[k].hi > 2
          /\ ph' = "case" /\ k' = k /\ ctx' = ctx
          /\ \E r \in SeqsOf(Tiers[k].alpha, 1, Tiers[k].hi - 2) : s' = s \o r
Next == Prefix \/ Extend
Spec == Init /\ [][Next]_vars

IsCase == ph # "start" /\ Len(s) >= Tiers[k].lo
OnCase(P) == IsCase => P
Out == Pipeline(ctx, s)
OK  == Accept(ctx, Out)

\* whatever characters occur, the text is well-formed where it is written -- except for the named family
WellFormedAfterPipeline == OnCase(OK \/ KF_C16_attr_ctrl(ctx, s))
\* the same without the exception (cfg *_strict: TLC finds the deviation by itself)
WellFormedStrict == OnCase(OK)
\* the exception is as narrow as the deviation: it never excuses a text that is well-formed, nor another context
KFNarrow == OnCase(KF_C16_attr_ctrl(ctx, s) => ~OK /\ ctx = "attr")

ClsSeq == <<"plain", "lt", "amp", "quot", "apos", "rbr", "gt", "ws", "c0", "c0ws", "delc1", "esc", "lbr", "digit", "m",
            "fffe", "astral", "nonascii">>
Idx(c) == CHOOSE i \in DOMAIN ClsSeq : ClsSeq[i] = c
RECURSIVE H(_,_,_)
H(q, i, acc) == IF i > Len(q) THEN acc ELSE H(q, i + 1, (acc * 31 + Idx(q[i])) % 65521)
ShouldEmit == Len(s) <= EmitMaxLen \/ H(s, 1, 7) % SampleMod = 0
\* one line per class string (printed in the state of the tier's first context) with the result for both contexts
Emit == OnCase(ctx = Tiers[k].emit /\ ShouldEmit =>
                  PrintT(<<"CASE", ToJson([s |-> s, attr |-> WellFormed("attr", s), cdata |-> WellFormed("cdata", s),
                                           kf |-> KF_C16_attr_ctrl("attr", s)])>>))

\* ---- tiers
Interaction == {"plain", "amp", "quot", "rbr", "gt", "c0", "esc", "lbr", "digit", "m"}     \* everything with a role in a pipeline
AnsiCdata   == {"plain", "rbr", "gt", "esc", "lbr", "digit", "m"}                          \* strip_escapes x ]]>
\* the contexts the JUnit reporter writes payload text into (it never writes payload text as plain element text:
\* ElementTree._escape_cdata would leave C0 controls raw there, too)
CtxJunit == {"attr", "cdata"}
TiersQuick    == << [alpha |-> Classes, lo |-> 0, hi |-> 4, ctxs |-> CtxJunit, emit |-> "attr"] >>
TiersThorough == << [alpha |-> Classes, lo |-> 0, hi |-> 5, ctxs |-> CtxJunit, emit |-> "attr"],
                    [alpha |-> Interaction, lo |-> 6, hi |-> 6, ctxs |-> CtxJunit, emit |-> "attr"],
                    [alpha |-> AnsiCdata, lo |-> 7, hi |-> 7, ctxs |-> {"cdata"}, emit |-> "cdata"] >>
\* plain element text (not a context of the reporter): TLC shows that C0 controls would stay raw there as well
TiersText     == << [alpha |-> Classes, lo |-> 0, hi |-> 3, ctxs |-> {"text"}, emit |-> "text"] >>
=============================================================================
