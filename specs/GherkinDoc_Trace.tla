-------------------------- MODULE GherkinDoc_Trace --------------------------
(* Judge of C04 on rows recorded from the real parser.  A row:              *)
(*   id, entry (feature|file|rule|scenario|steps|tags), lines (the abstract *)
(*   lines as rendered: with the indentation and keyword alias ids chosen   *)
(*   by the driver), ok (a model was returned), exc, elems (the projection  *)
(*   of the returned model to the flat element table), tags (tags entry).   *)
(* The reference model of a well-formed document is the one the grammar     *)
(* writes down; GherkinDoc_MC proves it equal to what the line machine      *)
(* computes from `lines` through the FEATURE entry point, so the judge      *)
(* takes Run("feature", ..).  Fragments for the other entry points are      *)
(* embedded into a minimal feature (Feature: / Scenario:) and the embedding *)
(* elements are dropped: what a faithful parse_rule / parse_scenario /      *)
(* parse_steps has to return.  parse_tags: the tags of all tag lines with    *)
(* their 1-based lines.                                                     *)
EXTENDS GherkinParser, TLC, Json, IOUtils
Rows == ndJsonDeserialize(IOEnv.TRACE_FILE)

VARIABLE i
Init == i = 1
R == Rows[i]

Sub0(n, d) == IF n >= d THEN n - d ELSE 0
\* drop the first `nd` elements of an embedding, shift lines by `sh`
Unembed(elems, nd, sh) ==
   [j \in 1..(Len(elems) - nd) |->
      LET e == elems[j + nd] IN
      [e EXCEPT !.line = Sub0(e.line, sh), !.par = Sub0(e.par, nd), !.docline = IF e.hasdoc THEN Sub0(e.docline, sh) ELSE 0,
                !.tags = [q \in DOMAIN e.tags |-> [t |-> e.tags[q].t, l |-> Sub0(e.tags[q].l, sh)]],
                !.rows = [q \in DOMAIN e.rows |-> [l |-> Sub0(e.rows[q].l, sh), cells |-> e.rows[q].cells]]]]
FLine == Ln("F", "", <<>>)
SLine == Ln("S", "", <<>>)
\* [ok, elems]: ok = the input is a well-formed document / fragment for this entry point
Expected(r) ==
   CASE r.entry \in {"feature", "file"} ->
            LET p == Run("feature", r.lines) IN [ok |-> p.res.k = "live" /\ p.feature # 0, elems |-> p.elems]
     [] r.entry = "steps" ->
            LET p == Run("feature", <<FLine, SLine>> \o r.lines) IN
            [ok |-> p.res.k = "live", elems |-> Unembed(p.elems, 1, 2)]
     [] r.entry \in {"scenario", "rule"} ->
            LET p == Run("feature", <<FLine>> \o r.lines) IN
            [ok |-> p.res.k = "live" /\ Len(p.elems) >= 2 /\ p.elems[2].k = (IF r.entry = "rule" THEN "rule" ELSE "scenario"),
             elems |-> Unembed(p.elems, 1, 1)]
     [] OTHER -> [ok |-> FALSE, elems |-> <<>>]

\* ---------------------------------------------------------------- comparison, field group by field group
\* each returns the first offending element index (0 = none)
First(S) == IF S = {} THEN 0 ELSE CHOOSE j \in S : \A k \in S : j <= k
StructDiff(a, b) == IF Len(a) # Len(b) THEN 1 + (IF Len(a) < Len(b) THEN Len(a) ELSE Len(b))
                    ELSE First({j \in DOMAIN a : a[j].k # b[j].k \/ a[j].par # b[j].par})
SameShape(x, y) == Len(x.tags) = Len(y.tags) /\ x.hasdoc = y.hasdoc /\ x.hastab = y.hastab /\ Len(x.rows) = Len(y.rows)
                   /\ Len(x.doc) = Len(y.doc) /\ Len(x.desc) = Len(y.desc)
                   /\ \A q \in DOMAIN x.rows : Len(x.rows[q].cells) = Len(y.rows[q].cells)
\* text: names, keyword aliases, tag names, description lines, doc-string lines, table cells (and their numbers)
TextField(x, y) ==
   IF x.name # y.name THEN "name"
   ELSE IF x.kw # y.kw THEN "keyword"
   ELSE IF Len(x.tags) # Len(y.tags) \/ \E q \in DOMAIN x.tags : x.tags[q].t # y.tags[q].t THEN "tags"
   ELSE IF x.desc # y.desc THEN "description"
   ELSE IF x.hasdoc # y.hasdoc \/ x.doc # y.doc THEN "docstring"
   ELSE IF x.hastab # y.hastab \/ Len(x.rows) # Len(y.rows) \/ \E q \in DOMAIN x.rows : x.rows[q].cells # y.rows[q].cells THEN "table"
   ELSE ""
LineField(x, y) ==
   IF x.line # y.line THEN "line"
   ELSE IF ~SameShape(x, y) THEN ""
   ELSE IF \E q \in DOMAIN x.tags : x.tags[q].l # y.tags[q].l THEN "tagline"
   ELSE IF x.hasdoc /\ x.docline # y.docline THEN "docline"
   ELSE IF \E q \in DOMAIN x.rows : x.rows[q].l # y.rows[q].l THEN "rowline"
   ELSE ""
TextDiff(a, b) == First({j \in DOMAIN a : TextField(a[j], b[j]) # ""})
LineDiff(a, b) == First({j \in DOMAIN a : LineField(a[j], b[j]) # ""})
TypeDiff(a, b) == First({j \in DOMAIN a : a[j].st # b[j].st})
LangDiff(a, b) == First({j \in DOMAIN a : a[j].lg # b[j].lg})

\* expected result of a parse_tags input: every tag of every tag line, in order, with its 1-based line
RECURSIVE AllTags(_,_)
AllTags(lines, j) == IF j > Len(lines) THEN <<>>
                     ELSE (IF lines[j].c = "Tags" THEN TagSeq(lines[j].ps, j) ELSE <<>>) \o AllTags(lines, j + 1)
TagsWellFormed(lines) == \A j \in DOMAIN lines : lines[j].c \in {"Tags", "_", "#"} /\ (lines[j].c = "Tags" => lines[j].a # "bad")

V(c, j, f) == PrintT(<<"VERDICT", R.id, c, j, f>>)
JudgeTags ==
   IF ~TagsWellFormed(R.lines) THEN PrintT(<<"SKIP", R.id>>)
   ELSE IF ~R.ok THEN V("C04.structure", 0, "exception")
   ELSE LET want == AllTags(R.lines, 1)
            got  == R.tags
        IN IF Len(want) # Len(got) \/ \E q \in DOMAIN want : want[q].t # got[q].t THEN V("C04.text", 0, "tags")
           ELSE IF \E q \in DOMAIN want : want[q].l # got[q].l THEN V("C04.lines", 0, "tagline")
           ELSE TRUE
JudgeModel ==
   LET e == Expected(R) IN
   IF ~e.ok THEN PrintT(<<"SKIP", R.id>>)
   ELSE IF ~R.ok THEN V("C04.structure", 0, "exception")
   ELSE LET a == e.elems
            b == R.elems
            s == StructDiff(a, b)
        IN IF s # 0 THEN V("C04.structure", s, "shape")
           ELSE /\ LET t == TypeDiff(a, b) IN IF t # 0 THEN V("C04.step_type", t, "step_type") ELSE TRUE
                /\ LET t == TextDiff(a, b) IN IF t # 0 THEN V("C04.text", t, TextField(a[t], b[t])) ELSE TRUE
                /\ LET t == LineDiff(a, b) IN IF t # 0 THEN V("C04.lines", t, LineField(a[t], b[t])) ELSE TRUE
                /\ LET t == LangDiff(a, b) IN IF t # 0 THEN V("C04.lang", t, "language") ELSE TRUE

\* informational: does the machine (which also models the known defects of the secondary entry points) predict
\* exactly what was observed through this entry point?
PredAgrees ==
   LET p == Run(IF R.entry = "file" THEN "feature" ELSE R.entry, R.lines) IN
   IF p.res.k = "crash" THEN ~R.ok /\ R.exc = p.res.why
   ELSE IF p.res.k = "err" THEN ~R.ok /\ R.exc = "ParserError"
   ELSE R.ok /\ (IF R.entry = "tags" THEN p.tags = R.tags ELSE p.elems = R.elems)

Next == /\ i <= Len(Rows)
        /\ IF R.entry = "tags" THEN JudgeTags ELSE JudgeModel
        /\ IF PredAgrees THEN TRUE ELSE PrintT(<<"DIV", R.id>>)
        /\ i' = i + 1
Spec == Init /\ [][Next]_i
Done == PrintT(<<"DONE", Len(Rows), TLCGet("stats").diameter>>)
=============================================================================
