---------------------------- MODULE GherkinDoc_MC ----------------------------
(* C04, design level: every document of the grammar GherkinDoc within the   *)
(* bounds is one TLC state (the builder state after its last element).      *)
(* Invariants: Faithful (the line machine returns exactly the model the     *)
(* grammar wrote down: structure, order, tags, step types, table cells,     *)
(* doc-string lines, 1-based lines) and Neutral (removing the injected      *)
(* blank/comment lines changes nothing but line numbers).  Emit prints each *)
(* document (lines + the ranges usable with the other entry points).        *)
EXTENDS GherkinDoc, TLC, Json
CONSTANTS MaxRules, MaxScen, MaxEx, MaxSteps, MaxStmts, MaxStepsTot, MaxLines, MaxElems,
          LayoutsF, Layouts, Hows, Descs, StepKws, Args, ExVariants, Gaps

VARIABLE g
Init == g = G0

Room(x) == Len(x.lines) <= MaxLines /\ Len(x.exp) <= MaxElems
Next ==
   \/ /\ g.cur = "none"
      /\ \E lay \in LayoutsF, how \in Hows, nd \in Descs : g' = AddFeature(g, lay, how, nd)
   \/ /\ CanBackground(g)
      /\ \E how \in Hows, nd \in Descs : g' = AddBackground(g, how, nd) /\ Room(g')
   \/ /\ CanRule(g) /\ g.nRules < MaxRules
      /\ \E lay \in Layouts, how \in Hows, nd \in Descs : g' = AddRule(g, lay, how, nd) /\ Room(g')
   \/ /\ CanScenario(g) /\ g.nScen < MaxScen /\ g.nStmts < MaxStmts
      /\ \E kind \in {"scenario", "outline"}, lay \in Layouts, how \in Hows, nd \in Descs :
            g' = AddScenario(g, kind, lay, how, nd) /\ Room(g')
   \/ /\ g.nSteps < MaxSteps /\ g.nStepsTot < MaxStepsTot
      /\ \E kw \in StepKws, arg \in Args, how \in Hows :
            CanStep(g, kw) /\ g' = AddStep(g, kw, arg, how) /\ Room(g')
   \/ /\ CanExamples(g) /\ g.nEx < MaxEx
      /\ \E lay \in Layouts, how \in Hows, v \in ExVariants, gap \in Gaps :
            g' = AddExamples(g, lay, how, v, gap) /\ Room(g')
Spec == Init /\ [][Next]_g

\* for -simulate: one random choice of the parameters per element kind (large documents, all menus)
R1(S) == IF S = {} THEN {} ELSE {RandomElement(S)}
NextSim ==
   \/ /\ g.cur = "none"
      /\ \E lay \in R1(LayoutsF), how \in R1(Hows), nd \in R1(Descs) : g' = AddFeature(g, lay, how, nd)
   \/ /\ CanBackground(g)
      /\ \E how \in R1(Hows), nd \in R1(Descs) : g' = AddBackground(g, how, nd) /\ Room(g')
   \/ /\ CanRule(g) /\ g.nRules < MaxRules
      /\ \E lay \in R1(Layouts), how \in R1(Hows), nd \in R1(Descs) : g' = AddRule(g, lay, how, nd) /\ Room(g')
   \/ /\ CanScenario(g) /\ g.nScen < MaxScen /\ g.nStmts < MaxStmts
      /\ \E kind \in R1({"scenario", "outline"}), lay \in R1(Layouts), how \in R1(Hows), nd \in R1(Descs) :
            g' = AddScenario(g, kind, lay, how, nd) /\ Room(g')
   \/ /\ g.nSteps < MaxSteps /\ g.nStepsTot < MaxStepsTot
      /\ \E kw \in R1({k \in StepKws : CanStep(g, k)}), arg \in R1(Args), how \in R1(Hows) :
            g' = AddStep(g, kw, arg, how) /\ Room(g')
   \/ /\ g.nSteps < MaxSteps /\ g.nStepsTot < MaxStepsTot
      /\ \E kw \in R1({k \in StepKws : CanStep(g, k)}), arg \in R1(Args), how \in R1(Hows) :
            g' = AddStep(g, kw, arg, how) /\ Room(g')
   \/ /\ CanExamples(g) /\ g.nEx < MaxEx
      /\ \E lay \in R1(Layouts), how \in R1(Hows), v \in R1(ExVariants), gap \in R1(Gaps) :
            g' = AddExamples(g, lay, how, v, gap) /\ Room(g')

IsDoc == g.cur # "none"
D == Finish(g, "none")                       \* the document that ends here
Parsed == Run("feature", D.lines)
Faithful == IsDoc => (Parsed.res.k = "live" /\ Parsed.elems = D.exp)
ParsedPlain == Run("feature", Plain(D))
Renumber(n) == NewNo(D, n)
Neutral == IsDoc => (ParsedPlain.res.k = "live" /\ ParsedPlain.elems = MapLines(D.exp, Renumber))
Emit == IsDoc => PrintT(<<"DOC", ToJson([lines |-> D.lines, marks |-> D.marks, inj |-> D.inj, n |-> Len(D.exp)])>>)

\* ---------------------------------------------------------------- menus
AllKws == {"given", "when", "then", "and", "but", "star"}
NoArg == <<"none", "", "">>
ArgsNone  == {NoArg}
ArgsTab   == {NoArg, <<"table", "2x2", "none">>}
ArgsSmall == {NoArg, <<"doc", "dq", "one">>, <<"table", "2x2", "none">>}
ArgsMid   == {NoArg, <<"doc", "dq", "rich">>, <<"doc", "sq", "one">>, <<"doc", "dq", "empty">>, <<"table", "2x2", "none">>, <<"table", "1x3", "comment">>}
ArgsFull  == ArgsMid \cup {<<"doc", "sq", "rich">>, <<"doc", "sq", "ind">>, <<"table", "1x1", "none">>, <<"table", "2x3", "blank">>}
=============================================================================
