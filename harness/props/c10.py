"""C10 -- file-location and name selection pick exactly the addressed scenarios.

(S) specs/Select.tla   (P)+(MC) specs/Select_MC.tla   judge: specs/Select_Trace.tla

TLC enumerates every document layout of the bound (feature, rules, scenarios, outlines with several examples tables,
rows, @setup/@teardown, gap profiles), proves on EVERY line 0..last+3 that the code's bisect over the sorted line list
finds the definitional nearest entity, the union law, "line 0 / bare => all", the exemption of @setup/@teardown and the
grouping law of parse_features, and emits each layout, list-file case and --name case.

The driver renders each layout to real feature files in a scratch directory, calls the real
collect_feature_locations() / parse_features() for every line number from 0 to beyond the last line, for multisets of
locations, for location lists spread over several files and for "@listfile" arguments, records should_skip (and, for a
sample, the final status after a real ModelRunner run) of every scenario, and for name selection builds a real
Configuration with --name options.  TLC judges the recorded rows against the DEFINITIONAL semantics.
Python renders, runs and records; it never decides."""
import io
import json
import multiprocessing
import os
import random
import shutil
import sys
import tempfile

from vlib import trace

WORKERS = int(os.environ.get("VERIF_C10_WORKERS", "4"))     # TLC workers = driver processes = judge chunks
# "alphabeta": continues with a letter where a pattern "alpha " / " beta" has a blank; "gamma  beta": inner double blank
NAMES = ["alpha", "beta", "alpha beta", "alphabeta", "beta alpha", "gamma  beta", "gamma"]
# near misses of the exempting tags: substrings and superstrings of setup / teardown; they exempt nothing
NEAR = ["up", "set", "s", "tear", "down", "setups", "setupteardown"]
CLAUSES = ("C10.line", "C10.union", "C10.all", "C10.exempt", "C10.others_skipped", "C10.files", "C10.listfile", "C10.name")


# --------------------------------------------------------------------------- rendering (abstract layout -> text)
def render(items, rnd, shift=0, same=False):
    """items: the rendering contract of Select.tla (k, pre, body, tag, nt).  Returns (text, entity start lines,
    number of lines).  Filler lines are comments, blank lines or extra tag lines; bodies are descriptions,
    backgrounds and steps.  The choice among equivalent fillers is made by rnd.  same: every scenario and every
    outline gets the SAME keyword and name (rows of same-named outlines get identical generated names), so that
    selection can only go by location, never by name."""
    out = []
    ent_lines = []
    tab = 0
    row = 0
    xn = [0]

    def fill(n, allow_tag, tagline, ind):
        lines = []
        for _ in range(n):
            c = rnd.randrange(3 if allow_tag else 2)
            if c == 0:
                lines.append(rnd.choice(["", "   "]))
            elif c == 1:
                lines.append(ind + "# filler comment")
            else:
                xn[0] += 1
                lines.append(ind + "@" + rnd.choice(NEAR + ["x%d" % xn[0]]))
        if tagline:
            lines.insert(rnd.randrange(len(lines) + 1), ind + tagline)
        return lines

    for idx, it in enumerate(items):
        k, pre, body, tag, nt = it["k"], it["pre"], it["body"], it["tag"], it["nt"]
        name = NAMES[(idx + shift) % len(NAMES)]
        if same and k in ("scenario", "outline"):
            name = NAMES[shift % len(NAMES)]
        tagline = "" if tag == "none" else "@" + (rnd.choice(NEAR) if tag == "near" else tag)
        if k == "feature":
            out += fill(pre, True, tagline, "")
            out.append("Feature: feature %s" % name)
            ent_lines.append(len(out))
            out += container_body(body, rnd, "  ")
        elif k == "rule":
            out += fill(pre, True, tagline, "  ")
            out.append("  Rule: rule %s" % name)
            ent_lines.append(len(out))
            out += container_body(body, rnd, "    ")
        elif k == "scenario":
            out += fill(pre, True, tagline, "    ")
            out.append("    %s: %s" % ("Scenario" if same else rnd.choice(["Scenario", "Example"]), name))
            ent_lines.append(len(out))
            out += steps_body(body, rnd, "      ", "")
        elif k == "outline":
            out += fill(pre, True, tagline, "    ")
            out.append("    %s: %s" % ("Scenario Outline" if same else rnd.choice(["Scenario Outline", "Scenario Template"]), name))
            ent_lines.append(len(out))
            if it.get("et") == 2:                           # outline without rows: heading-only Examples table
                out += steps_body(body - 2, rnd, "      ", " <x>")
                out.append("      Examples: todo")
                out.append("        | x |")
            else:
                out += steps_body(body, rnd, "      ", " <x>")
            tab = 0
        else:   # row
            if nt:
                out += fill(pre, True, "", "      ")
                if it.get("et") == 1:                       # heading-only Examples table in front
                    tab += 1
                    out.append("      Examples: todo")
                    out.append("        | x |")
                tab += 1
                row = 0
                out.append("      Examples: %s" % ("tab" if tab % 2 else "tob"))
                out.append("        | x |")
            else:
                out += fill(pre, False, "", "        ")
            row += 1
            out.append("        | v%d%d |" % (tab, row))
            ent_lines.append(len(out))
            if it.get("et") == 2:                           # heading-only Examples table after the last row
                tab += 1
                out.append("      Examples: todo")
                out.append("        | x |")
    return "\n".join(out) + "\n", ent_lines, len(out)


def container_body(n, rnd, ind):
    if n == 0:
        return []
    if n >= 2 and rnd.randrange(2):
        return [ind + "Background: common"] + [ind + "  Given a step" for _ in range(n - 1)]
    return [ind + "free description text %d" % j for j in range(n)]


def steps_body(n, rnd, ind, ph):
    if n >= 1 and not ph and rnd.randrange(5) == 0:         # a scenario with a description but WITHOUT steps
        return [ind + "only a description %d" % j for j in range(n)]
    if n >= 2 and rnd.randrange(2):
        return [ind + "some scenario description"] + [ind + "Given a step%s" % ph for _ in range(n - 1)]
    return [ind + "%s a step%s" % ("Given" if j == 0 else "And", ph) for j in range(n)]


def write_layout(path, case, rnd, shift=0, same=False):
    text, ent_lines, last = render(case["items"], rnd, shift, same)
    want = [e["line"] for e in case["E"]]
    if ent_lines != want or last != case["last"]:          # rendering contract broken: machinery, not a verdict
        raise RuntimeError("render contract: %r != %r (last %r/%r)" % (ent_lines, want, last, case["last"]))
    d = os.path.dirname(path)
    if d and not os.path.isdir(d):
        os.makedirs(d)
    with open(path, "w") as fh:
        fh.write(text)
    return text


# --------------------------------------------------------------------------- observing the real code
class Quiet(object):
    def __enter__(self):
        self.old = sys.stdout, sys.stderr
        sys.stdout, sys.stderr = io.StringIO(), io.StringIO()

    def __exit__(self, *a):
        sys.stdout, sys.stderr = self.old


_REG = []


def registry():
    if not _REG:
        from behave.step_registry import StepRegistry
        reg = StepRegistry()

        def step_impl(context, **kw):
            pass
        reg.add_step_definition("step", "a step{rest}", step_impl)
        reg.add_step_definition("step", "a step", step_impl)
        _REG.append(reg)
    return _REG[0]


def file_index(filename, paths):
    """rendering-inverse: which of the rendered files does this (observed, public) filename denote; 0 = none"""
    p = os.path.normpath(os.path.abspath(filename))
    for k, q in enumerate(paths):
        if os.path.normpath(os.path.abspath(q)) == p:
            return k + 1
    return 0


def feats_of(features, paths, via):
    feats = []
    for feature in features:
        scen = list(feature.walk_scenarios())
        present = [int(s.line) for s in scen]
        if via == "flag":
            sel = [int(s.line) for s in scen if not s.should_skip]
            skp = [int(s.line) for s in scen if s.should_skip]
        else:
            sel = [int(s.line) for s in scen if s.status.name == "passed"]
            skp = [int(s.line) for s in scen if s.status.name == "skipped"]
        feats.append({"f": file_index(feature.filename, paths), "present": present, "sel": sel, "skp": skp})
    return feats


def run_model(features, args=()):
    from behave.configuration import Configuration
    from behave.runner import ModelRunner
    config = Configuration(command_args=["-f", "null", "--no-summary"] + list(args), load_config=False)
    runner = ModelRunner(config, features, step_registry=registry())
    runner.run()
    return config


def observe_run(spec, paths):
    """spec: {"locs": [{"f", "line", "bare"}], "form": "str"|"obj"|"plain"|"pad", "via": "flag"|"status"}
    -> run record for the judge."""
    from behave.runner_util import parse_features, collect_feature_locations, FileLocationParser
    from behave.model_core import FileLocation
    run = {"locs": [{"f": l["f"], "line": 0 if l.get("bare") else l["line"], "sp": 0} for l in spec["locs"]],
           "exc": "", "via": spec["via"], "feats": []}
    try:
        with Quiet():
            form = spec["form"]
            texts = [paths[l["f"] - 1] if l.get("bare") else "%s:%d" % (paths[l["f"] - 1], l["line"]) for l in spec["locs"]]
            if form == "str":            # as on the command line
                locations = collect_feature_locations(texts)
            elif form == "pad":          # blanks around the location text
                locations = [FileLocationParser.parse("  %s  " % t) for t in texts]
            elif form == "obj":          # FileLocation objects
                locations = [FileLocation(paths[l["f"] - 1], None if l.get("bare") else l["line"]) for l in spec["locs"]]
            else:                        # plain file names (only bare locations)
                locations = [paths[l["f"] - 1] for l in spec["locs"]]
            features = parse_features(locations)
            if spec["via"] == "status":
                run_model(features)
        run["feats"] = feats_of(features, paths, spec["via"])
    except Exception as x:                # recorded, judged by the clauses (everything addressed is missing)
        run["exc"] = type(x).__name__
        run["feats"] = []
    return run


def observe_sel(job):
    """job: {"id", "mode", "cases": [layout cases], "seed", "runs": [run specs], "rel": bool}"""
    rnd = random.Random(job["seed"])
    d = tempfile.mkdtemp(prefix="j%d-" % job["id"], dir=job["scratch"])
    cwd = os.getcwd()
    try:
        os.chdir(d)
        names = ["a.feature", os.path.join("sub", "b.feature"), os.path.join("sub", "deep", "c.feature")]
        paths = []
        for k, case in enumerate(job["cases"]):
            p = names[k] if job.get("rel") else os.path.join(d, names[k])
            write_layout(os.path.join(d, names[k]), case, rnd, shift=k, same=bool(job.get("same")))
            paths.append(p)
        row = {"id": job["id"], "kind": "sel", "mode": job["mode"], "files": [c["E"] for c in job["cases"]],
               "runs": [observe_run(spec, paths) for spec in job["runs"]]}
    finally:
        os.chdir(cwd)
        shutil.rmtree(d, ignore_errors=True)
    return row


def list_text(lst, entry_paths, abs_paths, rnd):
    lines = []
    for e in lst:
        if e["k"] == "comment":
            lines.append(rnd.choice(["# a comment", "   # an indented comment", "#"]))
        elif e["k"] == "blank":
            lines.append(rnd.choice(["", "    "]))
        else:
            p = abs_paths[e["f"] - 1] if e["abs"] else entry_paths[e["f"] - 1]
            lines.append("  " * e["indent"] + p + (":%d" % e["line"] if e["hasline"] else "") + "  " * e["trail"])
    return "\n".join(lines) + "\n"


def observe_list(job):
    """job: {"id", "cases": [2 layouts], "seed", "here", "list"}: list file in the current directory ("dot") or in
    a sub directory ("sub"); relative entries are relative to the list file's directory."""
    from behave.runner_util import parse_features, collect_feature_locations
    rnd = random.Random(job["seed"])
    d = tempfile.mkdtemp(prefix="l%d-" % job["id"], dir=job["scratch"])
    cwd = os.getcwd()
    row = {"id": job["id"], "kind": "list", "here": job["here"], "list": job["list"], "files": [c["E"] for c in job["cases"]],
           "locs_exc": "", "locs": [], "run": {"locs": [], "exc": "", "via": "flag", "feats": []}}
    try:
        os.chdir(d)
        if job["here"] == "dot":
            listfile = "all.txt"
            entry_paths = [os.path.join("feat", "a.feature"), os.path.join("other", "b.feature")]
            real = entry_paths
        else:
            listfile = os.path.join("lists", "all.txt")
            entry_paths = [os.path.join("feat", "a.feature"), os.path.join("..", "other", "b.feature")]
            real = [os.path.join("lists", "feat", "a.feature"), os.path.join("other", "b.feature")]
        abs_paths = [os.path.join(d, p) for p in real]
        for k, case in enumerate(job["cases"]):
            write_layout(abs_paths[k], case, rnd, shift=k, same=bool(job.get("same")))
        if job["here"] != "dot" and job["id"] % 2 == 0:
            # a decoy: the same relative path exists below the working directory too (another feature file); a relative
            # entry of a list file means the file next to the LIST FILE
            write_layout(os.path.join(d, "feat", "a.feature"), job["cases"][1], random.Random(str(job["seed"]) + "decoy"), shift=3)
        if not os.path.isdir(os.path.dirname(os.path.join(d, listfile)) or d):
            os.makedirs(os.path.dirname(os.path.join(d, listfile)))
        with open(listfile, "w") as fh:
            fh.write(list_text(job["list"], entry_paths, abs_paths, rnd))
        try:
            with Quiet():
                locations = collect_feature_locations(["@" + listfile])
            row["locs"] = [{"f": file_index(l.filename, abs_paths), "line": int(l.line or 0),
                            "sp": 1 if os.path.isabs(l.filename) else 0} for l in locations]
        except Exception as x:
            row["locs_exc"] = type(x).__name__
            locations = None
        if locations is not None:
            row["run"]["locs"] = row["locs"]
            try:
                with Quiet():
                    features = parse_features(locations)
                row["run"]["feats"] = feats_of(features, abs_paths, "flag")
            except Exception as x:
                row["run"]["exc"] = type(x).__name__
    finally:
        os.chdir(cwd)
        shutil.rmtree(d, ignore_errors=True)
    return row


def observe_name(job):
    """job: {"id", "case": layout, "seed", "shift", "texts": [--name texts], "pats": abstract patterns}"""
    from behave.configuration import Configuration
    from behave.runner_util import parse_features
    rnd = random.Random(job["seed"])
    d = tempfile.mkdtemp(prefix="n%d-" % job["id"], dir=job["scratch"])
    row = {"id": job["id"], "kind": "name", "pats": job["pats"], "exc": "", "obs": []}
    try:
        path = os.path.join(d, "names.feature")
        write_layout(path, job["case"], rnd, shift=job["shift"])
        args = ["--name=" + t for t in job["texts"]]
        try:
            with Quiet():
                config = Configuration(command_args=["-f", "null", "--no-summary"] + args, load_config=False)
                features = parse_features([path])
                scen = [s for f in features for s in f.walk_scenarios()]
                sel = [bool(s.should_run_with_name_select(config)) for s in scen]
                run_model(features, args)
            row["obs"] = [{"line": int(s.line), "name": list(s.name), "sel": sel[k], "ran": True, "status": s.status.name}
                          for k, s in enumerate(scen)]
        except (Exception, SystemExit) as x:
            row["exc"] = type(x).__name__
    finally:
        shutil.rmtree(d, ignore_errors=True)
    return row


def observe(job):
    return {"sel": observe_sel, "list": observe_list, "name": observe_name}[job["kind"]](job)


# --------------------------------------------------------------------------- building the jobs
def loc(f, line, bare=False):
    return {"f": f, "line": line, "bare": bare}


def sweep_runs(case, rnd, nstatus):
    """EVERY line 0..last+3 as "file:LINE", the bare name in three forms, and a few padded / object forms"""
    last = case["last"]
    runs = [{"locs": [loc(1, n)], "form": "str", "via": "flag"} for n in range(0, last + 4)]
    runs.append({"locs": [loc(1, 0, True)], "form": "str", "via": "flag"})
    runs.append({"locs": [loc(1, 0, True)], "form": "plain", "via": "flag"})
    runs.append({"locs": [loc(1, 0, True)], "form": "obj", "via": "flag"})
    runs.append({"locs": [loc(1, rnd.randrange(1, last + 4))], "form": "pad", "via": "flag"})
    runs.append({"locs": [loc(1, rnd.randrange(1, last + 4))], "form": "obj", "via": "flag"})
    for _ in range(nstatus):
        runs.append({"locs": [loc(1, rnd.randrange(0, last + 4))], "form": "str", "via": "status"})
    return runs


def multi_runs(case, rnd, n, nstatus):
    """multisets of 2..3 locations of one file, in any order, with repetitions, line 0 and the bare name"""
    last = case["last"]
    ents = [e["line"] for e in case["E"]]
    runs = []
    for k in range(n):
        size = rnd.choice([2, 3, 3])
        ls = []
        for _ in range(size):
            c = rnd.randrange(10)
            if c == 0:
                ls.append(loc(1, 0, rnd.randrange(2) == 0))
            elif c < 5:
                ls.append(loc(1, max(1, rnd.choice(ents) + rnd.choice([0, 0, 1, -1]))))   # at / next to an entity
            else:
                ls.append(loc(1, rnd.randrange(1, last + 4)))
        if rnd.randrange(6) == 0:
            ls.append(dict(ls[0]))                              # a repeated location
        runs.append({"locs": ls, "form": rnd.choice(["str", "str", "obj"]), "via": "status" if k < nstatus else "flag"})
    return runs


def all_pairs_runs(case):
    last = case["last"]
    return [{"locs": [loc(1, a), loc(1, b)], "form": "str", "via": "flag"}
            for a in range(0, last + 4) for b in range(a, last + 4)]


def files_runs(cases, rnd, n):
    """location lists spread over 2..3 files: consecutive and non-consecutive repetitions of a file"""
    runs = []
    nf = len(cases)
    for k in range(n):
        size = rnd.randrange(2, 6)
        ls = []
        for _ in range(size):
            f = rnd.randrange(1, nf + 1)
            c = rnd.randrange(8)
            if c == 0:
                ls.append(loc(f, 0, True))
            else:
                ls.append(loc(f, rnd.randrange(0 if c == 1 else 1, cases[f - 1]["last"] + 4)))
        runs.append({"locs": ls, "form": rnd.choice(["str", "str", "obj"]), "via": "status" if k == 0 else "flag"})
    return runs


def build_jobs(chk, layouts, lists, names, scratch):
    quick = chk.quick()
    rnd = random.Random(chk.seed)
    jobs = []

    def add(job):
        job["id"] = len(jobs) + 1
        job["scratch"] = scratch
        job["seed"] = "%d:%d" % (chk.seed, job["id"])
        jobs.append(job)

    # 1. sweeps: every layout, every line
    for n, case in enumerate(layouts):
        r = random.Random("%d:sweep:%d" % (chk.seed, n))
        add({"kind": "sel", "mode": "sweep", "cases": [case], "rel": n % 2 == 1, "same": n % 4 < 2,
             "runs": sweep_runs(case, r, 1 if (quick and n % 3) else 2)})
    # 2. multisets of locations of one file
    for n, case in enumerate(layouts):
        r = random.Random("%d:multi:%d" % (chk.seed, n))
        add({"kind": "sel", "mode": "multi", "cases": [case], "rel": n % 2 == 0, "same": n % 4 >= 2,
             "runs": multi_runs(case, r, 5 if quick else 10, 1)})
    small = [c for c in layouts if c["last"] <= (7 if quick else 9)]
    for case in (small[:30] if quick else small):
        add({"kind": "sel", "mode": "multi", "cases": [case], "rel": False, "same": True, "runs": all_pairs_runs(case)})
    # 3. several files
    for n in range(120 if quick else 1500):
        cs = [rnd.choice(layouts) for _ in range(rnd.choice([2, 2, 3]))]
        r = random.Random("%d:files:%d" % (chk.seed, n))
        add({"kind": "sel", "mode": "files", "cases": cs, "rel": n % 2 == 1, "same": n % 3 == 0, "runs": files_runs(cs, r, 4)})
    # 4. list files (every TLC list case on a rotating pair of layouts)
    pairs = [[rnd.choice(layouts), rnd.choice(layouts)] for _ in range(12 if quick else 60)]
    for n, case in enumerate(lists):
        add({"kind": "list", "cases": pairs[n % len(pairs)], "here": case["here"], "list": case["list"], "same": n % 2 == 0})
    # 5. name selection (every TLC name case on a rotating layout with at least three scenarios)
    rich = [c for c in layouts if sum(1 for e in c["E"] if e["k"] in ("scenario", "row")) >= 3] or layouts
    picks = [rnd.choice(rich) for _ in range(16 if quick else 120)]
    todo = [c for c in rich if any(it["et"] for it in c["items"])]      # ... half of them with a heading-only table
    if todo:
        picks[::2] = [rnd.choice(todo) for _ in picks[::2]]
    for n, case in enumerate(names):
        add({"kind": "name", "case": picks[n % len(picks)], "shift": n % len(NAMES), "pats": case["pats"],
             "texts": ["".join(t) for t in case["texts"]]})
    return jobs


# --------------------------------------------------------------------------- signatures
def list_attrs(job, row):
    """label only (the verdict is TLC's): are the wrong locations exactly the indented relative entries of a list
    file outside the current directory, each naming a non-existing file, and everything else as required?"""
    es = [e for e in job["list"] if e["k"] == "entry"]
    hazard = [e["indent"] > 0 and not e["abs"] and job["here"] == "sub" for e in es]
    only = (row["locs_exc"] == "" and len(row["locs"]) == len(es) and any(hazard) and
            all(l["line"] == (e["line"] if e["hasline"] else 0) and l["f"] == (0 if h else e["f"])
                for l, e, h in zip(row["locs"], es, hazard)))
    return "here=%s|cause=%s" % (job["here"], "indented_relative_entry" if only else "other")


def signature(clause, job, row, n):
    if job["kind"] == "list":
        return "%s|list|%s" % (clause, list_attrs(job, row) if clause == "C10.listfile" else "here=" + job["here"])
    if job["kind"] == "name":
        return "%s|name|options=%d|branches=%s" % (clause, len(job["pats"]), ",".join(str(len(p)) for p in job["pats"]))
    spec = job["runs"][n - 1]
    label = ""
    if job["mode"] == "sweep":
        label = "|at=" + loc_label(job["cases"][0]["E"], spec["locs"][0])
    return "%s|%s|via=%s|names=%s%s" % (clause, job["mode"], spec["via"], "same" if job.get("same") else "distinct", label)


def loc_label(E, l):
    """abstract position of a location: kind of the nearest entity at/above the line, '+gap' if not its first line"""
    if l.get("bare"):
        return "bare"
    if l["line"] == 0:
        return "line0"
    above = [e for e in E if e["line"] <= l["line"]]
    if not above:
        return "above_feature"
    e = max(above, key=lambda x: x["line"])
    return e["k"] + ("" if e["line"] == l["line"] else "+gap")


def detail(job, row, n):
    if job["kind"] == "list":
        return "list file (%s) %s -> locations %s exc=%r; parse_features: %s" % (
            job["here"], json.dumps([{k: v for k, v in e.items()} for e in job["list"]]), json.dumps(row["locs"]),
            row["locs_exc"], json.dumps(row["run"]))
    if job["kind"] == "name":
        o = row["obs"][n - 1] if n else {}
        return "--name %s: scenario %r sel=%s status=%s exc=%r" % (
            json.dumps(job["texts"]), "".join(o.get("name", [])), o.get("sel"), o.get("status"), row["exc"])
    return "%sentities=%s locations=%s form=%s -> %s" % (
        "all scenarios/outlines share keyword and name; " if job.get("same") else "",
        json.dumps([[(e["k"], e["line"], e["par"], e["tag"]) for e in c["E"]] for c in job["cases"]]),
        json.dumps(job["runs"][n - 1]["locs"]), job["runs"][n - 1]["form"], json.dumps(row["runs"][n - 1]))


def input_size(job, n):
    if job["kind"] == "list":
        return len(job["list"])
    if job["kind"] == "name":
        return sum(len(p) for p in job["pats"])
    return sum(len(c["E"]) for c in job["cases"]) * 10 + len(job["runs"][n - 1]["locs"])


def slim(job, n):
    """replay payload: the job restricted to the failing run"""
    j = {k: v for k, v in job.items() if k != "scratch"}
    if job["kind"] == "sel" and n:
        j["runs"] = [job["runs"][n - 1]]
    return j


# --------------------------------------------------------------------------- entry points
def judge(chk, rows, chunks):
    before = len(chk.tlc_runs)
    verdicts = trace.judge_rows(chk, "Select_Trace", rows, chunks=chunks, min_chunk=20)
    diverge = 0
    for _, _, r in chk.tlc_runs[before:]:
        diverge += len(r.by_tag("DIVERGE"))
    return verdicts, diverge


def run(chk):
    quick = chk.quick()
    cfg = "Select_MC_quick.cfg" if quick else "Select_MC_thorough.cfg"
    r = chk.tlc("Select_MC", cfg, timeout=900 if quick else 1800, workers=WORKERS)
    for name in r.violated:
        chk.violation("C10.design." + name, "design:%s" % name, "TLC: invariant %s violated in Select_MC (%s)" % (name, cfg))
    cases = [json.loads(t[1]) for t in r.by_tag("CASE")]
    layouts = sorted((c for c in cases if c["kind"] == "layout"), key=lambda c: json.dumps(c, sort_keys=True))
    lists = sorted((c for c in cases if c["kind"] == "list"), key=lambda c: json.dumps(c, sort_keys=True))
    names = sorted((c for c in cases if c["kind"] == "name"), key=lambda c: json.dumps(c, sort_keys=True))
    if not layouts or r.violated:
        chk.note("no layouts emitted (design-level violation stops TLC)")
        return
    chk.exhaustive = True
    scratch = tempfile.mkdtemp(prefix="verif-c10-")
    try:
        jobs = build_jobs(chk, layouts, lists, names, scratch)
        registry()
        if WORKERS > 1:
            ctx = multiprocessing.get_context("fork")
            with ctx.Pool(WORKERS) as pool:
                rows = pool.map(observe, jobs, chunksize=16)
        else:
            rows = [observe(j) for j in jobs]
    finally:
        shutil.rmtree(scratch, ignore_errors=True)
    verdicts, diverge = judge(chk, rows, chunks=WORKERS)
    chk.divergences = diverge
    byid = {row["id"]: row for row in rows}
    jobid = {j["id"]: j for j in jobs}
    nruns = 0
    nevals = 0
    distinct = set()
    for j in jobs:
        row = byid[j["id"]]
        if j["kind"] == "sel":
            nruns += len(row["runs"])
            nevals += sum(len(f["present"]) for run in row["runs"] for f in run["feats"])
            for spec in j["runs"]:
                distinct.add(json.dumps([[c["items"] for c in j["cases"]], spec["locs"], spec["form"], bool(j.get("same"))], sort_keys=True))
        elif j["kind"] == "list":
            nruns += 2
            nevals += len(row["locs"]) + sum(len(f["present"]) for f in row["run"]["feats"])
            distinct.add(json.dumps([j["here"], j["list"]], sort_keys=True))
        else:
            nruns += 2
            nevals += 2 * len(row["obs"])
            distinct.add(json.dumps([j["texts"], j["case"]["items"], j["shift"]], sort_keys=True))
    chk.impl_traces = nruns
    chk.evaluations = nevals
    found = []
    for i, vs in sorted(verdicts.items()):
        for v in vs:
            j, row, n = jobid[i], byid[i], v[3]
            found.append((input_size(j, n), i, n, v[2]))
    for _, i, n, clause in sorted(found):          # smallest failing input of every signature first
        j, row = jobid[i], byid[i]
        chk.violation(clause, signature(clause, j, row, n), detail(j, row, n), {"job": slim(j, n)})
    for j in (jobs[0], next(x for x in jobs if x["kind"] == "list"), next(x for x in jobs if x["kind"] == "name")):
        row = byid[j["id"]]
        if j["kind"] == "sel":
            chk.sample({"entities": [(e["k"], e["line"]) for e in j["cases"][0]["E"]], "location": j["runs"][3]["locs"],
                        "observed": row["runs"][3]})
        elif j["kind"] == "list":
            chk.sample({"list": j["list"], "here": j["here"], "locations": row["locs"]})
        else:
            chk.sample({"name_options": j["texts"], "observed": [("".join(o["name"]), o["sel"], o["status"]) for o in row["obs"]]})
    chk.rule = ("layouts: every kind sequence of <= MaxEnt entities x tag variants x gap profiles (TLC, exhaustive), each "
                "rendered to a real file and addressed with EVERY line 0..last+3 (+ bare name, padded text, FileLocation "
                "objects), seeded multisets of 2..3 locations (all pairs on the small layouts), seeded location lists over "
                "2..3 files, every TLC list-file case (<= MaxList lines, here = cwd | sub directory) and every TLC --name "
                "case; distinct = distinct (layouts, locations, form) / list files / (name options, layout)")
    chk.extra["distinct_nontrivial"] = len(distinct)
    # name selection inside complete runs (Run.tla / Props_Run.tla, clause C10.name_in_run) comes from the shared run stage
    from props import runprops
    runprops.add_shared_verdicts(chk, ["C10."])
    chk.extra["layouts"] = len(layouts)
    chk.extra["list_cases"] = len(lists)
    chk.extra["name_cases"] = len(names)
    chk.extra["rows"] = len(rows)
    chk.extra["status_runs"] = sum(1 for j in jobs if j["kind"] == "sel" for s in j["runs"] if s["via"] == "status") + len(names)
    chk.assumptions = [
        "lines between 1 and the first line of the feature (tags/comments above 'Feature:') are not judged: the statement is "
        "silent there (the code selects all; recorded as divergence if it does not)",
        "rows of an outline tagged @setup/@teardown count as @setup/@teardown scenarios (their .tags contain the tag)",
        "a scenario counts as selected when some Feature object of its file leaves it to run; parse_features returns one "
        "object per group of consecutive same-file locations and the statement does not speak about multiplicity",
        "--name patterns are literal texts with optional ^ / $ anchors, '.' and a|b; the judge matches the observed scenario names",
        "glob entries of list files and directories as locations are not in the statement and are not exercised",
    ]


def replay(chk, payload):
    if "prog" in payload.get("replay", {}):          # a case of the shared run stage (C10.name_in_run)
        from props import runprops
        return runprops.replay_case(chk, payload, ["C10."])
    job = payload["replay"]["job"]
    scratch = tempfile.mkdtemp(prefix="verif-c10-")
    try:
        job["scratch"] = scratch
        row = observe(job)
    finally:
        shutil.rmtree(scratch, ignore_errors=True)
    verdicts, diverge = judge(chk, [row], chunks=1)
    chk.divergences = diverge
    chk.impl_traces = 1
    for vs in verdicts.values():
        for v in vs:
            chk.violation(v[2], signature(v[2], job, row, v[3]), "replayed: " + detail(job, row, v[3]), {"job": slim(job, v[3])})
    chk.sample({"replayed": {k: v for k, v in job.items() if k not in ("scratch", "cases", "case")}, "row": row})
