------------------------------- MODULE Select -------------------------------
(***************************************************************************)
(* Selection of scenarios by file location and by name (C10).              *)
(*                                                                         *)
(* Definitional semantics (entity table with start lines and containment,  *)
(* Nearest(line), Expand) next to the algorithm the code uses              *)
(* (FeatureLineDatabase: sorted line list + bisect with predecessor on a   *)
(* miss, entity -> scenarios expansion by walking run_items;               *)
(* FeatureScenarioLocationCollector: add_location / build_feature;         *)
(* parse_features: grouping of CONSECUTIVE same-file locations;            *)
(* FeatureListParser: comments, blank lines, relative paths, file:line;    *)
(* name selection: search with the alternation of the --name patterns).    *)
(*                                                                         *)
(* Pure definitions only.  Select_MC composes them into a state space,     *)
(* Select_Trace judges rows recorded from the real code.  Texts are        *)
(* sequences of one-character strings.                                     *)
(***************************************************************************)
EXTENDS Naturals, Sequences, FiniteSets

Range(s) == {s[i] : i \in DOMAIN s}
RECURSIVE SortedSeq(_)       \* the elements of a finite set of naturals in increasing order
SortedSeq(S) == IF S = {} THEN <<>>
                ELSE LET m == CHOOSE x \in S : \A y \in S : x <= y IN <<m>> \o SortedSeq(S \ {m})

\* ---------------------------------------------------------------- documents
\* A document is a sequence of items in document order; item i becomes entity i.
\*   k    : "feature" | "rule" | "scenario" | "outline" | "row"
\*   pre  : filler lines in front of the entity (comments, blank lines, extra tag lines)
\*   body : lines that follow the entity's first line and belong to it (description, background, steps)
\*   tag  : "none" | "setup" | "teardown" | "near" (a near miss such as @set, @up, @setups; not exempting)
\*          (one more line in front: the tag line)
\*   nt   : a row that opens a new Examples table (two more lines in front: "Examples:" and the heading row)
\*   et   : heading-only Examples table (an "Examples:" line and a heading row, NO data rows; it contributes no
\*          entity but exists in the file): 0 none, 1 in front of the table this row opens (nt rows only: two
\*          more lines in front), 2 after this row (last row of its outline only: counted in body = 2) or
\*          after the steps of an outline WITHOUT rows (counted in its body: steps + 2).
\* Scenario-less entities exist: a rule without scenarios, an outline without rows (no Examples, or a heading-only
\* table).  Nearest(line) may resolve to one; its selection is empty: everything but @setup/@teardown is skipped.
\* This is the rendering contract: the driver renders exactly these line counts.
Item(k, pre, body, tag, nt, et) == [k |-> k, pre |-> pre, body |-> body, tag |-> tag, nt |-> nt, et |-> et]
TagLine(it)   == IF it.tag = "none" THEN 0 ELSE 1
HeadLines(it) == IF it.k = "row" /\ it.nt THEN (IF it.et = 1 THEN 4 ELSE 2) ELSE 0

\* entity: k, line (start line), par (index of the containing entity, 0 for the feature), tag, tab (examples table no.)
RECURSIVE TableRec(_,_,_)
TableRec(items, i, st) ==
   IF i > Len(items) THEN st
   ELSE LET it   == items[i]
            line == st.c + it.pre + TagLine(it) + HeadLines(it) + 1
            par  == CASE it.k = "feature" -> 0
                      [] it.k = "rule"    -> 1
                      [] it.k = "row"     -> st.outl
                      [] OTHER            -> IF st.rule # 0 THEN st.rule ELSE 1
            tab  == IF it.k = "row" THEN (IF it.nt THEN st.tab + 1 ELSE st.tab) ELSE 0
        IN TableRec(items, i + 1,
                    [c    |-> line + it.body,
                     E    |-> Append(st.E, [k |-> it.k, line |-> line, par |-> par, tag |-> it.tag, tab |-> tab]),
                     rule |-> IF it.k = "rule" THEN i ELSE st.rule,
                     outl |-> IF it.k = "outline" THEN i ELSE st.outl,
                     tab  |-> tab])
Table(items) == TableRec(items, 1, [c |-> 0, E |-> <<>>, rule |-> 0, outl |-> 0, tab |-> 0])
\* Table(items).E = entity table, Table(items).c = number of the last line of the document

\* ---------------------------------------------------------------- definitional semantics
Scens(E) == {j \in DOMAIN E : E[j].k \in {"scenario", "row"}}      \* what runs: scenarios and examples rows
RECURSIVE Under(_,_,_)
Under(E, i, j) == j = i \/ (E[j].par # 0 /\ Under(E, i, E[j].par))
Expand(E, i) == {j \in Scens(E) : Under(E, i, j)}                   \* the scenarios of entity i
AtOrAbove(E, line) == {i \in DOMAIN E : E[i].line <= line}
\* the entity starting at that line or the nearest entity starting above it (0: there is none)
Nearest(E, line) == LET A == AtOrAbove(E, line) IN
                    IF A = {} THEN 0 ELSE CHOOSE i \in A : \A j \in A : E[j].line <= E[i].line
\* line 0 (= bare file name) selects all
SelDef(E, line) == IF line = 0 \/ Nearest(E, line) = 0 THEN Scens(E) ELSE Expand(E, Nearest(E, line))
\* the statement is silent about lines 1 .. (first line of the feature - 1); the code selects all there
Stated(E, line) == line = 0 \/ line >= E[1].line
\* @setup / @teardown scenarios (rows inherit the tags of their outline)
\* only the exact tags exempt; any other tag ("near": up, set, s, tear, down, setups, setupteardown ...) does not
ExemptTag(t) == t \in {"setup", "teardown"}
Exempt(E) == {j \in Scens(E) : ExemptTag(E[j].tag) \/ (E[j].k = "row" /\ ExemptTag(E[E[j].par].tag))}
\* several locations of one file: union; L = set of lines (0 = bare)
ReqSelWith(E, L, Sel(_)) == IF L = {} THEN {} ELSE IF 0 \in L THEN Scens(E) ELSE UNION {Sel(l) : l \in L}
ReqSel(E, L) == ReqSelWith(E, L, LAMBDA l : SelDef(E, l))

\* ---------------------------------------------------------------- FeatureLineDatabase (the code's algorithm)
Children(E, i) == {j \in DOMAIN E : E[j].par = i}
\* stable insertion sort of <<line, entity>> pairs by line  (sorted(line_data); lines are distinct)
RECURSIVE InsertPair(_,_)
InsertPair(s, p) == IF s = <<>> THEN <<p>>
                    ELSE IF p[1] < s[1][1] THEN <<p>> \o s ELSE <<s[1]>> \o InsertPair(Tail(s), p)
RECURSIVE SortPairs(_)
SortPairs(s) == IF s = <<>> THEN <<>> ELSE InsertPair(SortPairs(SubSeq(s, 1, Len(s) - 1)), s[Len(s)])
\* make_line_data_for(entity): (0, feature) first, the entity itself, then recursively its run_items; sorted
RECURSIVE LineDataFor(_,_)
RECURSIVE LineDataOfAll(_,_)
LineDataOfAll(E, kids) == IF kids = <<>> THEN <<>> ELSE LineDataFor(E, Head(kids)) \o LineDataOfAll(E, Tail(kids))
LineDataFor(E, i) ==
   LET own == (IF E[i].k = "feature" THEN << <<0, i>> >> ELSE <<>>) \o << <<E[i].line, i>> >>
   IN IF E[i].k \in {"scenario", "row"} THEN own
      ELSE SortPairs(own \o LineDataOfAll(E, SortedSeq(Children(E, i))))
LineData(E) == LineDataFor(E, 1)
Keys(ld) == [n \in DOMAIN ld |-> ld[n][1]]
\* bisect.bisect (= bisect_right) as CPython does it; a is sorted, lo/hi are 0-based
RECURSIVE BisectRight(_,_,_,_)
BisectRight(a, x, lo, hi) == IF lo >= hi THEN lo
                             ELSE LET mid == (lo + hi) \div 2 IN
                                  IF x < a[mid + 1] THEN BisectRight(a, x, lo, mid) ELSE BisectRight(a, x, mid + 1, hi)
\* select_run_item_by_line: exact hit in the dict, otherwise the predecessor, never before the first entry
RunItemLD(ld, line) ==
   LET keys == Keys(ld)
       hit  == {n \in DOMAIN ld : keys[n] = line}
   IN IF hit # {} THEN ld[CHOOSE n \in hit : TRUE][2]
      ELSE LET b == BisectRight(keys, line, 0, Len(keys))
               pos == IF b = 0 THEN 0 ELSE b - 1           \* max(0, bisect - 1)
           IN ld[pos + 1][2]
\* select_scenarios_by_line: Feature/Rule -> walk_scenarios(), ScenarioOutline -> .scenarios, Scenario -> itself
RECURSIVE Walk(_,_)
Walk(E, i) == IF E[i].k \in {"scenario", "row"} THEN {i} ELSE UNION {Walk(E, j) : j \in Children(E, i)}
SelCodeLD(E, ld, line) == Walk(E, RunItemLD(ld, line))
SelCode(E, line) == SelCodeLD(E, LineData(E), line)

\* ---------------------------------------------------------------- FeatureScenarioLocationCollector
\* location: [f |-> file number >= 1, line |-> line number, 0 = no line / line 0, sp |-> spelling of the file
\* name: 0 as given / relative, 1 absolute -- the code compares file NAMES, not files]
LocS(f, line, sp) == [f |-> f, line |-> line, sp |-> sp]
Loc(f, line) == LocS(f, line, 0)
NewCollector == [file |-> 0, sp |-> 0, lines |-> {}, all |-> FALSE]
AddLocation(c, loc) == [file  |-> IF c.file = 0 THEN loc.f ELSE c.file,
                        sp    |-> IF c.file = 0 THEN loc.sp ELSE c.sp,
                        lines |-> IF loc.line # 0 THEN c.lines \cup {loc.line} ELSE c.lines,
                        all   |-> c.all \/ loc.line = 0]
\* build_feature: the set of scenarios that get mark_skipped(); Sel = selection function line -> scenarios
BuildWith(c, E, Sel(_)) ==
   IF c.lines = {} \/ c.all THEN {}
   ELSE (Scens(E) \ UNION {Sel(l) : l \in c.lines}) \ Exempt(E)
Build(c, E) == LET ld == LineData(E) sel(l) == SelCodeLD(E, ld, l) IN BuildWith(c, E, sel)

\* ---------------------------------------------------------------- parse_features
\* one collector; a location of the collector's file is added, any other file flushes the collector
RECURSIVE PFRec(_,_,_,_)
PFRec(locs, i, c, out) ==
   IF i > Len(locs) THEN (IF c.file # 0 THEN Append(out, c) ELSE out)
   ELSE IF locs[i].f = c.file /\ locs[i].sp = c.sp THEN PFRec(locs, i + 1, AddLocation(c, locs[i]), out)
   ELSE PFRec(locs, i + 1, AddLocation(NewCollector, locs[i]), IF c.file # 0 THEN Append(out, c) ELSE out)
Groups(locs) == PFRec(locs, 1, NewCollector, <<>>)
\* result: one feature object per group: its file and the scenarios marked skipped
\* Sel(f, l) = selection of line l in file f
ParseFeaturesWith(locs, Files, Sel(_,_)) ==
   LET g == Groups(locs) IN
   [n \in DOMAIN g |-> [f |-> g[n].file, skipped |-> BuildWith(g[n], Files[g[n].file], LAMBDA l : Sel(g[n].file, l))]]
ParseFeatures(locs, Files) == ParseFeaturesWith(locs, Files, LAMBDA f, l : SelCode(Files[f], l))
LinesOf(locs, f) == {locs[i].line : i \in {k \in DOMAIN locs : locs[k].f = f}}
\* scenarios of file f that are left to run in at least one of its feature objects
Kept(res, f, E) == {j \in Scens(E) : \E n \in DOMAIN res : res[n].f = f /\ j \notin res[n].skipped}

\* ---------------------------------------------------------------- FeatureListParser
\* list line: k "comment" | "blank" | "entry"; entry: f, line, hasline, indent (leading blanks), abs, trail
ListEntries(ls) == SelectSeq(ls, LAMBDA e : e.k = "entry")
ListDef(ls) == LET es == ListEntries(ls) IN
               [n \in DOMAIN es |-> LocS(es[n].f, IF es[n].hasline THEN es[n].line ELSE 0, IF es[n].abs THEN 1 ELSE 0)]
\* the code joins the list file's directory with the UNSTRIPPED line: a relative, indented entry of a list
\* file that is not in the current directory names a file that does not exist (file number 0)
ListCode(ls, hereDot, unstripped) ==
   LET es == ListEntries(ls) IN
   [n \in DOMAIN es |-> LocS(IF unstripped /\ es[n].indent > 0 /\ ~es[n].abs /\ ~hereDot THEN 0 ELSE es[n].f,
                             IF es[n].hasline THEN es[n].line ELSE 0, IF es[n].abs THEN 1 ELSE 0)]
ListHazard(ls) == \E n \in DOMAIN ls : ls[n].k = "entry" /\ ls[n].indent > 0 /\ ~ls[n].abs

\* ---------------------------------------------------------------- name selection
\* pattern = sequence of branches (a|b); branch = [l |-> "^" present, r |-> "$" present, t |-> characters];
\* "." in t matches any character.  Several --name options are joined with "|".
MatchAt(t, s, k) == k + Len(t) <= Len(s) + 1 /\ \A j \in DOMAIN t : t[j] = "." \/ t[j] = s[k + j - 1]
BranchMatch(b, s) ==
   IF b.l /\ b.r THEN Len(b.t) = Len(s) /\ MatchAt(b.t, s, 1)
   ELSE IF b.l THEN MatchAt(b.t, s, 1)
   ELSE IF b.r THEN Len(b.t) <= Len(s) /\ MatchAt(b.t, s, Len(s) - Len(b.t) + 1)
   ELSE \E k \in 1..(Len(s) + 1) : MatchAt(b.t, s, k)
\* definitional: the name matches one of the given patterns
NameSelDef(pats, s) == \E p \in DOMAIN pats : \E n \in DOMAIN pats[p] : BranchMatch(pats[p][n], s)
\* the code: one regular expression "p1|p2|..." and re.search
RECURSIVE Flatten(_)
Flatten(pats) == IF pats = <<>> THEN <<>> ELSE Head(pats) \o Flatten(Tail(pats))
NameSelCode(pats, s) == pats = <<>> \/ \E n \in DOMAIN Flatten(pats) : BranchMatch(Flatten(pats)[n], s)
\* text of a pattern
BranchText(b) == (IF b.l THEN <<"^">> ELSE <<>>) \o b.t \o (IF b.r THEN <<"$">> ELSE <<>>)
RECURSIVE PatText(_)
PatText(p) == IF p = <<>> THEN <<>> ELSE BranchText(Head(p)) \o (IF Len(p) > 1 THEN <<"|">> \o PatText(Tail(p)) ELSE <<>>)
\* name of the scenario generated for examples row (ti, ri): "<outline> -- @ti.ri <examples name>"
Digit(n) == <<"0","1","2","3","4","5","6","7","8","9">>[n + 1]
RowName(oname, ti, ri, ename) == oname \o <<" ","-","-"," ","@", Digit(ti), ".", Digit(ri), " ">> \o ename
=============================================================================
