INIT Init
NEXT Next
CONSTANTS
  MaxScen = 4
  MaxFeat = 2
  EmitMod = 149
INVARIANT ClausesHold
INVARIANT ExemptHolds
INVARIANT FeedBackDefinitional
INVARIANT FeedBackBetween
INVARIANT Emit
