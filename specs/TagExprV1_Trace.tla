-------------------------- MODULE TagExprV1_Trace --------------------------
(* Judge of C08 on rows recorded from the real make_tag_expression().      *)
(* A row is one input (form "text": text = chars / form "list": terms =    *)
(* list of chars) with what was observed under the three protocols:        *)
(*   v1, v2, auto : [exc |-> "" or exception type name,                    *)
(*                   tee |-> the exception is a TagExpressionError,        *)
(*                   tt  |-> .check(S) for every subset S of Univ, in the  *)
(*                           order of SubsetSeq (empty after an exception)]*)
(* One state per row; a violated clause is printed as                      *)
(* <<"VERDICT", row id, clause, cause>>, cause = the named exception       *)
(* (KF_C08_n of TagExprV1) that describes the input, or "other".           *)
(* <<"DIVERGENCE", row id, protocol>>: the observation differs from what   *)
(* the transcription (S) predicts (informational, never a verdict).        *)
EXTENDS TagExprV1, TLC, Json, IOUtils
Rows == ndJsonDeserialize(IOEnv.TRACE_FILE)
Univ == << <<"a">>, <<"b">>, <<"n","o","r">>, <<"x","-","y">>, <<"a"," ","b">> >>
SS == SubsetSeq(Univ)

VARIABLE i
Init == i = 1
R == Rows[i]

In(r) == [form |-> r.form, text |-> r.text, terms |-> r.terms]
Ok(tt) == [exc |-> "", tee |-> FALSE, tt |-> tt]
Obs(o) == [exc |-> o.exc, tee |-> o.tee, tt |-> o.tt]

Clauses(r) ==
   LET in == In(r)
       v1 == Obs(r.v1)  v2 == Obs(r.v2)  au == Obs(r.auto)
       p1 == IsPureV1(in)
       p2 == IsPureV2(in)
   IN \* old-style expressions keep their documented meaning (protocol v1)
      (IF p1 /\ v1 # Ok(CnfTT(CnfOf(in), SS)) THEN {<<"C08.v1_truth", "other">>} ELSE {})
      \* auto-detection: a pure old-style text behaves as under protocol v1 (a text that is pure in both
      \* dialects may behave as under either)
      \cup (IF p1 /\ au # v1 /\ ~(p2 /\ au = v2)
            THEN {<<"C08.auto_v1", IF KF_C08_2(in) THEN "KF_C08_2" ELSE "other">>} ELSE {})
      \* auto-detection: a pure new-style text has its v2 meaning = Eval of TagExpr's own parse of that text
      \* (a text that is pure in both dialects may behave as under protocol v1)
      \cup (IF p2 /\ au # V2Run(in, SS) /\ ~(p1 /\ au = v1)
            THEN {<<"C08.auto_v2", IF KF_C08_3(in) THEN "KF_C08_3" ELSE "other">>} ELSE {})
      \* auto-detection: old negation prefix + new-style operator is rejected with a tag-expression error
      \cup (IF IsMixed(in) /\ ~au.tee
            THEN {<<"C08.mixed_rejected", "other">>} ELSE {})

Divergences(r) ==
   LET in == In(r) IN
   (IF Obs(r.v1) # V1Run(in, SS) THEN {"v1"} ELSE {})
   \cup (IF Obs(r.v2) # V2Run(in, SS) THEN {"v2"} ELSE {})
   \cup (IF Obs(r.auto) # AutoRun(in, SS) THEN {"auto"} ELSE {})

Next == /\ i <= Len(Rows)
        /\ \A c \in Clauses(R) : PrintT(<<"VERDICT", R.id, c[1], c[2]>>)
        /\ \A d \in Divergences(R) : PrintT(<<"DIVERGENCE", R.id, d>>)
        /\ i' = i + 1
Spec == Init /\ [][Next]_i
Done == PrintT(<<"DONE", Len(Rows), TLCGet("stats").diameter>>)
=============================================================================
