---------------------------- MODULE Context_MC ----------------------------
(* Design-level check of C13 (API-history part) and emission of histories. *)
(* One behaviour = prelude (0..3 pushes the way model.py nests scopes)      *)
(* + OpsAt[depth] operations of the configured alphabet + closing           *)
(* (pop every open scope, then the testrun cleanups as run_model does).    *)
(* Every operation is applied to the implementation model (Context!Apply)  *)
(* and its predicted observation is fed to the property monitor            *)
(* (Context!MonStep); the INVARIANTs say that no clause fires.  Every     *)
(* closed history is printed with the predicted observation after every   *)
(* operation.                                                              *)
EXTENDS Context, TLC, Json
CONSTANTS OpsAt,       \* OpsAt[d] = number of operations after the prelude of depth d (0: depth not used);
                       \* prelude depths: 1 testrun, 2 +feature, 3 +feature+scenario, 4 +feature+rule+scenario
          UNames,      \* user names (indices into Pool) for set/setroot/del/use_or_*
          Vals,        \* user values
          WithFailed,  \* also set/setroot/del the root attribute `failed`
          WithRoot, WithUseOr, WithReads, WithMode, WithExec,
          MaxIds,      \* cleanup callables (0: no add_cleanup)
          ArgModes,    \* subset of {0,1}: bare / with args
          WithFixtures,
          WithAttrs,   \* set/del at all
          NestSet,     \* nested execute_steps variants <<depth, shapes, ok>>
          TwoRuns,     \* after the closing a second Context is built (same process) and gets OpsB operations
          OpsB,
          EqualLayers, \* also push a scenario layer inside a scenario layer and unnamed layers inside unnamed layers
          UseOrRoot    \* also use_or_assign / use_or_create on the pre-defined names text, table (value None)

VARIABLES ph, todo, s, m, ops, obs, lastv, n, maxn, rzOf, round
vars == <<ph, todo, s, m, ops, obs, lastv, n, maxn, rzOf, round>>

PreChain == << <<>>, <<2>>, <<2, 4>>, <<2, 3, 4>>, <<2, 4, 0>> >>      \* depth 5: ... + one unnamed layer
Init == /\ ph = "start" /\ todo = <<>> /\ s = SInit /\ m = MInit /\ ops = <<>> /\ obs = <<>>
        /\ lastv = {} /\ n = 0 /\ maxn = 0 /\ rzOf = <<0, 0, 0>> /\ round = 1

Do(op) == LET seq == Len(ops) + 1
              r == Apply(s, op, seq)
              mv == MonStep(m, op, r.ob, seq)
          IN /\ s' = r.s /\ m' = mv.m /\ ops' = Append(ops, op) /\ obs' = Append(obs, r.ob)
             /\ lastv' = mv.v

Start == /\ ph = "start"
         /\ \E d \in {x \in DOMAIN OpsAt : OpsAt[x] > 0} : /\ todo' = PreChain[d]
                                                     /\ maxn' = OpsAt[d]
                                                     /\ ph' = IF d = 1 THEN "run" ELSE "pre"
         /\ UNCHANGED <<s, m, ops, obs, lastv, n, rzOf, round>>
Prelude == /\ ph = "pre"
           /\ Do(OpPush(Head(todo)))
           /\ todo' = Tail(todo)
           /\ ph' = IF Tail(todo) = <<>> THEN "run" ELSE "pre"
           /\ UNCHANGED <<n, maxn, rzOf, round>>

Room == ph = "run" /\ n < maxn
Step(op) == Do(op) /\ n' = n + 1 /\ UNCHANGED <<ph, todo, maxn, round>>
Plain(op) == Step(op) /\ UNCHANGED rzOf
TopLayer == s.frames[Len(s.frames)].layer
\* scopes nest the way model.py nests them; one unnamed layer (scoped_context_layer(context)) below a scenario
NextLayers == CASE TopLayer = 1 -> {2} [] TopLayer = 2 -> {3, 4} [] TopLayer = 3 -> {4}
                [] TopLayer = 4 -> IF EqualLayers THEN {0, 4} ELSE {0}
                [] OTHER -> IF EqualLayers /\ Len(s.frames) < 7 THEN {0} ELSE {}
SetNames == UNames \cup (IF WithFailed THEN {NmFailed} ELSE {})
ValsOf(nm) == IF nm = NmFailed THEN {1} ELSE Vals
\* layer= choices: current, every layer on the stack, and one layer that is not on the stack
OnStack == {s.frames[k].layer : k \in DOMAIN s.frames} \ {0}
Missing == IF (1..4) \ OnStack = {} THEN 5 ELSE CHOOSE l \in (1..4) \ OnStack : \A l2 \in (1..4) \ OnStack : l <= l2
LayerChoices == {0} \cup OnStack \cup {Missing}
FreshOk(id) == IF id = 1 THEN TRUE ELSE rzOf[id - 1] # 0          \* callables are introduced in order (symmetry)
RzOk(id, rz) == rzOf[id] \in {0, rz + 1}  \* a callable either always raises or never

Push == Room /\ \E l \in NextLayers : Plain(OpPush(l))
Pop == Room /\ Len(s.frames) > 1 /\ Plain(OpPop)
Set == Room /\ WithAttrs /\ \E nm \in SetNames : \E v \in ValsOf(nm) : Plain(OpSet(nm, v))
SetRoot == Room /\ WithRoot /\ \E nm \in SetNames : \E v \in ValsOf(nm) : Plain(OpSetRoot(nm, v))
Get == Room /\ WithReads /\ \E nm \in SetNames : Plain(OpGet(nm))
Has == Room /\ WithReads /\ \E nm \in SetNames : Plain(OpHas(nm))
Del == Room /\ WithAttrs /\ \E nm \in SetNames : Plain(OpDel(nm))
UseOrNames == UNames \cup (IF UseOrRoot THEN {NmText, NmTable} ELSE {})
UseOrAssign == Room /\ WithUseOr /\ \E nm \in UseOrNames, v \in Vals : Plain(OpUseOrAssign(nm, v))
UseOrCreate == Room /\ WithUseOr /\ \E nm \in UseOrNames : Plain(OpUseOrCreate(nm, 2))
AddCleanup == Room /\ \E id \in 1..MaxIds, rz \in {0, 1}, a \in ArgModes, l \in LayerChoices :
                 /\ FreshOk(id) /\ RzOk(id, rz)
                 /\ Step(OpAddCleanup(id, rz, a, l))
                 /\ rzOf' = [rzOf EXCEPT ![id] = rz + 1]
UseFixture == Room /\ WithFixtures /\
                 \/ \E id \in 1..MaxIds, rz \in {0, 1}, kind \in {1, 4, 5} :
                       /\ FreshOk(id) /\ rzOf[id] = 0       \* a generator fixture is a fresh callable
                       /\ Step(OpUseFixture(kind, id, rz))
                       /\ rzOf' = [rzOf EXCEPT ![id] = rz + 1]
                 \/ Plain(OpUseFixture(2, 9, 0))
                 \/ Plain(OpUseFixture(3, 99, 0))
SwitchMode == Room /\ WithMode /\ Plain(OpSwitchMode)
ExecuteSteps == Room /\ WithExec /\ \E ok \in {0, 1} : Plain(OpExecSteps(ok))
ExecuteNested == Room /\ \E v \in NestSet : Plain(OpExecNested(v[1], v[2], v[3]))
\* a second Context in the same process (the callables keep their identity and their raising choice)
NewContext == /\ ph = "done" /\ TwoRuns /\ round = 1
              /\ Do(OpNewContext) /\ ph' = "run" /\ n' = 0 /\ maxn' = OpsB /\ round' = 2
              /\ UNCHANGED <<todo, rzOf>>
ClosePop == /\ ph \in {"run", "close"} /\ n = maxn /\ Len(s.frames) > 1
            /\ Do(OpPop) /\ ph' = "close" /\ UNCHANGED <<todo, n, maxn, rzOf, round>>
CloseRun == /\ ph \in {"run", "close"} /\ n = maxn /\ Len(s.frames) = 1
            /\ Do(OpEndRun) /\ ph' = "done" /\ UNCHANGED <<todo, n, maxn, rzOf, round>>

Next == \/ Start \/ Prelude \/ Push \/ Pop \/ Set \/ SetRoot \/ Get \/ Has \/ Del \/ UseOrAssign \/ UseOrCreate
        \/ AddCleanup \/ UseFixture \/ SwitchMode \/ ExecuteSteps \/ ExecuteNested \/ NewContext \/ ClosePop \/ CloseRun
Spec == Init /\ [][Next]_vars

\* ---------------------------------------------------------------- the clauses at design level
Fired(c) == {x \in lastv : x[1] = c}
Clean(c) == Fired(c) = {}
Visible == Clean("visible")
Shadow == Clean("shadow")
DeleteLocal == Clean("delete_local")
ScopeEnd == Clean("scope_end")
RootAttr == Clean("root_attr")
CleanupOnce == Clean("cleanup_once")
CleanupLifo == Clean("cleanup_lifo")
CleanupDespiteErrors == Clean("cleanup_despite_errors")
CleanupLayer == Clean("cleanup_layer")
FixtureCleanup == Clean("fixture_cleanup")
ExecStepsRestore == Clean("exec_steps_restore")
ApiErrors == Clean("api_errors")
\* the implementation model itself: scopes nest, the reference stack has the same shape and the same view
Shape == /\ Len(s.frames) = Len(m) /\ Len(s.frames) >= 1
         /\ \A k \in DOMAIN m : m[k].layer = s.frames[k].layer
ViewsAgree == \A i \in 1..NP : MLk(m, i) \in {Unknown, Lk(s.frames, i)}
\* operation budgets per prelude depth (cfg files cannot contain sequences)
Ops2223 == <<2, 2, 3, 2>>
Ops2222 == <<2, 2, 2, 2>>
Ops3333 == <<3, 3, 3, 3>>
Ops3332 == <<3, 3, 3, 2>>
Ops4444 == <<4, 4, 4, 4>>
Ops0040 == <<0, 0, 4, 0>>
Ops5000 == <<5, 0, 0, 0>>
Ops6000 == <<6, 0, 0, 0>>
OpsSim == <<50, 50, 50, 50>>
\* nested execute_steps variants
NestNone == {}
NestAll == {<<d, sh, ok>> : d \in {2}, sh \in 0..26, ok \in {0, 1}} \cup {<<d, sh, ok>> : d \in {3}, sh \in 0..80, ok \in {0, 1}}
NestFew == {<<2, 16, 1>>, <<2, 16, 0>>, <<2, 5, 0>>, <<3, 46, 1>>, <<3, 46, 0>>, <<3, 7, 1>>}
Ops1010 == <<1, 0, 1, 0>>
Ops1121 == <<1, 1, 2, 1>>
Ops2000 == <<2, 0, 0, 0>>
Ops2020 == <<2, 0, 2, 0>>
Ops3020 == <<3, 0, 2, 0>>
Ops00404 == <<0, 0, 4, 0, 4>>
Ops00403 == <<0, 0, 4, 0, 3>>
OpsSim5 == <<50, 50, 50, 50, 50>>
Emit == (ph = "done" /\ (~TwoRuns \/ round = 2)) => PrintT(<<"CASE", ToJson([ops |-> ops, obs |-> obs])>>)
=============================================================================
