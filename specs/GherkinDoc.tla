----------------------------- MODULE GherkinDoc -----------------------------
(***************************************************************************)
(* The document grammar of C04: well-formed abstract feature documents,    *)
(* built element by element.  The builder writes down, independently of    *)
(* the line machine, (a) the canonical line sequence `lines` (with         *)
(* optionally injected blank / comment lines, flagged in `inj`) and (b)    *)
(* the model `exp` that a faithful parser must return for these lines:     *)
(* elements in file order, parents, names, tags with their lines, step     *)
(* types (And/But/* inherit from the preceding step; And/But as first step *)
(* inherit from the last background step in effect, '*' as first step is a *)
(* Given and the steps after it inherit that), description lines,          *)
(* doc-string lines relative to the column of the opening quotes, table    *)
(* cells, and the 1-based line of everything.  GherkinDoc_MC checks        *)
(* Parse(lines) = exp with the machine of GherkinParser.tla.               *)
(* `marks` are the sub-ranges that are well-formed inputs of the other     *)
(* entry points (scenario, steps, rule, tags).                             *)
(***************************************************************************)
EXTENDS GherkinParser

G0 == [lines |-> <<>>, inj |-> <<>>, exp |-> <<>>, marks |-> <<>>, nid |-> 3, cur |-> "none",
       f |-> 0, cont |-> 0, stmt |-> 0, last |-> 0,
       nRules |-> 0, nScen |-> 0, nEx |-> 0, nSteps |-> 0, nStmts |-> 0, nStepsTot |-> 0,
       lastT |-> "", contBgT |-> "", inhT |-> "", featBgT |-> "",
       stA |-> 0, stKind |-> "", stStep |-> 0, stAlone |-> TRUE, ruleA |-> 0, done |-> FALSE]

Mark(e, a, z) == [e |-> e, a |-> a, z |-> z]
AddLine(g, ln, injected) == [g EXCEPT !.lines = Append(@, ln), !.inj = Append(@, injected)]
\* a line with one fresh payload
Fresh1(g, c, a) == [ln |-> Ln(c, a, <<g.nid>>), g |-> [g EXCEPT !.nid = @ + 1]]
AddFresh(g, c, a, injected) == LET f == Fresh1(g, c, a) IN AddLine(f.g, f.ln, injected)

\* blank / comment lines that must not matter
Inject(g, how) ==
   CASE how = "blank"   -> AddLine(g, Ln("_", "", <<>>), TRUE)
     [] how = "comment" -> AddFresh(g, "#", "", TRUE)
     [] how = "both"    -> AddLine(AddFresh(g, "#", "", TRUE), Ln("_", "", <<>>), TRUE)
     [] OTHER           -> g

\* ---------------------------------------------------------------- tag lines: returns the builder and the tags
TagLines(g0, layout) ==
   LET n  == g0.nid
       l0 == Len(g0.lines)
       g1 == CASE layout = "one"   -> AddLine(g0, Ln("Tags", "ok", <<n>>), FALSE)
               [] layout = "two"   -> AddLine(g0, Ln("Tags", "ok", <<n, n + 1>>), FALSE)
               [] layout = "cmt"   -> AddLine(g0, Ln("Tags", "cmt", <<n, n + 1>>), FALSE)
               [] layout = "multi" -> AddLine(AddLine(g0, Ln("Tags", "cmt", <<n>>), FALSE), Ln("Tags", "ok", <<n + 1, n + 2>>), FALSE)
               [] OTHER            -> g0
       tags == CASE layout = "one"   -> <<[t |-> n, l |-> l0 + 1]>>
                 [] layout \in {"two", "cmt"} -> <<[t |-> n, l |-> l0 + 1], [t |-> n + 1, l |-> l0 + 1]>>
                 [] layout = "multi" -> <<[t |-> n, l |-> l0 + 1], [t |-> n + 1, l |-> l0 + 2], [t |-> n + 2, l |-> l0 + 2]>>
                 [] OTHER            -> <<>>
       used == CASE layout = "one" -> 1 [] layout \in {"two", "cmt"} -> 2 [] layout = "multi" -> 3 [] OTHER -> 0
       g2 == [g1 EXCEPT !.nid = @ + used,
                        !.marks = IF layout = "none" THEN @ ELSE Append(@, Mark("tags", l0 + 1, Len(g1.lines)))]
   IN [g |-> g2, tags |-> tags]

\* ---------------------------------------------------------------- closing what is open
CloseStmt(g) ==
   IF g.stA = 0 THEN g
   ELSE LET z  == Len(g.lines)
            m1 == IF g.stKind = "scenario" /\ g.stAlone THEN <<Mark("scenario", g.stA, z)>> ELSE <<>>
            m2 == IF g.stKind \in {"scenario", "background"} /\ g.stAlone /\ g.stStep # 0 THEN <<Mark("steps", g.stStep, z)>> ELSE <<>>
        IN [g EXCEPT !.marks = @ \o m1 \o m2, !.stA = 0, !.stStep = 0]
CloseRule(g) == IF g.ruleA = 0 THEN g ELSE [g EXCEPT !.marks = Append(@, Mark("rule", g.ruleA, Len(g.lines))), !.ruleA = 0]

\* keyword line + 0..1 description lines; the element goes to exp
Header(g0, c, kind, par, tags, ndesc, lgv) ==
   LET f   == Fresh1(g0, c, "")
       g1  == AddLine(f.g, f.ln, FALSE)
       el  == [Elem(kind, Len(g1.lines), par, P1(f.ln), 0, tags) EXCEPT !.lg = lgv]
       g2  == IF ndesc = 0 THEN g1 ELSE AddFresh(g1, "t", "", FALSE)
       el2 == IF ndesc = 0 THEN el ELSE [el EXCEPT !.desc = <<g1.nid>>]
   IN [g2 EXCEPT !.exp = Append(@, el2), !.last = Len(g2.exp) + 1]

\* ---------------------------------------------------------------- the grammar
AddFeature(g0, layout, how, ndesc) ==
   LET a  == Inject(g0, how)
       t  == TagLines(a, layout)
       g  == Header(t.g, "F", "feature", 0, t.tags, ndesc, 1)
   IN [g EXCEPT !.cur = "feature", !.f = g.last, !.cont = g.last]

CanBackground(g) == g.cur \in {"feature", "rule"}
AddBackground(g0, how, ndesc) ==
   LET a == Inject(g0, how)
       g == Header(a, "B", "background", a.cont, <<>>, ndesc, 0)
   IN [g EXCEPT !.cur = "background", !.stmt = g.last, !.nSteps = 0, !.lastT = "", !.contBgT = "",
                !.stA = Len(a.lines) + 1, !.stKind = "background", !.stStep = 0, !.stAlone = TRUE]

CanRule(g) == g.cur \notin {"none"} /\ ~g.done
AddRule(g0, layout, how, ndesc) ==
   LET c == CloseRule(CloseStmt(g0))
       a == Inject(c, how)
       t == TagLines(a, layout)
       g == Header(t.g, "R", "rule", t.g.f, t.tags, ndesc, 0)
   IN [g EXCEPT !.cur = "rule", !.cont = g.last, !.stmt = 0, !.nRules = @ + 1, !.nScen = 0, !.nEx = 0,
                !.contBgT = "", !.inhT = g0.featBgT, !.lastT = "", !.ruleA = Len(a.lines) + 1]

CanScenario(g) == g.cur # "none" /\ ~g.done
AddScenario(g0, kind, layout, how, ndesc) ==
   LET c == CloseStmt(g0)
       a == Inject(c, how)
       t == TagLines(a, layout)
       g == Header(t.g, IF kind = "outline" THEN "O" ELSE "S", kind, t.g.cont, t.tags, ndesc, 0)
   IN [g EXCEPT !.cur = kind, !.stmt = g.last, !.nScen = @ + 1, !.nStmts = @ + 1, !.nEx = 0, !.nSteps = 0, !.lastT = "",
                !.stA = Len(a.lines) + 1, !.stKind = kind, !.stStep = 0, !.stAlone = TRUE]

\* the background type in effect for the current container
BgT(g) == IF g.contBgT # "" THEN g.contBgT ELSE g.inhT
StepType(g, kw) == IF kw \in {"given", "when", "then"} THEN kw
                   ELSE IF g.lastT # "" THEN g.lastT
                   ELSE IF kw = "star" THEN "given"          \* '*' opening a statement is a Given (it is listed there first)
                   ELSE BgT(g)
CanStep(g, kw) == g.cur \in {"background", "scenario", "outline"} /\ StepType(g, kw) # ""

\* doc-string bodies: sequences of [c, a, rel] (class, subclass, indentation relative to the opening quotes)
DocBody(variant, q) ==
   LET other == IF q = "dq" THEN "sq" ELSE "dq" IN
   CASE variant = "empty" -> <<>>
     [] variant = "one"   -> << <<"t", "", 0>> >>
     [] variant = "rich"  -> << <<"t", "", 0>>, <<"_", "", 0>>, <<"t", "", 2>>, <<"#", "", 1>>, <<"Doc", other, 0>>, <<"t", "", 0>> >>
     [] OTHER             -> << <<"t", "", 1>> >>
RECURSIVE AddDocBody(_,_,_)
AddDocBody(g, body, i) ==      \* returns the builder; the doc lines for exp are computed by DocExp
   IF i > Len(body) THEN g
   ELSE LET b  == body[i]
            ln == IF b[1] \in {"t", "#"} THEN [Ln(b[1], b[2], <<g.nid>>) EXCEPT !.ind = b[3]] ELSE [Ln(b[1], b[2], <<>>) EXCEPT !.ind = b[3]]
            g1 == IF b[1] \in {"t", "#"} THEN [g EXCEPT !.nid = @ + 1] ELSE g
        IN AddDocBody(AddLine(g1, ln, FALSE), body, i + 1)
RECURSIVE DocExp(_,_,_)
DocExp(body, nid, i) ==
   IF i > Len(body) THEN <<>>
   ELSE LET b == body[i] IN
        CASE b[1] \in {"t", "#"} -> <<[p |-> nid, ri |-> b[3]]>> \o DocExp(body, nid + 1, i + 1)
          [] b[1] = "_"          -> <<[p |-> 0, ri |-> 0]>> \o DocExp(body, nid, i + 1)
          [] OTHER               -> <<[p |-> QuoteId(b[2]), ri |-> b[3]]>> \o DocExp(body, nid, i + 1)

\* tables: variant -> number of columns, rows (each row: sequence of "x" fresh / "e" empty cell), gap (injected line between rows)
TableShape(variant) ==
   CASE variant = "none" -> <<>>                      \* (Examples: without any table -- legal, the outline then has no rows there)
     [] variant = "1x1" -> << <<"x">> >>
     [] variant = "2x2" -> << <<"x", "x">>, <<"x", "e">> >>
     [] variant = "1x3" -> << <<"x">>, <<"e">>, <<"x">> >>
     [] OTHER           -> << <<"x", "x">>, <<"e", "x">>, <<"x", "x">> >>
RECURSIVE RowCells(_,_,_)
RowCells(shape, nid, j) == IF j > Len(shape) THEN <<>>
                           ELSE IF shape[j] = "e" THEN <<0>> \o RowCells(shape, nid, j + 1)
                           ELSE <<nid>> \o RowCells(shape, nid + 1, j + 1)
NFresh(shape) == Cardinality({j \in DOMAIN shape : shape[j] = "x"})
\* returns [g, rows]
RECURSIVE AddRows(_,_,_,_,_)
AddRows(g, shape, i, gap, rows) ==
   IF i > Len(shape) THEN [g |-> g, rows |-> rows]
   ELSE LET g0    == IF i = 2 THEN Inject(g, gap) ELSE g
            cells == RowCells(shape[i], g0.nid, 1)
            g1    == AddLine([g0 EXCEPT !.nid = @ + NFresh(shape[i])], Ln("Row", "ok", cells), FALSE)
        IN AddRows(g1, shape, i + 1, gap, Append(rows, [l |-> Len(g1.lines), cells |-> cells]))

\* arg: <<"none">> | <<"doc", quote, variant>> | <<"table", variant, gap>>
AddStep(g0, kw, arg, how) ==
   LET a   == Inject(g0, how)
       ty  == StepType(a, kw)
       f   == Fresh1(a, "Step", kw)
       g1  == AddLine(f.g, f.ln, FALSE)
       el  == [Elem("step", Len(g1.lines), g1.stmt, P1(f.ln), 0, <<>>) EXCEPT !.st = ty]
       first == g1.nSteps = 0
       base == [g1 EXCEPT !.nSteps = @ + 1, !.nStepsTot = @ + 1, !.lastT = ty,
                          !.contBgT = IF g1.cur = "background" THEN ty ELSE @,
                          !.featBgT = IF g1.cur = "background" /\ g1.cont = g1.f THEN ty ELSE @,
                          !.stStep = IF first THEN Len(g1.lines) ELSE @,
                          !.stAlone = IF first THEN kw \in {"given", "when", "then", "star"} ELSE @]
   IN CASE arg[1] = "doc" ->
             LET body == DocBody(arg[3], arg[2])
                 op   == AddLine(base, Ln("Doc", arg[2], <<>>), FALSE)
                 bd   == AddDocBody(op, body, 1)
                 cl   == AddLine(bd, Ln("Doc", arg[2], <<>>), FALSE)
                 el2  == [el EXCEPT !.hasdoc = TRUE, !.docline = Len(op.lines), !.doc = DocExp(body, op.nid, 1)]
             IN [cl EXCEPT !.exp = Append(@, el2), !.last = Len(cl.exp) + 1]
        [] arg[1] = "table" ->
             LET r   == AddRows(base, TableShape(arg[2]), 1, arg[3], <<>>)
                 el2 == [el EXCEPT !.hastab = TRUE, !.rows = r.rows]
             IN [r.g EXCEPT !.exp = Append(@, el2), !.last = Len(r.g.exp) + 1]
        [] OTHER -> [base EXCEPT !.exp = Append(@, el), !.last = Len(base.exp) + 1]

CanExamples(g) == g.cur \in {"outline", "examples"} /\ g.nSteps > 0
AddExamples(g0, layout, how, variant, gap) ==
   LET a  == Inject(g0, how)
       t  == TagLines(a, layout)
       f  == Fresh1(t.g, "E", "")
       g1 == AddLine(f.g, f.ln, FALSE)
       el == Elem("examples", Len(g1.lines), g1.stmt, P1(f.ln), 0, t.tags)
       r  == AddRows(g1, TableShape(variant), 1, gap, <<>>)
       el2 == [el EXCEPT !.hastab = (r.rows # <<>>), !.rows = r.rows]
   IN [r.g EXCEPT !.exp = Append(@, el2), !.last = Len(r.g.exp) + 1, !.cur = "examples", !.nEx = @ + 1]

Finish(g0, how) == LET c == CloseRule(CloseStmt(g0)) IN [Inject(c, how) EXCEPT !.done = TRUE]

\* ---------------------------------------------------------------- relating runs with and without the injected lines
Plain(g) == LET keep == {j \in DOMAIN g.lines : ~g.inj[j]}
                RECURSIVE Pick(_)
                Pick(j) == IF j > Len(g.lines) THEN <<>> ELSE (IF j \in keep THEN <<g.lines[j]>> ELSE <<>>) \o Pick(j + 1)
            IN Pick(1)
\* line number after removing the injected lines
NewNo(g, n) == n - Cardinality({j \in 1..n : g.inj[j]})
MapLines(elems, F(_)) ==
   [j \in DOMAIN elems |->
      LET e == elems[j] IN
      [e EXCEPT !.line = F(e.line), !.docline = IF e.hasdoc THEN F(e.docline) ELSE 0,
                !.tags = [q \in DOMAIN e.tags |-> [t |-> e.tags[q].t, l |-> F(e.tags[q].l)]],
                !.rows = [q \in DOMAIN e.rows |-> [l |-> F(e.rows[q].l), cells |-> e.rows[q].cells]]]]
=============================================================================
