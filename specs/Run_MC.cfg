INIT Init
NEXT Next
INVARIANT CtxMirrorsStack
INVARIANT DoneMeansUnwound
INVARIANT Emit
