---------------------------- MODULE RunCli_Trace ----------------------------
(* C01.exit_code: rows recorded from `python -m behave` child processes (events written by the generated             *)
(* environment.py / step module, process exit code) for cases of the run cluster.                                    *)
EXTENDS Props_Run, Json, IOUtils
Rows == ndJsonDeserialize(IOEnv.TRACE_FILE)
VARIABLE i
Init == i = 1
Next == /\ i <= Len(Rows)
        /\ \A c \in ExitClauses(Rows[i]) : PrintT(<<"VERDICT", Rows[i].id, c>>)
        /\ i' = i + 1
Spec == Init /\ [][Next]_i
Done == PrintT(<<"DONE", Len(Rows), TLCGet("stats").diameter>>)
=============================================================================
