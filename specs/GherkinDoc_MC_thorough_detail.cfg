INIT Init
NEXT Next
CONSTANTS
  MaxRules = 1
  MaxScen = 1
  MaxEx = 1
  MaxSteps = 2
  MaxStmts = 8
  MaxStepsTot = 14
  MaxLines = 95
  MaxElems = 3
  LayoutsF = {"none", "two", "multi"}
  Layouts = {"none", "one", "cmt"}
  Hows = {"none", "both"}
  Descs = {0, 1}
  StepKws <- AllKws
  Args <- ArgsFull
  ExVariants = {"none", "2x2", "1x3", "2x3"}
  Gaps = {"none", "blank", "comment"}
INVARIANT Faithful
INVARIANT Neutral
INVARIANT Emit
