"""Batch trace validation: rows recorded from the implementation -> TLC judge -> verdicts."""
import os
import shutil
import tempfile
from concurrent.futures import ThreadPoolExecutor

from . import tlc as _tlc


def judge_rows(chk, module, rows, cfg=None, chunks=8, env=None, timeout=1800, id_field="id",
               min_chunk=50, workers=1):
    """Validate `rows` (list of JSON-able dicts, each with a unique id_field) with the TLC trace
    module `module` (reads IOEnv.TRACE_FILE, prints <<"VERDICT", id, clause, ...>> and a
    POSTCONDITION line <<"DONE", n, diameter>>).  Returns {id: [verdict tuples]}.
    Raises TlcError if a chunk was not consumed completely (truncated validation is a machinery
    failure, never a pass)."""
    if not rows:
        return {}
    n = max(1, min(chunks, len(rows) // min_chunk or 1))
    size = (len(rows) + n - 1) // n
    parts = [rows[k:k + size] for k in range(0, len(rows), size)]
    tmp = tempfile.mkdtemp(prefix="verif-rows-")
    try:
        files = []
        for k, part in enumerate(parts):
            path = os.path.join(tmp, "rows%d.ndjson" % k)
            _tlc.write_ndjson(path, part)
            files.append(path)

        def one(k):
            e = dict(env or {})
            e["TRACE_FILE"] = files[k]
            return _tlc.run_tlc(module, cfg, env=e, workers=workers, timeout=timeout, coverage=False, heap="2g")

        with ThreadPoolExecutor(max_workers=len(parts)) as ex:
            results = list(ex.map(one, range(len(parts))))
    finally:
        shutil.rmtree(tmp, ignore_errors=True)
    verdicts = {}
    for k, r in enumerate(results):
        chk.tlc_runs.append((module, cfg or module + ".cfg", r))
        if r.violated or r.errors:
            raise _tlc.TlcError("trace judge %s failed: %s %s" % (module, r.violated, r.errors[:3]))
        done = r.by_tag("DONE")
        if not done or done[-1][1] != len(parts[k]) or done[-1][2] < len(parts[k]) + 1:
            raise _tlc.TlcError("trace judge %s consumed %s of %d rows" % (module, done[-1:] , len(parts[k])))
        for t in r.by_tag("VERDICT"):
            verdicts.setdefault(t[1], []).append(t)
    return verdicts
