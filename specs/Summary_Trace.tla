--------------------------- MODULE Summary_Trace ---------------------------
(* Judge of C14 on rows recorded from real runs (and from real models with  *)
(* statuses set through the public API).  A row is                          *)
(*   [id, prog: Seq([kind, children]), end: [status, step_status,           *)
(*    ran_status, ran_step_status, live_ok],                                            *)
(*    c14: [reps: Seq(observation), col: collector observation]]            *)
(* (formats of the observations: Summary.tla).  The census is computed here *)
(* from the recorded final statuses -- Python never counts.  One state per  *)
(* row; every violated clause is printed as                                 *)
(*   <<"VERDICT", id, clause, impl, fmt, kind>>                             *)
(* and every difference between what the transcription (S) predicts for     *)
(* the recorded model and what the code printed as                          *)
(*   <<"VERDICT", id, "DIVERGE", impl, fmt, "-">>  (informational: full      *)
(* conformance; the driver counts these as divergences, not violations).    *)
EXTENDS Summary, Json, IOUtils
Rows == ndJsonDeserialize(IOEnv.TRACE_FILE)
VARIABLE i
Init == i = 1

ModelOf(r) == [kind |-> [e \in DOMAIN r.prog |-> r.prog[e].kind], children |-> [e \in DOMAIN r.prog |-> r.prog[e].children],
               \* a scenario (outline row) object that was announced during the run counts with the status it -- and its
               \* steps -- finally have (ran_status, ran_step_status; "" = never announced); the others with what the
               \* model shows after the run
               status |-> [e \in DOMAIN r.prog |-> IF r.end.ran_status[e] # "" THEN r.end.ran_status[e] ELSE r.end.status[e]],
               steps |-> [e \in DOMAIN r.prog |-> IF r.end.ran_status[e] # "" THEN r.end.ran_step_status[e] ELSE r.end.step_status[e]]]
ObsOf(r) == [reps |-> r.c14.reps, col |-> r.c14.col, live_ok |-> r.end.live_ok]

Diverging(r, m) ==
   LET v1 == V1Run(m)  col == ColRun(m)
       Pred(o) == IF o.impl = "V2" THEN SpecV2(col, o.fmt) ELSE [SpecV1(v1, o.fmt) EXCEPT !.impl = o.impl]
       reps == Observed(ObsOf(r))              \* V2 included: compared, not judged
   IN {<<reps[j].impl, reps[j].fmt>> : j \in {jj \in DOMAIN reps : reps[jj] # Pred(reps[jj])}}
      \cup (IF r.c14.col.crashed # "" \/ r.c14.col.failing # col.failed \/ r.c14.col.errored # col.errored
            THEN {<<"collector", "-">>} ELSE {})

Next == /\ i <= Len(Rows)
        /\ LET r == Rows[i]  m == ModelOf(r) IN
           /\ \A v \in Clauses(m, ObsOf(r)) : PrintT(<<"VERDICT", r.id, v[1], v[2], v[3], v[4]>>)
           /\ \A d \in Diverging(r, m) : PrintT(<<"VERDICT", r.id, "DIVERGE", d[1], d[2], "-">>)
        /\ i' = i + 1
Spec == Init /\ [][Next]_i
Done == PrintT(<<"DONE", Len(Rows), TLCGet("stats").diameter>>)
=============================================================================
