INIT Init
NEXT Next
CONSTANTS
  MaxLen = 5
  NB = 30
  Alphabet <- AlphaFull
INVARIANT NoCrash
INVARIANT ErrorLineInRange
INVARIANT ErrorAtLastLine
INVARIANT Emit
INVARIANT EmitAlphabet
