INIT Init
NEXT Next
CONSTANTS
  MaxRules = 0
  MaxScen = 1
  MaxEx = 1
  MaxSteps = 3
  MaxStmts = 1
  MaxStepsTot = 3
  MaxLines = 60
  LayoutsF = {"none", "two"}
  Layouts = {"none", "cmt", "multi"}
  Hows = {"none", "both"}
  Descs = {0, 1}
  StepKws <- AllKws
  Args <- ArgsMid
  ExVariants = {"2x2", "1x3"}
  Gaps = {"none", "comment"}
INVARIANT Faithful
INVARIANT Neutral
