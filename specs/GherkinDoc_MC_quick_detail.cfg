INIT Init
NEXT Next
CONSTANTS
  MaxRules = 1
  MaxScen = 1
  MaxEx = 1
  MaxSteps = 2
  MaxStmts = 8
  MaxStepsTot = 14
  MaxLines = 95
  MaxElems = 3
  LayoutsF = {"none", "multi"}
  Layouts = {"none", "cmt"}
  Hows = {"none"}
  Descs = {0, 1}
  StepKws <- AllKws
  Args <- ArgsMid
  ExVariants = {"2x2", "1x3"}
  Gaps = {"none", "comment"}
INVARIANT Faithful
INVARIANT Neutral
INVARIANT Emit
