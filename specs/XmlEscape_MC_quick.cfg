INIT Init
NEXT Next
CONSTANTS
  Tiers <- TiersQuick
  EmitMaxLen = 4
  SampleMod = 1
INVARIANT WellFormedAfterPipeline
INVARIANT KFNarrow
INVARIANT Emit
