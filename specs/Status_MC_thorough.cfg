INIT Init
NEXT Next
CONSTANTS
  MaxLen = 4
  HookMaxLen = 2
INVARIANT Partition
INVARIANT CodeWithinDoc
INVARIANT DocSane
INVARIANT NoCrashOnDocumented
INVARIANT Emit
