----------------------------- MODULE XmlEscape -----------------------------
(***************************************************************************)
(* C16 (well-formedness part): what behave's JUnit reporter does to the    *)
(* characters of names, messages and captured output, and an XML 1.0       *)
(* lexical acceptor for the places where it writes them.                   *)
(*                                                                         *)
(* A text is a sequence of CHARACTER CLASSES (one symbol per character).   *)
(* (S) the pipelines as the code implements them                           *)
(*     attribute value: xml.etree.ElementTree._escape_attrib               *)
(*     CDATA section  : behave.formatter.ansi_escapes.strip_escapes (in    *)
(*                      junit.CDATA()) -> junit.escape_CDATA (`]]>` ->      *)
(*                      `]]&gt;`, then _escape_invalid_xml_chars) -> the    *)
(*                      patched serializer writes <![CDATA[ text ]]>       *)
(*     element text   : ElementTree._escape_cdata (not used by the         *)
(*                      reporter for payloads; modelled for completeness)  *)
(* (P) AcceptAttr / AcceptCdata / AcceptText: the XML 1.0 productions      *)
(*     AttValue, CDSect, CharData+Reference on class sequences.            *)
(* Pure definitions; XmlEscape_MC enumerates class strings, XmlEscape_Trace*)
(* judges rows recorded from real behave runs with --junit.                *)
(***************************************************************************)
EXTENDS Naturals, Sequences, FiniteSets

\* ---------------------------------------------------------------- character classes
\* plain    : a character without any role below (letters, blank, ';', '#', '+', ...)
\* ws       : TAB, LF, CR                  c0   : C0 control other than TAB/LF/CR/ESC that str.strip() keeps
\* c0ws     : C0 control that str.strip() removes (VT, FF, FS, GS, RS, US)
\* esc      : U+001B                       lbr  : '['     digit : 0-9 (and any \d)     m : 'm' or 'A' (ends an ANSI sequence)
\* delc1    : U+007F..U+0084, U+0086..U+009F (legal but discouraged XML characters)
\* fffe     : U+FFFE, U+FFFF (not XML characters)
\* astral   : U+10000.. (legal)            nonascii : other BMP non-ASCII (legal)
Classes == {"plain", "lt", "amp", "quot", "apos", "rbr", "gt", "ws", "c0", "c0ws", "delc1", "esc", "lbr", "digit", "m",
            "fffe", "astral", "nonascii"}
\* symbols that only the escapers produce: the letters of an entity name, ';', '#', the digits of a character reference
OutOnly == {"name", "semi", "hash", "refdigit"}
\* XML 1.0 production [2] Char: #x9 | #xA | #xD | [#x20-#xD7FF] | [#xE000-#xFFFD] | [#x10000-#x10FFFF]
NotXmlChar == {"c0", "c0ws", "esc", "fffe"}
\* junit._invalid_re (the classes it replaces by the text U+dddd)
ReplacedByJunit == {"c0", "c0ws", "esc", "delc1", "fffe"}

RECURSIVE Flat(_)
Flat(ss) == IF ss = <<>> THEN <<>> ELSE Head(ss) \o Flat(Tail(ss))
Map(s, F(_)) == Flat([k \in DOMAIN s |-> F(s[k])])

\* ---------------------------------------------------------------- (S) ElementTree._escape_attrib / _escape_cdata
Ref(n) == <<"amp">> \o [k \in 1..n |-> "name"] \o <<"semi">>          \* &amp; &lt; &gt; &quot;
CharRef == <<"amp", "hash", "refdigit", "refdigit", "semi">>           \* &#09; &#10; &#13;
EscAttrSym(c) == CASE c = "amp" -> Ref(3) [] c = "lt" -> Ref(2) [] c = "gt" -> Ref(2) [] c = "quot" -> Ref(4)
                   [] c = "ws" -> CharRef [] OTHER -> <<c>>
\* The reporter hands attribute values to ElementTree as they are.  (If it ever passes them through
\* _escape_invalid_xml_chars first -- the drafted repair of DESIGN 8 #3 -- set this to TRUE: the specification
\* follows the code.)
AttrFiltersInvalid == TRUE
EscTextSym(c) == CASE c = "amp" -> Ref(3) [] c = "lt" -> Ref(2) [] c = "gt" -> Ref(2) [] OTHER -> <<c>>
EscapeText(s) == Map(s, EscTextSym)
\* str.strip() as applied to the exception text that becomes @message (it also removes blanks and non-ASCII
\* white space, which are harmless members of "plain" / "nonascii" wherever they stand)
Blank == {"ws", "c0ws"}
RECURSIVE LTrim(_)
LTrim(s) == IF s # <<>> /\ Head(s) \in Blank THEN LTrim(Tail(s)) ELSE s
RECURSIVE RTrim(_)
RTrim(s) == IF s # <<>> /\ s[Len(s)] \in Blank THEN RTrim(SubSeq(s, 1, Len(s) - 1)) ELSE s
Trim(s) == RTrim(LTrim(s))

\* ---------------------------------------------------------------- (S) ansi_escapes.strip_escapes
\* re.sub of ESC '[' \d+ [mA] : leftmost, non-overlapping, ONE pass (text that becomes adjacent is not rescanned)
RECURSIVE DigitsEnd(_,_)
DigitsEnd(s, j) == IF j <= Len(s) /\ s[j] = "digit" THEN DigitsEnd(s, j + 1) ELSE j   \* first index after the digit run
AnsiEnd(s, i) ==      \* index of the last character of an ANSI sequence starting at i, 0 if there is none
   IF i + 3 <= Len(s) /\ s[i] = "esc" /\ s[i + 1] = "lbr" /\ s[i + 2] = "digit"
   THEN LET j == DigitsEnd(s, i + 2) IN IF j <= Len(s) /\ s[j] = "m" THEN j ELSE 0
   ELSE 0
RECURSIVE StripFrom(_,_)
StripFrom(s, i) == IF i > Len(s) THEN <<>>
                   ELSE IF AnsiEnd(s, i) > 0 THEN StripFrom(s, AnsiEnd(s, i) + 1)
                   ELSE <<s[i]>> \o StripFrom(s, i + 1)
StripEscapes(s) == StripFrom(s, 1)

\* ---------------------------------------------------------------- (S) junit.escape_CDATA
\* text.replace("]]>", "]]&gt;"): left to right, non-overlapping
RECURSIVE ReplTermFrom(_,_)
ReplTermFrom(s, i) ==
   IF i > Len(s) THEN <<>>
   ELSE IF i + 2 <= Len(s) /\ s[i] = "rbr" /\ s[i + 1] = "rbr" /\ s[i + 2] = "gt"
        THEN <<"rbr", "rbr">> \o Ref(2) \o ReplTermFrom(s, i + 3)
   ELSE <<s[i]>> \o ReplTermFrom(s, i + 1)
\* _escape_invalid_xml_chars: every character of _invalid_re becomes the text "U+" and decimal digits
InvalidSym(c) == IF c \in ReplacedByJunit THEN <<"plain", "plain", "digit", "digit", "digit", "digit">> ELSE <<c>>
EscapeCDATA(s) == IF s = <<>> THEN s ELSE Map(ReplTermFrom(s, 1), InvalidSym)
EscAttrFiltered(c) == IF c \in ReplacedByJunit THEN InvalidSym(c) ELSE EscAttrSym(c)
EscapeAttr(s) == IF AttrFiltersInvalid THEN Map(s, EscAttrFiltered) ELSE Map(s, EscAttrSym)

\* ---------------------------------------------------------------- the pipelines per context
Contexts == {"attr", "cdata", "text"}
Pipeline(ctx, s) == CASE ctx = "attr"  -> EscapeAttr(s)
                      [] ctx = "cdata" -> EscapeCDATA(StripEscapes(s))     \* written between <![CDATA[ and ]]>
                      [] ctx = "text"  -> EscapeText(s)

\* ---------------------------------------------------------------- (P) XML 1.0 lexical acceptor
IsXmlChar(c) == c \notin NotXmlChar
\* [67] Reference ::= '&' Name ';' | '&#' [0-9]+ ';' -- accepted only in the forms an escaper produces (a '&' followed
\* by anything else, e.g. a plain character that could be a blank, is rejected)
RECURSIVE RunEnd(_,_,_)
RunEnd(o, j, sym) == IF j <= Len(o) /\ o[j] = sym THEN RunEnd(o, j + 1, sym) ELSE j
RefOK(o, i) ==
   IF i + 1 > Len(o) THEN FALSE
   ELSE IF o[i + 1] = "name" THEN LET j == RunEnd(o, i + 1, "name") IN j <= Len(o) /\ o[j] = "semi"
   ELSE IF o[i + 1] = "hash" THEN LET j == RunEnd(o, i + 2, "refdigit") IN j > i + 2 /\ j <= Len(o) /\ o[j] = "semi"
   ELSE FALSE
HasTerminator(o) == \E i \in 1..(Len(o) - 2) : o[i] = "rbr" /\ o[i + 1] = "rbr" /\ o[i + 2] = "gt"
\* [10] AttValue ::= '"' ([^<&"] | Reference)* '"'
AcceptAttr(o) == \A i \in DOMAIN o : /\ IsXmlChar(o[i]) /\ o[i] \notin {"lt", "quot"}
                                     /\ (o[i] = "amp" => RefOK(o, i))
\* [18] CDSect ::= '<![CDATA[' (Char* - (Char* ']]>' Char*)) ']]>'
AcceptCdata(o) == (\A i \in DOMAIN o : IsXmlChar(o[i])) /\ ~HasTerminator(o)
\* [14] CharData ::= [^<&]* - ([^<&]* ']]>' [^<&]*), [43] content ::= CharData? (Reference CharData?)*
AcceptText(o) == /\ \A i \in DOMAIN o : IsXmlChar(o[i]) /\ o[i] # "lt" /\ (o[i] = "amp" => RefOK(o, i))
                 /\ ~HasTerminator(o)
Accept(ctx, o) == CASE ctx = "attr" -> AcceptAttr(o) [] ctx = "cdata" -> AcceptCdata(o) [] ctx = "text" -> AcceptText(o)

WellFormed(ctx, s) == Accept(ctx, Pipeline(ctx, s))

\* ---------------------------------------------------------------- the named family of the known deviation
\* KF_C16_attr_ctrl (DESIGN 8 #3): a character that is not an XML character (C0 control, ESC, U+FFFE/U+FFFF) is
\* written raw into an XML attribute
Range(q) == {q[i] : i \in DOMAIN q}
KF_C16_attr_ctrl(ctx, s) == ctx = "attr" /\ ~AttrFiltersInvalid /\ Range(s) \cap NotXmlChar # {}

\* ---------------------------------------------------------------- where the reporter puts what (sources of text)
Sources == {"feature_name", "scenario_name", "step_name", "message", "stdout", "stderr", "group"}
\* feature name  -> testsuite@name, testcase@classname
\* scenario name -> testcase@name and the scenario description in system-out (CDATA)
\* step name     -> step lines in system-out / failure text (CDATA)
\* message       -> failure@message / error@message (str(exception).strip()) and the traceback text (CDATA)
\* stdout/stderr -> system-out / system-err (CDATA)
\* "group"     -> a document in which several sources carried the payload (only used when no single source
\*                  reproduces what the whole document showed)
CtxOf(src) == CASE src = "feature_name" -> {"attr"}
                [] src \in {"scenario_name", "message", "group"} -> {"attr", "cdata"}
                [] OTHER -> {"cdata"}
TextIn(src, ctx, s) == IF src = "message" /\ ctx = "attr" THEN Trim(s) ELSE s
SourceWellFormed(src, ctx, s) == WellFormed(ctx, TextIn(src, ctx, s))
=============================================================================
