"""C15 projection of a finished run: what the built-in report writers left on disk.

project(env) reads <outdir>/out_json.txt (or out_json_pretty.txt), out_plain.txt, out_progress.txt, out_progress2.txt,
out_progress3.txt -- whichever exist; for a formatter the case ran WITHOUT -o (case["stdout_formats"], appended to the
command line behind the formatters that have a file) the text the run wrote to the real stdout -- and returns (every key always present, neutral defaults, no null):
  json     {present, valid (json.loads succeeded and gave a list), features: [{el, status, els: [{type, el, status,
            steps: [{pos, match, status}]}]}]}      el = abstract id at the element's `location` (0 = nothing starts
            there), status "" = key absent or null; step pos = abstract position in its scenario via the `fbg k` /
            `rbg k` / `own k` text (0 = unknown); for a background element pos = index of the step in the element
            (its text may carry outline placeholders).
  readback {done, parse_exc (exception type of behave.json_parser.parse(file)), exc (exception type of
            JsonParser().parse_features(json.load(..))), line_is_text (feature.line of the returned model is no int, so
            str(feature.location) raises), features: [{el, scens: [{el, npre, steps: [{pos, status}]}]}],
            tables: [{el, pos, headings, rows}] data tables of the steps of the returned scenarios}
            scens = feature.walk_scenarios() of the returned model, steps = scenario.steps, npre = number of steps that
            scenario.all_steps has in front of them.
  plain    {present, lines: [{scen, pos, status}]}  the `Given own 1 ... passed in 0.000s` lines (one regex) in file
            order, scen = id of the last `Scenario:` heading above.
  p2       {present, lines: [{feat, chars}]}        progress2: `<file>  <status characters>` per feature
  p3       {present, lines: [{scen, chars}]}        progress3: `<scenario name>  <status characters>` per scenario
  p1       {present, lines: [{feat, chars}]}        progress (scenario variant)
  tables   {json, model: [{el, pos, headings, rows}], jtext, mtext: [{el, pos, lines}]}  data tables / doc-strings of the
            steps of scenario elements in the JSON report, and of scenario.all_steps of the model after the run
            (step.table.headings, row.cells, step.text), in document order
  quiet_stdout  the run had no formatter on stdout and wrote nothing at all to the real stdout (behave's own messages
            such as "ABORTED: By user.", HOOK-ERROR / CLEANUP-ERROR tracebacks, uncaptured step output would show here)
  error    "" or what could not be read at all
Python only reads and maps; what the reports should contain is decided by specs/Consumers_Trace.tla."""
import json
import os
import re

STATUS_CHARS = ".FEHS_puUP"
_STEP = re.compile(r"^\s+(?:Given|When|Then|And|But|\*) (?:with \S+ )?(?:nodef |bad )?(fbg|rbg|own) (\d+) \.\.\. (\w+)(?: in [\d.]+s)?$")
_HEAD = re.compile(r"^\s+Scenario(?: Outline| Template)?: (.*)$")
_NAME = re.compile(r"(fbg|rbg|own) (\d+)$")
_P2 = re.compile(r"^(\S+\.feature)  ([%s]*)$" % re.escape(STATUS_CHARS))
_P3 = re.compile(r"^\s+((?:S\d+)|(?:O\d+ -- @\d+\.\d+ ))  ([%s]*)$" % re.escape(STATUS_CHARS))


def _read(path):
    if isinstance(path, tuple):             # ("stdout", text): the report of a formatter without -o
        return path[1]
    with open(path, encoding="utf-8", errors="replace") as fh:
        return fh.read()


def _first(outdir, names, env=None, formats=()):
    """where the report of one of `formats` is: the real stdout of the run if the case ran that formatter without -o
    (case["stdout_formats"]), else the first existing file of `names`"""
    on_stdout = ((env.case or {}).get("stdout_formats") or []) if env is not None else []
    if any(f in on_stdout for f in formats):
        return ("stdout", env.real_out or "")
    for n in names:
        p = os.path.join(outdir, n)
        if os.path.exists(p):
            return p
    return None


class _Map(object):
    def __init__(self, env):
        self.R = env.rendered
        self.elems = env.flat["elems"]
        self.fidx = {fn: i for i, (fn, _t) in enumerate(self.R.files)}
        self.name2el = {}
        for f in env.feats:
            try:
                for s in f.walk_scenarios():
                    self.name2el[s.name.strip()] = env.elid(s)
            except Exception:       # the model itself is C04's business
                pass

    def loc(self, location):
        name, _, line = str(location).rpartition(":")
        try:
            return self.R.by_loc.get((self.fidx.get(os.path.basename(name), -1), int(line)), 0)
        except ValueError:
            return 0

    def at(self, x):
        """element id of a model object by its public filename / line attributes (line may be text after a read-back)"""
        try:
            return self.R.by_loc.get((self.fidx.get(os.path.basename(x.filename), -1), int(x.line)), 0)
        except (TypeError, ValueError):
            return 0

    def pos(self, sid, name):
        m = _NAME.search(name or "")
        if not m or not (1 <= sid <= len(self.elems)):
            return 0
        for i, s in enumerate(self.elems[sid - 1]["steps"]):
            if s["org"] == m.group(1) and s["k"] == int(m.group(2)):
                return i + 1
        return 0

    def scen(self, name):
        return self.name2el.get((name or "").strip(), 0)

    def feature_of_file(self, fn):
        i = self.fidx.get(os.path.basename(fn), -1)
        for e in self.elems:
            if e["kind"] == "feature" and e["fidx"] == i:
                return e["id"]
        return 0


def _kpos(M, el, name, headings, rows):
    """position of a step: by its text -- or, for a twin step (prog["dupsteps"]: a step that repeats the text of the step
    before it), by the number in its one-cell table | k | n |"""
    try:
        if [str(h) for h in (headings or [])] == ["k"] and len(rows or []) == 1:
            return M.pos(el, "own %d" % int(str(list(rows[0])[0])))
    except (ValueError, TypeError, IndexError):
        pass
    return M.pos(el, name)


def _json(path, M):
    out = {"present": path is not None, "valid": False, "features": []}
    if path is None:
        return out, None
    try:
        data = json.loads(_read(path))
    except ValueError:
        return out, None
    if not isinstance(data, list):
        return out, None
    out["valid"] = True
    for f in data:
        fe = {"el": M.loc(f.get("location", "")), "status": f.get("status") or "", "els": []}
        for x in f.get("elements", []):
            typ = x.get("type", "")
            el = 0 if typ == "background" else M.loc(x.get("location", ""))
            steps = []
            for k, s in enumerate(x.get("steps", [])):
                res = s.get("result") or {}
                tb = s.get("table") or {}
                steps.append({"pos": k + 1 if typ == "background" else _kpos(M, el, s.get("name"), tb.get("headings"), tb.get("rows")),
                              "match": "match" in s, "status": res.get("status") or ""})
            fe["els"].append({"type": typ, "el": el, "status": x.get("status") or "", "steps": steps})
        out["features"].append(fe)
    return out, data


def _readback(path, data, M):
    out = {"done": False, "parse_exc": "", "exc": "", "line_is_text": False, "features": [], "tables": []}
    if path is None or data is None:
        return out
    out["done"] = True
    from behave import json_parser
    try:
        if not isinstance(path, tuple):                     # parse() reads a file
            json_parser.parse(path)
    except Exception as x:                                  # noqa -- recorded, judged by C15.json_readback
        out["parse_exc"] = type(x).__name__
    try:
        feats = json_parser.JsonParser().parse_features(data)
        for f in feats:
            fe = {"el": M.at(f), "scens": []}
            if not isinstance(f.line, int):
                out["line_is_text"] = True
            for s in f.walk_scenarios():
                sid = M.at(s)
                own = list(s.steps)
                allsteps = list(s.all_steps)
                for st in own:
                    if st.table is not None:
                        out["tables"].append({"el": sid, "pos": _kpos(M, sid, st.name, st.table.headings, [r.cells for r in st.table.rows]), "headings": [str(c) for c in st.table.headings],
                                              "rows": [[str(c) for c in r.cells] for r in st.table.rows]})
                fe["scens"].append({"el": sid, "npre": len(allsteps) - len(own),
                                    "steps": [{"pos": _kpos(M, sid, st.name, st.table.headings if st.table is not None else None,
                                                                    [r.cells for r in st.table.rows] if st.table is not None else None),
                                               "status": st.status.name} for st in own]})
            out["features"].append(fe)
    except Exception as x:                                  # noqa
        out["exc"] = type(x).__name__
        out["features"] = []
        out["tables"] = []
    return out


def _tables(data, M, env):
    out = {"json": [], "model": [], "jtext": [], "mtext": []}
    for f in data or []:
        for x in f.get("elements", []):
            if x.get("type") == "background":
                continue
            el = M.loc(x.get("location", ""))
            for s in x.get("steps", []):
                tb0 = s.get("table") or {}
                pos = _kpos(M, el, s.get("name"), tb0.get("headings"), tb0.get("rows"))
                if "table" in s:
                    t = s["table"] or {}
                    out["json"].append({"el": el, "pos": pos, "headings": [str(c) for c in t.get("headings", [])],
                                        "rows": [[str(c) for c in r] for r in t.get("rows", [])]})
                if "text" in s:
                    tx = s["text"]
                    out["jtext"].append({"el": el, "pos": pos, "lines": "\n".join(tx).split("\n") if isinstance(tx, list) else str(tx).split("\n")})
    for f in env.feats:
        for sc in f.walk_scenarios():
            el = env.elid(sc)
            for i, st in enumerate(sc.all_steps):
                if st.table is not None:
                    out["model"].append({"el": el, "pos": i + 1, "headings": [str(c) for c in st.table.headings],
                                         "rows": [[str(c) for c in r.cells] for r in st.table.rows]})
                if st.text:
                    out["mtext"].append({"el": el, "pos": i + 1, "lines": str(st.text).split("\n")})
    return out


def _plain(path, M):
    out = {"present": path is not None, "lines": []}
    if path is None:
        return out
    cur = 0
    text_lines = _read(path).splitlines()
    for i, line in enumerate(text_lines):
        h = _HEAD.match(line)
        if h:
            cur = M.scen(h.group(1))
            continue
        m = _STEP.match(line)
        if m:
            pos = M.pos(cur, "%s %s" % (m.group(1), m.group(2)))
            # a twin step prints its one-cell table | k | n | below its line (behind the error message of a failing step)
            j = i + 1
            while j + 1 < len(text_lines) and not _STEP.match(text_lines[j]) and not _HEAD.match(text_lines[j]):
                if re.match(r"^\|\s*k\s*\|$", text_lines[j].strip()) and re.match(r"^\|\s*\d+\s*\|$", text_lines[j + 1].strip()):
                    pos = M.pos(cur, "own %d" % int(text_lines[j + 1].strip().strip("| ")))
                    break
                j += 1
            out["lines"].append({"scen": cur, "pos": pos, "status": m.group(3)})
    return out


def _p2(path, M):
    out = {"present": path is not None, "lines": []}
    if path is None:
        return out
    for line in _read(path).splitlines():
        m = _P2.match(line)
        if m:
            out["lines"].append({"feat": M.feature_of_file(m.group(1)), "chars": list(m.group(2))})
    return out


def _p3(path, M):
    out = {"present": path is not None, "lines": []}
    if path is None:
        return out
    for line in _read(path).splitlines():
        m = _P3.match(line)
        if m:
            out["lines"].append({"scen": M.scen(m.group(1)), "chars": list(m.group(2))})
    return out


def project(env):
    M = _Map(env)
    d = env.outdir
    out = {"error": ""}
    # nothing but formatters wrote to the real stdout of this run (only told for runs without a formatter on stdout)
    out["quiet_stdout"] = not ((env.case or {}).get("stdout_formats")) and not (env.real_out or "").strip()
    jpath = _first(d, ["out_json.txt", "out_json_pretty.txt"], env, ("json", "json.pretty"))
    try:
        out["json"], data = _json(jpath, M)
        out["readback"] = _readback(jpath, data, M)
        out["tables"] = _tables(data, M, env)
        out["plain"] = _plain(_first(d, ["out_plain.txt"], env, ("plain",)), M)
        out["p1"] = _p2(_first(d, ["out_progress.txt"], env, ("progress",)), M)
        out["p2"] = _p2(_first(d, ["out_progress2.txt"], env, ("progress2",)), M)
        out["p3"] = _p3(_first(d, ["out_progress3.txt"], env, ("progress3",)), M)
    except (OSError, UnicodeError) as x:
        out = {"error": type(x).__name__, "quiet_stdout": False, "json": {"present": False, "valid": False, "features": []},
               "readback": {"done": False, "parse_exc": "", "exc": "", "line_is_text": False, "features": [], "tables": []},
               "tables": {"json": [], "model": [], "jtext": [], "mtext": []},
               "plain": {"present": False, "lines": []}, "p1": {"present": False, "lines": []},
               "p2": {"present": False, "lines": []}, "p3": {"present": False, "lines": []}}
    return out
