"""In-process recording driver: runs one (program, cfg, fault) case on the real behave and records the
observable trace (Appendix A of DESIGN.md).  Python records; TLC judges."""
import io
import json
import logging
import os
import re
import shutil
import sys
import tempfile
import traceback

from . import gen as G
from .render import Rendered

HOOKS = ["before_all", "after_all", "before_feature", "after_feature", "before_rule", "after_rule",
         "before_scenario", "after_scenario", "before_step", "after_step", "before_tag", "after_tag"]

_ORG_OFFSET_CACHE = {}


def _ev(k, name="", el=0, tag="", raised=False, pos=0, outcome="", status="", out_real=True, err_real=True,
        vis=None, lvl=0, mine=True, cid=0, undefined=False, n=0, att=0, nfor=0, via=""):
    return {"k": k, "name": name, "el": el, "tag": tag, "raised": bool(raised), "pos": pos, "outcome": outcome,
            "status": status, "out_real": bool(out_real), "err_real": bool(err_real),
            "vis": vis or [0, 0, 0, 0, 0], "lvl": lvl, "mine": bool(mine), "cid": cid, "undefined": bool(undefined), "n": n, "att": att, "nfor": nfor, "via": via}


class _Forward(object):
    """stand-in stream a step leaves behind in sys.stdout / sys.stderr: forwards to the stream it replaced"""
    def __init__(self, inner):
        self.inner = inner

    def write(self, text):
        return self.inner.write(text)

    def flush(self):
        return self.inner.flush()

    def __getattr__(self, name):
        return getattr(self.inner, name)


class _MarkHandler(logging.Handler):
    """the user's own root handler (the 'non-capture handler' of C18)"""
    def __init__(self):
        logging.Handler.__init__(self)
        self.records = []

    def emit(self, record):
        self.records.append(record.getMessage())


def run_case(case, reports=False, keep_objects=False):
    """case: dict(prog, flat, cfg, fault: [i, j] (0 = none), fault_kind, fault_text)
    returns the trace row (JSON-able)."""
    import behave.formatter._registry as _registry
    from behave.configuration import Configuration
    from behave.runner import ModelRunner
    from behave.parser import parse_feature
    from behave.step_registry import StepRegistry
    from behave.matchers import ParseMatcher
    from behave.formatter.base import Formatter
    from behave.formatter._registry import make_formatters
    from behave.reporter.base import Reporter
    from behave.api.pending_step import StepNotImplementedError, PendingStepError

    class _AppError(Exception):
        pass
    # (TimeoutError: an exception of the step's own making, also inside a coroutine step that has a timeout of its own)
    ERROR_CLASSES = (RuntimeError, NotImplementedError, KeyError, _AppError, OSError, ZeroDivisionError, TimeoutError)
    from behave.model import Scenario, ScenarioOutline
    import parse as parse_mod

    prog, flat, cfg = case["prog"], case["flat"], case["cfg"]
    faults = [x for x in case.get("fault", [0, 0]) if x]
    skips = [list(x) for x in (prog.get("skips") or [])]
    fault_kind = case.get("fault_kind", "exc")
    R = Rendered(prog, flat)
    elems = flat["elems"]
    fidx_of_file = {fn: i for i, (fn, _t) in enumerate(R.files)}
    events = []
    REAL_OUT, REAL_ERR = io.StringIO(), io.StringIO()
    saved = (sys.stdout, sys.stderr)
    root = logging.getLogger()
    saved_handlers, saved_level = list(root.handlers), root.level
    # (a KeyboardInterrupt raised inside a coroutine step leaves an un-retrieved task behind; asyncio reports that through
    #  its own logger when the task is collected, long after the run: keep that off the console)
    logging.getLogger("asyncio").setLevel(logging.CRITICAL)
    mark = _MarkHandler()
    # the user's own root handler: present before the run, or (--logging-clear-handlers) installed in before_all as
    # environment files do; the root level starts at Python's default
    root.handlers = [] if cfg.get("logclear") else [mark]
    root.setLevel(logging.WARNING)
    # (as step modules that log while they are imported do: the loggers are used below the pre-run level before the run
    #  starts, which makes the logging module remember "disabled" for these levels until a level is set again)
    for _name in ("verif", "other", "verif.filler"):
        logging.getLogger(_name).debug("warm-up")
        logging.getLogger(_name).info("warm-up")
    outdir = tempfile.mkdtemp(prefix="verif-run-") if reports else None
    hookn = [0]
    attempts = {}           # scenario id -> number of before_scenario hook calls so far (= attempt number, autoretry)
    feats = []
    config = None
    escaped = ""
    failed = None
    sys.stdout, sys.stderr = REAL_OUT, REAL_ERR

    def elid(x):
        return R.by_loc.get((fidx_of_file.get(os.path.basename(x.filename), -1), x.line), 0)

    def probe(ctx):
        vis = []
        for nm in ("ga", "fa", "ra", "sa", "sv"):
            try:
                vis.append(int(getattr(ctx, nm)) if nm in ctx else 0)
            except Exception:
                vis.append(-1)
        return {"out_real": sys.stdout is REAL_OUT, "err_real": sys.stderr is REAL_ERR, "vis": vis,
                "lvl": root.level, "mine": mark in root.handlers, "nfor": len([h for h in root.handlers if h is not mark])}

    def steps_of(sid):
        return elems[sid - 1]["steps"]

    def pos_of(sid, org, k):
        for i, s in enumerate(steps_of(sid)):
            if s["org"] == org and s["k"] == k:
                return i + 1
        return 0

    try:
        class Rec(Formatter):
            name = "rec"
            description = "recording formatter"

            def __init__(self, stream_opener, config):
                Formatter.__init__(self, stream_opener, config)
                self.cur = 0

            def _e(self, cb, **kw):
                p = {"out_real": sys.stdout is REAL_OUT, "err_real": sys.stderr is REAL_ERR}
                if kw.get("el"):
                    p["att"] = attempts.get(kw["el"], 1) if elems[kw["el"] - 1]["kind"] == "scenario" else 0
                events.append(_ev("fmt", name=cb, **dict(kw, **p)))

            def uri(self, u): self._e("uri")
            def feature(self, f): self._e("feature", el=elid(f))
            def rule(self, r): self._e("rule", el=elid(r))
            def rule_finished(self): self._e("rule_finished")
            def background(self, b): self._e("background", n=len(b.steps))
            def scenario(self, s):
                self.cur = elid(s)
                self._e("scenario", el=self.cur)
            def step(self, s): self._e("step", el=self.cur, pos=_pos_of_step(s, self.cur))
            def match(self, m): self._e("match", el=self.cur, undefined=(m.func is None))
            def result(self, s): self._e("result", el=self.cur, pos=_pos_of_step(s, self.cur), status=s.status.name)
            def eof(self): self._e("eof")
            def close(self): self._e("close")

        def _pos_of_step(step, sid):
            t = getattr(step, "table", None)
            if t is not None and list(t.headings) == ["k"] and len(t.rows) == 1:
                return pos_of(sid, "own", int(t.rows[0]["k"]))        # a twin step: identified by its table
            return _pos_from_name(step.name, sid)

        def _pos_from_name(name, sid):
            m = re.search(r"(fbg|rbg|own) (\d+)$", name)
            if not m or not sid:
                return 0
            return pos_of(sid, m.group(1), int(m.group(2)))

        _registry.register_as("rec", Rec)

        class RecReporter(Reporter):
            def feature(self, f):
                events.append(_ev("rep", name="feature", el=elid(f), status=f.status.name))

            def end(self):
                events.append(_ev("rep", name="end"))

        args = ["-f", "rec", "-o", os.devnull]
        if reports:
            for i, fm in enumerate(case.get("formats", ["json", "plain", "progress", "progress2", "progress3", "rerun"])):
                args += ["-f", fm, "-o", os.path.join(outdir, "out_%s.txt" % fm.replace(".", "_"))]
            args += ["--junit", "--junit-directory", os.path.join(outdir, "junit")]
            args += ["--summary"]
        else:
            args += ["--no-summary"]
        args += list(case.get("extra_args", []))
        if cfg["stop"]:
            args.append("--stop")
        if cfg["dry"]:
            args.append("--dry-run")
        args.append("--show-skipped" if cfg["show_skipped"] else "--no-skipped")
        ex = G.EXPRS[cfg["expr"]]
        if ex["text"]:
            args.append("--tags=%s" % ex["text"])
            args += ["--tags=%s" % t for t in ex.get("more", [])]
        if not reports:
            args.append("--capture" if cfg.get("cap_out", True) else "--no-capture")
            args.append("--capture-stderr" if cfg.get("cap_err", True) else "--no-capture-stderr")
            args.append("--logcapture" if cfg.get("cap_log", True) else "--no-logcapture")
        if cfg.get("loglevel"):
            args.append("--logging-level=%s" % cfg["loglevel"])
        if cfg.get("logfilter"):
            args.append("--logging-filter=%s" % cfg["logfilter"])
        if cfg.get("logclear"):
            args.append("--logging-clear-handlers")
        if cfg.get("wip"):
            args.append("--wip")
        if cfg.get("names") is not None:
            # --name: one anchored pattern per selected scenario (names taken from a parse of the rendered texts)
            name_of = {}
            for fn, text in R.files:
                for sc in parse_feature(text, filename=fn).walk_scenarios(with_outlines=False):
                    name_of[R.by_loc.get((fidx_of_file[fn], sc.line), 0)] = sc.name
            for sid in cfg["names"]:
                args += ["--name", "^%s$" % re.escape(name_of[sid])]
            if not cfg["names"]:
                args += ["--name", "^no such scenario$"]
        try:
            config = Configuration(command_args=args, load_config=False)
        except SystemExit:
            raise RuntimeError("Configuration rejected %r: %s" % (args, REAL_ERR.getvalue()[-300:]))
        config.reporters.append(RecReporter(config))
        reg = StepRegistry()

        def realise(ctx, org, k, via="step"):
            # via: the step type this function was registered for ("step" = the generic decorator)
            if getattr(ctx, "table", None) is not None and list(ctx.table.headings) == ["k"]:
                k = int(ctx.table[0]["k"])          # a twin step (prog["dupsteps"]): its number is in its table
            sc = ctx.scenario
            sid = elid(sc)
            pos = pos_of(sid, org, k)
            s = steps_of(sid)[pos - 1] if pos else {"o": "pass", "o2": "pass", "cl_id": 0}
            att = attempts.get(sid, 1)
            o = s["o"] if att <= 1 else s["o2"]
            events.append(_ev("step", el=sid, pos=pos, outcome=o, att=att, via=via, **probe(ctx)))
            print("O%d_%d" % (sid, pos))
            print("E%d_%d" % (sid, pos), file=sys.stderr)
            logging.getLogger("verif").debug("D%d_%d", sid, pos)
            logging.getLogger("verif").warning("L%d_%d", sid, pos)
            logging.getLogger("other").error("G%d_%d", sid, pos)
            if cfg.get("chatty") and pos == 1:
                for _i in range(1001):          # more records than the capture handler's nominal capacity
                    logging.getLogger("verif.filler").warning("filler %d", _i)
            ctx.sv = sid
            if s["cl_id"]:
                cid, raises = s["cl_id"], s["cl_raises"]

                def cfun(cid=cid, raises=raises):
                    events.append(_ev("cleanup", cid=cid, raised=raises))
                    if raises and fault_kind == "kbd":
                        raise KeyboardInterrupt()       # (interrupting programs: the user interrupts the run during a cleanup)
                    if raises:
                        raise RuntimeError("cleanup%d: disk is 100%% full {0} %%s {x}" % cid)     # (format-hostile text)
                if s["cl_layer"]:
                    ctx.add_cleanup(cfun, layer=s["cl_layer"])
                else:
                    ctx.add_cleanup(cfun)
            if o.startswith("nest_"):
                x = {"nest_pass": "pass", "nest_fail": "fail", "nest_error": "error", "nest_pending": "pending"}.get(o, "undef")
                ctx.execute_steps((u"Given nosub %s %d %d" if x == "undef" else u"Given sub %s %d %d") % (x, sid, pos))
                events.append(_ev("after_nested", el=sid, pos=pos, att=att, **probe(ctx)))
                print("A%d_%d" % (sid, pos))
                return
            if cfg.get("tamper") and o in ("fail", "error", "skip_fail"):
                # a step that redirects the process streams by hand and dies before undoing it
                if cfg.get("cap_out", True) and not cfg.get("wip"):       # (--wip switches stdout capture off)
                    sys.stdout = _Forward(sys.stdout)
                if cfg.get("cap_err", True):
                    sys.stderr = _Forward(sys.stderr)
            if o == "skip_fail":
                sc.skip("S%d_%d" % (sid, pos))          # (a forgotten return after skip())
                assert False, "M%d_%d" % (sid, pos)
            if o == "fail":
                assert False, "M%d_%d" % (sid, pos)
            if o == "error":
                # any Exception class is an error: rotate through unrelated classes (NotImplementedError is NOT "pending")
                raise ERROR_CLASSES[(sid + pos) % len(ERROR_CLASSES)]("X%d_%d" % (sid, pos))
            if o == "pending":
                # both public "not implemented yet" exceptions mean pending
                raise (StepNotImplementedError, PendingStepError)[(sid + pos) % 2]("P%d_%d" % (sid, pos))
            if o == "abort":
                ctx.abort(reason="step asks to abort the run")      # public API: the run is aborted, the step itself passes
            if o == "kbd":
                raise KeyboardInterrupt()
            if o == "skip":
                sc.skip("S%d_%d" % (sid, pos))
            if o == "badarg":
                raise AssertionError("badarg must not reach the body")

        def sub_impl(ctx, x, sid, pos):
            events.append(_ev("sub", el=sid, pos=pos, outcome=x, att=attempts.get(sid, 1), **probe(ctx)))
            print("N%d_%d" % (sid, pos))
            if x == "fail":
                assert False, "sub-step fails"
            if x == "error":
                raise RuntimeError("sub-step raises")
            if x == "pending":
                raise StepNotImplementedError("sub-step pending")

        @parse_mod.with_pattern(r"\d+")
        def conv_bad(text):
            # different exception classes: a converter may raise anything
            kinds = (ValueError, KeyError, RuntimeError, TypeError, LookupError)
            raise kinds[int(text) % len(kinds)]("bad argument %s" % text)

        # prog["typed"]: one step function per step type (given / when / then) under the same pattern, each telling which
        # registration it is; otherwise one generic function (the `step` decorator) serves every type
        vias = ("given", "when", "then") if prog.get("typed") else ("step",)
        for via in vias:
            if cfg.get("async_steps"):
                # the same step functions as coroutines (behave.api.async_step): outcome, status and order must not differ
                from behave.api.async_step import async_run_until_complete

                # (both forms of the decorator: bare, and with a timeout that is never reached)
                @(async_run_until_complete(timeout=3600) if cfg.get("async_timeout") else async_run_until_complete)
                async def realise_async(ctx, org, k, via=via):
                    import asyncio
                    await asyncio.sleep(0)
                    realise(ctx, org, k, via)
                reg.steps[via].append(ParseMatcher(realise_async, "{org:w} {k:d}", via))
            else:
                reg.steps[via].append(ParseMatcher(lambda ctx, org, k, via=via: realise(ctx, org, k, via), "{org:w} {k:d}", via))
        reg.steps["step"].append(ParseMatcher(lambda ctx, x, sid, pos: sub_impl(ctx, x, sid, pos), "sub {x:w} {sid:d} {pos:d}", "step"))
        reg.steps["step"].append(ParseMatcher(lambda ctx, org, k: realise(ctx, org, k), "bad {org:w} {k:Bad}", "step",
                                              custom_types={"Bad": conv_bad}))
        for fn, text in R.files:
            feats.append(parse_feature(text, filename=fn))
        if cfg.get("retry"):
            from behave.contrib.scenario_autoretry import patch_scenario_with_autoretry

            def counted(sc):
                # every call of the scenario's own run() is one attempt (recorded before behave's retry wrapper is installed)
                orig = sc.run
                sid = elid(sc)

                def run_counted(*a, **kw):
                    attempts[sid] = attempts.get(sid, 0) + 1
                    events.append(_ev("attempt", el=sid, att=attempts[sid]))
                    return orig(*a, **kw)
                sc.run = run_counted
            for f in feats:
                for sc in f.walk_scenarios(with_outlines=True):
                    if isinstance(sc, ScenarioOutline):
                        for row in sc.scenarios:
                            counted(row)
                        patch_scenario_with_autoretry(sc, max_attempts=2)
                    elif not isinstance(getattr(sc, "parent", None), ScenarioOutline):
                        counted(sc)
                        patch_scenario_with_autoretry(sc, max_attempts=2)
        recording = [True]
        if case.get("prerun") and case.get("prerun") != "same":
            # history: the same model objects are run once before (everything selected, nothing fails by hooks),
            # then reset with the public reset_model(); the recorded run must depend on the latest run only
            from behave.model import reset_model
            recording[0] = False
            pre_events = len(events)
            pre_cfg = Configuration(command_args=["-f", "rec", "-o", os.devnull, "--no-summary"], load_config=False)
            pre_runner = ModelRunner(pre_cfg, feats, step_registry=reg)
            pre_runner.hooks = {}
            pre_runner.formatters = make_formatters(pre_cfg, pre_cfg.outputs)
            try:
                pre_runner.run()
            except BaseException:       # noqa
                pass
            del events[pre_events:]
            attempts.clear()
            reset_model(feats)
            recording[0] = True
        runner = ModelRunner(config, feats, step_registry=reg)
        if case.get("prerun") == "same":
            # history: THIS runner object (same configuration, same registry) has completed a run of the same model before;
            # its bookkeeping of that run (undefined steps, hook failures, abort flag, formatters) must not leak into the
            # verdict and statuses of the recorded run
            from behave.model import reset_model
            recording[0] = False
            pre_events = len(events)
            runner.hooks = {}
            runner.formatters = make_formatters(config, config.outputs)
            saved_cont0 = Scenario.continue_after_failed_step
            Scenario.continue_after_failed_step = bool(cfg.get("cont", False))
            try:
                runner.run()
            except BaseException:       # noqa
                pass
            finally:
                Scenario.continue_after_failed_step = saved_cont0
            del events[pre_events:]
            attempts.clear()
            reset_model(feats)
            root.handlers = [] if cfg.get("logclear") else [mark]
            root.setLevel(logging.WARNING)
            del mark.records[:]
            REAL_OUT.seek(0); REAL_OUT.truncate()
            REAL_ERR.seek(0); REAL_ERR.truncate()
            sys.stdout, sys.stderr = REAL_OUT, REAL_ERR
            recording[0] = True

        def tag_owner(ctx):
            for nm in ("scenario", "rule", "feature"):
                if nm in ctx and getattr(ctx, nm) is not None:
                    return getattr(ctx, nm)
            return None

        def mk(nm):
            def h(ctx, *a):
                hookn[0] += 1
                el, tag, pos = 0, "", 0
                if nm in ("before_tag", "after_tag"):
                    tag = str(a[0])
                    own = tag_owner(ctx)
                    el = elid(own) if own is not None else 0
                elif nm.endswith("_step"):
                    el = elid(ctx.scenario)
                    pos = _pos_of_step(a[0], el)
                    if pos:         # (hooks of nested sub-steps carry position 0 and print nothing)
                        print("H%s%d_%d" % (nm[0], el, pos))
                elif a:
                    el = elid(a[0])
                raised = hookn[0] in faults
                att = 0
                if nm == "before_all" and cfg.get("logclear") and mark not in root.handlers:
                    root.addHandler(mark)
                if nm == "before_all" and cfg.get("setuplog"):
                    ctx.config.setup_logging(level=cfg["setuplog"])         # public API: level chosen at run time
                if nm == "before_all" and cfg.get("rootlvl0"):
                    root.setLevel(logging.NOTSET)
                if el and elems[el - 1]["kind"] == "scenario":
                    att = attempts.get(el, 1)
                events.append(_ev("hook", name=nm, el=el, tag=tag, n=hookn[0], raised=raised, pos=pos, att=att, **probe(ctx)))
                if nm == "before_all":
                    ctx.ga = 1
                elif nm == "before_feature":
                    ctx.fa = el
                elif nm == "before_rule":
                    ctx.ra = el
                elif nm == "before_scenario":
                    ctx.sa = el
                    if cfg.get("cont_by_hook"):
                        # the per-scenario switch set by a hook (class-wide default is the opposite, see below)
                        a[0].continue_after_failed_step = bool(cfg.get("cont", False))
                if prog.get("hookcl") and nm in ("before_all", "after_all", "before_feature", "before_rule", "before_scenario", "after_scenario"):
                    # the hook registers a cleanup of its own in the current scope
                    def hook_cleanup(cid=500 + hookn[0]):
                        events.append(_ev("cleanup", cid=cid, raised=False))
                    ctx.add_cleanup(hook_cleanup)
                for sk in skips:
                    if sk[0] == nm and sk[1] == el:
                        tgt = sk[2] if len(sk) > 2 else el
                        if tgt == el:
                            a[0].skip("excluded by %s hook" % nm)       # the hook excludes its element at run time
                        else:       # "skip the rest": skip() on the enclosing feature / rule
                            (ctx.feature if elems[tgt - 1]["kind"] == "feature" else ctx.rule).skip("rest skipped by %s hook" % nm)
                if cfg.get("observe") and nm in ("after_scenario", "after_step", "before_scenario"):
                    # an observing hook: reads the status of the running feature (must not change any result)
                    getattr(ctx.feature, "status", None)
                if cfg.get("observe") and nm in ("after_feature", "after_rule", "after_tag") and a:
                    # ... and the after hooks of containers read their own element's status (e.g. to log the outcome)
                    getattr(a[0] if nm != "after_tag" else tag_owner(ctx), "status", None)
                if raised:
                    if fault_kind == "kbd":
                        # (not modelled by Run.tla: only for checks that judge final statuses / reports)
                        raise KeyboardInterrupt()
                    ftext = case.get("fault_text") or "hookfault%d" % hookn[0]      # (fault_text: exception text chosen by the caller)
                    if fault_kind == "assert":
                        raise AssertionError(ftext)
                    if case.get("fault_text") is None:
                        # exceptions of every shape: with a text, without any argument (a bare failing assert, `raise Exception`),
                        # with several arguments
                        shape = hookn[0] % 5
                        if shape == 1:
                            raise AssertionError()
                        if shape == 2:
                            raise Exception()
                        if shape == 3:
                            raise LookupError("hookfault", hookn[0], {"why": "several arguments"})
                    raise RuntimeError(ftext)
            return h
        runner.hooks = {n: mk(n) for n in HOOKS}
        if cfg.get("capdeco"):
            from behave.log_capture import capture as _capture_decorator
            runner.hooks["after_scenario"] = _capture_decorator(runner.hooks["after_scenario"])
        config.base_dir = os.getcwd()
        runner.formatters = make_formatters(config, config.outputs)
        saved_cont = Scenario.continue_after_failed_step
        Scenario.continue_after_failed_step = bool(cfg.get("cont", False)) != bool(cfg.get("cont_by_hook"))
        try:
            failed = runner.run()
        except BaseException as x:      # noqa -- recorded, judged by C01.crash / C12.contained
            escaped = type(x).__name__
            if os.environ.get("VERIF_DEBUG"):
                traceback.print_exc(file=saved[1])
        finally:
            Scenario.continue_after_failed_step = saved_cont
    finally:
        sys.stdout, sys.stderr = saved
        root.handlers = saved_handlers
        root.setLevel(saved_level)

    # ---------------------------------------------------------------- end record
    n = len(elems)
    status = ["missing"] * n
    hook_failed = [False] * n
    step_status = [[] for _ in range(n)]
    errmarks = [[] for _ in range(n)]
    eff = [[] for _ in range(n)]
    captured = [[] for _ in range(n)]

    def marks(text):
        return sorted(set(re.findall(r"\b[OELHNADG][ba]?\d+_\d+\b", text or "")))

    def walk(x):
        i = elid(x)
        if i:
            status[i - 1] = x.status.name
            hook_failed[i - 1] = bool(getattr(x, "hook_failed", False))
            try:
                eff[i - 1] = sorted(str(t) for t in x.effective_tags)
            except Exception:
                eff[i - 1] = ["<error>"]
        if isinstance(x, ScenarioOutline):
            for s in x.scenarios:
                walk(s)
        elif isinstance(x, Scenario):
            if i:
                sts, ems = [], []
                for st in x.all_steps:
                    sts.append(st.status.name)
                    ems.append(marks(st.error_message))
                step_status[i - 1] = sts
                errmarks[i - 1] = ems
                cap = getattr(x, "captured", None)
                captured[i - 1] = marks((cap.stdout or "") + (cap.stderr or "") + (cap.log_output or "")) if cap else []
        else:
            for r in x.run_items:
                walk(r)
    for f in feats:
        try:
            walk(f)
        except Exception:
            escaped = escaped or "walk:" + traceback.format_exc(limit=1).strip().splitlines()[-1][:60]
    end = {"verdict": bool(failed), "ran": failed is not None, "escaped": escaped, "status": status, "hook_failed": hook_failed,
           "step_status": step_status, "errmarks": errmarks, "eff": eff, "captured": captured,
           "real_out": marks(REAL_OUT.getvalue()), "real_err": marks(REAL_ERR.getvalue()),
           "user_log": marks("\n".join(mark.records)), "nhooks": hookn[0]}
    row = {"events": events, "end": end}
    if reports:
        try:
            from . import reports as RP
            row["reports"] = RP.project(outdir, REAL_OUT.getvalue(), R, feats, elid, config, case=case, real_err=REAL_ERR.getvalue())
        finally:
            shutil.rmtree(outdir, ignore_errors=True)
    if keep_objects:
        row["_objects"] = {"feats": feats, "config": config, "rendered": R, "real_out": REAL_OUT.getvalue(), "real_err": REAL_ERR.getvalue()}
    return row
