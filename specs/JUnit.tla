------------------------------- MODULE JUnit -------------------------------
(***************************************************************************)
(* C16, counters / test-case part: the JUnit reporter as an automaton over *)
(* the model after a run (S) and the clauses of the property over          *)
(* (model after the run, parsed report document) (P).                      *)
(*                                                                         *)
(* (S) transcribes behave/reporter/junit.py: JUnitReporter.feature,        *)
(* _process_run_items_for / _process_rule / _process_scenario_outline (the *)
(* walk), _process_scenario branch by branch, _make_problem_description_for*)
(* (partial: it dereferences scenario.error_message, which is None unless  *)
(* a hook of the scenario raised -> explicit CRASH), the four counters of  *)
(* FeatureReportData and the <testsuite> attributes written from them.     *)
(* Not modelled: texts (names, messages, CDATA bodies, durations,          *)
(* timestamp, hostname) -- the well-formedness part is XmlEscape.tla.      *)
(*                                                                         *)
(* model m:  prog    <<[kind, parent, children]>>  flat element table      *)
(*           status  final status name per element                        *)
(*           steps   per element the final statuses of all_steps (<<>> if  *)
(*                   the element is no scenario)                           *)
(*           hookmsg per element: a hook of the element itself raised      *)
(*                   (run_hook stored error_message / exception on it)     *)
(*           hookraised per element: some hook of the scenario or of one   *)
(*                   of its steps raised (for the clauses only)            *)
(*           cleanup per element: a cleanup of the scenario's own context  *)
(*                   layer raised (for the clauses only)                   *)
(* cfg:      show (config.show_skipped or show_skipped_always), dry        *)
(* document: exists, wellformed, tests, failures, errors, skipped (ints of *)
(*           <testsuite>), cases <<[el, status, entries]>> in document     *)
(*           order, entries <<[kind, steps, hook]>>: child elements of the *)
(*           <testcase>; steps = positions of the steps the entry names,   *)
(*           hook = the entry names a hook                                 *)
(***************************************************************************)
EXTENDS Naturals, Integers, Sequences, FiniteSets, TLC

\* ---------------------------------------------------------------- status classes (model_core.Status)
PassedLike    == {"passed", "pending_warn", "xfailed", "xpassed"}
ErrorClass    == {"error", "hook_error", "cleanup_error", "undefined", "pending"}     \* Status.is_error()
UntestedLike  == {"untested", "untested_undefined", "untested_pending"}
FailedOrError == ErrorClass \cup {"failed"}
Class(s) == CASE s \in PassedLike   -> "passed"
              [] s = "failed"       -> "failed"
              [] s \in ErrorClass   -> "error"
              [] s = "skipped"      -> "skipped"
              [] s \in UntestedLike -> "untested"
              [] OTHER              -> "other"

\* ---------------------------------------------------------------- model helpers
Els(m)      == DOMAIN m.prog
Kind(m, el) == m.prog[el].kind
Kids(m, el) == m.prog[el].children
RECURSIVE FeatOf(_,_)
FeatOf(m, el) == IF m.prog[el].parent = 0 THEN el ELSE FeatOf(m, m.prog[el].parent)
SeqSet(q) == {q[k] : k \in DOMAIN q}
Ids(m) == [i \in 1..Len(m.prog) |-> i]
\* the feature's scenarios (outline rows included, scenarios inside rules included) in document order -- definitional,
\* from the element table alone (ids are assigned in document order)
DocScenarios(m, f) == SelectSeq(Ids(m), LAMBDA e : Kind(m, e) = "scenario" /\ FeatOf(m, e) = f)
FeatSeq(m) == SelectSeq(Ids(m), LAMBDA e : Kind(m, e) = "feature")

\* =========================================================================== (S) the reporter
\* _process_run_items_for(parent): Rule -> its run items, ScenarioOutline -> its scenarios, else the scenario
RECURSIVE Walk(_,_,_)
Walk(m, parent, k) ==
   IF k > Len(Kids(m, parent)) THEN <<>>
   ELSE LET c == Kids(m, parent)[k] IN
        (CASE Kind(m, c) = "rule"    -> Walk(m, c, 1)
           [] Kind(m, c) = "outline" -> Kids(m, c)
           [] OTHER                  -> <<c>>) \o Walk(m, parent, k + 1)

\* the status tuples of _process_scenario
ErrorStatuses       == {"error", "hook_error", "pending", "undefined"}
FailedStatuses      == {"failed"}
SkippedStatuses     == {"skipped", "untested"}
ProblematicStatuses == {"pending", "undefined"}
\* select_step_with_any_status: position of the first step with one of the statuses, 0 = None
FirstWith(ss, S) == IF \E p \in DOMAIN ss : ss[p] \in S
                    THEN CHOOSE p \in DOMAIN ss : ss[p] \in S /\ \A q \in 1..(p - 1) : ss[q] \notin S
                    ELSE 0

Entry(kind, p, hook) == [kind |-> kind, steps |-> IF p = 0 THEN <<>> ELSE <<p>>, hook |-> hook]
\* _make_problem_description_for(element_name, scenario, step)
\*   step given: "Failing step: ..." + step.error_message;  type/message from step.exception (None is printed as None)
\*   no step:    message = scenario.error_message.strip()  -- error_message is only set by run_hook for a hook of the
\*               scenario (HOOK-ERROR in ...); otherwise it is None and .strip() raises AttributeError
\*   repaired:   (scenario.error_message or "").strip()
Problem(m, kind, s, p, repaired) ==
   IF p # 0 THEN [ok |-> TRUE, e |-> Entry(kind, p, FALSE)]
   ELSE IF m.hookmsg[s] THEN [ok |-> TRUE, e |-> Entry(kind, 0, TRUE)]
   ELSE IF repaired THEN [ok |-> TRUE, e |-> Entry(kind, 0, FALSE)]
   ELSE [ok |-> FALSE, e |-> Entry(kind, 0, FALSE)]

\* which variant of _make_problem_description_for the code under test has: FALSE = as found (dereferences None),
\* TRUE = after the repair `(scenario.error_message or u"").strip()`.  Only the predictions (design-level Emit, DIVERGE
\* lines of the trace judge) depend on it, no clause does.
RepairedCode == TRUE

Report0 == [tests |-> 0, errors |-> 0, failed |-> 0, skipped |-> 0, cases |-> <<>>, crashed |-> FALSE, at |-> 0]
Case(s, st, entries) == [el |-> s, status |-> st, entries |-> entries]

\* _process_scenario(scenario, report)
ProcessScenario(m, show, rep, s, repaired) ==
   IF rep.crashed THEN rep
   ELSE
   LET st     == m.status[s]
       listed == st # "skipped" \/ show                  \* counted in tests at the top, appended at the bottom
       r1     == IF listed THEN [rep EXCEPT !.tests = @ + 1] ELSE rep
       Add(r, entries) == IF listed THEN [r EXCEPT !.cases = Append(@, Case(s, st, entries))] ELSE r
   IN
   IF st \in ErrorClass THEN                              \* scenario.status.is_error()
        LET p  == FirstWith(m.steps[s], ErrorStatuses)
            pr == Problem(m, "error", s, p, repaired)
            r2 == [r1 EXCEPT !.errors = @ + 1] IN
        IF pr.ok THEN Add(r2, <<pr.e>>) ELSE [r2 EXCEPT !.crashed = TRUE, !.at = s]
   ELSE IF st = "failed" THEN                             \* scenario.status.is_failure()
        LET p  == FirstWith(m.steps[s], FailedStatuses)
            pr == Problem(m, "failure", s, p, repaired)
            r2 == [r1 EXCEPT !.failed = @ + 1] IN
        IF pr.ok THEN Add(r2, <<pr.e>>) ELSE [r2 EXCEPT !.crashed = TRUE, !.at = s]
   ELSE IF st \in SkippedStatuses /\ show THEN
        LET p  == FirstWith(m.steps[s], ProblematicStatuses)
            r2 == [r1 EXCEPT !.skipped = @ + 1] IN
        IF p # 0 THEN Add([r2 EXCEPT !.failed = @ + 1], <<Entry("failure", p, FALSE), Entry("skipped", 0, FALSE)>>)
        ELSE Add(r2, <<Entry("skipped", 0, FALSE)>>)
   ELSE Add(r1, <<>>)

RECURSIVE Fold(_,_,_,_,_,_)
Fold(m, show, rep, q, k, repaired) ==
   IF k > Len(q) THEN rep ELSE Fold(m, show, ProcessScenario(m, show, rep, q[k], repaired), q, k + 1, repaired)

NoDoc == [exists |-> FALSE, wellformed |-> FALSE, tests |-> 0, failures |-> 0, errors |-> 0, skipped |-> 0, cases |-> <<>>]
\* JUnitReporter.feature(feature) -> observation [crashed, at, doc]
FeatureReport(m, show, f, repaired) ==
   IF m.status[f] = "skipped" /\ ~show THEN [crashed |-> FALSE, at |-> 0, doc |-> NoDoc]        \* SKIP-OUTPUT
   ELSE LET rep == Fold(m, show, Report0, Walk(m, f, 1), 1, repaired) IN
        IF rep.crashed THEN [crashed |-> TRUE, at |-> rep.at, doc |-> NoDoc]                     \* the exception leaves run_model
        ELSE [crashed |-> FALSE, at |-> 0,
              doc |-> [exists |-> TRUE, wellformed |-> TRUE, tests |-> rep.tests, failures |-> rep.failed,
                       errors |-> rep.errors, skipped |-> rep.skipped, cases |-> rep.cases]]

\* =========================================================================== (P) the property
\* a verdict is <<clause, attribute, element>>; clause = "C16.name" or "C16.name/family"
EntryKinds == {"failure", "error", "skipped"}
KindsOf(tc) == {tc.entries[k].kind : k \in DOMAIN tc.entries} \cap EntryKinds
Has(tc, kind) == \E k \in DOMAIN tc.entries : tc.entries[k].kind = kind
Count(cases, kind) == Cardinality({k \in DOMAIN cases : Has(cases[k], kind)})

\* genuine defect (DESIGN section 8 item 3): a scenario that is error-class only because a cleanup raised -- no hook of
\* the scenario raised and no step has an error-class status the reporter looks for -- makes feature() raise
KF_C16_cleanup_error_no_step(m, f) ==
   \E s \in SeqSet(DocScenarios(m, f)) :
      /\ m.status[s] \in ErrorClass /\ m.cleanup[s] /\ ~m.hookmsg[s]
      /\ FirstWith(m.steps[s], ErrorStatuses) = 0

\* the test cases are exactly the feature's scenarios -- skipped ones iff shown -- each once, in document order
\* (scs = DocScenarios(m, f), computed once per feature)
ExpectedOf(m, cfg, scs) == SelectSeq(scs, LAMBDA s : m.status[s] # "skipped" \/ cfg.show)
Expected(m, cfg, f) == ExpectedOf(m, cfg, DocScenarios(m, f))
Got(doc) == [k \in DOMAIN doc.cases |-> doc.cases[k].el]
TestcasesClause(m, cfg, f, scs, doc) ==
   LET exp == ExpectedOf(m, cfg, scs)
       got == Got(doc) IN
   IF got = exp THEN {}
   ELSE {<<"C16.testcases",
           CASE \E k \in DOMAIN got : got[k] \notin SeqSet(scs) -> "unknown"
             [] SeqSet(exp) \ SeqSet(got) # {} -> "missing"
             [] SeqSet(got) \ SeqSet(exp) # {} -> "extra"
             [] OTHER -> "order_or_duplicate", f>>}

\* entry kinds that do not contradict the final status (dry run: the `undefined` failure of an untested scenario is not
\* judged, DESIGN appendix D)
Allowed(cfg, fin) == CASE Class(fin) = "passed"  -> {}
                       [] Class(fin) = "failed"  -> {"failure"}
                       [] Class(fin) = "error"   -> {"error"}
                       [] Class(fin) \in {"skipped", "untested"} -> {"skipped"} \cup (IF cfg.dry THEN {"failure"} ELSE {})
                       [] OTHER -> EntryKinds
StatusClause(m, cfg, tc) ==
   LET fin == m.status[tc.el] IN
   (IF Class(tc.status) # Class(fin) THEN {<<"C16.status", "attribute", tc.el>>} ELSE {})
   \cup (IF ~(KindsOf(tc) \subseteq Allowed(cfg, fin)) THEN {<<"C16.status", "entry_kind", tc.el>>} ELSE {})

\* a failed / errored scenario carries a failure or error entry naming the responsible step or hook
\* (a raising cleanup is neither: when one raised in the scenario's own layer only the presence of the entry is asked)
NamesResponsible(m, s, e) ==
   \/ \E k \in DOMAIN e.steps : e.steps[k] \in DOMAIN m.steps[s] /\ m.steps[s][e.steps[k]] \in FailedOrError
   \/ e.hook /\ m.hookraised[s]
ProblemClause(m, tc) ==
   LET s == tc.el
       pe == {k \in DOMAIN tc.entries : tc.entries[k].kind \in {"failure", "error"}} IN
   IF m.status[s] \notin FailedOrError THEN {}
   ELSE IF pe = {} THEN {<<"C16.problem_entry", "missing", s>>}
   ELSE IF m.cleanup[s] \/ \E k \in pe : NamesResponsible(m, s, tc.entries[k]) THEN {}
   ELSE {<<"C16.problem_entry", "names_nothing", s>>}

CountersClause(doc) ==
   (IF doc.tests # Len(doc.cases) THEN {<<"C16.counters", "tests", 0>>} ELSE {})
   \cup (IF doc.failures # Count(doc.cases, "failure") THEN {<<"C16.counters", "failures", 0>>} ELSE {})
   \cup (IF doc.errors # Count(doc.cases, "error") THEN {<<"C16.counters", "errors", 0>>} ELSE {})
   \cup (IF doc.skipped # Count(doc.cases, "skipped") THEN {<<"C16.counters", "skipped", 0>>} ELSE {})

\* the first test case of each scenario of the feature is judged against that scenario
Judged(scset, doc) == {k \in DOMAIN doc.cases : /\ doc.cases[k].el \in scset
                                                /\ \A j \in 1..(k - 1) : doc.cases[j].el # doc.cases[k].el}
\* obs = [crashed, doc] for a feature the reporter was called for
Clauses(m, cfg, f, obs) ==
   IF obs.crashed
   THEN {<<IF KF_C16_cleanup_error_no_step(m, f) THEN "C16.no_crash/cleanup_error_no_step" ELSE "C16.no_crash", "raised", f>>}
   ELSE IF ~obs.doc.exists
   THEN (IF m.status[f] = "skipped" /\ ~cfg.show THEN {} ELSE {<<"C16.testcases", "no_document", f>>})
   \* a report that the independent parser rejects: the first sentence of the property (the rows of this judge carry
   \* hostile text only in the exception messages of raising hooks; every other source of text is XmlEscape's business)
   ELSE IF ~obs.doc.wellformed THEN {<<"C16.wellformed", "run_document", f>>}
   ELSE LET scs == DocScenarios(m, f) IN
        TestcasesClause(m, cfg, f, scs, obs.doc)
        \cup CountersClause(obs.doc)
        \cup UNION {StatusClause(m, cfg, obs.doc.cases[k]) \cup ProblemClause(m, obs.doc.cases[k]) : k \in Judged(SeqSet(scs), obs.doc)}
=============================================================================
