INIT Init
NEXT Next
CONSTANTS
  MaxRules = 2
  MaxScen = 2
  MaxEx = 2
  MaxSteps = 1
  MaxStmts = 3
  MaxStepsTot = 4
  MaxLines = 60
  LayoutsF = {"none"}
  Layouts = {"none"}
  Hows = {"none"}
  Descs = {0}
  StepKws = {"given", "and"}
  Args <- ArgsNone
  ExVariants = {"2x2"}
  Gaps = {"none"}
INVARIANT Faithful
INVARIANT Neutral
