INIT Init
NEXT Next
CONSTANTS
  ShapeIds <- QuickShapes
  EmitMod = 12
INVARIANT ClausesHold
INVARIANT V1NeverCrashes
INVARIANT CollectorIsCensus
INVARIANT CensusFoldIsCensus
INVARIANT Emit
