INIT Init
NEXT Next
CONSTANTS
  FullN = 1
  RotN = 2
  Rot4 = FALSE
  HistN = 1
  HistLen = 3
  Deep = FALSE
  AngleCodes <- AngleCodesQ
  NB = 32
INVARIANT SeqEqSim
INVARIANT CodeEqDef
INVARIANT CountOrder
INVARIANT Isolation
INVARIANT CacheCoherent
INVARIANT ModMarks
INVARIANT Rebuilt
INVARIANT EmitCase
INVARIANT EmitHist
