----------------------------- MODULE TagExprV1 -----------------------------
(***************************************************************************)
(* Tag expressions v1 of behave and the dialect auto-detection (C08).      *)
(*                                                                         *)
(* (S) what the code does, transcribed:                                    *)
(*   V1Parse / V1Check   behave/tag_expression/v1.py: TagExpression        *)
(*                       (__init__, normalize_tag, normalized_tags_from_or,*)
(*                       store_and_extract_limits, check) behind           *)
(*                       builder._parse_tag_expression_v1 (string: split() *)
(*                       into arguments; list: the arguments as given)     *)
(*   AutoDetect          builder._select_tag_expression_parser4auto        *)
(*   HistStep            Configuration.setup_tag_expression: use() + build *)
(*   V1Run/V2Run/AutoRun make_tag_expression(x, V1 / V2 / AUTO_DETECT)     *)
(*                       followed by .check(S) for every S of SS           *)
(*                       (v2 parsing and Eval are those of TagExpr, C07)   *)
(* (P) what the property says, as definitions over the input text only:    *)
(*   IsPureV1 / CnfOf / CnfTree   the documented old-style grammar         *)
(*        argument (AND) ::= alternative ("," alternative)*     (OR)       *)
(*        alternative    ::= ["-" | "~"] ["@"] name [":" digits]           *)
(*        (blanks around an alternative inside one list argument ignored)  *)
(*   IsPureV2            a well-formed v2 text whose operands cannot be    *)
(*                       mistaken for v1 syntax                            *)
(*   IsMixed             an old negation prefix + a new-style operator     *)
(* Named exceptions KF_C08_2/3: narrow descriptions of inputs on which the *)
(* code is known to break the property (used by TagExprV1_MC to continue   *)
(* past them and by TagExprV1_Trace to label its verdicts).                *)
(*                                                                         *)
(* An input is [form |-> "text"|"list", text |-> chars, terms |-> list of  *)
(* chars]; texts are sequences of one-character strings.                   *)
(* Pure definitions only.                                                  *)
(***************************************************************************)
EXTENDS TagExpr

TextIn(x)  == [form |-> "text", text |-> x,    terms |-> <<>>]
ListIn(ts) == [form |-> "list", text |-> <<>>, terms |-> ts]

\* ---------------------------------------------------------------- python str helpers
IsWs(c) == c \in {" ", "\t", "\n"}
Contains(w, c) == \E k \in DOMAIN w : w[k] = c
StartsWith(s, p) == Len(s) >= Len(p) /\ SubSeq(s, 1, Len(p)) = p
RECURSIVE LStrip(_)
LStrip(s) == IF s # <<>> /\ IsWs(Head(s)) THEN LStrip(Tail(s)) ELSE s
RECURSIVE RStrip(_)
RStrip(s) == IF s # <<>> /\ IsWs(s[Len(s)]) THEN RStrip(SubSeq(s, 1, Len(s) - 1)) ELSE s
Strip(s) == RStrip(LStrip(s))
\* s.split(): maximal runs of non-whitespace
RECURSIVE SplitWsR(_,_,_)
SplitWsR(s, i, cur) ==
   IF i > Len(s) THEN (IF cur = <<>> THEN <<>> ELSE <<cur>>)
   ELSE IF IsWs(s[i]) THEN (IF cur = <<>> THEN <<>> ELSE <<cur>>) \o SplitWsR(s, i + 1, <<>>)
   ELSE SplitWsR(s, i + 1, Append(cur, s[i]))
SplitWs(s) == SplitWsR(s, 1, <<>>)
\* s.split(ch): keeps empty pieces, always at least one piece
RECURSIVE SplitOnR(_,_,_,_)
SplitOnR(s, ch, i, cur) ==
   IF i > Len(s) THEN <<cur>>
   ELSE IF s[i] = ch THEN <<cur>> \o SplitOnR(s, ch, i + 1, <<>>)
   ELSE SplitOnR(s, ch, i + 1, Append(cur, s[i]))
SplitOn(s, ch) == SplitOnR(s, ch, 1, <<>>)
RECURSIVE JoinBy(_,_)
JoinBy(ps, sep) == IF ps = <<>> THEN <<>> ELSE IF Len(ps) = 1 THEN ps[1] ELSE ps[1] \o sep \o JoinBy(Tail(ps), sep)
RECURSIVE Flat(_)
Flat(gs) == IF gs = <<>> THEN <<>> ELSE Head(gs) \o Flat(Tail(gs))

\* int(text): optional blanks, optional sign, digits (underscores are not modelled); value as <<negative, magnitude>>
Digits == <<"0", "1", "2", "3", "4", "5", "6", "7", "8", "9">>
IsDigit(c) == \E k \in 1..10 : Digits[k] = c
DigitVal(c) == (CHOOSE k \in 1..10 : Digits[k] = c) - 1
AllDigits(z) == z # <<>> /\ \A k \in DOMAIN z : IsDigit(z[k])
Unsigned(x) == LET y == Strip(x) IN IF y # <<>> /\ Head(y) \in {"+", "-"} THEN Tail(y) ELSE y
IsIntText(x) == AllDigits(Unsigned(x))
RECURSIVE Magnitude(_)
Magnitude(z) == IF z = <<>> THEN 0 ELSE Magnitude(SubSeq(z, 1, Len(z) - 1)) * 10 + DigitVal(z[Len(z)])
IntVal(x) == LET m == Magnitude(Unsigned(x)) IN <<m # 0 /\ Head(Strip(x)) = "-", m>>

\* ---------------------------------------------------------------- (S) v1.py
NormalizeTag(raw) ==
   LET t == Strip(raw) IN
   IF StartsWith(t, <<"@">>) THEN Tail(t)
   ELSE IF StartsWith(t, <<"-", "@">>) \/ StartsWith(t, <<"~", "@">>) THEN <<"-">> \o SubSeq(t, 3, Len(t))
   ELSE IF StartsWith(t, <<"~">>) THEN <<"-">> \o Tail(t)
   ELSE t
\* one alternative as store_and_extract_limits sees it
AltOf(raw) ==
   LET n == NormalizeTag(raw)  segs == SplitOn(n, ":") IN
   [lit |-> segs[1], neg |-> StartsWith(n, <<"-">>), haslim |-> Len(segs) > 1, lim |-> IF Len(segs) > 1 THEN segs[2] ELSE <<>>]
\* _parse_tag_expression_v1: a string is split() into arguments, a list is taken as it is
Parts(in) == IF in.form = "list" THEN in.terms ELSE SplitWs(in.text)
V1Groups(in) ==
   LET ps == Parts(in) IN
   [i \in DOMAIN ps |-> LET as == SplitOn(Strip(ps[i]), ",") IN [j \in DOMAIN as |-> AltOf(as[j])]]
\* the limits dictionary: first alternative (in order) that fails decides the exception type
RECURSIVE LimRun(_,_,_)
LimRun(alts, i, lims) ==
   IF i > Len(alts) THEN ""
   ELSE LET a == alts[i] IN
        IF ~a.haslim THEN LimRun(alts, i + 1, lims)
        ELSE IF ~IsIntText(a.lim) THEN "ValueError"
        ELSE LET key == IF a.neg THEN Tail(a.lit) ELSE a.lit
                 v   == IntVal(a.lim)
             IN IF \E p \in lims : p[1] = key /\ p[2] # v THEN "Exception"
                ELSE LimRun(alts, i + 1, lims \cup {<<key, v>>})
V1Parse(in) ==
   LET gs == V1Groups(in) IN
   [exc  |-> LimRun(Flat(gs), 1, {}),
    ands |-> [i \in DOMAIN gs |-> [j \in DOMAIN gs[i] |-> gs[i][j].lit]]]
\* check(): test_tag looks at '-' only ('~' has been normalised away, or it has not)
V1Test(x, tags) == IF x # <<>> /\ Head(x) = "-" THEN Tail(x) \notin tags ELSE x \in tags
V1Check(ands, tags) == ands = <<>> \/ \A i \in DOMAIN ands : \E j \in DOMAIN ands[i] : V1Test(ands[i][j], tags)

\* ---------------------------------------------------------------- (S) builder._select_tag_expression_parser4auto
RECURSIVE ReplParens(_)
ReplParens(s) == IF s = <<>> THEN <<>>
                 ELSE (IF Head(s) \in {"(", ")"} THEN <<" ", Head(s), " ">> ELSE <<Head(s)>>) \o ReplParens(Tail(s))
AutoText(in) == IF in.form = "list" THEN JoinBy(in.terms, <<" ">>) ELSE in.text
Words(in) == SplitWs(ReplParens(AutoText(in)))
IsNegPrefix(c) == c \in {"~", "-"}
AutoDetect(in) ==
   LET ws   == Words(in)
       \* contains_v1_prefixes: over word_parts = the comma-separated pieces of the words (a piece may be empty)
       pref == \E k \in DOMAIN ws : LET ps == SplitOn(ws[k], ",") IN
                                     \E j \in DOMAIN ps : ps[j] # <<>> /\ IsNegPrefix(Head(ps[j]))
       v1kw == pref \/ \E k \in DOMAIN ws : Contains(ws[k], ",")                               \* contains_v1_keywords
       v2kw == \E k \in DOMAIN ws : Keyword(ws[k]) # "operand" \/ HasMagic(ws[k])              \* contains_v2_keywords
   IN IF pref /\ v2kw THEN "error"
      ELSE IF v2kw THEN "v2"
      ELSE IF v1kw \/ Len(ws) > 1 THEN "v1"
      ELSE "v2"

\* ---------------------------------------------------------------- (S) make_tag_expression(x, protocol) + check on every subset
Failed(e) == [exc |-> e, tee |-> e = "TagExpressionError", tt |-> <<>>]
V1Run(in, SS) == LET p == V1Parse(in) IN
                 IF p.exc # "" THEN Failed(p.exc)
                 ELSE [exc |-> "", tee |-> FALSE, tt |-> [k \in DOMAIN SS |-> V1Check(p.ands, SS[k])]]
V2Parsed(in) == IF in.form = "list" THEN ParseList(in.terms) ELSE ParseText(in.text)
V2Run(in, SS) == LET p == V2Parsed(in) IN
                 IF ~p.ok THEN Failed("TagExpressionError")
                 ELSE [exc |-> "", tee |-> FALSE, tt |-> TruthTable(p.tree, SS)]
AutoRun(in, SS) == LET sel == AutoDetect(in) IN
                   IF sel = "error" THEN Failed("TagExpressionError")
                   ELSE IF sel = "v1" THEN V1Run(in, SS) ELSE V2Run(in, SS)

\* ---------------------------------------------------------------- (S) Configuration.setup_tag_expression: histories in one process
\* The process-wide TagExpressionProtocol._current is the only state shared by the constructions of a process:
\* every construction first selects its own protocol (TagExpressionProtocol.use(self.tag_expression_protocol),
\* unconditionally) and then builds its expression with make_tag_expression(tags), which reads that global.
\* c = [proto |-> "v1"|"v2"|"strict"|"auto_detect"|"default", in |-> input];  h = [cur, cons, results]
Eff(proto) == CASE proto = "v1" -> "v1" [] proto \in {"v2", "strict"} -> "v2" [] OTHER -> "auto"    \* STRICT = V2, DEFAULT = AUTO_DETECT
RunAs(cur, in, SS) == CASE cur = "v1" -> V1Run(in, SS) [] cur = "v2" -> V2Run(in, SS) [] OTHER -> AutoRun(in, SS)
HistInit == [cur |-> "auto", cons |-> <<>>, results |-> <<>>]
HistStep(h, c, SS) == LET cur2 == Eff(c.proto) IN                                   \* use(): overwrites the global
                      [cur |-> cur2, cons |-> Append(h.cons, c),
                       results |-> Append(h.results, RunAs(cur2, c.in, SS))]         \* make_tag_expression(tags): reads it

\* ---------------------------------------------------------------- (P) the documented old-style grammar
\* a tag name of the v1 universe: no v2 keyword, no wildcard character, none of the v1/v2 syntax characters
NameOk(n) == /\ n # <<>>
             /\ ~IsNegPrefix(Head(n))
             /\ \A k \in DOMAIN n : n[k] \notin {" ", "\t", "\n", ",", ":", "@", "(", ")", "*", "?", "[", "\\"}
             /\ Keyword(n) = "operand"
ReadAlt(a) ==
   LET neg  == a # <<>> /\ IsNegPrefix(Head(a))
       r1   == IF neg THEN Tail(a) ELSE a
       r2   == IF r1 # <<>> /\ Head(r1) = "@" THEN Tail(r1) ELSE r1
       segs == SplitOn(r2, ":")
   IN [ok   |-> Len(segs) <= 2 /\ NameOk(segs[1]) /\ (Len(segs) = 2 => AllDigits(segs[2])),
       neg  |-> neg, name |-> segs[1], lim |-> IF Len(segs) >= 2 THEN segs[2] ELSE <<>>]
ReadGroups(in) ==
   LET ps == Parts(in) IN
   \* inside ONE argument of an argument list, blanks around the commas and at its ends do not count
   \* (in a string, blanks separate the arguments)
   [i \in DOMAIN ps |-> LET as == SplitOn(ps[i], ",") IN
                         [j \in DOMAIN as |-> ReadAlt(IF in.form = "list" THEN Strip(as[j]) ELSE as[j])]]
OnlyBlanks(in) == ~Contains(AutoText(in), "\t") /\ ~Contains(AutoText(in), "\n")
IsPureV1(in) ==
   LET gs == ReadGroups(in)  all == Flat(gs) IN
   /\ gs # <<>>
   /\ OnlyBlanks(in)
   /\ \A k \in DOMAIN all : all[k].ok
   /\ \A k, l \in DOMAIN all : (all[k].name = all[l].name /\ all[k].lim # <<>> /\ all[l].lim # <<>>) => all[k].lim = all[l].lim
CnfOf(in) == LET gs == ReadGroups(in) IN
             [i \in DOMAIN gs |-> [j \in DOMAIN gs[i] |-> [neg |-> gs[i][j].neg, name |-> gs[i][j].name]]]
\* a CNF formula: sequence (AND) of groups; group: sequence (OR) of literals [neg, name]; its meaning is that of the v2 tree
LitTree(l) == IF l.neg THEN Not(Lit(l.name)) ELSE Lit(l.name)
RECURSIVE OrTree(_,_)
OrTree(g, j) == IF j = 1 THEN LitTree(g[1]) ELSE Bin("or", OrTree(g, j - 1), LitTree(g[j]))
RECURSIVE AndTree(_,_)
AndTree(f, i) == IF i = 1 THEN OrTree(f[1], Len(f[1])) ELSE Bin("and", AndTree(f, i - 1), OrTree(f[i], Len(f[i])))
CnfTree(f) == AndTree(f, Len(f))
CnfTT(f, SS) == TruthTable(CnfTree(f), SS)

\* ---------------------------------------------------------------- (P) pure new-style, mixed
RECURSIVE OperandsOf(_)
OperandsOf(t) == CASE t.op = "lit"  -> {t.name}
                   [] t.op = "true" -> {}
                   [] t.op = "not"  -> OperandsOf(t.kids[1])
                   [] OTHER         -> OperandsOf(t.kids[1]) \cup OperandsOf(t.kids[2])
\* an operand that no word-by-word reader would take for v1 syntax: no comma, no ':limit', and no negation prefix
\* at its start or after an (escaped) blank or parenthesis inside it
V2NameOk(n) == /\ n # <<>>
               /\ \A k \in DOMAIN n : n[k] \notin {",", ":", "\t", "\n"}
               /\ LET ws == SplitWs(ReplParens(n)) IN \A k \in DOMAIN ws : ~IsNegPrefix(Head(ws[k]))
IsPureV2(in) == LET p == V2Parsed(in) IN
                /\ OnlyBlanks(in)
                /\ ~Contains(AutoText(in), ",") /\ ~Contains(AutoText(in), ":")   \* (implied by the last conjunct; cheap first)
                /\ p.ok /\ p.tree.op # "true"
                /\ \A n \in OperandsOf(p.tree) : V2NameOk(n)
\* mixed: a word (blanks and parentheses separate words) is and/or/not, and some comma-separated piece of a
\* word is a negated old-style alternative
IsMixed(in) == LET ws == Words(in) IN
               /\ \E k \in DOMAIN ws : Keyword(ws[k]) \in {"and", "or", "not"}
               /\ \E k \in DOMAIN ws : LET as == SplitOn(ws[k], ",") IN
                                       \E j \in DOMAIN as : ReadAlt(as[j]).ok /\ ReadAlt(as[j]).neg

\* ---------------------------------------------------------------- named exceptions (known misreads, each as narrow as the defect)
\* 2: the whole expression is one positive tag with a ':limit' suffix (a:3): one word, no comma, no prefix
KF_C08_2(in) == LET ws == Words(in) IN
                Len(ws) = 1 /\ ~Contains(ws[1], ",") /\ ~IsNegPrefix(Head(ws[1])) /\ Contains(ws[1], ":")
\* 3: a v2 text without any operator or parenthesis written in it (one operand; a list of single operands)
\*    with an escaped blank inside an operand (a\ b)
KF_C08_3(in) == LET p == V2Parsed(in)  ws == Words(in) IN
                /\ p.ok /\ \E n \in OperandsOf(p.tree) : Contains(n, " ")
                /\ \A k \in DOMAIN ws : Keyword(ws[k]) = "operand"
=============================================================================
