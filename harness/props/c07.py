"""C07 -- tag expressions v2 mean their Boolean formula; printing preserves meaning.

(S) specs/TagExpr.tla   (P)+(MC) specs/TagExpr_MC.tla   judge: specs/TagExpr_Trace.tla
TLC enumerates every tree of the bound, proves parse(render(t)) == t for all renderings on the full truth
table, the print/parse round trip, the list form and the {config.tags} substitution law, and emits each tree's
renderings.  The driver feeds every rendering (and text-level variants) to the real make_tag_expression(),
records the complete truth table, str()/to_string() and their re-parse, and TLC judges the rows."""
import itertools
import json
import os
import random
import shutil
import tempfile

from vlib import trace

UNIVERSE = ["a", "b", "ab", "zb", "c.d", "x-y=1", "NOT-r"]     # = Univ of the TLA+ modules
SUBSETS = [[UNIVERSE[i] for i in range(len(UNIVERSE)) if (k >> i) & 1] for k in range(2 ** len(UNIVERSE))]


def chars(s):
    return list(s)


def truth_table(expr):
    return [bool(expr.check(list(s))) for s in SUBSETS]


def observe_expr(rid, text=None, terms=None):
    from behave.tag_expression import make_tag_expression, TagExpressionProtocol
    from behave.tag_expression.parser import TagExpressionError
    row = {"id": rid, "kind": "expr", "form": "text" if terms is None else "list",
           "text": chars(text or ""), "terms": [chars(t) for t in (terms or [])],
           "err": False, "tt": [], "printed": [], "printed_err": False, "printed_tt": [],
           "pretty": [], "pretty_err": False, "pretty_tt": [], "exc": "", "auto_err": False, "auto_tt": []}
    # the same input under the protocol users get by default (dialect auto-detection): a new-style expression keeps its meaning
    try:
        row["auto_tt"] = truth_table(make_tag_expression(text if terms is None else list(terms), TagExpressionProtocol.AUTO_DETECT))
    except Exception:
        row["auto_err"] = True
    try:
        e = make_tag_expression(text if terms is None else list(terms), TagExpressionProtocol.V2)
        row["tt"] = truth_table(e)
    except TagExpressionError as x:
        row["err"] = True
        row["exc"] = "TagExpressionError"
        return row
    except Exception as x:          # anything else is also "not the meaning"
        row["err"] = True
        row["exc"] = type(x).__name__
        return row
    for key, txt in (("printed", str(e)), ("pretty", e.to_string())):
        row[key] = chars(txt)
        try:
            row[key + "_tt"] = truth_table(make_tag_expression(txt, TagExpressionProtocol.V2))
        except Exception:
            row[key + "_err"] = True
    return row


def observe_placeholder(rid, pre, post, c, scratch, c_ini=None, stale=False):
    """command line --tags='<pre>{config.tags}<post>', config file tags = c (c_ini: the text written to the file when it is
    not c itself, e.g. the several-lines form of a conjunction); stale: a Configuration with the OTHER dialect (v1) was
    constructed in this process just before -- its protocol must not leak into this construction"""
    from behave.configuration import Configuration
    from behave.tag_expression import TagExpressionProtocol
    row = {"id": rid, "kind": "ph", "pre": chars(pre), "post": chars(post), "c": chars(c), "err": False, "tt": [], "exc": ""}
    cwd = os.getcwd()
    d = tempfile.mkdtemp(dir=scratch)
    try:
        if stale:
            try:
                Configuration(command_args=["--tags=a,-b"], load_config=False, tag_expression_protocol=TagExpressionProtocol.V1)
            except Exception:
                pass
        with open(os.path.join(d, "behave.ini"), "w") as fh:
            fh.write("[behave]\ntags = %s\ntag_expression_protocol = v2\n" % (c if c_ini is None else c_ini))
        os.chdir(d)
        try:
            config = Configuration(command_args=["--tags=" + pre + "{config.tags}" + post])
            row["tt"] = truth_table(config.tag_expression)
        except Exception as x:
            row["err"] = True
            row["exc"] = type(x).__name__
    finally:
        os.chdir(cwd)
        shutil.rmtree(d, ignore_errors=True)
    return row


def observe_wip(rid, text):
    """--wip --tags=<text>: the whole expression AND @wip (truth tables with the tag wip present / absent)"""
    from behave.configuration import Configuration
    row = {"id": rid, "kind": "wip", "text": chars(text), "err": False, "tt": [], "tt0": [], "exc": ""}
    try:
        config = Configuration(command_args=["--wip", "--tags=" + text], load_config=False)
        e = config.tag_expression
        row["tt"] = [bool(e.check(list(s) + ["wip"])) for s in SUBSETS]
        row["tt0"] = [bool(e.check(list(s))) for s in SUBSETS]
    except Exception as x:
        row["err"] = True
        row["exc"] = type(x).__name__
    return row


def variants(case, rnd, tier):
    """text-level renderings derived from the ones TLC produced"""
    mn, full, at = "".join(case["min"]), "".join(case["full"]), "".join(case["at"])
    out = [("text", mn), ("text", full), ("text", at)]
    out.append(("text", " " + full.replace(" ", "  ") + "  "))              # double blanks, padding
    out.append(("text", "(" + mn + ")"))                                    # redundant outer parentheses
    out.append(("text", mn.replace("(", "( ").replace(")", " )")))          # blanks inside parentheses
    out.append(("list", [mn]))
    out.append(("list", [full, "@" + "a", at]))                             # a term list: conjunction
    out.append(("list", [mn, "a*"]))                                        # plain wildcard / literal terms next to the rendering
    # ... and, in the same process, the TEXT that joins the very same terms with " and " (no parentheses): another formula
    # whenever a term has a top-level `or`; neither parse may decide the other (list first here, text first below)
    out.append(("text", mn + " and a*"))
    out.append(("text", "@?b and " + mn + " and zb"))
    out.append(("list", ["@?b", mn, "zb"]))
    leafy = "".join(case["leafy"])
    out.append(("text", leafy))                                             # every operand in its own parentheses
    out.append(("list", [leafy, "(b) or (?b)"]))                            # terms that start with "(" and end with ")" without being one group
    return out


def run(chk):
    from behave.tag_expression import TagExpressionProtocol
    rnd = random.Random(chk.seed)
    cases = []
    # quick: depth <= 2 over the small operand pool + depth <= 1 over the full pool (character classes, dots, '=', '-')
    for cfg in (("TagExpr_MC_quick.cfg", "TagExpr_MC_quick2.cfg") if chk.quick() else ("TagExpr_MC_mid.cfg",)):
        r = chk.tlc("TagExpr_MC", cfg, timeout=3000)
        for name in r.violated:
            chk.violation("C07.design." + name, "design:%s" % name, "TLC: invariant %s violated in TagExpr_MC (%s)" % (name, cfg))
        cases += [json.loads(t[1]) for t in r.by_tag("CASE")]
    chk.exhaustive = True
    rows = []
    meta = {}
    rid = 0
    for case in cases:
        for form, v in variants(case, rnd, chk.tier):
            rid += 1
            rows.append(observe_expr(rid, v) if form == "text" else observe_expr(rid, terms=v))
            meta[rid] = {"form": form, "input": v, "tree_min": "".join(case["min"])}
            # spec prediction vs observation (informational full conformance): the truth table TLC predicted for the tree
            if (form == "text" or len(v) == 1) and rows[-1]["tt"] != case["tt"]:
                chk.divergences += 1
    # empty / blank expressions
    for txt in ("", " ", "   "):
        rid += 1
        rows.append(observe_expr(rid, txt)); meta[rid] = {"form": "text", "input": txt}
    rid += 1
    rows.append(observe_expr(rid, terms=[])); meta[rid] = {"form": "list", "input": []}
    # placeholder substitution through Configuration
    scratch = tempfile.mkdtemp(prefix="verif-c07-")
    try:
        sample = cases if not chk.quick() else rnd.sample(cases, min(len(cases), 120))
        ctxs = [("", " and (b or ?b)"), ("not ", ""), ("(a or zb) or ", ""), ("not ", " and not a"), ("", ""),
                # the placeholder several times in one term (distributed forms)
                ("({config.tags} and a) or (", " and b) or ({config.tags} and zb)"),
                ("", " and ({config.tags} or a) and not (not {config.tags})"),
                ("not ({config.tags} and a) or ", " or {config.tags} or ({config.tags} and b)")]
        for case in sample[: (120 if chk.quick() else 1500)]:
            pre, post = ctxs[rid % len(ctxs)]
            for c in ("".join(case["min"]), "".join(case["at"])):
                rid += 1
                rows.append(observe_placeholder(rid, pre, post, c, scratch, stale=rid % 3 == 0))
                meta[rid] = {"form": "placeholder", "input": pre + "{config.tags}" + post, "config_tags": c, "stale_v1_configuration_before": rid % 3 == 0}
            # configured tags in several-lines form (a conjunction of the lines)
            mn = "".join(case["min"])
            rid += 1
            rows.append(observe_placeholder(rid, pre, post, "(%s) and (@zb)" % mn, scratch, c_ini="%s\n    @zb" % mn, stale=rid % 2 == 0))
            meta[rid] = {"form": "placeholder", "input": pre + "{config.tags}" + post, "config_tags": [mn, "@zb"], "stale_v1_configuration_before": rid % 2 == 0}
    finally:
        shutil.rmtree(scratch, ignore_errors=True)
    # --wip together with an expression
    for case in (cases if not chk.quick() else rnd.sample(cases, min(len(cases), 200))):
        for txt in ("".join(case["min"]), "".join(case["at"])):
            rid += 1
            rows.append(observe_wip(rid, txt)); meta[rid] = {"form": "wip", "input": "--wip --tags=" + txt}
    TagExpressionProtocol.use(TagExpressionProtocol.DEFAULT)
    verdicts = trace.judge_rows(chk, "TagExpr_Trace", rows, chunks=16)
    chk.impl_traces = len(rows)
    chk.evaluations = len(rows) * len(SUBSETS)
    byid = {row["id"]: row for row in rows}
    for i, vs in sorted(verdicts.items()):
        for v in vs:
            m = meta[i]
            sig = "%s|form=%s" % (v[2], m["form"])
            chk.violation(v[2], sig, "input=%s observed %s" % (json.dumps(m["input"]), json.dumps({k: ("".join(x) if k in ("printed", "pretty") else x)
                                                                  for k, x in byid[i].items() if k in ("err", "exc", "printed", "pretty")})),
                          {"row": byid[i], "meta": m})
    for row in rows[:2] + rows[-1:]:
        chk.sample({"input": meta[row["id"]], "observed_truth_table_true_count": sum(1 for x in row["tt"] if x),
                    "printed": "".join(row.get("printed", []))})
    chk.rule = ("trees over the operand pool up to MaxDepth (TLC, exhaustive) x 8 text renderings each; every row carries the "
                "complete truth table over 2^6 tag subsets; distinct = distinct input texts")
    chk.extra["distinct_nontrivial"] = len({json.dumps(m["input"]) for m in meta.values()})
    chk.extra["trees"] = len(cases)
    chk.assumptions = ["cucumber_tag_expressions tokenizer/parser is part of the observed behaviour (third party, not a mutation target)",
                       "only blanks are used as whitespace in renderings (the third-party tokenizer turns a TAB into an operand)"]


def replay(chk, payload):
    row = payload["replay"]["row"]
    m = payload["replay"]["meta"]
    if m["form"] == "placeholder":
        scratch = tempfile.mkdtemp(prefix="verif-c07-")
        try:
            # (the recorded row holds the two parts; they may contain further placeholders)
            pre, post = "".join(row["pre"]), "".join(row["post"])
            c = m["config_tags"]
            new = observe_placeholder(1, pre, post, c if not isinstance(c, list) else "(%s) and (%s)" % tuple(c), scratch,
                                      c_ini=None if not isinstance(c, list) else "%s\n    %s" % tuple(c))
        finally:
            shutil.rmtree(scratch, ignore_errors=True)
    elif m["form"] == "list":
        new = observe_expr(1, terms=m["input"])
    elif m["form"] == "wip":
        new = observe_wip(1, m["input"][len("--wip --tags="):])
    else:
        new = observe_expr(1, m["input"])
    verdicts = trace.judge_rows(chk, "TagExpr_Trace", [new], chunks=1)
    chk.impl_traces = 1
    for vs in verdicts.values():
        for v in vs:
            chk.violation(v[2], "%s|form=%s" % (v[2], m["form"]), "replayed input=%s" % json.dumps(m["input"]), {"row": new, "meta": m})
    chk.sample({"replayed": m})
