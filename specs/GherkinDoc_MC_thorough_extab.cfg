INIT Init
NEXT Next
CONSTANTS
  MaxRules = 1
  MaxScen = 3
  MaxEx = 2
  MaxSteps = 2
  MaxStmts = 8
  MaxStepsTot = 14
  MaxLines = 95
  MaxElems = 7
  LayoutsF = {"none"}
  Layouts = {"none"}
  Hows = {"none"}
  Descs = {0}
  StepKws = {"given", "and"}
  Args <- ArgsTab
  ExVariants = {"none", "2x2", "1x3"}
  Gaps = {"none"}
INVARIANT Faithful
INVARIANT Neutral
INVARIANT Emit
