"""C03 -- status roll-up.  (a) algebra on exhaustive child-status tuples (props/c03_algebra.py, Status.tla);
(b) roll-up of every container in real runs, decided on the shared run stage (clauses C03.* of Props_Run.tla)."""
from props import runprops


def run(chk):
    runprops.apply_shared(chk, ["C03."])
    try:
        from props import c03_algebra
    except ImportError:
        c03_algebra = None
        chk.note("algebra part (props/c03_algebra.py) not present")
    if c03_algebra is not None:
        c03_algebra.run_algebra(chk)


def replay(chk, payload):
    rp = payload.get("replay") or {}
    if "prog" in rp:
        runprops.replay_case(chk, payload, ["C03."])
    else:
        from props import c03_algebra
        c03_algebra.replay_algebra(chk, payload)
